/* The schedule hook of lltd_state_for_iface is a no-op outside the race harness. */
void lltd_verif_yield(int point) { (void)point; }
