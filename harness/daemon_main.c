/* E-daemon: the REAL Linux daemons (os/linux/daemon/linux-embedded-main.c or linux-main.c, compiled with
 * -Dmain=lltd_daemon_main), the REAL Linux port (os/linux/lltd_port.c, linux-ops.c) and the real core, run as a
 * whole: the daemon discovers the scripted interfaces, creates its own threads and serves the scripted frames.
 * Everything below the daemon is interposed here: packet sockets, ioctl, getifaddrs, recvfrom / sendto, nanosleep,
 * the monotonic clock, gethostname and (for the NetworkManager variant) the sd-bus calls it makes.
 *
 * usage: daemon <script>
 *   iface <name> <mac12> <mtu> <ipv4 hex8>
 *   frame <iface index> <hex>            delivered, in order, by that interface's recvfrom
 * output (after the daemon has returned): for every interface `%%iface i`, then its `tx i <hex>` / `sleep i <ms>` lines
 * in the order its thread produced them, then `daemon rc=<n>`. */
#define _GNU_SOURCE
#include <errno.h>
#include <ifaddrs.h>
#include <net/if.h>
#include <netinet/in.h>
#include <netpacket/packet.h>
#include <pthread.h>
#include <setjmp.h>
#include <signal.h>
#include <stdarg.h>
#include <stdint.h>
#include <stdio.h>
#include <stdlib.h>
#include <string.h>
#include <sys/ioctl.h>
#include <sys/socket.h>
#include <sys/syscall.h>
#include <time.h>
#include <unistd.h>

#define MAXIF 4
#define FD0 1000

struct frame { uint8_t *data; size_t len; };
struct vif {
    char name[16]; uint8_t mac[6]; int mtu; uint32_t ipv4_be;
    struct frame *q; size_t nq, next;
    char *out; size_t outlen, outcap;          /* transcript, touched by the serving thread only */
    int done;
    int first_done;
};
static struct vif g_if[MAXIF];
static int g_nif = 0;
static int g_fd_if[64];                         /* fake fd - FD0 -> interface index, -1 = not bound yet */
static int g_nfd = 0;
static pthread_mutex_t g_mu = PTHREAD_MUTEX_INITIALIZER;
static int g_done = 0, g_signalled = 0, g_all_done = 0;
static __thread int t_if = -1;
static jmp_buf g_exit_jmp;

static void out_add(struct vif *v, const char *s, size_t n) {
    if (v->outlen + n + 1 > v->outcap) { v->outcap = (v->outcap + n + 1) * 2; v->out = realloc(v->out, v->outcap); }
    memcpy(v->out + v->outlen, s, n); v->outlen += n; v->out[v->outlen] = 0;
}

static int fd_iface(int fd) {
    int n = __atomic_load_n(&g_nfd, __ATOMIC_ACQUIRE);
    return (fd >= FD0 && fd < FD0 + n) ? __atomic_load_n(&g_fd_if[fd - FD0], __ATOMIC_ACQUIRE) : -1;
}
static int is_fake(int fd) { return fd >= FD0 && fd < FD0 + 64; }

/* ---------------- sockets ---------------- */
int socket(int domain, int type, int protocol) {
    if (domain == AF_PACKET) {
        pthread_mutex_lock(&g_mu);
        int fd = FD0 + g_nfd; g_fd_if[g_nfd] = -1; __atomic_store_n(&g_nfd, g_nfd + 1, __ATOMIC_RELEASE);
        pthread_mutex_unlock(&g_mu);
        return fd;
    }
    return (int)syscall(SYS_socket, domain, type, protocol);
}
int bind(int fd, const struct sockaddr *addr, socklen_t len) {
    if (is_fake(fd)) {
        const struct sockaddr_ll *sll = (const struct sockaddr_ll *)addr;
        int idx = sll->sll_ifindex - 1;
        if (idx < 0 || idx >= g_nif) { errno = ENODEV; return -1; }
        __atomic_store_n(&g_fd_if[fd - FD0], idx, __ATOMIC_RELEASE);
        return 0;
    }
    return (int)syscall(SYS_bind, fd, addr, len);
}
int close(int fd) {
    if (is_fake(fd)) return 0;
    return (int)syscall(SYS_close, fd);
}
int ioctl(int fd, unsigned long req, ...) {
    va_list ap; va_start(ap, req); void *arg = va_arg(ap, void *); va_end(ap);
    if (is_fake(fd)) {
        struct ifreq *ifr = arg;
        int idx = -1;
        for (int i = 0; i < g_nif; i++) if (!strncmp(ifr->ifr_name, g_if[i].name, IFNAMSIZ)) idx = i;
        if (idx < 0) { errno = ENODEV; return -1; }
        if (req == SIOCGIFMTU) { ifr->ifr_mtu = g_if[idx].mtu; return 0; }
        if (req == SIOCGIFHWADDR) { memcpy(ifr->ifr_hwaddr.sa_data, g_if[idx].mac, 6); return 0; }
        if (req == SIOCGIFFLAGS) { ifr->ifr_flags = IFF_UP | IFF_RUNNING | IFF_BROADCAST; return 0; }
        errno = EINVAL; return -1;
    }
    return (int)syscall(SYS_ioctl, fd, req, arg);
}
unsigned int if_nametoindex(const char *name) {
    for (int i = 0; i < g_nif; i++) if (!strcmp(name, g_if[i].name)) return (unsigned)(i + 1);
    return 0;
}
int getifaddrs(struct ifaddrs **out) {
    struct ifaddrs *head = NULL, **tail = &head;
    for (int i = 0; i < g_nif; i++) {
        for (int k = 0; k < 2; k++) {
            struct ifaddrs *a = calloc(1, sizeof(*a));
            a->ifa_name = strdup(g_if[i].name);
            a->ifa_flags = IFF_UP | IFF_RUNNING | IFF_BROADCAST;
            if (k == 0) {
                struct sockaddr_ll *sll = calloc(1, sizeof(*sll));
                sll->sll_family = AF_PACKET; sll->sll_ifindex = i + 1; sll->sll_halen = 6; memcpy(sll->sll_addr, g_if[i].mac, 6);
                a->ifa_addr = (struct sockaddr *)sll;
            } else {
                struct sockaddr_in *sin = calloc(1, sizeof(*sin));
                sin->sin_family = AF_INET; sin->sin_addr.s_addr = g_if[i].ipv4_be;
                a->ifa_addr = (struct sockaddr *)sin;
            }
            *tail = a; tail = &a->ifa_next;
        }
    }
    *out = head;
    return 0;
}
void freeifaddrs(struct ifaddrs *a) {
    while (a) { struct ifaddrs *n = a->ifa_next; free(a->ifa_name); free(a->ifa_addr); free(a); a = n; }
}

ssize_t recvfrom(int fd, void *buf, size_t len, int flags, struct sockaddr *src, socklen_t *slen) {
    int idx = fd_iface(fd);
    if (idx < 0) {
        if (is_fake(fd)) { errno = EBADF; usleep(1000); return -1; }
        return (ssize_t)syscall(SYS_recvfrom, fd, buf, len, flags, src, slen);
    }
    struct vif *v = &g_if[idx];
    t_if = idx;
    /* The FIRST frames of the interfaces are delivered one after the other (interface k's only after interface k-1 has
     * finished handling its first one): the unsynchronised insertion into the core's per-interface list is a known
     * finding with its own check (schedule replay); everything after the first frame runs concurrently. */
    if (v->next >= 1 || v->nq == 0) __atomic_store_n(&v->first_done, 1, __ATOMIC_RELEASE);
    if (v->next == 0 && v->nq > 0 && idx > 0)
        while (!__atomic_load_n(&g_if[idx - 1].first_done, __ATOMIC_ACQUIRE)) usleep(200);
    if (v->next < v->nq) {
        struct frame *f = &v->q[v->next++];
        size_t n = f->len < len ? f->len : len;          /* a datagram longer than the buffer is truncated, as the kernel does */
        memcpy(buf, f->data, n);
        return (ssize_t)n;
    }
    pthread_mutex_lock(&g_mu);
    if (!v->done) { v->done = 1; g_done++; }
    if (g_done == g_nif) __atomic_store_n(&g_all_done, 1, __ATOMIC_RELEASE);   /* the main thread raises SIGTERM from its sleep() */
    pthread_mutex_unlock(&g_mu);
#ifdef DAEMON_NO_SIGNAL
    pthread_exit(NULL);       /* ThreadSanitizer build: the daemons' signal handler logs (malloc, stdio) and can deadlock the TSan runtime */
#endif
    usleep(1000);
    errno = EINTR;
    return -1;
}
ssize_t sendto(int fd, const void *buf, size_t len, int flags, const struct sockaddr *dst, socklen_t dlen) {
    int idx = fd_iface(fd);
    if (idx < 0) {
        return (ssize_t)syscall(SYS_sendto, fd, buf, len, flags, dst, dlen);
    }
    static const char d[] = "0123456789abcdef";
    char head[32]; int n = snprintf(head, sizeof(head), "tx %d ", idx);
    char *hex = malloc(len * 2 + 2);
    for (size_t i = 0; i < len; i++) { hex[2 * i] = d[((const uint8_t *)buf)[i] >> 4]; hex[2 * i + 1] = d[((const uint8_t *)buf)[i] & 15]; }
    hex[2 * len] = '\n';
    out_add(&g_if[idx], head, (size_t)n);
    out_add(&g_if[idx], hex, len * 2 + 1);
    free(hex);
    return (ssize_t)len;
}

/* ---------------- time, host ---------------- */
int nanosleep(const struct timespec *req, struct timespec *rem) {
    (void)rem;
    if (t_if >= 0) {
        char line[64]; int n = snprintf(line, sizeof(line), "sleep %d %lu\n", t_if, (unsigned long)(req->tv_sec * 1000 + req->tv_nsec / 1000000));
        out_add(&g_if[t_if], line, (size_t)n);
        return 0;
    }
    return (int)syscall(SYS_nanosleep, req, rem);
}
int clock_gettime(clockid_t id, struct timespec *ts) {
    if (id == CLOCK_MONOTONIC) { ts->tv_sec = 5; ts->tv_nsec = 0; return 0; }
    return (int)syscall(SYS_clock_gettime, id, ts);
}
int gethostname(char *name, size_t len) { snprintf(name, len, "verifhost"); return 0; }
unsigned int sleep(unsigned int s) {
    (void)s;
    /* every scripted frame has been served: deliver SIGTERM here, in the main thread's idle loop (a point where it holds no
     * lock — the daemons' handler logs, which is not async-signal-safe) */
#ifdef DAEMON_NO_SIGNAL
    if (__atomic_load_n(&g_all_done, __ATOMIC_ACQUIRE)) longjmp(g_exit_jmp, 1);     /* back to the harness: the daemon's tear-down is skipped */
#endif
    if (__atomic_load_n(&g_all_done, __ATOMIC_ACQUIRE) && !g_signalled) { g_signalled = 1; raise(SIGTERM); }
    usleep(2000);
    return 0;
}

/* ---------------- sd-bus as the NetworkManager variant uses it ---------------- */
typedef struct sd_bus sd_bus;
typedef struct sd_bus_message sd_bus_message;
typedef struct { const char *name; const char *message; int need_free; } sd_bus_error_stub;
static int g_msg_cursor = 0;
int sd_bus_default_system(sd_bus **b) { *b = (sd_bus *)&g_msg_cursor; return 0; }
sd_bus *sd_bus_unref(sd_bus *b) { (void)b; return NULL; }
void sd_bus_error_free(void *e) { (void)e; }
int sd_bus_call_method(sd_bus *b, const char *dest, const char *path, const char *iface, const char *member, void *err, sd_bus_message **reply, const char *types, ...) {
    (void)b; (void)dest; (void)path; (void)iface; (void)member; (void)err; (void)types;
    g_msg_cursor = 0; *reply = (sd_bus_message *)&g_msg_cursor; return 0;
}
int sd_bus_message_enter_container(sd_bus_message *m, char type, const char *contents) { (void)m; (void)type; (void)contents; return 1; }
int sd_bus_message_exit_container(sd_bus_message *m) { (void)m; return 1; }
sd_bus_message *sd_bus_message_unref(sd_bus_message *m) { (void)m; return NULL; }
static char g_devpath[MAXIF][32];
int sd_bus_message_read(sd_bus_message *m, const char *types, ...) {
    (void)m; (void)types;
    va_list ap; va_start(ap, types); const char **out = va_arg(ap, const char **); va_end(ap);
    if (g_msg_cursor >= g_nif) return 0;
    snprintf(g_devpath[g_msg_cursor], sizeof(g_devpath[0]), "/dev/%d", g_msg_cursor);
    *out = g_devpath[g_msg_cursor++];
    return 1;
}
int sd_bus_get_property_string(sd_bus *b, const char *dest, const char *path, const char *iface, const char *member, void *err, char **ret) {
    (void)b; (void)dest; (void)iface; (void)err;
    int n;
    if (!strcmp(member, "Hostname")) { *ret = strdup("verifhost"); return 0; }
    if (!strcmp(member, "IconName")) { *ret = strdup("computer"); return 0; }
    if (!strcmp(member, "PrettyHostname")) return -1;
    if (sscanf(path, "/dev/%d", &n) == 1 && n >= 0 && n < g_nif) {
        if (!strcmp(member, "Interface")) { *ret = strdup(g_if[n].name); return 0; }
        if (!strcmp(member, "ActiveConnection")) { char p[32]; snprintf(p, sizeof(p), "/ac/%d", n); *ret = strdup(p); return 0; }
    }
    if (sscanf(path, "/ac/%d", &n) == 1 && !strcmp(member, "Uuid")) { char p[32]; snprintf(p, sizeof(p), "uuid-%d", n); *ret = strdup(p); return 0; }
    return -1;
}
int sd_bus_get_property_trivial(sd_bus *b, const char *dest, const char *path, const char *iface, const char *member, void *err, char type, void *ptr) {
    (void)b; (void)dest; (void)path; (void)iface; (void)err; (void)type;
    if (!strcmp(member, "DeviceType")) { *(uint32_t *)ptr = 1; return 0; }
    return -1;
}
typedef union { uint8_t bytes[16]; uint64_t qwords[2]; } sd_id128_stub;
int sd_id128_get_machine(sd_id128_stub *id) { memset(id, 0x11, sizeof(*id)); return 0; }
char *sd_id128_to_string(sd_id128_stub id, char s[33]) { for (int i = 0; i < 16; i++) snprintf(s + 2 * i, 3, "%02x", id.bytes[i]); return s; }
int sd_notify(int unset, const char *state) { (void)unset; (void)state; return 0; }
int sd_journal_print_with_location(int prio, const char *file, const char *line, const char *func, const char *fmt, ...) {
    (void)prio; (void)file; (void)line; (void)func; (void)fmt; return 0;
}
int sd_journal_print(int prio, const char *fmt, ...) { (void)prio; (void)fmt; return 0; }

/* ---------------- driver ---------------- */
int lltd_daemon_main(int argc, const char *argv[]);

static int hexval(int c) { return c >= '0' && c <= '9' ? c - '0' : c >= 'a' && c <= 'f' ? c - 'a' + 10 : c >= 'A' && c <= 'F' ? c - 'A' + 10 : -1; }

int main(int argc, char **argv) {
    if (argc < 2) { fprintf(stderr, "usage: daemon <script>\n"); return 2; }
    FILE *f = fopen(argv[1], "r");
    if (!f) { perror("script"); return 2; }
    char *line = NULL; size_t cap = 0;
    while (getline(&line, &cap, f) > 0) {
        char op[16], a[64]; int consumed = 0;
        if (!strncmp(line, "%d ", 3)) memmove(line, line + 3, strlen(line + 3) + 1);   /* replay files carry the script as `%d` comment lines */
        if (sscanf(line, "%15s %63s %n", op, a, &consumed) < 2) continue;
        if (!strcmp(op, "iface") && g_nif < MAXIF) {
            struct vif *v = &g_if[g_nif]; memset(v, 0, sizeof(*v));
            char mac[32], ip[32]; int mtu;
            if (sscanf(line + consumed, "%31s %d %31s", mac, &mtu, ip) != 3) { fprintf(stderr, "bad iface line\n"); return 2; }
            snprintf(v->name, sizeof(v->name), "%s", a);
            for (int i = 0; i < 6; i++) v->mac[i] = (uint8_t)(hexval(mac[2 * i]) * 16 + hexval(mac[2 * i + 1]));
            uint8_t ipb[4]; for (int i = 0; i < 4; i++) ipb[i] = (uint8_t)(hexval(ip[2 * i]) * 16 + hexval(ip[2 * i + 1]));
            memcpy(&v->ipv4_be, ipb, 4);
            v->mtu = mtu;
            g_nif++;
        } else if (!strcmp(op, "frame")) {
            int idx = atoi(a);
            if (idx < 0 || idx >= g_nif) { fprintf(stderr, "bad frame line\n"); return 2; }
            const char *h = line + consumed; size_t n = 0;
            while (hexval(h[2 * n]) >= 0 && hexval(h[2 * n + 1]) >= 0) n++;
            struct vif *v = &g_if[idx];
            v->q = realloc(v->q, sizeof(*v->q) * (v->nq + 1));
            v->q[v->nq].data = malloc(n ? n : 1); v->q[v->nq].len = n;
            for (size_t i = 0; i < n; i++) v->q[v->nq].data[i] = (uint8_t)(hexval(h[2 * i]) * 16 + hexval(h[2 * i + 1]));
            v->nq++;
        }
    }
    fclose(f);
    const char *dargv[] = { "lltd", NULL };
    int rc = 0;
    if (setjmp(g_exit_jmp) == 0) rc = lltd_daemon_main(1, dargv);
    for (int i = 0; i < g_nif; i++) {
        printf("%%%%iface %d\n", i);
        if (g_if[i].out) fputs(g_if[i].out, stdout);
        printf("served %d %zu/%zu\n", i, g_if[i].next, g_if[i].nq);
    }
    printf("daemon rc=%d\n", rc);
    return 0;
}
