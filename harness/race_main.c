/* E-race: two threads, each serving its own interface context, see their FIRST frame "at the same moment".
 * The hook in lltd_state_for_iface (guard D3VI1_LLTDRESPONDER_VERIF) is used to replay a chosen schedule of
 * the two segments each thread has there:
 *   segment 1: lookup (miss), allocate, memset, `st->next = g_iface_states`
 *   segment 2: `g_iface_states = st`, then the rest of parseFrame
 * usage: race <schedule>   e.g. AABB, ABAB, ABBA, BAAB, BABA, BBAA
 * Afterwards each interface is probed sequentially: a Discover from a stranger must be refused (the mapper
 * installed by the first frame is still active) — if it is answered, that interface's state was lost. */
#include <pthread.h>
#include <stdio.h>
#include <stdlib.h>
#include <string.h>

#include "lltdBlock.h"
#include "lltdPort.h"
#include "vport.h"

static const char *g_sched;           /* sequence of 'A'/'B', 4 letters */
static int g_pos = 0;
static pthread_mutex_t g_mu = PTHREAD_MUTEX_INITIALIZER;
static pthread_cond_t g_cv = PTHREAD_COND_INITIALIZER;
static __thread char t_name = 0;      /* 'A' / 'B' for the two racing threads, 0 otherwise */
static __thread int t_seg = 0;        /* segments of the first call completed by this thread */
static __thread int t_first_done = 0;

static void wait_turn(void) {
    pthread_mutex_lock(&g_mu);
    while (g_sched[g_pos] != t_name) pthread_cond_wait(&g_cv, &g_mu);
    pthread_mutex_unlock(&g_mu);
}
static void end_turn(void) {
    pthread_mutex_lock(&g_mu);
    g_pos++;
    pthread_cond_broadcast(&g_cv);
    pthread_mutex_unlock(&g_mu);
}

static int g_free = 0;                /* "FREE": no schedule, threads released together by a barrier (TSan run) */
static pthread_barrier_t g_bar;

void lltd_verif_yield(int point) {
    if (g_free) return;
    if (!t_name || t_first_done) return;
    if (point == 0) { wait_turn(); t_seg = 1; }                 /* start of segment 1 */
    else if (point == 1) { end_turn(); wait_turn(); t_seg = 2; } /* end of segment 1, start of segment 2 */
}

static void mk_discover(uint8_t *f, const uint8_t *mapper, uint16_t gen) {
    memset(f, 0, 64);
    memset(f, 0xff, 6); memcpy(f + 6, mapper, 6); f[12] = 0x88; f[13] = 0xD9; f[14] = 1; f[15] = 0; f[17] = 0;
    memset(f + 18, 0xff, 6); memcpy(f + 24, mapper, 6); f[31] = 1; f[32] = gen >> 8; f[33] = gen & 255;
}

struct targ { char name; vp_iface *it; const uint8_t *mapper; };

/* "STDY": steady state.  Both per-interface records already exist (created by the main thread before the
 * workers start); each worker then serves its own interface with a full session: Probes from distinct
 * sources, Emit, Query, QueryLargeTlv, Discover with a new generation, Reset, several rounds.  Built with
 * -DVP_TL=__thread the port shares no mutable object between threads, so every ThreadSanitizer report
 * is a data race inside the core. */
static int g_steady = 0;

static void hdr(uint8_t *f, int op, const uint8_t *ed, const uint8_t *es, const uint8_t *rd, const uint8_t *rs, unsigned seq) {
    memset(f, 0, 576);
    memcpy(f, ed, 6); memcpy(f + 6, es, 6); f[12] = 0x88; f[13] = 0xD9; f[14] = 1; f[15] = 0; f[17] = (uint8_t)op;
    memcpy(f + 18, rd, 6); memcpy(f + 24, rs, 6); f[30] = (uint8_t)(seq >> 8); f[31] = (uint8_t)seq;
}

static void steady_session(struct targ *a) {
    static const uint8_t bc[6] = {255, 255, 255, 255, 255, 255};
    uint8_t *f = a->it->recvbuf;
    const uint8_t *own = a->it->mac;
    vp_out = fopen("/dev/null", "w");
    for (int round = 0; round < 4; round++) {
        for (int k = 0; k < 300; k++) {
            uint8_t src[6] = {2, 0x77, (uint8_t)a->name, (uint8_t)round, (uint8_t)(k >> 8), (uint8_t)k};
            hdr(f, (k & 1) ? 4 : 3, own, src, own, src, 0);
            parseFrame(f, a->it);
        }
        hdr(f, 2, own, a->mapper, own, a->mapper, 10 + round);           /* Emit, one descriptor */
        f[32] = 0; f[33] = 1; f[34] = 1; f[35] = 0; memcpy(f + 36, own, 6); memcpy(f + 42, a->mapper, 6);
        parseFrame(f, a->it);
        for (int q = 0; q < 3; q++) { hdr(f, 6, own, a->mapper, own, a->mapper, 20 + q); parseFrame(f, a->it); }
        hdr(f, 11, own, a->mapper, own, a->mapper, 30); f[32] = 0x13; parseFrame(f, a->it);
        hdr(f, 11, own, a->mapper, own, a->mapper, 31); f[32] = 0x0E; parseFrame(f, a->it);
        hdr(f, 0, bc, a->mapper, bc, a->mapper, 1); f[32] = 0; f[33] = (uint8_t)(6 + round); parseFrame(f, a->it);
        if (round & 1) { hdr(f, 8, bc, a->mapper, bc, a->mapper, 0); parseFrame(f, a->it); }
    }
    fclose(vp_out);
}

static void *worker(void *p) {
    struct targ *a = p;
    t_name = a->name;
    mk_discover(a->it->recvbuf, a->mapper, 5);
    if (g_steady) { pthread_barrier_wait(&g_bar); steady_session(a); return NULL; }
    if (g_free) { pthread_barrier_wait(&g_bar); parseFrame(a->it->recvbuf, a->it); return NULL; }
    parseFrame(a->it->recvbuf, a->it);
    if (t_seg == 1) { /* never reached point 1: record existed already */ end_turn(); wait_turn(); }
    t_first_done = 1;
    end_turn();
    return NULL;
}

static int tx_count = 0;
static FILE *devnull;

int main(int argc, char **argv) {
    if (argc < 2 || strlen(argv[1]) != 4) { fprintf(stderr, "usage: race <AABB|ABAB|...>\n"); return 2; }
    g_sched = argv[1];
    if (!strcmp(argv[1], "FREE")) { g_free = 1; pthread_barrier_init(&g_bar, NULL, 2); }
    if (!strcmp(argv[1], "STDY")) { g_free = 1; g_steady = 1; pthread_barrier_init(&g_bar, NULL, 2); }
    vp_out = tmpfile();
    static const uint8_t macA[6] = {2, 0xaa, 0, 0, 0, 1}, macB[6] = {2, 0xaa, 0, 0, 0, 2};
    static const uint8_t mapA[6] = {2, 0, 0, 0, 0, 0x11}, mapB[6] = {2, 0, 0, 0, 0, 0x12}, stranger[6] = {2, 0, 0, 0, 0, 0x13};
    for (int i = 0; i < 2; i++) {
        vp_iface *it = &vp_ifaces[i];
        memset(it, 0, sizeof(*it)); it->used = 1; it->index = i; it->mtu = 576;
        memcpy(it->mac, i ? macB : macA, 6);
        it->recvbuf = malloc(576);
    }
    struct targ ta = {'A', &vp_ifaces[0], mapA}, tb = {'B', &vp_ifaces[1], mapB};
    pthread_t pa, pb;
    if (g_steady) {                       /* both records exist before the threads start */
        mk_discover(vp_ifaces[0].recvbuf, mapA, 5); parseFrame(vp_ifaces[0].recvbuf, &vp_ifaces[0]);
        mk_discover(vp_ifaces[1].recvbuf, mapB, 5); parseFrame(vp_ifaces[1].recvbuf, &vp_ifaces[1]);
    }
    pthread_create(&pa, NULL, worker, &ta);
    pthread_create(&pb, NULL, worker, &tb);
    pthread_join(pa, NULL); pthread_join(pb, NULL);
    if (g_steady) { printf("sched STDY done\n"); return 0; }
    size_t live_after_first = vp_live_count();
    /* sequential probes: a stranger's Discover on each interface */
    int answered[2];
    for (int i = 0; i < 2; i++) {
        long before = ftell(vp_out);
        mk_discover(vp_ifaces[i].recvbuf, stranger, 9);
        parseFrame(vp_ifaces[i].recvbuf, &vp_ifaces[i]);
        fflush(vp_out);
        fseek(vp_out, before, SEEK_SET);
        char line[4096]; answered[i] = 0;
        while (fgets(line, sizeof(line), vp_out)) if (!strncmp(line, "tx ", 3)) answered[i] = 1;
        fseek(vp_out, 0, SEEK_END);
    }
    printf("sched %s live_after_first=%zu stranger_answered_if0=%d stranger_answered_if1=%d live_end=%zu\n",
           g_sched, live_after_first, answered[0], answered[1], vp_live_count());
    (void)tx_count; (void)devnull;
    return 0;
}
