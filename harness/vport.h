/* Verification port: implements lltdPort.h for the correspondence harness.
 * Virtual clock, allocation ledger with fault injection and poison fill,
 * recorded transmits, per-interface attribute records. */
#ifndef VERIF_VPORT_H
#define VERIF_VPORT_H

#include <stddef.h>
#include <stdint.h>
#include <stdio.h>

#define VP_MAX_IFACE 256

enum {
    GF_MTU = 1, GF_MAC = 2, GF_IFTYPE = 4, GF_IPV4 = 8, GF_IPV6 = 16, GF_SPEED = 32,
    GF_BSSID = 64, GF_RATE = 128, GF_RSSI = 256
};

typedef struct vp_iface {
    int      used;
    int      index;
    size_t   mtu;
    uint8_t  mac[6];
    uint32_t flags;
    uint32_t iftype;
    uint8_t  ipv4[4];
    uint8_t  ipv6[16];
    uint32_t speed;
    int      wifi; uint8_t mode;
    uint8_t  bssid[6];
    uint8_t  ssid[256]; size_t ssid_len; int ssid_full;
    uint16_t rate;
    int8_t   rssi;
    unsigned getfail;
    uint8_t *recvbuf;
    size_t    bufsize;        /* bytes allocated for recvbuf (= the MTU at creation; the MTU may be lowered later) */       /* malloc(mtu), like the daemons */
} vp_iface;

/* process-wide attributes (the port API has no iface argument for these) */
typedef struct vp_global {
    uint8_t *icon;  size_t icon_len;  int icon_present;   /* present=0: getter fails */
    size_t fail_size;                                      /* what a FAILING icon / name query leaves in *out_size (data pointer untouched); 0 = untouched */
    int recycle;                                           /* the allocator hands a freed block of the same size back AS ITS LAST OWNER LEFT IT (no poison fill) */
    int memcmp_wide;                                       /* lltd_port_memcmp answers with multiples of 256 */
    int send_len;                                          /* a successful transmit returns the byte count instead of 0 */
    size_t mtu_clobber;                                    /* what a FAILING MTU query leaves in its output (0 = untouched) */
    int failrc;                                            /* return code of a failing getter (0 = the default -1) */
    int empty_block;                                       /* an EMPTY icon / name is handed over as a zero-length block (non-NULL) instead of NULL */
    uint8_t *fname; size_t fname_len; int fname_present;
    uint8_t  hwid[256]; size_t hwid_len;
    uint8_t  host[256]; size_t host_len; int host_full;
} vp_global;

extern vp_iface  vp_ifaces[VP_MAX_IFACE];
extern vp_global vp_glob;
extern uint64_t  vp_clock_ms;
extern uint64_t  vp_clock_jump;
extern unsigned  vp_clock_jump_after;
extern uint8_t   vp_poison;
#ifndef VP_TL
#define VP_TL            /* -DVP_TL=__thread: every mutable object of the port becomes thread-local (steady-state TSan run) */
#endif
extern VP_TL FILE *vp_out;

void   vp_reset_faults(void);
void   vp_fail_malloc_at(unsigned long k);   /* k-th core malloc from now (1-based) */
void   vp_fail_send_at(unsigned long k);
void   vp_fail_malloc_all(int on);
void   vp_fail_send_all(int on);
size_t vp_live_count(void);
size_t vp_live_bytes(void);
size_t vp_high_bytes(void);
unsigned long vp_malloc_calls(void);
unsigned long vp_faults_fired(void);
void   vp_print_end(void);
void   vp_ledger(size_t *live, size_t *bytes);
void   vp_print_end_less(size_t dlive_plus, size_t dlive_minus, size_t dbytes_plus, size_t dbytes_minus);
extern VP_TL void (*vp_sleep_hook)(void);
void   vp_hex(FILE *f, const uint8_t *p, size_t n);
/* allocation through the ledger without consuming a fault index (port-internal) */
void  *vp_raw_alloc(size_t n);
void   vp_raw_free(void *p);
/* observe sizes of core allocations (for the extractor) */
extern VP_TL size_t vp_last_malloc_sizes[16];
extern VP_TL unsigned vp_last_malloc_n;

/* frames transmitted during the current / previous op (for `relay`) */
struct vp_txrec { int iface; uint8_t *data; size_t len; };
extern VP_TL struct vp_txrec vp_prev_tx[], vp_cur_tx[];
extern VP_TL unsigned vp_prev_tx_n, vp_cur_tx_n;
void vp_rotate_tx(void);

#endif
