/* Verification port (see vport.h).  Everything the core can observe of its
 * environment goes through here, so the Lean model's `World` mirrors this file. */
#include "vport.h"

#include <stdarg.h>
#include <stdlib.h>
#include <string.h>

#include "lltdPort.h"

vp_iface  vp_ifaces[VP_MAX_IFACE];
vp_global vp_glob;
uint64_t  vp_clock_ms = 0;
uint8_t   vp_poison = 0xA5;
VP_TL FILE *vp_out = NULL;

VP_TL size_t   vp_last_malloc_sizes[16];
VP_TL unsigned vp_last_malloc_n = 0;

/* ---------------- ledger: open-addressing table ptr -> size ---------------- */
#define LG_CAP (1u << 20)
static VP_TL struct { void *p; size_t n; } *lg_tab;
static VP_TL size_t lg_live = 0, lg_bytes = 0, lg_high = 0;

static size_t lg_slot(void *p) {
    uintptr_t x = (uintptr_t)p;
    x ^= x >> 17; x *= 0x9E3779B97F4A7C15ull; x ^= x >> 29;
    return (size_t)(x & (LG_CAP - 1));
}
static void lg_init(void) {
    if (!lg_tab) {
        lg_tab = calloc(LG_CAP, sizeof(*lg_tab));
        if (!lg_tab) { fprintf(stderr, "vport: ledger alloc failed\n"); exit(2); }
    }
}
static void lg_add(void *p, size_t n) {
    lg_init();
    if (lg_live * 2 >= LG_CAP) { fprintf(stderr, "vport: ledger full\n"); exit(2); }
    size_t i = lg_slot(p);
    while (lg_tab[i].p && lg_tab[i].p != (void *)1) i = (i + 1) & (LG_CAP - 1);
    lg_tab[i].p = p; lg_tab[i].n = n;
    lg_live++; lg_bytes += n;
    if (lg_bytes > lg_high) lg_high = lg_bytes;
}
static VP_TL size_t vp_last_freed_size = 0;     /* per thread, like the ledger (the TSan builds give every thread its own port) */
static int lg_del(void *p) {
    lg_init();
    size_t i = lg_slot(p);
    while (lg_tab[i].p) {
        if (lg_tab[i].p == p) {
            lg_bytes -= lg_tab[i].n; lg_live--; vp_last_freed_size = lg_tab[i].n;
            lg_tab[i].p = (void *)1; /* tombstone */
            return 1;
        }
        i = (i + 1) & (LG_CAP - 1);
    }
    return 0;
}
size_t vp_live_count(void) { return lg_live; }
size_t vp_live_bytes(void) { return lg_bytes; }
size_t vp_high_bytes(void) { return lg_high; }

/* ---------------- fault schedule ---------------- */
#define MAXF 64
static VP_TL unsigned long malloc_calls = 0, send_calls = 0, faults_fired = 0;
static unsigned long fail_m[MAXF]; static unsigned n_fail_m = 0; static int fail_m_all = 0;
static unsigned long fail_s[MAXF]; static unsigned n_fail_s = 0; static int fail_s_all = 0;

void vp_reset_faults(void) { n_fail_m = n_fail_s = 0; fail_m_all = fail_s_all = 0; }
void vp_fail_malloc_at(unsigned long k) { if (n_fail_m < MAXF) fail_m[n_fail_m++] = malloc_calls + k; }
void vp_fail_send_at(unsigned long k) { if (n_fail_s < MAXF) fail_s[n_fail_s++] = send_calls + k; }
void vp_fail_malloc_all(int on) { fail_m_all = on; }
void vp_fail_send_all(int on) { fail_s_all = on; }
unsigned long vp_malloc_calls(void) { return malloc_calls; }
unsigned long vp_faults_fired(void) { return faults_fired; }

static int hit(unsigned long *tab, unsigned n, unsigned long idx) {
    for (unsigned i = 0; i < n; i++) if (tab[i] == idx) return 1;
    return 0;
}

void vp_hex(FILE *f, const uint8_t *p, size_t n) {
    static const char d[] = "0123456789abcdef";
    for (size_t i = 0; i < n; i++) { fputc(d[p[i] >> 4], f); fputc(d[p[i] & 15], f); }
}

void vp_print_end(void) {
    fprintf(vp_out, "end live=%zu bytes=%zu\n", lg_live, lg_bytes);
}
void vp_ledger(size_t *live, size_t *bytes) { *live = lg_live; *bytes = lg_bytes; }
void vp_print_end_less(size_t dlive_plus, size_t dlive_minus, size_t dbytes_plus, size_t dbytes_minus) {
    fprintf(vp_out, "end live=%zu bytes=%zu\n", lg_live + dlive_minus - dlive_plus, lg_bytes + dbytes_minus - dbytes_plus);
}

/* `glob recycle=on`: freed blocks are stashed (newest first) and handed out again, content untouched, to the next request of
   the same size - what a real allocator does, made deterministic and independent of libc / ASan quarantine */
#define STASH_MAX 64
static VP_TL struct { void *p; size_t n; } stash[STASH_MAX];
static VP_TL int n_stash = 0;
void *vp_raw_alloc(size_t n) {
    if (vp_glob.recycle) {
        for (int i = n_stash - 1; i >= 0; i--) if (stash[i].n == n) {
            void *q = stash[i].p;
            for (int j = i; j + 1 < n_stash; j++) stash[j] = stash[j + 1];
            n_stash--;
            lg_add(q, n);
            return q;
        }
    }
    void *p = malloc(n ? n : 1);
    if (!p) { fprintf(stderr, "vport: out of memory\n"); exit(2); }
    memset(p, vp_poison, n ? n : 1);
    lg_add(p, n);
    return p;
}
void vp_raw_free(void *p) {
    if (!p) return;
    if (!lg_del(p)) {
        fprintf(vp_out, "abort free-of-unknown-block\n"); fflush(vp_out);
        abort();
    }
    if (vp_glob.recycle && n_stash < STASH_MAX) { stash[n_stash].p = p; stash[n_stash].n = vp_last_freed_size; n_stash++; return; }
    free(p);
}

/* ---------------- port API ---------------- */
uint64_t vp_clock_jump = 0;        /* one-shot: the clock moves on by this much right after the k-th reading from now (a clock that runs WHILE the core works) */
unsigned vp_clock_jump_after = 1;
static uint64_t read_clock(void) {
    uint64_t v = vp_clock_ms;
    if (vp_clock_jump && --vp_clock_jump_after == 0) { vp_clock_ms += vp_clock_jump; vp_clock_jump = 0; vp_clock_jump_after = 1; }
    return v;
}
uint64_t lltd_port_monotonic_milliseconds(void) { return read_clock(); }
uint64_t lltd_port_monotonic_seconds(void) { return read_clock() / 1000ULL; }

void *lltd_port_malloc(size_t size) {
    malloc_calls++;
    if (vp_last_malloc_n < 16) vp_last_malloc_sizes[vp_last_malloc_n++] = size;
    if (fail_m_all || hit(fail_m, n_fail_m, malloc_calls)) { faults_fired++; return NULL; }
    return vp_raw_alloc(size);
}
void lltd_port_free(void *ptr) { vp_raw_free(ptr); }
void *lltd_port_memset(void *ptr, int value, size_t num) { return memset(ptr, value, num); }
void *lltd_port_memcpy(void *d, const void *s, size_t n) { return memcpy(d, s, n); }
int lltd_port_memcmp(const void *a, const void *b, size_t n) {
    int r = memcmp(a, b, n);
    /* only the sign of the result is specified: a word-at-a-time implementation may answer with any magnitude (`glob memcmprep=wide`) */
    return vp_glob.memcmp_wide ? (r < 0 ? -0x10000 : r > 0 ? 0x7f00 : 0) : r;
}

VP_TL void (*vp_sleep_hook)(void) = NULL;    /* what another thread of the daemon does while this one sleeps (op `nest`) */
void lltd_port_sleep_ms(uint32_t ms) {
    fprintf(vp_out, "sleep %u\n", ms);
    if (vp_sleep_hook) vp_sleep_hook();
}

#define VP_TXMAX 1024
VP_TL struct vp_txrec vp_prev_tx[VP_TXMAX], vp_cur_tx[VP_TXMAX];
VP_TL unsigned vp_prev_tx_n = 0, vp_cur_tx_n = 0;
void vp_rotate_tx(void) {
    for (unsigned i = 0; i < vp_prev_tx_n; i++) free(vp_prev_tx[i].data);
    memcpy(vp_prev_tx, vp_cur_tx, sizeof(vp_cur_tx[0]) * vp_cur_tx_n);
    vp_prev_tx_n = vp_cur_tx_n;
    vp_cur_tx_n = 0;
}

int lltd_port_send_frame(void *iface_ctx, const void *frame, size_t frame_len) {
    vp_iface *it = (vp_iface *)iface_ctx;
    send_calls++;
    int fail = fail_s_all || hit(fail_s, n_fail_s, send_calls);
    if (fail) faults_fired++;
    if (!fail && vp_cur_tx_n < VP_TXMAX && it) {
        vp_cur_tx[vp_cur_tx_n].iface = it->index;
        vp_cur_tx[vp_cur_tx_n].len = frame_len;
        vp_cur_tx[vp_cur_tx_n].data = memcpy(malloc(frame_len ? frame_len : 1), frame, frame_len);
        vp_cur_tx_n++;
    }
    fprintf(vp_out, "%s %d ", fail ? "txfail" : "tx", it ? it->index : -1);
    vp_hex(vp_out, (const uint8_t *)frame, frame_len);
    fputc('\n', vp_out);
    return fail ? -1 : (vp_glob.send_len ? (int)frame_len : 0);    /* the contract: negative = refused; some ports answer with the byte count */
}

#define IFACE(ctx) ((vp_iface *)(ctx))

#define VP_FAILRC (vp_glob.failrc ? vp_glob.failrc : -1)   /* what a failing getter returns: -1 like the ports of the repository, or any other non-zero code */
int lltd_port_get_mtu(void *ctx, size_t *out) {
    if (!ctx || !out) return VP_FAILRC;
    if (IFACE(ctx)->getfail & GF_MTU) { if (vp_glob.mtu_clobber) *out = vp_glob.mtu_clobber; return VP_FAILRC; }   /* a failing query may have scribbled on its output */
    *out = IFACE(ctx)->mtu; return 0;
}
int lltd_port_get_icon_image(void **out_data, size_t *out_size) {
    if (!out_data || !out_size) return VP_FAILRC;
    if (!vp_glob.icon_present) { if (vp_glob.fail_size) *out_size = vp_glob.fail_size; return VP_FAILRC; }    /* size known, data not available */
    if (vp_glob.icon_len == 0) { *out_data = vp_glob.empty_block ? vp_raw_alloc(0) : NULL; *out_size = 0; return 0; }
    uint8_t *p = vp_raw_alloc(vp_glob.icon_len);
    memcpy(p, vp_glob.icon, vp_glob.icon_len);
    *out_data = p; *out_size = vp_glob.icon_len; return 0;
}
int lltd_port_get_friendly_name(void **out_data, size_t *out_size) {
    if (!out_data || !out_size) return VP_FAILRC;
    if (!vp_glob.fname_present) { if (vp_glob.fail_size) *out_size = vp_glob.fail_size; return VP_FAILRC; }
    if (vp_glob.fname_len == 0) { *out_data = vp_glob.empty_block ? vp_raw_alloc(0) : NULL; *out_size = 0; return 0; }
    uint8_t *p = vp_raw_alloc(vp_glob.fname_len);
    memcpy(p, vp_glob.fname, vp_glob.fname_len);
    *out_data = p; *out_size = vp_glob.fname_len; return 0;
}
static size_t copy_str(void *dst, size_t dst_len, const uint8_t *s, size_t n, int full) {
    if (!dst || dst_len == 0) return 0;
    size_t c = n < dst_len ? n : dst_len;
    memcpy(dst, s, c);
    return full ? n : c;
}
size_t lltd_port_get_hostname(void *dst, size_t dst_len) {
    return copy_str(dst, dst_len, vp_glob.host, vp_glob.host_len, vp_glob.host_full);
}
size_t lltd_port_get_support_url(void *dst, size_t dst_len) { (void)dst; (void)dst_len; return 0; }
int lltd_port_get_upnp_uuid(uint8_t out_uuid[16]) { (void)out_uuid; return VP_FAILRC; }
size_t lltd_port_get_hw_id(void *dst, size_t dst_len) {
    return copy_str(dst, dst_len, vp_glob.hwid, vp_glob.hwid_len, 1);
}
int lltd_port_get_mac_address(void *ctx, ethernet_address_t *out) {
    if (!ctx || !out || (IFACE(ctx)->getfail & GF_MAC)) return VP_FAILRC;
    memcpy(out->a, IFACE(ctx)->mac, 6); return 0;
}
uint32_t lltd_port_get_characteristics_flags(void *ctx) { return ctx ? IFACE(ctx)->flags : 0; }
int lltd_port_get_if_type(void *ctx, uint32_t *out) {
    if (!ctx || !out || (IFACE(ctx)->getfail & GF_IFTYPE)) return VP_FAILRC;
    *out = IFACE(ctx)->iftype; return 0;
}
int lltd_port_get_ipv4_address(void *ctx, uint32_t *out) {
    if (!ctx || !out || (IFACE(ctx)->getfail & GF_IPV4)) return VP_FAILRC;
    memcpy(out, IFACE(ctx)->ipv4, 4); return 0;
}
int lltd_port_get_ipv6_address(void *ctx, uint8_t out[16]) {
    if (!ctx || !out || (IFACE(ctx)->getfail & GF_IPV6)) return VP_FAILRC;
    memcpy(out, IFACE(ctx)->ipv6, 16); return 0;
}
int lltd_port_get_link_speed_100bps(void *ctx, uint32_t *out) {
    if (!ctx || !out || (IFACE(ctx)->getfail & GF_SPEED)) return VP_FAILRC;
    *out = IFACE(ctx)->speed; return 0;
}
int lltd_port_get_wifi_mode(void *ctx, uint8_t *out) {
    if (!ctx || !out || !IFACE(ctx)->wifi) return VP_FAILRC;
    *out = IFACE(ctx)->mode; return 0;
}
int lltd_port_get_bssid(void *ctx, uint8_t out[6]) {
    if (!ctx || !out || (IFACE(ctx)->getfail & GF_BSSID)) return VP_FAILRC;
    memcpy(out, IFACE(ctx)->bssid, 6); return 0;
}
size_t lltd_port_get_ssid(void *ctx, void *dst, size_t dst_len) {
    if (!ctx) return 0;
    return copy_str(dst, dst_len, IFACE(ctx)->ssid, IFACE(ctx)->ssid_len, IFACE(ctx)->ssid_full);
}
int lltd_port_get_wifi_max_rate_0_5mbps(void *ctx, uint16_t *out) {
    if (!ctx || !out || (IFACE(ctx)->getfail & GF_RATE)) return VP_FAILRC;
    *out = IFACE(ctx)->rate; return 0;
}
int lltd_port_get_wifi_rssi_dbm(void *ctx, int8_t *out) {
    if (!ctx || !out || (IFACE(ctx)->getfail & GF_RSSI)) return VP_FAILRC;
    *out = IFACE(ctx)->rssi; return 0;
}
int lltd_port_get_wifi_phy_medium(void *ctx, uint32_t *out) { (void)ctx; if (out) *out = 0; return VP_FAILRC; }

static VP_TL unsigned long log_calls = 0;
/* the log lines are FORMATTED (into a scratch buffer that is thrown away), as every port of the repository does: a format that
 * does not match its arguments is undefined behaviour of the frame handler, and the sanitizers can only see it if it happens */
static void vp_format_log(const char *fmt, va_list ap) {
    char line[2048];
    if (fmt) (void)vsnprintf(line, sizeof(line), fmt, ap);
    log_calls++;
}
void lltd_port_log_debug(const char *fmt, ...) { va_list ap; va_start(ap, fmt); vp_format_log(fmt, ap); va_end(ap); }
void lltd_port_log_warning(const char *fmt, ...) { va_list ap; va_start(ap, fmt); vp_format_log(fmt, ap); va_end(ap); }
