#!/bin/bash
# Build the daemon-level harness from the working tree of $REPO.
# usage: build_daemon.sh <outdir> <embedded|nm> <plain|asan|tsan>
set -u
OUT="$1"; WHICH="$2"; VARIANT="${3:-plain}"
REPO="${VERIF_REPO:-/repo}"
HERE="$(cd "$(dirname "$0")" && pwd)"
mkdir -p "$OUT"
CORE="$REPO/lltdResponder"
case "$WHICH" in
  embedded) MAIN="$REPO/os/linux/daemon/linux-embedded-main.c"; DEFS="-DLLTD_BACKEND_EMBEDDED -DLLTD_USE_CONSOLE" ;;
  nm)       MAIN="$REPO/os/linux/daemon/linux-main.c"; DEFS="-DLLTD_BACKEND_SYSTEMD -DLLTD_USE_SYSTEMD" ;;
  *) echo "unknown daemon $WHICH" >&2; exit 2 ;;
esac
case "$VARIANT" in
  plain) FLAGS="-O1" ;;
  asan)  FLAGS="-O1 -fsanitize=address,undefined -fno-sanitize-recover=all -fno-omit-frame-pointer" ;;
  tsan)  FLAGS="-O1 -fsanitize=thread -DDAEMON_NO_SIGNAL" ;;
  *) echo "unknown variant $VARIANT" >&2; exit 2 ;;
esac
BIN="$OUT/daemon_${WHICH}_$VARIANT"
LOG="$OUT/build_daemon_${WHICH}_$VARIANT.log"
rm -f "$BIN"
# the daemon's main() is renamed (-Dmain=lltd_daemon_main); the harness's own main drives it
OBJ="$OUT/obj_${WHICH}_$VARIANT"; rm -rf "$OBJ"; mkdir -p "$OBJ"
ok=1
gcc -std=gnu11 -g -w -D_GNU_SOURCE -D LINUX $DEFS $FLAGS -I"$CORE" -I"$REPO/os/linux" -Dmain=lltd_daemon_main -c "$MAIN" -o "$OBJ/daemon.o" >>"$LOG" 2>&1 || ok=0
for f in "$REPO/os/linux/daemon/linux-ops.c" "$REPO/os/linux/lltd_port.c" "$CORE/lltdBlock.c" "$CORE/lltdTlvOps.c" "$CORE/lltdWire.c" "$CORE/lltdAutomata.c"; do
  gcc -std=gnu11 -g -w -D_GNU_SOURCE -D LINUX $DEFS $FLAGS -I"$CORE" -I"$REPO/os/linux" -c "$f" -o "$OBJ/$(basename "$f" .c).o" >>"$LOG" 2>&1 || ok=0
done
gcc -std=gnu11 -g -w -D_GNU_SOURCE $FLAGS -c "$HERE/daemon_main.c" -o "$OBJ/harness.o" >>"$LOG" 2>&1 || ok=0
if [ $ok = 1 ] && gcc $FLAGS "$OBJ"/*.o -lpthread -o "$BIN" >>"$LOG" 2>&1; then echo "$BIN"; else echo "BUILD-FAILED (see $LOG)" >&2; exit 1; fi
