#!/bin/bash
# Build the correspondence harness from the working tree of $REPO (default /repo).
# usage: build.sh <outdir> <variant>     variant: plain | san | tsan
# Always recompiles the core translation units: checks must reflect /repo as it is now.
set -u
OUT="$1"; VARIANT="${2:-plain}"
REPO="${VERIF_REPO:-/repo}"
HERE="$(cd "$(dirname "$0")" && pwd)"
mkdir -p "$OUT"
CORE="$REPO/lltdResponder"
CC="${CC:-gcc}"
COMMON="-std=gnu11 -g -D_GNU_SOURCE -DD3VI1_LLTDRESPONDER_VERIF -I$CORE -I$HERE -I$REPO/os/esp32/daemon -w"
case "$VARIANT" in
  plain) FLAGS="-O1" ;;
  san)   FLAGS="-O1 -fsanitize=address,undefined -fno-sanitize-recover=all -fno-omit-frame-pointer" ;;
  tsan)  FLAGS="-O1 -fsanitize=thread" ;;
  uchar) FLAGS="-O1 -funsigned-char" ;;
  m32)   # ILP32 (i386): no 32-bit C library in this sandbox, so the harness is linked against harness/mini32 (freestanding run-time);
         # the kernel runs the binary natively - the core is EXECUTED with 32-bit size_t, long and pointers
         FLAGS="-m32 -O1 -ffreestanding -nostdlib -static -nostdinc -fno-stack-protector -fno-pic -no-pie -I$HERE/mini32/include -I$(gcc -print-file-name=include)" ;;          # the ABI of ARM / AArch64 / PowerPC / RISC-V / Xtensa: plain char is unsigned
  *) echo "unknown variant $VARIANT" >&2; exit 2 ;;
esac
LOG="$OUT/build.log"; : > "$LOG"
# Which signature does derive_session_event have? (compile probe, so that the harness builds against either)
SIG=""
cat > "$OUT/sigprobe.c" <<'EOF'
#include "lltdAutomata.h"
int f(const void *p, session_table *t, const uint8_t *m) { return derive_session_event(p, (size_t)0, t, m); }
EOF
if ! $CC $COMMON -c "$OUT/sigprobe.c" -o "$OUT/sigprobe.o" >>"$LOG" 2>&1; then SIG="-DDSE_OLD_SIG"; fi
rm -f "$OUT/sigprobe.c" "$OUT/sigprobe.o"
# Is the state-view hook present? (the harness prints `st` lines only then; the check drops them from the model side otherwise)
SV=""
if grep -q "lltd_verif_state_view" "$CORE/lltdBlock.c" 2>/dev/null; then SV="-DHAVE_STATE_VIEW"; echo "state-view=yes" >>"$LOG"; else echo "state-view=no" >>"$LOG"; fi
ESP=""
ESPSRC=""
if [ -f "$REPO/os/esp32/daemon/lltd_esp32.c" ]; then ESP="-DWITH_ESP32"; ESPSRC="$REPO/os/esp32/daemon/lltd_esp32.c"; fi
BIN="$OUT/harness_$VARIANT"
rm -f "$BIN"
if ! $CC $COMMON $FLAGS $SIG $SV $ESP \
    "$CORE/lltdBlock.c" "$CORE/lltdTlvOps.c" "$CORE/lltdWire.c" "$CORE/lltdAutomata.c" $ESPSRC \
    "$HERE/vport.c" "$HERE/main.c" "$HERE/yield_stub.c" $( [ "$VARIANT" = m32 ] && echo "$HERE/mini32/mini32.c" ) -o "$BIN" >>"$LOG" 2>&1; then
  echo "BUILD-FAILED (see $LOG)" >&2
  exit 1
fi
echo "$BIN"
