/* Correspondence harness: executes operation lines against the REAL core
 * objects of the working tree (linked with the verification port) and prints a
 * canonical transcript.  The Lean driver executes the same lines on the model;
 * the two transcripts are compared by ./check.  One op per input line; every
 * op is echoed as "# <line>" and ends with "end live=<n> bytes=<n>". */
#include <ctype.h>
#include <stdbool.h>
#include <stdint.h>
#include <stdio.h>
#include <stdlib.h>
#include <string.h>
#include <sys/types.h>
#include <sys/wait.h>
#include <unistd.h>

#include "lltdAutomata.h"
#include "lltdBlock.h"
#include "lltdPort.h"
#include "vport.h"

#ifdef WITH_ESP32
#include "lltd_esp32.h"
#endif

#define MAXOBJ 16
static automata      *g_fsm[MAXOBJ];
static int            g_fsm_kind[MAXOBJ];     /* 0 map 1 sess 2 enum */
static session_table *g_tbl[MAXOBJ];
static uint64_t       g_last_tx[MAXOBJ];
#ifdef WITH_ESP32
static lltd_esp32_ctx_t g_esp; static int g_esp_init = 0;
#endif

/* ---------- small parsing helpers ---------- */
static int hexval(int c) {
    if (c >= '0' && c <= '9') return c - '0';
    if (c >= 'a' && c <= 'f') return c - 'a' + 10;
    if (c >= 'A' && c <= 'F') return c - 'A' + 10;
    return -1;
}
/* parse hex string ("-" = empty) into freshly malloc'd bytes; returns -1 on error */
static long parse_hex(const char *s, uint8_t **out) {
    *out = NULL;
    if (strcmp(s, "-") == 0) { *out = malloc(1); return 0; }
    size_t n = strlen(s);
    if (n % 2) return -1;
    uint8_t *p = malloc(n / 2 + 1);
    for (size_t i = 0; i < n / 2; i++) {
        int a = hexval(s[2 * i]), b = hexval(s[2 * i + 1]);
        if (a < 0 || b < 0) { free(p); return -1; }
        p[i] = (uint8_t)(a * 16 + b);
    }
    *out = p;
    return (long)(n / 2);
}
/* "gen:SIZE:SEED" pattern for large blobs, identical in the Lean driver */
static long parse_blob(const char *s, uint8_t **out) {
    if (strncmp(s, "gen:", 4) == 0) {
        unsigned long size = 0, seed = 0;
        if (sscanf(s + 4, "%lu:%lu", &size, &seed) != 2 || size > (1u << 20)) return -1;
        uint8_t *p = malloc(size + 1);
        for (unsigned long i = 0; i < size; i++) p[i] = (uint8_t)((i * 131 + seed * 17 + (i >> 8)) & 0xFF);
        *out = p;
        return (long)size;
    }
    return parse_hex(s, out);
}
static bool parse_fixed(const char *s, uint8_t *dst, size_t n) {
    uint8_t *p; long k = parse_hex(s, &p);
    bool ok = (k == (long)n);
    if (ok) memcpy(dst, p, n);
    free(p);
    return ok;
}
static bool parse_u64(const char *s, uint64_t *out) {
    char *e; if (!*s) return false;
    if (s[0] == '-') return false;
    unsigned long long v = strtoull(s, &e, 0);
    if (*e) return false;
    *out = v; return true;
}
static bool parse_i64(const char *s, int64_t *out) {
    char *e; if (!*s) return false;
    long long v = strtoll(s, &e, 0);
    if (*e) return false;
    *out = v; return true;
}
static int parse_idx(const char *s, int max) {
    uint64_t v; if (!parse_u64(s, &v) || v >= (uint64_t)max) return -1;
    return (int)v;
}

static void bad(void) { fprintf(vp_out, "bad-op\n"); }

#define RXLIMIT(it) ((it)->mtu ? (it)->mtu : (it)->bufsize)     /* what recvfrom(sock, buf, MTU) can deliver; MTU 0: the whole buffer */

/* ---------- attribute assignment ---------- */
static bool set_iface_attr(vp_iface *it, const char *k, const char *v, bool creating) {
    uint64_t u; int64_t i; uint8_t *p; long n;
    if (!strcmp(k, "mtu")) {       /* after creation the MTU may change, up to the size of the receive buffer allocated at creation */
        /* 0 after creation: the platform's MTU query SUCCEEDS with 0 (the core falls back to 1500); frames still arrive in the buffer */
        if (!parse_u64(v, &u) || (u < 64 && !(u == 0 && !creating)) || u > 65535 || (!creating && u > it->bufsize)) return false;
        it->mtu = (size_t)u; return true;
    }
    if (!strcmp(k, "mac")) return parse_fixed(v, it->mac, 6);
    if (!strcmp(k, "flags")) { if (!parse_u64(v, &u) || u > 0xFFFFFFFFull) return false; it->flags = (uint32_t)u; return true; }
    if (!strcmp(k, "iftype")) { if (!parse_u64(v, &u) || u > 0xFFFFFFFFull) return false; it->iftype = (uint32_t)u; return true; }
    if (!strcmp(k, "ipv4")) return parse_fixed(v, it->ipv4, 4);
    if (!strcmp(k, "ipv6")) return parse_fixed(v, it->ipv6, 16);
    if (!strcmp(k, "speed")) { if (!parse_u64(v, &u) || u > 0xFFFFFFFFull) return false; it->speed = (uint32_t)u; return true; }
    if (!strcmp(k, "wifi")) { if (!parse_u64(v, &u) || u > 1) return false; it->wifi = (int)u; return true; }
    if (!strcmp(k, "mode")) { if (!parse_u64(v, &u) || u > 255) return false; it->mode = (uint8_t)u; return true; }
    if (!strcmp(k, "bssid")) return parse_fixed(v, it->bssid, 6);
    if (!strcmp(k, "ssid")) { n = parse_hex(v, &p); if (n < 0 || n > 255) { free(p); return false; } memcpy(it->ssid, p, (size_t)n); it->ssid_len = (size_t)n; free(p); return true; }
    if (!strcmp(k, "ssidrep")) { it->ssid_full = !strcmp(v, "full"); return !strcmp(v, "full") || !strcmp(v, "copied"); }
    if (!strcmp(k, "rate")) { if (!parse_u64(v, &u) || u > 65535) return false; it->rate = (uint16_t)u; return true; }
    if (!strcmp(k, "rssi")) { if (!parse_i64(v, &i) || i < -128 || i > 127) return false; it->rssi = (int8_t)i; return true; }
    if (!strcmp(k, "getfail")) { if (!parse_u64(v, &u) || u > 511) return false; it->getfail = (unsigned)u; return true; }
    return false;
}
#ifdef HAVE_STATE_VIEW
typedef void (*lltd_verif_obs_fn)(void *arg, const void *node20);
int lltd_verif_state_view(void *iface_ctx, unsigned long out[8], const uint8_t **mapper_real,
                          const uint8_t **mapper_apparent, lltd_verif_obs_fn each, void *arg);
struct headcap { int n; uint8_t first[20]; int dump; int iface; };
static void obs_cb(void *arg, const void *node20) {
    struct headcap *h = arg;
    if (h->n == 0) memcpy(h->first, node20, 20);
    if (h->dump) { fprintf(vp_out, "obs %d %d ", h->iface, h->n); vp_hex(vp_out, node20, 20); fputc('\n', vp_out); }
    h->n++;
}
#endif
/* the per-interface record as the core holds it now (state correspondence with the model's `St`) */
static void show_state(int I, int dump) {
#ifdef HAVE_STATE_VIEW
    unsigned long o[8]; const uint8_t *mr = NULL, *ma = NULL;
    struct headcap h; memset(&h, 0, sizeof(h)); h.dump = dump; h.iface = I;
    if (!lltd_verif_state_view(&vp_ifaces[I], o, &mr, &ma, obs_cb, &h)) { fprintf(vp_out, "st %d none\n", I); return; }
    fprintf(vp_out, "st %d known=%lu real=", I, o[2]); vp_hex(vp_out, mr, 6);
    fprintf(vp_out, " app="); vp_hex(vp_out, ma, 6);
    fprintf(vp_out, " seq=%lu gt=%lu gq=%lu icon=", o[3], o[4], o[5]);
    if (o[6]) fprintf(vp_out, "%lu", o[7]); else fprintf(vp_out, "none");
    fprintf(vp_out, " isz=%lu count=%lu n=%lu head=", o[7], o[0], o[1]);
    if (o[1]) vp_hex(vp_out, h.first, 20); else fputc('-', vp_out);
    fputc('\n', vp_out);
#else
    (void)I; (void)dump;
#endif
}

static bool set_glob_attr(const char *k, const char *v) {
    uint8_t *p; long n; int64_t i;
    if (!strcmp(k, "host")) { n = parse_hex(v, &p); if (n < 0 || n > 255) { free(p); return false; } memcpy(vp_glob.host, p, (size_t)n); vp_glob.host_len = (size_t)n; free(p); return true; }
    if (!strcmp(k, "hostrep")) { vp_glob.host_full = !strcmp(v, "full"); return !strcmp(v, "full") || !strcmp(v, "copied"); }
    if (!strcmp(k, "hwid")) { n = parse_hex(v, &p); if (n < 0 || n > 255) { free(p); return false; } memcpy(vp_glob.hwid, p, (size_t)n); vp_glob.hwid_len = (size_t)n; free(p); return true; }
    if (!strcmp(k, "icon")) {
        if (!strcmp(v, "none")) { free(vp_glob.icon); vp_glob.icon = NULL; vp_glob.icon_len = 0; vp_glob.icon_present = 0; return true; }
        n = parse_blob(v, &p); if (n < 0) return false;
        free(vp_glob.icon); vp_glob.icon = p; vp_glob.icon_len = (size_t)n; vp_glob.icon_present = 1; return true;
    }
    if (!strcmp(k, "failsize")) { if (!parse_i64(v, &i) || i < 0 || i > 1000000) return false; vp_glob.fail_size = (size_t)i; return true; }
    if (!strcmp(k, "recycle")) { vp_glob.recycle = !strcmp(v, "on"); return !strcmp(v, "on") || !strcmp(v, "off"); }
    if (!strcmp(k, "memcmprep")) { vp_glob.memcmp_wide = !strcmp(v, "wide"); return !strcmp(v, "wide") || !strcmp(v, "byte"); }
    if (!strcmp(k, "sendok")) { vp_glob.send_len = !strcmp(v, "len"); return !strcmp(v, "len") || !strcmp(v, "zero"); }
    if (!strcmp(k, "mtuclobber")) { if (!parse_i64(v, &i) || i < 0 || i > 65535) return false; vp_glob.mtu_clobber = (size_t)i; return true; }
    if (!strcmp(k, "failrc")) { if (!parse_i64(v, &i) || i == 0 || i < -1000 || i > 1000) return false; vp_glob.failrc = (int)i; return true; }
    if (!strcmp(k, "emptyrep")) { vp_glob.empty_block = !strcmp(v, "block"); return !strcmp(v, "block") || !strcmp(v, "null"); }
    if (!strcmp(k, "fname")) {
        if (!strcmp(v, "none")) { free(vp_glob.fname); vp_glob.fname = NULL; vp_glob.fname_len = 0; vp_glob.fname_present = 0; return true; }
        n = parse_blob(v, &p); if (n < 0) return false;
        free(vp_glob.fname); vp_glob.fname = p; vp_glob.fname_len = (size_t)n; vp_glob.fname_present = 1; return true;
    }
    return false;
}

/* ---------- printers ---------- */
static void show_fsm(int a) {
    if (!g_fsm[a]) { fprintf(vp_out, "fsm %d null\n", a); return; }
    fprintf(vp_out, "fsm %d state=%u last=%llu\n", a, g_fsm[a]->current_state, (unsigned long long)g_fsm[a]->last_ts);
}
static void show_map(int a) {
    if (!g_fsm[a] || g_fsm_kind[a] != 0 || !g_fsm[a]->extra) { fprintf(vp_out, "map %d null\n", a); return; }
    mapping_state *m = g_fsm[a]->extra;
    fprintf(vp_out, "map %d ctc=%u charge=%llu inact=%llu\n", a, m->ctc,
            (unsigned long long)m->charge_timeout_ts, (unsigned long long)m->inactive_timeout_ts);
}
static void show_band(int a) {
    if (!g_fsm[a] || g_fsm_kind[a] != 2 || !g_fsm[a]->extra) { fprintf(vp_out, "band %d null\n", a); return; }
    band_state *b = g_fsm[a]->extra;
    fprintf(vp_out, "band %d Ni=%u r=%u begun=%d hello=%llu block=%llu\n", a, b->Ni, b->r, b->begun ? 1 : 0,
            (unsigned long long)b->hello_timeout_ts, (unsigned long long)b->block_timeout_ts);
}
static void show_tbl(int t) {
    if (!g_tbl[t]) { fprintf(vp_out, "tbl %d null\n", t); return; }
    session_table *tb = g_tbl[t];
    fprintf(vp_out, "tbl %d count=%u allc=%d empty=%d\n", t, tb->count,
            session_table_all_complete(tb) ? 1 : 0, session_table_is_empty(tb) ? 1 : 0);
    for (int i = 0; i < SESSION_TABLE_MAX_ENTRIES; i++) {
        session_entry *e = &tb->entries[i];
        if (!e->valid) continue;
        fprintf(vp_out, "e %d ", i); vp_hex(vp_out, e->mapper_mac, 6);
        fprintf(vp_out, " gen=%u seq=%u state=%u complete=%d last=%llu created=%llu\n", e->generation, e->seq_number,
                e->state, e->complete ? 1 : 0, (unsigned long long)e->last_activity_ts, (unsigned long long)e->created_ts);
    }
}

static uint64_t g_tick_entry_ms;      /* the Hello is timed at the clock reading the tick took on entry (what it stores as last-transmit time) */
static void hello_cb(void *ni) {
    fprintf(vp_out, "hello %d @%llu\n", (int)(intptr_t)ni - 1, (unsigned long long)g_tick_entry_ms);
}

/* ---------- op interpreter ---------- */
#define MAXTOK 64
/* ---- op `nest J <hex> [zero] k`: what the daemon's thread for interface J does while the thread that handles the NEXT `rx`
 * op sleeps for the k-th time inside the core (the ports sleep with no lock held): it receives <hex> and handles it
 * completely.  Interfaces are isolated, so the transcript must be what `rx I ..` followed by `rx J ..` gives: the nested
 * reaction is captured and printed after the outer one, and the outer `end` line is corrected by the nested ledger delta.
 * If the outer handler sleeps fewer than k times (or J is the outer interface) the frame is handled right afterwards. */
static struct { int armed; int J; uint8_t *f; long n; bool zero; int k; int outer; } g_nest;
static char *g_nest_buf; static size_t g_nest_len;
static size_t g_nest_l0, g_nest_b0, g_nest_l1, g_nest_b1; static int g_nest_ran;
static void show_state(int I, int full);
static void bad(void);
static void nest_fire(void) {
    FILE *save = vp_out;
    g_nest.armed = 0; vp_sleep_hook = NULL;
    vp_ledger(&g_nest_l0, &g_nest_b0);
    vp_out = open_memstream(&g_nest_buf, &g_nest_len);
    fprintf(vp_out, "# rx %d ", g_nest.J); vp_hex(vp_out, g_nest.f, (size_t)g_nest.n); if (g_nest.n == 0) fputc('-', vp_out);
    fprintf(vp_out, "%s\n", g_nest.zero ? " zero" : "");
    int J = g_nest.J;
    if (J < 0 || !vp_ifaces[J].used || (size_t)g_nest.n > RXLIMIT(&vp_ifaces[J])) { bad(); }
    else {
        vp_iface *it = &vp_ifaces[J];
        memcpy(it->recvbuf, g_nest.f, (size_t)g_nest.n);
        if (g_nest.zero) memset(it->recvbuf + g_nest.n, 0, it->bufsize - (size_t)g_nest.n);
        parseFrame(it->recvbuf, it);
        show_state(J, 0);
    }
    free(g_nest.f); g_nest.f = NULL;
    fclose(vp_out);
    vp_out = save;
    vp_ledger(&g_nest_l1, &g_nest_b1);
    g_nest_ran = 1;
}
static void nest_sleep_hook(void) {
    if (g_nest.armed && g_nest.outer >= 0 && g_nest.J != g_nest.outer && --g_nest.k <= 0) nest_fire();
}

static void run_line(char *line) {
    char *tok[MAXTOK]; int nt = 0;
    for (char *p = strtok(line, " \t\r\n"); p && nt < MAXTOK; p = strtok(NULL, " \t\r\n")) tok[nt++] = p;
    if (nt == 0) return;
    const char *op = tok[0];

    if (!strcmp(op, "iface") || !strcmp(op, "set")) {
        bool creating = !strcmp(op, "iface");
        int I = nt >= 2 ? parse_idx(tok[1], VP_MAX_IFACE) : -1;
        if (I < 0) { bad(); goto end; }
        vp_iface *it = &vp_ifaces[I];
        if (!creating && !it->used) { bad(); goto end; }
        if (creating && it->used) { bad(); goto end; }   /* an interface context lives for the whole run */
        vp_iface tmp = *it;
        unsigned buf0 = 0; size_t align = 0;
        if (creating) { memset(&tmp, 0, sizeof(tmp)); tmp.index = I; tmp.mtu = 1500; }
        bool ok = true;
        for (int i = 2; i < nt && ok; i++) {
            char *eq = strchr(tok[i], '='); if (!eq) { ok = false; break; }
            *eq = 0;
            if (!strcmp(tok[i], "buf0")) { uint64_t u; ok = creating && parse_u64(eq + 1, &u) && u <= 255; buf0 = (unsigned)u; }
            else if (!strcmp(tok[i], "align")) { ok = creating && (!strcmp(eq + 1, "0") || !strcmp(eq + 1, "2")); align = eq[1] == '2' ? 2 : 0; }
            else ok = set_iface_attr(&tmp, tok[i], eq + 1, creating);
        }
        if (!ok) { bad(); goto end; }
        if (creating) {
            tmp.used = 1;
            tmp.recvbuf = (uint8_t *)malloc(tmp.mtu + align) + align;     /* exactly MTU bytes, like fillInterfaceDetails; `align=2`: 2 bytes past a word boundary (NET_IP_ALIGN-style) */
            tmp.bufsize = tmp.mtu;
            memset(tmp.recvbuf, (int)buf0, tmp.mtu);
        }
        *it = tmp;
        fprintf(vp_out, "ok\n");
    } else if (!strcmp(op, "glob")) {
        bool ok = true;
        for (int i = 1; i < nt && ok; i++) {
            char *eq = strchr(tok[i], '='); if (!eq) { ok = false; break; }
            *eq = 0; ok = set_glob_attr(tok[i], eq + 1);
        }
        if (!ok) bad(); else fprintf(vp_out, "ok\n");
    } else if (!strcmp(op, "rx") || !strcmp(op, "linuxrx")) {
        bool lin = !strcmp(op, "linuxrx");
        int base = lin ? 4 : 2;
        int I = nt >= 2 ? parse_idx(tok[1], VP_MAX_IFACE) : -1;
        int M = -1, S = -1;
        if (lin) { M = nt >= 3 ? parse_idx(tok[2], MAXOBJ) : -1; S = nt >= 4 ? parse_idx(tok[3], MAXOBJ) : -1; }
        if (I < 0 || !vp_ifaces[I].used || nt < base + 1 || (lin && (M < 0 || S < 0 || !g_fsm[M] || !g_fsm[S] || g_fsm_kind[M] != 0 || g_fsm_kind[S] != 1))) { bad(); goto end; }
        uint8_t *f; long n = parse_hex(tok[base], &f);
        vp_iface *it = &vp_ifaces[I];
        if (n < 0 || (size_t)n > RXLIMIT(it)) { free(f); bad(); goto end; }
        bool zero = (nt > base + 1 && !strcmp(tok[base + 1], "zero"));
        memcpy(it->recvbuf, f, (size_t)n);                 /* recvfrom(sock, recvBuffer, MTU) */
        if (zero) memset(it->recvbuf + n, 0, it->bufsize - (size_t)n);
        free(f);
        if (lin) {                                          /* body of the Linux daemons' lltdLoop */
            lltd_demultiplex_header_t *h = (lltd_demultiplex_header_t *)it->recvbuf;
            switch_state_mapping(g_fsm[M], h->opcode, "rx");
            switch_state_session(g_fsm[S], h->opcode, "rx");
        }
        if (!lin && g_nest.armed) { g_nest.outer = I; vp_sleep_hook = nest_sleep_hook; }
        parseFrame(it->recvbuf, it);
        vp_sleep_hook = NULL;
        show_state(I, 0);
        if (lin) { show_fsm(M); show_fsm(S); }

    } else if (!strcmp(op, "nest")) {
        int J = nt >= 2 ? parse_idx(tok[1], VP_MAX_IFACE) : -1;
        bool zero = (nt == 5 && !strcmp(tok[3], "zero"));
        uint64_t k = 0;
        if (J < 0 || (nt != 4 && !zero) || !parse_u64(tok[nt - 1], &k) || k < 1 || k > 1000) { bad(); goto end; }
        uint8_t *f; long n = parse_hex(tok[2], &f);
        if (n < 0) { free(f); bad(); goto end; }
        if (g_nest.armed) free(g_nest.f);
        g_nest.armed = 1; g_nest.J = J; g_nest.f = f; g_nest.n = n; g_nest.zero = zero; g_nest.k = (int)k; g_nest.outer = -1;
        fprintf(vp_out, "ok\n");
    } else if (!strcmp(op, "note")) {
        fprintf(vp_out, "ok\n");
    } else if (!strcmp(op, "relay")) {
        /* relay A B [zero]: every frame interface A transmitted during the previous op is delivered, unmodified, to B */
        int A = nt >= 2 ? parse_idx(tok[1], VP_MAX_IFACE) : -1;
        int Bi = nt >= 3 ? parse_idx(tok[2], VP_MAX_IFACE) : -1;
        if (A < 0 || Bi < 0 || !vp_ifaces[A].used || !vp_ifaces[Bi].used) { bad(); goto end; }
        bool zero = (nt > 3 && !strcmp(tok[3], "zero"));
        vp_iface *it = &vp_ifaces[Bi];
        unsigned n = vp_prev_tx_n;
        struct vp_txrec *recs = malloc(sizeof(*recs) * (n ? n : 1));
        memcpy(recs, vp_prev_tx, sizeof(*recs) * n);
        for (unsigned i = 0; i < n; i++) recs[i].data = memcpy(malloc(recs[i].len ? recs[i].len : 1), recs[i].data, recs[i].len);
        for (unsigned i = 0; i < n; i++) {
            if (recs[i].iface == A && recs[i].len <= RXLIMIT(it)) {
                memcpy(it->recvbuf, recs[i].data, recs[i].len);
                if (zero) memset(it->recvbuf + recs[i].len, 0, it->bufsize - recs[i].len);
                fprintf(vp_out, "deliver %d ", Bi); vp_hex(vp_out, recs[i].data, recs[i].len); fputc('\n', vp_out);
                parseFrame(it->recvbuf, it);
            }
            free(recs[i].data);
        }
        free(recs);
        show_state(Bi, 0);
    } else if (!strcmp(op, "dump")) {
        int I = nt == 2 ? parse_idx(tok[1], VP_MAX_IFACE) : -1;
        if (I < 0 || !vp_ifaces[I].used) { bad(); goto end; }
        show_state(I, 1);
    } else if (!strcmp(op, "clock")) {
        uint64_t d; if (nt != 2 || !parse_u64(tok[1], &d)) { bad(); goto end; }
        vp_clock_ms += d;
        fprintf(vp_out, "now %llu\n", (unsigned long long)vp_clock_ms);
    } else if (!strcmp(op, "poison")) {
        uint64_t b; if (nt != 2 || !parse_u64(tok[1], &b) || b > 255) { bad(); goto end; }
        vp_poison = (uint8_t)b; fprintf(vp_out, "ok\n");
    } else if (!strcmp(op, "fault")) {
        bool ok = nt >= 2;
        for (int i = 1; i < nt && ok; i++) {
            if (!strcmp(tok[i], "clear")) { vp_reset_faults(); continue; }
            if (!strcmp(tok[i], "mallocall")) { vp_fail_malloc_all(1); continue; }
            if (!strcmp(tok[i], "sendall")) { vp_fail_send_all(1); continue; }
            char *eq = strchr(tok[i], '='); if (!eq) { ok = false; break; }
            *eq = 0;
            int which = !strcmp(tok[i], "malloc") ? 0 : !strcmp(tok[i], "send") ? 1 : -1;
            if (which < 0) { ok = false; break; }
            for (char *q = eq + 1; q && *q;) {
                char *c = strchr(q, ','); if (c) *c = 0;
                uint64_t k; if (!parse_u64(q, &k) || k == 0) { ok = false; break; }
                if (which == 0) vp_fail_malloc_at((unsigned long)k); else vp_fail_send_at((unsigned long)k);
                q = c ? c + 1 : NULL;
            }
        }
        if (!ok) bad(); else fprintf(vp_out, "ok\n");
    } else if (!strcmp(op, "fsm")) {
        if (nt < 3) { bad(); goto end; }
        int A = parse_idx(tok[2], MAXOBJ); if (A < 0) { bad(); goto end; }
        if (!strcmp(tok[1], "new")) {
            if (nt != 4 || g_fsm[A]) { bad(); goto end; }
            int k = !strcmp(tok[3], "map") ? 0 : !strcmp(tok[3], "sess") ? 1 : !strcmp(tok[3], "enum") ? 2 : -1;
            if (k < 0) { bad(); goto end; }
            g_fsm_kind[A] = k;
            g_fsm[A] = k == 0 ? init_automata_mapping() : k == 1 ? init_automata_session() : init_automata_enumeration();
            show_fsm(A); if (k == 0) show_map(A); if (k == 2) show_band(A);
        } else if (!strcmp(tok[1], "free")) {
            /* fsm free A: what a port does when an interface goes away - the extra state, then the automaton */
            if (nt != 3 || !g_fsm[A]) { bad(); goto end; }
            if (g_fsm[A]->extra) lltd_port_free(g_fsm[A]->extra);
            lltd_port_free(g_fsm[A]); g_fsm[A] = NULL;
            fprintf(vp_out, "ok\n");
        } else if (!strcmp(tok[1], "set")) {
            uint64_t s, l; if (nt != 5 || !g_fsm[A] || !parse_u64(tok[3], &s) || !parse_u64(tok[4], &l) || s >= g_fsm[A]->states_no) { bad(); goto end; }
            g_fsm[A]->current_state = (uint8_t)s; g_fsm[A]->last_ts = l; show_fsm(A);
        } else if (!strcmp(tok[1], "step")) {
            int64_t in; if (nt != 4 || !g_fsm[A] || !parse_i64(tok[3], &in) || in < -2147483647LL || in > 2147483647LL) { bad(); goto end; }
            if (g_fsm_kind[A] == 0) switch_state_mapping(g_fsm[A], (int)in, "h");
            else if (g_fsm_kind[A] == 1) switch_state_session(g_fsm[A], (int)in, "h");
            else switch_state_enumeration(g_fsm[A], (int)in, "h");
            show_fsm(A);
        } else if (!strcmp(tok[1], "stepj")) {
            /* fsm stepj A input d: the step with the clock moving on by d ms right after the function's first reading */
            int64_t in; uint64_t d;
            if (nt != 5 || !g_fsm[A] || !parse_i64(tok[3], &in) || in < -2147483647LL || in > 2147483647LL || !parse_u64(tok[4], &d) || d > 100000000ULL) { bad(); goto end; }
            vp_clock_jump = d; vp_clock_jump_after = 1;
            if (g_fsm_kind[A] == 0) switch_state_mapping(g_fsm[A], (int)in, "h");
            else if (g_fsm_kind[A] == 1) switch_state_session(g_fsm[A], (int)in, "h");
            else switch_state_enumeration(g_fsm[A], (int)in, "h");
            if (vp_clock_jump) { vp_clock_ms += vp_clock_jump; vp_clock_jump = 0; }     /* no reading at all: time has passed all the same */
            show_fsm(A);
            fprintf(vp_out, "now %llu\n", (unsigned long long)vp_clock_ms);
        } else if (!strcmp(tok[1], "show")) { show_fsm(A); }
        else bad();
    } else if (!strcmp(op, "map")) {
        if (nt < 3) { bad(); goto end; }
        int A = parse_idx(tok[2], MAXOBJ);
        if (A < 0 || !g_fsm[A] || g_fsm_kind[A] != 0) { bad(); goto end; }
        mapping_state *m = g_fsm[A]->extra;
        if (!strcmp(tok[1], "charge")) mapping_on_charge(m);
        else if (!strcmp(tok[1], "resetcharge")) mapping_reset_charge(m);
        else if (!strcmp(tok[1], "checkcharge")) fprintf(vp_out, "ret %d\n", mapping_check_charge_timeout(m) ? 1 : 0);
        else if (!strcmp(tok[1], "checkinact")) fprintf(vp_out, "ret %d\n", mapping_check_inactive_timeout(m) ? 1 : 0);
        else if (!strcmp(tok[1], "resetinact")) mapping_reset_inactive_timeout(m);
        else if (!strcmp(tok[1], "set")) {
            uint64_t c, a, b; if (nt != 6 || !m || !parse_u64(tok[3], &c) || c > 255 || !parse_u64(tok[4], &a) || !parse_u64(tok[5], &b)) { bad(); goto end; }
            m->ctc = (uint8_t)c; m->charge_timeout_ts = a; m->inactive_timeout_ts = b;
        } else if (strcmp(tok[1], "show")) { bad(); goto end; }
        show_map(A);
    } else if (!strcmp(op, "band")) {
        if (nt < 3) { bad(); goto end; }
        int A = parse_idx(tok[2], MAXOBJ);
        if (A < 0 || !g_fsm[A] || g_fsm_kind[A] != 2) { bad(); goto end; }
        band_state *b = g_fsm[A]->extra;
        if (!strcmp(tok[1], "init")) band_init_stats(b);
        else if (!strcmp(tok[1], "update")) band_update_stats(b);
        else if (!strcmp(tok[1], "choose")) fprintf(vp_out, "ret %llu\n", (unsigned long long)band_choose_hello_time(b));
        else if (!strcmp(tok[1], "dohello")) band_do_hello(b);
        else if (!strcmp(tok[1], "heard")) band_on_hello_received(b);
        else if (!strcmp(tok[1], "begun")) { if (b) b->begun = true; }          /* Darwin glue writes this field directly */
        else if (!strcmp(tok[1], "set")) {
            uint64_t ni, r, bg, h, bl;
            if (nt != 8 || !b || !parse_u64(tok[3], &ni) || ni > 0xFFFFFFFFull || !parse_u64(tok[4], &r) || r > 0xFFFFFFFFull ||
                !parse_u64(tok[5], &bg) || bg > 1 || !parse_u64(tok[6], &h) || !parse_u64(tok[7], &bl)) { bad(); goto end; }
            b->Ni = (uint32_t)ni; b->r = (uint32_t)r; b->begun = bg != 0; b->hello_timeout_ts = h; b->block_timeout_ts = bl;
        } else if (strcmp(tok[1], "show")) { bad(); goto end; }
        show_band(A);
    } else if (!strcmp(op, "tbl")) {
        if (nt < 3) { bad(); goto end; }
        int T = parse_idx(tok[2], MAXOBJ); if (T < 0) { bad(); goto end; }
        uint8_t mac[6]; uint64_t gen = 0, seq = 0;
        if (!strcmp(tok[1], "new")) { if (g_tbl[T]) { bad(); goto end; } g_tbl[T] = session_table_create(); show_tbl(T); goto end; }
        if (!g_tbl[T]) { bad(); goto end; }
        if (!strcmp(tok[1], "add")) {
            if (nt != 6 || !parse_fixed(tok[3], mac, 6) || !parse_u64(tok[4], &gen) || gen > 65535 || !parse_u64(tok[5], &seq) || seq > 65535) { bad(); goto end; }
            session_entry *e = session_table_add(g_tbl[T], mac, (uint16_t)gen, (uint16_t)seq);
            fprintf(vp_out, "ret %d\n", e ? (int)(e - g_tbl[T]->entries) : -1);
        } else if (!strcmp(tok[1], "readd")) {
            /* tbl readd T mac gen gen2 seq: remove the session found and add it again under gen2, the key being the address bytes INSIDE the entry */
            uint64_t gen2 = 0;
            if (nt != 7 || !parse_fixed(tok[3], mac, 6) || !parse_u64(tok[4], &gen) || gen > 65535 || !parse_u64(tok[5], &gen2) || gen2 > 65535 || !parse_u64(tok[6], &seq) || seq > 65535) { bad(); goto end; }
            session_entry *e = session_table_find(g_tbl[T], mac, (uint16_t)gen, 0);
            if (!e) fprintf(vp_out, "ret -1\n");
            else {
                session_table_remove(g_tbl[T], e->mapper_mac, e->generation);
                session_entry *n = session_table_add(g_tbl[T], e->mapper_mac, (uint16_t)gen2, (uint16_t)seq);
                fprintf(vp_out, "ret %d\n", n ? (int)(n - g_tbl[T]->entries) : -1);
            }
        } else if (!strcmp(tok[1], "find")) {
            if (nt != 5 || !parse_fixed(tok[3], mac, 6) || !parse_u64(tok[4], &gen) || gen > 65535) { bad(); goto end; }
            session_entry *e = session_table_find(g_tbl[T], mac, (uint16_t)gen, 0);
            fprintf(vp_out, "ret %d\n", e ? (int)(e - g_tbl[T]->entries) : -1);
        } else if (!strcmp(tok[1], "remove")) {
            if (nt != 5 || !parse_fixed(tok[3], mac, 6) || !parse_u64(tok[4], &gen) || gen > 65535) { bad(); goto end; }
            session_table_remove(g_tbl[T], mac, (uint16_t)gen);
        } else if (!strcmp(tok[1], "complete")) {     /* what the glue does: entry->complete = true; update status */
            if (nt != 5 || !parse_fixed(tok[3], mac, 6) || !parse_u64(tok[4], &gen) || gen > 65535) { bad(); goto end; }
            session_entry *e = session_table_find(g_tbl[T], mac, (uint16_t)gen, 0);
            if (e) e->complete = true;
            session_table_update_complete_status(g_tbl[T]);
        } else if (!strcmp(tok[1], "touch")) {        /* glue: entry->state = ev; entry->last_activity_ts = now */
            uint64_t st;
            if (nt != 6 || !parse_fixed(tok[3], mac, 6) || !parse_u64(tok[4], &gen) || gen > 65535 || !parse_u64(tok[5], &st) || st > 255) { bad(); goto end; }
            session_entry *e = session_table_find(g_tbl[T], mac, (uint16_t)gen, 0);
            if (e) { e->state = (uint8_t)st; e->last_activity_ts = lltd_monotonic_seconds(); }
        } else if (!strcmp(tok[1], "clear")) session_table_clear(g_tbl[T]);
        else if (!strcmp(tok[1], "update")) session_table_update_complete_status(g_tbl[T]);
        else if (strcmp(tok[1], "dump")) { bad(); goto end; }
        show_tbl(T);
    } else if (!strcmp(op, "tick") || !strcmp(op, "tickj")) {
        /* tick M E T wired|nolast|none ; '-' = NULL object
         * tickj M E T port k d: the same with the clock moving on by d ms right after the tick's k-th reading (k = 1, 2) */
        bool tj = !strcmp(op, "tickj");
        uint64_t jk = 0, jd = 0;
        if (nt != (tj ? 7 : 5)) { bad(); goto end; }
        if (tj && (!parse_u64(tok[5], &jk) || (jk != 1 && jk != 2) || !parse_u64(tok[6], &jd) || jd > 100000000ULL)) { bad(); goto end; }
        int M = !strcmp(tok[1], "-") ? -2 : parse_idx(tok[1], MAXOBJ);
        int E = !strcmp(tok[2], "-") ? -2 : parse_idx(tok[2], MAXOBJ);
        int T = !strcmp(tok[3], "-") ? -2 : parse_idx(tok[3], MAXOBJ);
        if (M == -1 || E == -1 || T == -1 || (M >= 0 && (!g_fsm[M] || g_fsm_kind[M] != 0)) || (E >= 0 && (!g_fsm[E] || g_fsm_kind[E] != 2)) || (T >= 0 && !g_tbl[T])) { bad(); goto end; }
        lltd_automata_tick_port port; memset(&port, 0, sizeof(port));
        int slot = E >= 0 ? E : 0;
        const lltd_automata_tick_port *pp = &port;
        if (!strcmp(tok[4], "wired")) { port.network_interface = (void *)(intptr_t)(slot + 1); port.last_hello_tx_ms = &g_last_tx[slot]; port.send_hello = hello_cb; }
        else if (!strcmp(tok[4], "nolast")) { port.network_interface = (void *)(intptr_t)(slot + 1); port.send_hello = hello_cb; }
        else if (!strcmp(tok[4], "none")) pp = NULL;
        else { bad(); goto end; }
        g_tick_entry_ms = vp_clock_ms;
        if (tj) { vp_clock_jump = jd; vp_clock_jump_after = (unsigned)jk; }
        automata_tick(M >= 0 ? g_fsm[M] : NULL, E >= 0 ? g_fsm[E] : NULL, T >= 0 ? g_tbl[T] : NULL, pp);
        if (tj && vp_clock_jump) { vp_clock_ms += vp_clock_jump; vp_clock_jump = 0; vp_clock_jump_after = 1; }
        if (M >= 0) { show_fsm(M); show_map(M); }
        if (E >= 0) { show_fsm(E); show_band(E); fprintf(vp_out, "lasttx %d %llu\n", slot, (unsigned long long)g_last_tx[slot]); }
        if (T >= 0) show_tbl(T);
        if (tj) fprintf(vp_out, "now %llu\n", (unsigned long long)vp_clock_ms);
    } else if (!strcmp(op, "ev")) {
        /* ev I HEX avail=N tbl=T|- : classifier on an exact-size heap image (ASan sees any read past avail) */
        int I = nt >= 2 ? parse_idx(tok[1], VP_MAX_IFACE) : -1;
        /* optional 6th token `off=2`: the image starts 2 bytes past a word boundary (NET_IP_ALIGN-style receive buffers; the protocol structs are packed to 2) */
        size_t evoff = 0;
        if (nt == 6) { if (strcmp(tok[5], "off=2") && strcmp(tok[5], "off=0")) { bad(); goto end; } evoff = tok[5][4] == '2' ? 2 : 0; nt = 5; }
        if (I < 0 || !vp_ifaces[I].used || nt != 5 || strncmp(tok[3], "avail=", 6) || strncmp(tok[4], "tbl=", 4)) { bad(); goto end; }
        uint64_t avail; if (!parse_u64(tok[3] + 6, &avail) || avail > 65535) { bad(); goto end; }
        int T = !strcmp(tok[4] + 4, "-") ? -2 : parse_idx(tok[4] + 4, MAXOBJ);
        if (T == -1 || (T >= 0 && !g_tbl[T])) { bad(); goto end; }
        uint8_t *f; long n = parse_hex(tok[2], &f);
        if (n < 0 || (uint64_t)n > avail) { free(f); bad(); goto end; }
        uint8_t *img0 = malloc((avail ? avail : 1) + evoff);
        uint8_t *img = img0 + evoff;
        memset(img, vp_poison, avail ? avail : 1);
        memcpy(img, f, (size_t)n); free(f);
#ifdef DSE_OLD_SIG
        int ev = derive_session_event(img, T >= 0 ? g_tbl[T] : NULL, vp_ifaces[I].mac);
#else
        int ev = derive_session_event(img, (size_t)avail, T >= 0 ? g_tbl[T] : NULL, vp_ifaces[I].mac);
#endif
        free(img0);
        fprintf(vp_out, "event %d\n", ev);
#ifdef WITH_ESP32
    } else if (!strcmp(op, "espinit")) {
        if (g_esp_init) { bad(); goto end; }
        lltd_esp32_init(&g_esp); g_esp_init = 1;
        fprintf(vp_out, "esp map=%d sess=%d enum=%d\n", g_esp.mapping ? g_esp.mapping->current_state : -1,
                g_esp.session ? g_esp.session->current_state : -1, g_esp.enumeration ? g_esp.enumeration->current_state : -1);
    } else if (!strcmp(op, "esp")) {
        if (!g_esp_init || nt != 2 || !g_esp.mapping || !g_esp.session || !g_esp.enumeration) { bad(); goto end; }
        uint8_t *f; long n = parse_hex(tok[1], &f);
        if (n < 0) { free(f); bad(); goto end; }
        uint8_t *img = malloc(n ? (size_t)n : 1);          /* exact size: a read past `length` is a heap overflow */
        memcpy(img, f, (size_t)n); free(f);
        lltd_esp32_handle_frame(&g_esp, img, (size_t)n);
        free(img);
        fprintf(vp_out, "esp map=%d/%llu sess=%d/%llu enum=%d/%llu\n",
                g_esp.mapping->current_state, (unsigned long long)g_esp.mapping->last_ts,
                g_esp.session->current_state, (unsigned long long)g_esp.session->last_ts,
                g_esp.enumeration->current_state, (unsigned long long)g_esp.enumeration->last_ts);
#endif
    } else {
        bad();
    }
end:
    if (!strcmp(op, "rx") && (g_nest.armed || g_nest_ran)) {     /* also after a rejected `rx`: the deferred frame follows it */
        vp_sleep_hook = NULL;
        if (g_nest.armed) {                            /* never fired: handled right after the outer frame */
            vp_print_end(); vp_rotate_tx();
            nest_fire();
        } else {                                       /* fired inside: the outer `end` line without the nested delta */
            vp_print_end_less(g_nest_l1, g_nest_l0, g_nest_b1, g_nest_b0); vp_rotate_tx();
        }
        fputs(g_nest_buf, vp_out); free(g_nest_buf); g_nest_buf = NULL; g_nest_ran = 0;
    }
    vp_print_end();
    vp_rotate_tx();
}

static void run_one(char *line, int flush_each) {
    size_t n = strlen(line);
    while (n > 0 && (line[n - 1] == '\n' || line[n - 1] == '\r')) line[--n] = 0;
    if (n == 0 || line[0] == '%') return;                      /* '%' = comment */
    fputs("# ", vp_out); fputs(line, vp_out); fputc('\n', vp_out);
    if (flush_each) fflush(vp_out);                             /* so that a sanitizer abort is attributable to this op */
    run_line(line);
}

/* Input is a sequence of cases: "%%case <id>" starts one; each case runs in a
 * forked child so that it starts from a pristine core (static state included)
 * and a crash or sanitizer abort ends only that case ("abort ..." line). */
int main(int argc, char **argv) {
    vp_out = stdout;
    static char obuf[1 << 16];
    setvbuf(stdout, obuf, _IOFBF, sizeof(obuf));
    FILE *in = stdin;
    int flush_each = getenv("VERIF_FLUSH") != NULL;
    if (argc > 1) { in = fopen(argv[1], "r"); if (!in) { perror(argv[1]); return 2; } }
    char **lines = NULL; size_t nl = 0, capl = 0;
    char *line = NULL; size_t cap = 0; ssize_t n;
    while ((n = getline(&line, &cap, in)) >= 0) {
        if (nl == capl) { capl = capl ? capl * 2 : 1024; lines = realloc(lines, capl * sizeof(*lines)); }
        lines[nl++] = strdup(line);
    }
    free(line);
    size_t i = 0;
    while (i < nl) {
        if (strncmp(lines[i], "%%case", 6) == 0) {
            size_t j = i + 1;
            while (j < nl && strncmp(lines[j], "%%case", 6) != 0) j++;
            fputs(lines[i], vp_out);
            if (lines[i][strlen(lines[i]) - 1] != '\n') fputc('\n', vp_out);
            fflush(vp_out);
            pid_t pid = fork();
            if (pid < 0) { perror("fork"); return 2; }
            if (pid == 0) {
                for (size_t k = i + 1; k < j; k++) run_one(lines[k], flush_each);
                fprintf(vp_out, "stats mallocs=%lu faults=%lu high=%zu\n", vp_malloc_calls(), vp_faults_fired(), vp_high_bytes());
                fflush(vp_out);
                _exit(0);
            }
            int status = 0;
            waitpid(pid, &status, 0);
            if (WIFSIGNALED(status)) fprintf(vp_out, "abort signal=%d\n", WTERMSIG(status));
            else if (WIFEXITED(status) && WEXITSTATUS(status) != 0) fprintf(vp_out, "abort exit=%d\n", WEXITSTATUS(status));
            fflush(vp_out);
            i = j;
        } else {
            run_one(lines[i], flush_each);
            i++;
        }
    }
    fprintf(vp_out, "stats mallocs=%lu faults=%lu high=%zu\n", vp_malloc_calls(), vp_faults_fired(), vp_high_bytes());
    fflush(vp_out);
    return 0;
}
