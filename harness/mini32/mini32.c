/* mini32: a freestanding run-time for the verification harness on ILP32 (i386).  This sandbox has no 32-bit C library, but the
 * kernel runs 32-bit binaries: with this file the SAME harness (main.c, vport.c) and the real core are compiled with
 * `gcc -m32 -ffreestanding -nostdlib -static`, so that the core is EXECUTED where size_t, long and pointers are 32 bits wide.
 * Only what the harness uses is provided.  Not a general C library. */
#include <stddef.h>
#include <stdint.h>
#include <stdarg.h>
#include <stdio.h>
#include <stdlib.h>
#include <string.h>
#include <unistd.h>
#include <sys/wait.h>

/* ---------------- system calls (int 0x80) ---------------- */
static long sc3(long n, long a, long b, long c) {
    long r;
    __asm__ volatile("int $0x80" : "=a"(r) : "a"(n), "b"(a), "c"(b), "d"(c) : "memory");
    return r;
}
long read(int fd, void *buf, size_t n) { return sc3(3, fd, (long)buf, (long)n); }
long write(int fd, const void *buf, size_t n) { return sc3(4, fd, (long)buf, (long)n); }
int close(int fd) { return (int)sc3(6, fd, 0, 0); }
pid_t fork(void) { return (pid_t)sc3(2, 0, 0, 0); }
pid_t waitpid(pid_t pid, int *status, int options) { return (pid_t)sc3(7, pid, (long)status, options); }
static void flush_all(void);
void _exit(int c) { for (;;) sc3(252, c, 0, 0); }                 /* exit_group */
void exit(int c) { flush_all(); _exit(c); }
void abort(void) { flush_all(); sc3(37, sc3(20, 0, 0, 0), 6, 0); _exit(134); }     /* kill(getpid(), SIGABRT) */

/* ---------------- memory ---------------- */
void *memcpy(void *d, const void *s, size_t n) { unsigned char *a = d; const unsigned char *b = s; while (n--) *a++ = *b++; return d; }
void *memmove(void *d, const void *s, size_t n) {
    unsigned char *a = d; const unsigned char *b = s;
    if (a < b) while (n--) *a++ = *b++; else { a += n; b += n; while (n--) *--a = *--b; }
    return d;
}
void *memset(void *d, int c, size_t n) { unsigned char *a = d; while (n--) *a++ = (unsigned char)c; return d; }
int memcmp(const void *x, const void *y, size_t n) { const unsigned char *a = x, *b = y; for (; n--; a++, b++) if (*a != *b) return *a - *b; return 0; }
size_t strlen(const char *s) { size_t n = 0; while (s[n]) n++; return n; }
int strcmp(const char *a, const char *b) { while (*a && *a == *b) a++, b++; return (unsigned char)*a - (unsigned char)*b; }
int strncmp(const char *a, const char *b, size_t n) { for (; n; n--, a++, b++) { if (*a != *b || !*a) return (unsigned char)*a - (unsigned char)*b; } return 0; }
char *strchr(const char *s, int c) { for (;; s++) { if (*s == (char)c) return (char *)s; if (!*s) return NULL; } }
char *strtok(char *s, const char *delim) {
    static char *save;
    if (s) save = s;
    if (!save) return NULL;
    while (*save && strchr(delim, *save)) save++;
    if (!*save) { save = NULL; return NULL; }
    char *tok = save;
    while (*save && !strchr(delim, *save)) save++;
    if (*save) *save++ = 0; else save = NULL;
    return tok;
}

/* a first-fit allocator over mmap'ed arenas; blocks carry a size header; free blocks are kept in one list */
typedef struct blk { size_t size; struct blk *next; } blk;       /* size: payload bytes */
static blk *freelist;
static void *arena_more(size_t n) {
    size_t want = (n + sizeof(blk) + 0xFFFFF) & ~(size_t)0xFFFFF;          /* 1 MiB granules */
    long args[6] = {0, (long)want, 3, 0x22, -1, 0};
    long p = sc3(90, (long)args, 0, 0);                                       /* old mmap(struct) */
    if (p < 0 && p > -4096) return NULL;
    blk *b = (blk *)p; b->size = want - sizeof(blk); b->next = freelist; freelist = b;
    return b;
}
void *malloc(size_t n) {
    if (n == 0) n = 1;
    n = (n + 7) & ~(size_t)7;
    for (int pass = 0; pass < 2; pass++) {
        for (blk **pp = &freelist; *pp; pp = &(*pp)->next) {
            blk *b = *pp;
            if (b->size >= n) {
                if (b->size >= n + sizeof(blk) + 16) {
                    blk *rest = (blk *)((char *)(b + 1) + n);
                    rest->size = b->size - n - sizeof(blk); rest->next = b->next;
                    b->size = n; *pp = rest;
                } else *pp = b->next;
                return b + 1;
            }
        }
        if (!arena_more(n)) return NULL;
    }
    return NULL;
}
void free(void *p) { if (!p) return; blk *b = (blk *)p - 1; b->next = freelist; freelist = b; }
void *calloc(size_t a, size_t b) { size_t n = a * b; void *p = malloc(n); if (p) memset(p, 0, n); return p; }
void *realloc(void *p, size_t n) {
    if (!p) return malloc(n);
    blk *b = (blk *)p - 1;
    if (b->size >= n) return p;
    void *q = malloc(n); if (!q) return NULL;
    memcpy(q, p, b->size); free(p); return q;
}
char *strdup(const char *s) { size_t n = strlen(s) + 1; char *p = malloc(n); if (p) memcpy(p, s, n); return p; }

/* ---------------- 64-bit division for gcc -m32 ---------------- */
unsigned long long __udivmoddi4(unsigned long long n, unsigned long long d, unsigned long long *rem) {
    unsigned long long q = 0, r = 0;
    for (int i = 63; i >= 0; i--) { r = (r << 1) | ((n >> i) & 1); if (r >= d) { r -= d; q |= 1ULL << i; } }
    if (rem) *rem = r;
    return q;
}
unsigned long long __udivdi3(unsigned long long n, unsigned long long d) { return __udivmoddi4(n, d, NULL); }
unsigned long long __umoddi3(unsigned long long n, unsigned long long d) { unsigned long long r; __udivmoddi4(n, d, &r); return r; }
long long __divdi3(long long a, long long b) {
    int neg = (a < 0) != (b < 0);
    unsigned long long q = __udivmoddi4(a < 0 ? 0ULL - (unsigned long long)a : (unsigned long long)a, b < 0 ? 0ULL - (unsigned long long)b : (unsigned long long)b, NULL);
    return neg ? -(long long)q : (long long)q;
}
long long __moddi3(long long a, long long b) {
    unsigned long long r; __udivmoddi4(a < 0 ? 0ULL - (unsigned long long)a : (unsigned long long)a, b < 0 ? 0ULL - (unsigned long long)b : (unsigned long long)b, &r);
    return a < 0 ? -(long long)r : (long long)r;
}

/* ---------------- numbers ---------------- */
static int digit_of(int c) { if (c >= '0' && c <= '9') return c - '0'; if (c >= 'a' && c <= 'z') return c - 'a' + 10; if (c >= 'A' && c <= 'Z') return c - 'A' + 10; return 99; }
unsigned long long strtoull(const char *s, char **end, int base) {
    const char *p = s; while (*p == ' ' || (*p >= 9 && *p <= 13)) p++;
    int neg = 0; if (*p == '+') p++; else if (*p == '-') { neg = 1; p++; }
    if ((base == 0 || base == 16) && p[0] == '0' && (p[1] == 'x' || p[1] == 'X') && digit_of(p[2]) < 16) { p += 2; base = 16; }
    else if (base == 0) base = (p[0] == '0') ? 8 : 10;
    unsigned long long v = 0; const char *start = p; int over = 0;
    while (digit_of(*p) < base) {
        unsigned long long nv = v * (unsigned)base + (unsigned)digit_of(*p);
        if (v > (0xFFFFFFFFFFFFFFFFULL - (unsigned)digit_of(*p)) / (unsigned)base) over = 1;
        v = nv; p++;
    }
    if (end) *end = (char *)(p == start ? s : p);
    if (over) return 0xFFFFFFFFFFFFFFFFULL;
    return neg ? 0ULL - v : v;
}
long long strtoll(const char *s, char **end, int base) {
    const char *p = s; while (*p == ' ' || (*p >= 9 && *p <= 13)) p++;
    int neg = (*p == '-');
    char *e; unsigned long long v = strtoull(neg || *p == '+' ? p + 1 : p, &e, base);
    if (end) *end = (e == (neg || *p == '+' ? p + 1 : p)) ? (char *)s : e;
    if (neg) return v > 0x8000000000000000ULL ? (long long)0x8000000000000000ULL : -(long long)v;
    return v > 0x7FFFFFFFFFFFFFFFULL ? 0x7FFFFFFFFFFFFFFFLL : (long long)v;
}
unsigned long strtoul(const char *s, char **end, int base) { unsigned long long v = strtoull(s, end, base); return v > 0xFFFFFFFFUL ? 0xFFFFFFFFUL : (unsigned long)v; }
long strtol(const char *s, char **end, int base) { long long v = strtoll(s, end, base); return v > 0x7FFFFFFF ? 0x7FFFFFFF : v < -0x7FFFFFFF - 1 ? -0x7FFFFFFF - 1 : (long)v; }

/* ---------------- formatted output ---------------- */
static void put(char *s, size_t n, size_t *pos, char c) { if (*pos + 1 < n) s[*pos] = c; (*pos)++; }
int vsnprintf(char *s, size_t n, const char *fmt, va_list ap) {
    size_t pos = 0;
    for (; *fmt; fmt++) {
        if (*fmt != '%') { put(s, n, &pos, *fmt); continue; }
        fmt++;
        int left = 0, zero = 0, plus = 0, alt = 0, space = 0;
        for (;; fmt++) { if (*fmt == '-') left = 1; else if (*fmt == '0') zero = 1; else if (*fmt == '+') plus = 1; else if (*fmt == '#') alt = 1; else if (*fmt == ' ') space = 1; else break; }
        int width = 0, prec = -1;
        if (*fmt == '*') { width = va_arg(ap, int); if (width < 0) { left = 1; width = -width; } fmt++; } else while (*fmt >= '0' && *fmt <= '9') width = width * 10 + (*fmt++ - '0');
        if (*fmt == '.') { fmt++; prec = 0; if (*fmt == '*') { prec = va_arg(ap, int); fmt++; } else while (*fmt >= '0' && *fmt <= '9') prec = prec * 10 + (*fmt++ - '0'); }
        int lng = 0;        /* 0 int, 1 long, 2 long long, 3 size_t, -1 short, -2 char */
        for (;; fmt++) { if (*fmt == 'l') lng = lng == 1 ? 2 : 1; else if (*fmt == 'h') lng = lng == -1 ? -2 : -1; else if (*fmt == 'z' || *fmt == 't') lng = 3; else if (*fmt == 'j') lng = 2; else break; }
        char tmp[72]; int tl = 0; const char *str = NULL; char sign = 0; const char *prefix = "";
        char c = *fmt;
        if (!c) break;
        if (c == '%') { put(s, n, &pos, '%'); continue; }
        if (c == 'c') { tmp[0] = (char)va_arg(ap, int); tl = 1; str = tmp; prec = -1; }
        else if (c == 's') { str = va_arg(ap, const char *); if (!str) str = "(null)"; tl = (int)strlen(str); if (prec >= 0 && tl > prec) tl = prec; }
        else if (c == 'd' || c == 'i' || c == 'u' || c == 'x' || c == 'X' || c == 'o' || c == 'p') {
            unsigned long long v; int base = (c == 'x' || c == 'X' || c == 'p') ? 16 : c == 'o' ? 8 : 10;
            if (c == 'p') { v = (unsigned long)va_arg(ap, void *); prefix = "0x"; }
            else if (c == 'd' || c == 'i') {
                long long sv = lng == 2 ? va_arg(ap, long long) : lng == 1 ? va_arg(ap, long) : lng == 3 ? (long long)va_arg(ap, int) : va_arg(ap, int);
                if (lng == -1) sv = (short)sv; else if (lng == -2) sv = (signed char)sv;
                if (sv < 0) { sign = '-'; v = 0ULL - (unsigned long long)sv; } else { v = (unsigned long long)sv; if (plus) sign = '+'; else if (space) sign = ' '; }
            } else {
                v = lng == 2 ? va_arg(ap, unsigned long long) : lng == 1 ? va_arg(ap, unsigned long) : lng == 3 ? va_arg(ap, size_t) : va_arg(ap, unsigned);
                if (lng == -1) v = (unsigned short)v; else if (lng == -2) v = (unsigned char)v;
                if (alt && v && base == 16) prefix = c == 'X' ? "0X" : "0x";
            }
            const char *dg = c == 'X' ? "0123456789ABCDEF" : "0123456789abcdef";
            char rev[70]; int rl = 0;
            if (v == 0 && prec != 0) rev[rl++] = '0';
            while (v) { rev[rl++] = dg[v % (unsigned)base]; v /= (unsigned)base; }
            while (rl < prec && rl < 64) rev[rl++] = '0';
            while (rl) tmp[tl++] = rev[--rl];
            str = tmp;
            if (prec >= 0) zero = 0;
        } else { put(s, n, &pos, '%'); put(s, n, &pos, c); continue; }
        int plen = (int)strlen(prefix) + (sign ? 1 : 0);
        int pad = width - tl - plen; if (pad < 0) pad = 0;
        if (!left && !zero) while (pad-- > 0) put(s, n, &pos, ' ');
        if (sign) put(s, n, &pos, sign);
        for (const char *q = prefix; *q; q++) put(s, n, &pos, *q);
        if (!left && zero) while (pad-- > 0) put(s, n, &pos, '0');
        for (int i = 0; i < tl; i++) put(s, n, &pos, str[i]);
        if (left) while (pad-- > 0) put(s, n, &pos, ' ');
    }
    if (n) s[pos < n ? pos : n - 1] = 0;
    return (int)pos;
}
int snprintf(char *s, size_t n, const char *fmt, ...) { va_list ap; va_start(ap, fmt); int r = vsnprintf(s, n, fmt, ap); va_end(ap); return r; }

/* ---------------- streams ---------------- */
static char out_buf[1 << 16], err_buf[256];
static FILE f_in = {0, NULL, 0, 0, 0, {0}, 0, 0, 0, NULL, NULL}, f_out = {1, out_buf, sizeof(out_buf), 0, 1, {0}, 0, 0, 0, NULL, NULL}, f_err = {2, err_buf, sizeof(err_buf), 0, 1, {0}, 0, 0, 0, NULL, NULL};
FILE *stdin = &f_in, *stdout = &f_out, *stderr = &f_err;
int fflush(FILE *f) {
    if (!f) { flush_all(); return 0; }
    if (f->mem_ptr) { *f->mem_ptr = f->buf; *f->mem_len = f->len; if (f->buf) f->buf[f->len] = 0; return 0; }
    size_t off = 0;
    while (off < f->len) { long w = write(f->fd, f->buf + off, f->len - off); if (w <= 0) break; off += (size_t)w; }
    f->len = 0; return 0;
}
static void flush_all(void) { fflush(stdout); fflush(stderr); }
int fputc(int c, FILE *f) {
    if (f->mem_ptr) {
        if (f->len + 2 > f->cap) { size_t nc = f->cap ? f->cap * 2 : 256; char *p = realloc(f->buf, nc); if (!p) return EOF; f->buf = p; f->cap = nc; }
        f->buf[f->len++] = (char)c; return c;
    }
    if (f->len == f->cap) fflush(f); f->buf[f->len++] = (char)c; if (f == stderr && c == '\n') fflush(f); return c; }
int fputs(const char *s, FILE *f) { while (*s) fputc(*s++, f); return 0; }
int setvbuf(FILE *f, char *buf, int mode, size_t size) { (void)mode; fflush(f); if (buf && size) { f->buf = buf; f->cap = size; } return 0; }
static int vfprintf_(FILE *f, const char *fmt, va_list ap) {
    char small[512]; va_list cp; va_copy(cp, ap);
    int n = vsnprintf(small, sizeof(small), fmt, ap);
    if (n < (int)sizeof(small)) { for (int i = 0; i < n; i++) fputc(small[i], f); }
    else { char *big = malloc((size_t)n + 1); if (big) { vsnprintf(big, (size_t)n + 1, fmt, cp); for (int i = 0; i < n; i++) fputc(big[i], f); free(big); } }
    va_end(cp);
    return n;
}
int fprintf(FILE *f, const char *fmt, ...) { va_list ap; va_start(ap, fmt); int r = vfprintf_(f, fmt, ap); va_end(ap); return r; }
int printf(const char *fmt, ...) { va_list ap; va_start(ap, fmt); int r = vfprintf_(stdout, fmt, ap); va_end(ap); return r; }
void perror(const char *s) { fprintf(stderr, "%s: error\n", s ? s : ""); }
FILE *fopen(const char *path, const char *mode) {
    if (mode[0] != 'r') return NULL;
    long fd = sc3(5, (long)path, 0, 0);
    if (fd < 0) return NULL;
    FILE *f = calloc(1, sizeof(FILE)); if (!f) return NULL;
    f->fd = (int)fd; return f;
}
int fclose(FILE *f) {
    if (!f || f == stdin) return 0;
    if (f->mem_ptr) { fflush(f); free(f); return 0; }
    close(f->fd); free(f); return 0;
}
FILE *open_memstream(char **ptr, size_t *len) {
    FILE *f = calloc(1, sizeof(FILE)); if (!f) return NULL;
    f->fd = -1; f->mem_ptr = ptr; f->mem_len = len; f->cap = 256; f->buf = malloc(256); if (f->buf) f->buf[0] = 0;
    *ptr = f->buf; *len = 0;
    return f;
}
static int getc_(FILE *f) {
    if (f->ipos == f->ilen) { if (f->eof) return EOF; long r = read(f->fd, f->ibuf, sizeof(f->ibuf)); if (r <= 0) { f->eof = 1; return EOF; } f->ilen = (size_t)r; f->ipos = 0; }
    return (unsigned char)f->ibuf[f->ipos++];
}
int getline(char **line, size_t *cap, FILE *f) {
    size_t n = 0;
    for (;;) {
        int c = getc_(f);
        if (c == EOF) break;
        if (n + 2 > *cap) { size_t nc = *cap ? *cap * 2 : 256; char *p = realloc(*line, nc); if (!p) return -1; *line = p; *cap = nc; }
        (*line)[n++] = (char)c;
        if (c == '\n') break;
    }
    if (n == 0) return -1;
    (*line)[n] = 0;
    return (int)n;
}
/* only the one format the harness uses: "%lu:%lu" */
int sscanf(const char *s, const char *fmt, ...) {
    va_list ap; va_start(ap, fmt); int got = 0;
    while (*fmt) {
        if (fmt[0] == '%' && fmt[1] == 'l' && fmt[2] == 'u') {
            char *e; unsigned long v = strtoul(s, &e, 10); if (e == s) break;
            *va_arg(ap, unsigned long *) = v; got++; s = e; fmt += 3;
        } else { if (*s != *fmt) break; s++; fmt++; }
    }
    va_end(ap); return got;
}

/* ---------------- environment and start-up ---------------- */
static char **envp_;
char *getenv(const char *k) {
    size_t n = strlen(k);
    for (char **e = envp_; e && *e; e++) if (!strncmp(*e, k, n) && (*e)[n] == '=') return *e + n + 1;
    return NULL;
}
int main(int argc, char **argv);
void __attribute__((noreturn, used)) mini32_start(long *sp) {
    int argc = (int)sp[0]; char **argv = (char **)(sp + 1);
    envp_ = argv + argc + 1;
    exit(main(argc, argv));
}
__asm__(".globl _start\n_start:\n  xorl %ebp, %ebp\n  movl %esp, %eax\n  andl $-16, %esp\n  subl $12, %esp\n  pushl %eax\n  call mini32_start\n  hlt\n");
/* the stack protector / fortify hooks gcc may reference */
void __stack_chk_fail(void) { abort(); }
void __stack_chk_fail_local(void) { abort(); }
