/* mini32: the few pieces of <stdio.h> the verification harness needs, for a freestanding ILP32 (i386) build - this sandbox has no 32-bit libc */
#ifndef MINI32_STDIO_H
#define MINI32_STDIO_H
#include <stddef.h>
#include <stdarg.h>
typedef struct mini_file { int fd; char *buf; size_t cap, len; int mode; char ibuf[4096]; size_t ipos, ilen; int eof; char **mem_ptr; size_t *mem_len; } FILE;
extern FILE *stdin, *stdout, *stderr;
#define _IOFBF 0
#define EOF (-1)
typedef int ssize_t_mini;
int fprintf(FILE *f, const char *fmt, ...);
int printf(const char *fmt, ...);
int snprintf(char *s, size_t n, const char *fmt, ...);
int vsnprintf(char *s, size_t n, const char *fmt, va_list ap);
int fputc(int c, FILE *f);
int fputs(const char *s, FILE *f);
int fflush(FILE *f);
int setvbuf(FILE *f, char *buf, int mode, size_t size);
FILE *fopen(const char *path, const char *mode);
int fclose(FILE *f);
FILE *open_memstream(char **ptr, size_t *len);
int getline(char **line, size_t *cap, FILE *f);
int sscanf(const char *s, const char *fmt, ...);
void perror(const char *s);
#endif
