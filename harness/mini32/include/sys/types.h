#ifndef MINI32_TYPES_H
#define MINI32_TYPES_H
typedef int pid_t; typedef int ssize_t;
#endif
