#ifndef MINI32_WAIT_H
#define MINI32_WAIT_H
#include <sys/types.h>
pid_t waitpid(pid_t pid, int *status, int options);
#define WIFEXITED(s) (((s) & 0x7f) == 0)
#define WEXITSTATUS(s) (((s) >> 8) & 0xff)
#define WIFSIGNALED(s) (((s) & 0x7f) != 0 && ((s) & 0x7f) != 0x7f)
#define WTERMSIG(s) ((s) & 0x7f)
#endif
