#ifndef MINI32_CTYPE_H
#define MINI32_CTYPE_H
static inline int isspace(int c) { return c == ' ' || (c >= 9 && c <= 13); }
static inline int isdigit(int c) { return c >= '0' && c <= '9'; }
static inline int isxdigit(int c) { return isdigit(c) || (c >= 'a' && c <= 'f') || (c >= 'A' && c <= 'F'); }
static inline int tolower(int c) { return (c >= 'A' && c <= 'Z') ? c + 32 : c; }
#endif
