#ifndef MINI32_STRING_H
#define MINI32_STRING_H
#include <stddef.h>
void *memcpy(void *d, const void *s, size_t n); void *memmove(void *d, const void *s, size_t n); void *memset(void *d, int c, size_t n);
int memcmp(const void *a, const void *b, size_t n); size_t strlen(const char *s); int strcmp(const char *a, const char *b);
int strncmp(const char *a, const char *b, size_t n); char *strchr(const char *s, int c); char *strtok(char *s, const char *delim);
char *strdup(const char *s);
#endif
