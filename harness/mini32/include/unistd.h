#ifndef MINI32_UNISTD_H
#define MINI32_UNISTD_H
#include <stddef.h>
#include <sys/types.h>
pid_t fork(void); long read(int fd, void *buf, size_t n); long write(int fd, const void *buf, size_t n); int close(int fd);
void _exit(int c) __attribute__((noreturn));
#endif
