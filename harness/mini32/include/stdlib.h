#ifndef MINI32_STDLIB_H
#define MINI32_STDLIB_H
#include <stddef.h>
void *malloc(size_t n); void *calloc(size_t a, size_t b); void *realloc(void *p, size_t n); void free(void *p);
void exit(int c) __attribute__((noreturn)); void abort(void) __attribute__((noreturn)); void _exit(int c) __attribute__((noreturn));
char *getenv(const char *k);
unsigned long long strtoull(const char *s, char **end, int base); long long strtoll(const char *s, char **end, int base);
unsigned long strtoul(const char *s, char **end, int base); long strtol(const char *s, char **end, int base);
#endif
