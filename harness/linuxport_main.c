/* E-linuxport: the REAL os/linux/lltd_port.c getters on interface records read from stdin.
 * line: <mac hex12> <MTU> <ifType> <LinkSpeed> <MediumType> <flags> <junk>   (decimal u32; junk seeds the content of every
 *       OTHER field of the record - interface class, indices, socket, session fields - which the property says must not matter)
 * out : rec mac=<hex> mtu=<n> iftype=<n> speed=<n> flags=<n>            (what the port supplies to the core) */
#include <stdio.h>
#include <stdlib.h>
#include <string.h>

#include "lltdPort.h"
#include "daemon/linux-main.h"

lltd_global_info_t globalInfo;

int main(void) {
    char mac[64]; unsigned long mtu, ift, spd, med, fl, junk;
    while (scanf("%63s %lu %lu %lu %lu %lu %lu", mac, &mtu, &ift, &spd, &med, &fl, &junk) == 7) {
        network_interface_t ni; memset(&ni, 0, sizeof(ni));
        if (junk) {
            /* every byte of the record from a small generator, then the pointers made harmless and the class one of the five (or not) */
            uint32_t x = (uint32_t)junk * 2654435761u + 12345u;
            for (size_t i = 0; i < sizeof(ni); i++) { x = x * 1664525u + 1013904223u; ((uint8_t *)&ni)[i] = (uint8_t)(x >> 24); }
            ni.seeList = NULL; ni.recvBuffer = NULL; ni.enumerationAutomata = NULL;
            ni.interfaceType = (junk % 8 < 5) ? (int)(junk % 8) : ni.interfaceType;
        }
        ni.deviceName = "verif0";
        for (int i = 0; i < 6; i++) { unsigned b; sscanf(mac + 2 * i, "%2x", &b); ni.macAddress[i] = (uint8_t)b; }
        ni.MTU = (uint32_t)mtu; ni.ifType = (uint32_t)ift; ni.LinkSpeed = (uint32_t)spd; ni.MediumType = (uint32_t)med; ni.flags = (uint32_t)fl;
        ethernet_address_t m; memset(&m, 0, sizeof(m));
        size_t omtu = 0; uint32_t oift = 0, ospd = 0;
        int r1 = lltd_port_get_mac_address(&ni, &m);
        int r2 = lltd_port_get_mtu(&ni, &omtu);
        int r3 = lltd_port_get_if_type(&ni, &oift);
        int r4 = lltd_port_get_link_speed_100bps(&ni, &ospd);
        uint32_t ofl = lltd_port_get_characteristics_flags(&ni);
        printf("rec mac=");
        for (int i = 0; i < 6; i++) printf("%02x", m.a[i]);
        printf(" mtu=%zu iftype=%u speed=%u flags=%u rc=%d%d%d%d\n", omtu, oift, ospd, ofl, r1, r2, r3, r4);
    }
    return 0;
}
