"""C08 — large properties by offset"""
from . import frames as F
from .c02 import project

PROP = 'C08'
PREDICATE = 'C08'
LEAN_TARGETS = ['LLTD.Props.C08', 'LLTD.Props.C08H', 'LLTD.Props.C08T']
VARIANT = 'plain'
RULE = ('QueryLargeTlv requests with data sizes and offsets at {0,1,P-1,P,P+1,2P-1,2P,2P+1,size-1,size,size+1,65535} (P = MTU-34), property '
        'types 0..255 (dense on 0x0E/0x11/0x13), sequence number 0 and non-zero, MTU in {576,1500,9216}, icon / friendly name / hardware id '
        'present, empty and unavailable, icon replaced right before a Reset; plus end-to-end reassembly walks (offset advanced by the returned '
        'length until more clears); thorough: every (size, offset) pair of a grid for MTU 576; non-trivial = a response with a payload; '
        'distinct = distinct projected transcript')
ASSUMPTIONS = ['port contract as for C02 incl. icon/friendly-name (ptr,size) consistency', 'a hardware identifier is a UCS-2LE string (<= 64 bytes, no embedded NUL); others are generated but unconstrained']


def blob(rng, size):
    return 'gen:%d:%d' % (size, rng.randrange(1000)) if size > 0 else '-'


def cases(rng, tier, X):
    n = 250 if tier == 'quick' else 15000
    out = []
    for k in range(n):
        mtu = rng.choice([576, 1500, 9216])
        P = mtu - 34
        size = rng.choice([0, 1, P - 1, P, P + 1, 2 * P - 1, 2 * P, 2 * P + 1, 3 * P + 7, 32768, rng.randrange(0, 32769)])
        size = min(size, 32768)
        own = F.OWN
        mapper = rng.choice(F.STATIONS)
        eth = rng.choice([None, None, rng.choice(F.STATIONS)])
        hw = rng.choice(['-', '4100', '410042004300', '41004200000043004400', '00', 'ab' * 64, 'cd' * 63, '4100' * 32, '4100' * 40] + F.HWIDS)
        ops = [F.iface_line(0, mac=own, mtu=mtu), F.glob_line(icon=rng.choice([blob(rng, size), 'none']), fname=rng.choice([blob(rng, min(size, 3000)), 'none', '-']), hwid=hw)]
        ops.append('rx 0 ' + F.discover(mapper, 1, 1, eth_src=eth))
        offs = [0, 1, P - 1, P, P + 1, 2 * P - 1, 2 * P, 2 * P + 1, max(size - 1, 0), size, size + 1, 65535]
        for _ in range(rng.randint(3, 14)):
            ty = rng.choice([0x0e, 0x0e, 0x11, 0x13, 0x0e, 0x12, 0x14, 0, rng.randrange(256)])
            off = min(rng.choice(offs + [rng.randrange(65536)]), 65535)
            who = mapper if rng.random() < 0.8 else rng.choice(F.STATIONS)      # also requests from a station that is not the active mapper
            ops.append('rx 0 ' + F.qltlv(who, own, rng.choice([1, 0x0100, 0xffff, 0, rng.randrange(1, 65536)]), ty, off, eth_src=rng.choice([eth, eth, None, rng.choice(F.STATIONS)]), tos=rng.choice([0, 0, 1])))
        # reassembly walk on the icon and the friendly name
        for ty, sz in ((0x0e, size), (0x11, min(size, 3000))):
            off = 0
            while off <= sz and off <= 65535:
                ops.append('rx 0 ' + F.qltlv(mapper, own, 77, ty, off, eth_src=eth))
                off += P
        if rng.random() < 0.5:
            ops.append('glob icon=%s' % blob(rng, rng.choice([5, 700, size])))
            if rng.random() < 0.7:
                ops.append('rx 0 ' + F.reset(mapper))
                ops.append('rx 0 ' + F.discover(mapper, 1, 1, eth_src=eth))
            ops.append('rx 0 ' + F.qltlv(mapper, own, 5, 0x0e, 0, eth_src=eth))
            ops.append('rx 0 ' + F.qltlv(mapper, own, 6, 0x0e, 3, eth_src=eth))
        if rng.random() < 0.3 and mtu > 576:
            # the interface MTU is lowered in the middle of a walk (the receive buffer keeps its size); the remaining chunks must fit the new MTU
            ops.append('rx 0 ' + F.qltlv(mapper, own, 80, 0x0e, 0, eth_src=eth))
            m2 = rng.choice([576, 576, mtu // 2, mtu - 1])
            m2 = max(576, m2)
            ops.append('set 0 mtu=%d' % m2)
            off = P
            while off <= size + (m2 - 34) and off <= 65535:
                ops.append('rx 0 ' + F.qltlv(mapper, own, 81, 0x0e, off, eth_src=eth))
                off += m2 - 34
        out.append(('l%d' % k, ops))
    if tier == 'thorough':
        mtu, P = 576, 542
        for size in list(range(0, 1200)) + [1625, 1626, 1627, 32768]:
            ops = [F.iface_line(0, mtu=mtu), F.glob_line(icon=blob(rng, size)), 'rx 0 ' + F.discover(F.STATIONS[0], 1, 1)]
            for off in list(range(0, min(size + 3, 1210), 1 if size < 200 else 37)) + [P - 1, P, P + 1, 65535]:
                ops.append('rx 0 ' + F.qltlv(F.STATIONS[0], F.OWN, 9, 0x0e, off))
            out.append(('grid%d' % size, ops))
    # small scope, exhaustively: every frame sequence up to length 2 (thorough: 3) over the 23-symbol alphabet of frames.alphabet()
    out += F.small_scope(2 if tier == 'quick' else 3)
    # one kind of event repeated hundreds / thousands of times (counters wrapping, thresholds, budgets), then ordinary traffic
    out += F.soak_cases(rng, tier)
    # universal traffic (every frame type / sender / path / service / boundary value, 1..3 interfaces): this check's predicate on it
    for k in range(150 if tier == 'quick' else 6000):
        out.append(('u%d' % k, F.universal(rng)))
    return out


def nontrivial(ops, impl):
    return any(l.startswith('tx ') and l.split()[2][34:36] == '0c' and len(l.split()[2]) > 68 for l in impl)


def classify(ops, impl):
    more = any(l.startswith('tx ') and l.split()[2][34:36] == '0c' and int(l.split()[2][64:66], 16) >= 0x80 for l in impl)
    return ['with_more_flag' if more else 'final_chunks_only']
