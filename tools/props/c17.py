"""C17 — interfaces are isolated: sequential interleavings (correspondence) + thread clause (schedule replay)"""
import os
import re
import subprocess

import vlib
from . import frames as F
from .c02 import attrs, history

PROP = 'C17'
PREDICATE = None
LEAN_TARGETS = ['LLTD.Props.C17']
VARIANT = 'plain'
RULE = ('pairs of histories (h1, h2) on two interface contexts with different attributes: a seeded random merge of the two, and each history '
        'alone (the other context created but silent); the per-interface transmit/sleep traces of the merge are compared with the '
        'solo runs; both orders of the first frames occur; pairs where one interface holds ~1000 unreported observations while the other records and reports its own; plus (thread clause, steady state) two threads each serving a full session on its own existing interface under ThreadSanitizer with a port that shares no mutable object; (daemon level) the real linux-embedded-main.c and linux-main.c with the real Linux port on scripted interfaces under ASan and TSan, per-interface traces compared with the model; (thread clause, first frame) the six schedules of two threads at the hook points of '
        'lltd_state_for_iface replayed on the real code; non-trivial = both interfaces transmitted; distinct = distinct projected transcript')
ASSUMPTIONS = ['port contract as for C02', 'no faults; process-wide attributes (host name, icon, ...) constant during the run',
               'thread clause: sequential consistency at the granularity of the two hook points; the C11 data-race verdict itself is only observed by TSan']


def project(lines):
    return [l for l in lines if l.startswith(('#', 'tx', 'sleep', 'abort', 'fault', 'bad-op', 'st ', 'obs '))]


def cases(rng, tier, X):
    n = 100 if tier == 'quick' else 8000
    out = []
    for k in range(n):
        m0, m1 = rng.choice([576, 1500]), rng.choice([576, 1500])
        head = [F.iface_line(0, mac=F.OWN, mtu=m0, **attrs(rng)), F.iface_line(1, mac=F.OWN2, mtu=m1, **attrs(rng)),
                F.glob_line(icon=rng.choice(['none', 'gen:800:1']), fname='4100', hwid='41004200')]
        h0 = ['rx 0 %s zero' % f for f in history(rng, F.OWN, m0)]
        h1 = ['rx 1 %s zero' % f for f in history(rng, F.OWN2, m1)]
        merged = []
        i = j = 0
        while i < len(h0) or j < len(h1):
            if j >= len(h1) or (i < len(h0) and rng.random() < 0.5):
                merged.append(h0[i]); i += 1
            else:
                merged.append(h1[j]); j += 1
        out.append(('m%d_merged' % k, head + merged))
        out.append(('m%d_solo0' % k, head + h0))
        out.append(('m%d_solo1' % k, head + h1))
    # universal traffic on two interfaces (every frame type / sender / path / service, Emits naming the other interface's address, ...)
    for k in range(40 if tier == 'quick' else 4000):
        u = F.universal(rng, nif=2, with_glob_changes=False)      # 15 % of them: both contexts report the same hardware address
        head = [o for o in u if o.startswith(('iface', 'glob'))]
        # the merged history keeps the attribute changes of each interface, the clock steps and the frames one interface's
        # thread handles while the other one sleeps inside the core (`nest`); each solo history is that interface's part of it
        body = [o for o in u if o.startswith(('rx ', 'set ', 'nest ', 'clock '))]
        if not any(o.startswith('nest ') for o in body) and rng.random() < 0.5:
            body = F.with_nesting(rng, body)

        def solo(i):
            s = []
            for o in body:
                w = o.split()
                if w[0] in ('rx', 'set') and w[1] == str(i):
                    s.append(o)
                elif w[0] == 'nest' and w[1] == str(i):
                    s.append('rx ' + ' '.join(w[1:-1]))
            return s
        out.append(('u%d_merged' % k, head + body))
        out.append(('u%d_solo0' % k, head + solo(0)))
        out.append(('u%d_solo1' % k, head + solo(1)))
    # a host with many interfaces (VLAN sub-interfaces, container veths): every one of 9 / 17 / 20 contexts alone and all interleaved
    for k in range(5 if tier == 'quick' else 60):
        nif = [9, 17, 20, 34, 67][k % 5]
        u = F.universal(rng, nif=nif, with_glob_changes=False)
        head = [o for o in u if o.startswith(('iface', 'glob'))]
        body = [o for o in u if o.startswith(('rx ', 'set '))]
        out.append(('many%d_merged' % k, head + body))
        for i in range(nif):
            out.append(('many%d_solo%d' % (k, i), head + [o for o in body if o.split()[1] == str(i)]))
    # resource cross-talk: interface 0 holds close to the cap of unreported observations while interface 1 records and reports its own
    for k in range(2 if tier == 'quick' else 40):
        head = [F.iface_line(0, mac=F.OWN, mtu=1500), F.iface_line(1, mac=F.OWN2, mtu=1500), F.glob_line()]
        m = F.STATIONS[0]
        n0 = rng.choice([1000, 1023, 1024, 900])
        n1 = rng.choice([100, 30, 200])
        h0 = ['rx 0 %s zero' % F.discover(m, 1, 1)] + ['rx 0 %s zero' % F.probe('02f0%02x%02x%04x' % (k, i >> 8, i & 0xffff), F.OWN, F.rand_mac(rng), F.OWN) for i in range(n0)]
        h1 = (['rx 1 %s zero' % F.discover(m, 1, 1)] + ['rx 1 %s zero' % F.probe('02f1%02x%02x%04x' % (k, i >> 8, i & 0xffff), F.OWN2, F.rand_mac(rng), F.OWN2) for i in range(n1)]
              + ['rx 1 %s zero' % F.query(m, F.OWN2, 7 + q) for q in range(4)])
        tail0 = ['rx 0 %s zero' % F.query(m, F.OWN, 9)]
        out.append(('x%d_merged' % k, head + h0 + h1 + tail0))
        out.append(('x%d_solo0' % k, head + h0 + tail0))
        out.append(('x%d_solo1' % k, head + h1))
    return out


def nontrivial(ops, impl):
    return any(l.startswith('tx 0 ') for l in impl) and any(l.startswith('tx 1 ') for l in impl)


def classify(ops, impl):
    return ['merged' if any(o.startswith('rx 0') for o in ops) and any(o.startswith('rx 1') for o in ops) else 'solo']


def per_iface(lines, i):
    out = []
    cur = None
    for l in lines:
        if l.startswith('# rx '):
            cur = l.split()[2]
            if cur == str(i):
                out.append(l)
        elif l.startswith('# '):
            cur = None
        elif cur == str(i) and l.startswith(('tx', 'sleep', 'txfail')):
            out.append(l)
    return out


def extra_predicate(cases, impl):
    bad = {}
    for cid, ops in cases:
        if cid.endswith('_merged'):
            base = cid[:-7]
            i = -1
            while ('%s_solo%d' % (base, i + 1)) in impl:
                i += 1
                a = per_iface(impl.get(cid, []), i)
                b = per_iface(impl.get('%s_solo%d' % (base, i), []), i)
                if a != b:
                    j = next((x for x in range(min(len(a), len(b))) if a[x] != b[x]), min(len(a), len(b)))
                    bad[cid] = (0, 'C17: the trace of interface %d differs between the interleaved run and the run of its history alone, at %r vs %r'
                                % (i, (a + ['<end>'])[j][:100], (b + ['<end>'])[j][:100]))
    return bad


SCHEDULES = ['AABB', 'ABAB', 'ABBA', 'BAAB', 'BABA', 'BBAA']


def extra_run(tier, seed, tag):
    """thread clause: replay the six schedules of the two-segment insertion on the REAL code (hook-driven), compare
    with the model's prediction (Race.lean), and report lost interface state; TSan run as supporting evidence"""
    out = {'violations': [], 'notes': [], 'coverage': {}}
    core = os.path.join(vlib.REPO, 'lltdResponder')
    h = os.path.join(vlib.VERIF, 'harness')
    bdir = os.path.join(vlib.BUILD, tag, 'race')
    os.makedirs(bdir, exist_ok=True)
    srcs = [os.path.join(core, f) for f in ('lltdBlock.c', 'lltdTlvOps.c', 'lltdWire.c', 'lltdAutomata.c')] + [os.path.join(h, 'vport.c'), os.path.join(h, 'race_main.c')]
    base = ['gcc', '-std=gnu11', '-O1', '-g', '-w', '-D_GNU_SOURCE', '-DD3VI1_LLTDRESPONDER_VERIF', '-I' + core, '-I' + h]
    r = vlib.run(base + srcs + ['-lpthread', '-o', os.path.join(bdir, 'race')])
    if r.returncode != 0:
        out['notes'].append('race harness does not build (is the schedule hook still in lltd_state_for_iface?): ' + r.stdout[-600:])
        return out
    results = {}
    for s in SCHEDULES:
        try:
            rr = vlib.run([os.path.join(bdir, 'race'), s], timeout=20)
            line = rr.stdout.strip().split('\n')[-1] if rr.stdout.strip() else ''
        except subprocess.TimeoutExpired:
            line = 'sched %s TIMEOUT (schedule not realisable: hook points moved?)' % s
        m = re.search(r'stranger_answered_if0=(\d) stranger_answered_if1=(\d)', line)
        impl_lost = [i for i in (0, 1) if m and m.group(i + 1) == '1'] if m else None
        mr = vlib.run([vlib.DRIVER, 'race', s])
        mm = re.search(r'lost=\[([0-9, ]*)\]', mr.stdout)
        model_lost = [int(x) for x in mm.group(1).split(',') if x.strip()] if mm else None
        results[s] = {'implementation': line, 'impl_lost': impl_lost, 'model_lost': model_lost}
        if impl_lost is None:
            out['notes'].append('thread clause: schedule %s could not be replayed: %s' % (s, line))
        else:
            if impl_lost != model_lost:
                out['notes'].append('thread clause: schedule %s: implementation lost %s, model predicts %s' % (s, impl_lost, model_lost))
            if impl_lost:
                out['violations'].append(('race_' + s, ['race ' + s],
                                          (0, 'C17 thread clause: lost-update at lltd_state_for_iface under schedule %s: the state of interface %s is lost '
                                              '(a stranger\'s Discover is answered although a mapper was active; the orphaned record leaks)' % (s, impl_lost))))
    # supporting evidence: ThreadSanitizer on one racing schedule
    tsan = 'not run'
    r = vlib.run(base + ['-fsanitize=thread'] + srcs + ['-lpthread', '-o', os.path.join(bdir, 'race_tsan')])
    if r.returncode == 0:
        env = dict(os.environ, TSAN_OPTIONS='halt_on_error=0:report_signal_unsafe=0')
        try:
            tr = subprocess.run([os.path.join(bdir, 'race_tsan'), 'FREE'], stdout=subprocess.PIPE, stderr=subprocess.STDOUT, text=True, timeout=60, env=env)
            n = tr.stdout.count('WARNING: ThreadSanitizer: data race')
            core_hits = len(re.findall(r'lltdBlock\.c', tr.stdout))
            tsan = '%d data-race reports (threads released together by a barrier, no schedule hook), %d frames in lltdBlock.c' % (n, core_hits)
        except subprocess.TimeoutExpired:
            tsan = 'timeout'
    # steady state: both records exist, each thread serves a full session on its own interface; the port is built with
    # thread-local state (-DVP_TL=__thread), so any ThreadSanitizer report is a data race inside the core
    steady = 'not run'
    r = vlib.run(base + ['-fsanitize=thread', '-DVP_TL=__thread'] + srcs + ['-lpthread', '-o', os.path.join(bdir, 'race_tsan_steady')])
    if r.returncode == 0:
        env = dict(os.environ, TSAN_OPTIONS='halt_on_error=0:report_signal_unsafe=0')
        runs = 2 if tier == 'quick' else 10
        reports = []
        for k in range(runs):
            try:
                tr = subprocess.run([os.path.join(bdir, 'race_tsan_steady'), 'STDY'], stdout=subprocess.PIPE, stderr=subprocess.STDOUT, text=True, timeout=120, env=env)
            except subprocess.TimeoutExpired:
                reports.append('timeout'); continue
            if 'sched STDY done' not in tr.stdout:
                reports.append('steady-state run died: ' + tr.stdout[-400:])
            for blk in tr.stdout.split('WARNING: ThreadSanitizer: data race')[1:]:
                m = re.search(r'#0 (\S+) (\S+?):(\d+)', blk)
                reports.append('data race in %s (%s:%s)' % (m.group(1), os.path.basename(m.group(2)), m.group(3)) if m else 'data race')
        steady = '%d runs, %d reports' % (runs, len(reports))
        if reports:
            first = sorted(set(reports))[0]
            out['violations'].append(('race_steady', ['race STDY  # build harness/race_main.c + vport.c with -fsanitize=thread -DVP_TL=__thread and run it with argument STDY'],
                                      (0, 'C17 thread clause: %s while two threads serve two existing interfaces (steady state; %d reports, distinct: %s)'
                                          % (first, len(reports), '; '.join(sorted(set(reports))[:4])))))
    else:
        out['notes'].append('steady-state TSan harness does not build: ' + r.stdout[-400:])
    out['coverage'] = {'thread_schedules': results, 'tsan_supporting_run': tsan, 'tsan_steady_state': steady}
    out['coverage']['daemon_level'] = daemon_clause(tier, seed, tag, out)
    return out


def daemon_clause(tier, seed, tag, out):
    """the REAL Linux daemons as a whole (their own interface discovery, their own threads, the real Linux port) on
    scripted interfaces: per-interface traces must equal the model's trace of that interface's history alone; ASan / TSan
    reports inside the daemon glue are violations"""
    import random
    import daemonlib as D
    from .c02 import history
    rng = random.Random(seed * 31 + 7)
    work = os.path.join(vlib.BUILD, tag, 'daemon', 'run')
    cov = {}
    for which in ('embedded', 'nm'):
        for variant in ('asan', 'tsan'):
            b, err = D.build(tag, which, variant)
            key = '%s_%s' % (which, variant)
            if not b:
                out['notes'].append('daemon harness (%s) does not build against the working tree: %s' % (key, err[-300:]))
                cov[key] = 'build failed'
                continue
            n = (3 if variant == 'asan' else 2) if tier == 'quick' else (60 if variant == 'asan' else 15)
            ran = diffs = reports = known_race = 0
            for k in range(n):
                nif = rng.choice([2, 2, 3])
                ifaces = [('vif%d' % i, '02aabbccdd%02x' % (i + 1), rng.choice([576, 1500, 1492, 4000]), 'c0a801%02x' % (5 + i)) for i in range(nif)]
                frames = []
                for i, (_, mac, mtu, _) in enumerate(ifaces):
                    for f in history(rng, mac, mtu)[:40]:
                        frames.append((i, f))
                label = '%s_%d' % (key, k)
                impl, san, rc, sp = D.run(b, D.script(ifaces, frames), work, label)
                ran += 1
                replay = ['%% daemon-level run: harness/build_daemon.sh <dir> %s %s ; <dir>/daemon_%s_%s <this file>' % (which, variant, which, variant)] + ['%d ' + l for l in D.script(ifaces, frames)]
                if impl is None:
                    out['violations'].append(('daemon_' + label, replay, (0, 'C17 daemon level (%s): the daemon did not finish serving the scripted frames (%s)' % (key, san))))
                    continue
                if variant == 'tsan':
                    # reports of the known finding (unsynchronised insertion in lltd_state_for_iface and the record it publishes) are not new
                    blocks = san.split('WARNING: ThreadSanitizer: data race')[1:]
                    new_blocks = [b for b in blocks if 'lltd_state_for_iface' not in '\n'.join(b.split('\n')[:14]) and 'SignalHandler' not in b]   # the shutdown flag (volatile sig_atomic_t) is not interface state
                    known_race += len(blocks) - len(new_blocks)
                    summ = D.sanitizer_summary('WARNING: ThreadSanitizer: data race' + new_blocks[0]) if new_blocks else None
                else:
                    summ = D.sanitizer_summary(san)
                if summ:
                    reports += 1
                    out['violations'].append(('daemon_' + label, replay, (0, 'C17 daemon level (%s, %d interfaces served by the daemon\'s own threads): %s' % (key, nif, summ))))
                    continue
                if rc not in (0,) and variant == 'asan':
                    out['violations'].append(('daemon_' + label, replay, (0, 'C17 daemon level (%s): the daemon process ended abnormally (exit %s) %s' % (key, rc, san[-300:]))))
                    continue
                if variant == 'asan':
                    ops = D.model_ops(ifaces, frames, 0xbe)
                    model, bad = D.model_run(ops, work, label)
                    d = D.compare(ifaces, impl, model)
                    if bad:
                        out['notes'].append('daemon level: the model driver rejected an op of %s' % label)
                    if d:
                        diffs += 1
                        out['violations'].append(('daemon_' + label, replay + ['% model ops:'] + ['% ' + o for o in ops],
                                                  (0, 'C17 daemon level (%s): what the daemon sent on interface %d differs from the model\'s trace of that interface\'s history alone at line %d: %r vs %r' % ((key,) + d))))
            cov[key] = '%d runs, %d trace differences, %d sanitizer reports%s' % (ran, diffs, reports, (', %d reports of the known insertion race' % known_race) if variant == 'tsan' else '')
    return cov
