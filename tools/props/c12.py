"""C12 — periodic Hellos: random schedules of tick / clock / table / band / enumeration / mapping operations"""
from .common import ident

from . import auto

PROP = 'C12'
PREDICATE = 'C12'
LEAN_TARGETS = ['LLTD.Props.C12', 'LLTD.Props.C12T']
VARIANT = 'plain'
RULE = ('seeded random schedules (length 50..500) over one interface: tick (port wired as the Darwin daemon does), clock advance '
        '0..120000 ms (dense at 99/100/999/1000/1001), session add/refresh/complete/remove/clear, Hello heard, the direct field '
        'writes of the Darwin glue (begun, complete, init+choose), enumeration events, mapping events and the inactivity deadline; '
        'half of the schedules replay the documented per-frame flow (Discover/Hello/Reset/other frames followed by a tick); '
        'non-trivial = at least one periodic Hello was sent; distinct = distinct projected transcript')
ASSUMPTIONS = ['the last-transmit time stamp is written only by automata_tick (Darwin wiring: port.last_hello_tx_ms = &iface->LastHelloTxMs)',
               'the clock is non-decreasing and seconds = floor(ms / 1000)']
project = ident

MACS = ['020000000011', '020000000012', '020000000013']


def glue_frame(rng, ops, kind):
    """the documented Darwin per-frame flow, expressed in protocol ops"""
    if kind == 'discover':
        m, g = rng.choice(MACS), rng.choice([1, 2])
        ack = rng.random() < 0.4
        ops.append('tbl add 0 %s %d %d' % (m, g, rng.choice([1, 2])))
        ops.append('tbl touch 0 %s %d %d' % (m, g, 3 if ack else 2))
        if ack:
            ops.append('tbl complete 0 %s %d' % (m, g))
        else:
            ops.append('tbl update 0')
        ops.append('fsm step 0 0')
        ops.append('map resetinact 0')
        ops.append('GLUE_DISCOVER')          # expanded below: depends on enumeration state, so both arms are generated
    elif kind == 'hello':
        ops.append('fsm step 0 1')
        ops.append('map resetinact 0')
        ops.append('band heard 1')
        ops.append('fsm step 1 2')
    elif kind == 'reset':
        ops.append('tbl clear 0')
        ops.append('fsm step 0 8')
        ops.append('map resetinact 0')
    else:
        ops.append('fsm step 0 %d' % rng.choice([2, 4, 6, 11, 9, 3]))
        ops.append('map resetinact 0')


def schedule(rng, n, flow):
    ops = ['fsm new 0 map', 'fsm new 1 enum', 'tbl new 0', 'clock %d' % rng.choice([0, 1, 5000, 5000, 2**32 - 700, 2**32 + 5000, 2**40 + 123])]
    for _ in range(n):
        c = rng.random()
        if c < 0.30:
            ops.append('tick 0 1 0 wired')
        elif c < 0.55:
            ops.append('clock %d' % rng.choice([0, 1, 6, 99, 100, 101, 120, 299, 300, 301, 999, 1000, 1001, 1100, 5000, 30000, 61000, 120000,
                                                rng.randint(0, 2000), rng.randint(0, 120000)]))
        elif flow:
            glue_frame(rng, ops, rng.choice(['discover', 'discover', 'hello', 'hello', 'reset', 'other']))
            ops.append('tick 0 1 0 wired')
        elif c < 0.63:
            ops.append('tbl add 0 %s %d %d' % (rng.choice(MACS), rng.choice([1, 2]), rng.choice([1, 2])))
        elif c < 0.68:
            ops.append('tbl complete 0 %s %d' % (rng.choice(MACS), rng.choice([1, 2])))
        elif c < 0.71:
            ops.append('tbl remove 0 %s %d' % (rng.choice(MACS), rng.choice([1, 2])))
        elif c < 0.73:
            ops.append('tbl clear 0')
        elif c < 0.80:
            ops.append('band heard 1')
        elif c < 0.84:
            ops.append(rng.choice(['band init 1', 'band choose 1', 'band begun 1', 'band dohello 1', 'band update 1']))
        elif c < 0.92:
            ops.append('fsm step 1 %d' % rng.choice([0, 1, 2, 3, 3, 3]))
        elif c < 0.96:
            ops.append('fsm step 0 %d' % rng.choice([0, 2, 8, 4]))
        else:
            ops.append('map resetinact 0')
    # expand the enumeration arm of the Discover flow both ways (the harness cannot branch; the arm taken by the
    # real glue depends on the enumeration state, and the property must hold for either)
    out = []
    for o in ops:
        if o == 'GLUE_DISCOVER':
            if rng.random() < 0.5:
                out += ['band init 1', 'band choose 1']
            else:
                out += ['band begun 1']
            out.append('fsm step 1 3')
        else:
            out.append(o)
    return out


def cases(rng, tier, X):
    n = 300 if tier == 'quick' else 30000
    out = [('sch%d' % k, schedule(rng, rng.randint(50, 500 if tier == 'thorough' else 250), k % 2 == 0)) for k in range(n)]
    # the daemon's steady beat from a given clock origin (0 = a clock counted from process start): the Discover flow early in the
    # FIRST second, then a tick every 100 ms (sometimes 50 / 250), Hellos heard and further Discovers in between
    for k in range(40 if tier == 'quick' else 3000):
        ops = ['fsm new 0 map', 'fsm new 1 enum', 'tbl new 0']
        origin = rng.choice([0, 0, 0, 1, 150, 700, 999, 1000, 5000, 2**32 - 450, 2**32 * 1000 - 300])
        if origin:
            ops.append('clock %d' % origin)
        ops.append('clock %d' % rng.choice([0, 1, 50, 130, 250, 440]))
        pre = []
        glue_frame(rng, pre, 'discover')
        beat = rng.choice([100, 100, 100, 50, 250])
        body = pre + ['tick 0 1 0 wired']
        for i in range(rng.randint(15, 60)):
            body.append('clock %d' % beat)
            r = rng.random()
            if r < 0.08:
                glue_frame(rng, body, 'hello')
            elif r < 0.12:
                glue_frame(rng, body, 'discover')
            body.append('tick 0 1 0 wired' if rng.random() < 0.8 else 'tickj 0 1 0 wired %d %d' % (rng.choice([1, 2]), rng.choice([1, 3, 40, 120])))
        for o in body:
            if o == 'GLUE_DISCOVER':
                ops += rng.choice([['band init 1', 'band choose 1'], ['band begun 1']]) + ['fsm step 1 3']
            else:
                ops.append(o)
        out.append(('beat%d' % k, ops))
    # universal automata schedule (all public calls, missing objects, near-colliding keys, bridged frames, every deadline): this check's predicate on it
    # one kind of call repeated hundreds of times (run lengths, counters, thresholds), then the consequences
    out += auto.soak_cases(rng, tier)
    for k in range(150 if tier == 'quick' else 6000):
        out.append(('au%d' % k, auto.schedule(rng)))
        if k % 3 == 0:
            out.append(('au2_%d' % k, auto.schedule2(rng)))      # two responders in one process, interleaved on the shared clock
    return out


def nontrivial(ops, impl):
    return any(l.startswith('hello ') for l in impl)


def classify(ops, impl):
    h = sum(1 for l in impl if l.startswith('hello '))
    return ['hellos_0' if h == 0 else 'hellos_1_5' if h <= 5 else 'hellos_6plus']
