"""LLTD frame builders for the generators (hex strings)."""
BCAST = 'ffffffffffff'

# what every frame-level check runs next to its targeted cases (appended to the rule text of its evidence)
COMMON_RULE = ('; plus, in every frame-level check: universal traffic (1-3 interfaces, now and then 9 / 17 / 24; every frame type, sender, path, service; attribute, MTU, icon, name '
               'changes between frames; twin and near-colliding addresses; realistic host names / SSIDs; blobs up to 70000 bytes; port conventions failrc / sendok / emptyrep / failsize / memcmprep / align; '
               'clock steps between frames; a second interface handled inside a sleep of the first (nest)), the same with platform faults injected where the predicate is stated for them, '
               'all frame sequences up to length 2 (thorough 3) over a 23-frame alphabet, and soak cases (one kind of event repeated 300-700 times, once 8300, thorough 70000, then ordinary traffic)')


def hx(v, n):
    return ('%0' + str(2 * n) + 'x') % (v & ((1 << (8 * n)) - 1))


def base(tos, op, eth_dst, eth_src, real_dst, real_src, seq, version=1, reserved=0, ethertype=0x88d9):
    return eth_dst + eth_src + hx(ethertype, 2) + hx(version, 1) + hx(tos, 1) + hx(reserved, 1) + hx(op, 1) + real_dst + real_src + hx(seq, 2)


def pad60(f):
    """pad to the Ethernet minimum (60 bytes without FCS)"""
    return f + '00' * max(0, 60 - len(f) // 2)


def discover(mapper, gen, xid, stations=(), tos=0, eth_src=None, declared=None, pad=True, eth_dst=None):
    # eth_dst: an access point that delivers broadcasts as per-station unicast (the real destination stays broadcast)
    f = base(tos, 0, eth_dst or BCAST, eth_src or mapper, BCAST, mapper, xid) + hx(gen, 2) + hx(len(stations) if declared is None else declared, 2) + ''.join(stations)
    return pad60(f) if pad else f


def hello(src, gen, cur, app, tos=0):
    return pad60(base(tos, 1, BCAST, src, BCAST, src, 0) + hx(gen, 2) + cur + app + '0106' + src + '00')


def emit(mapper, own, seq, descs, eth_src=None, declared=None, tos=0, pad=True):
    """descs: list of (kind, pause, src, dst)"""
    body = ''.join(hx(k, 1) + hx(p, 1) + s + d for (k, p, s, d) in descs)
    f = base(tos, 2, own, eth_src or mapper, own, mapper, seq) + hx(len(descs) if declared is None else declared, 2) + body
    return pad60(f) if pad else f


def probe(eth_src, eth_dst, real_src, real_dst, train=False, tos=0):
    return pad60(base(tos, 3 if train else 4, eth_dst, eth_src, real_dst, real_src, 0))


def query(mapper, own, seq, eth_src=None, tos=0):
    return pad60(base(tos, 6, own, eth_src or mapper, own, mapper, seq))


def qltlv(mapper, own, seq, ty, offset, eth_src=None, tos=0):
    return pad60(base(tos, 11, own, eth_src or mapper, own, mapper, seq) + hx(ty, 1) + '00' + hx(offset, 2))


def reset(mapper, own=BCAST, tos=0, eth_src=None):
    return pad60(base(tos, 8, own, eth_src or mapper, own, mapper, 0))


def raw(tos, op, eth_dst, eth_src, real_dst, real_src, seq, payload=''):
    return pad60(base(tos, op, eth_dst, eth_src, real_dst, real_src, seq) + payload)


OWN = '02aabbccdd01'
OWN2 = '02aabbccdd02'
STATIONS = ['020000000011', '020000000012', '020000000013', '030000000011', '020000000111']
# near-collision pool: pairs differing in exactly one byte position
NEAR = [OWN, '03aabbccdd01', '02abbbccdd01', '02aabcccdd01', '02aabbcddd01', '02aabbccde01', '02aabbccdd00', '000000000000', BCAST]
# twins with the high bit set in every byte: equal but for the first byte / the second / the first two / the last (what a key
# folded into an integer, a hash or a prefix / suffix comparison confuses)
HIGH = ['f2e2d3c4b5a6', '02e2d3c4b5a6', 'f212d3c4b5a6', '3cd9d3c4b5a6', 'f2e2d3c4b5a7', 'f2e2d3c4b526']
U16 = [0, 1, 0x00ff, 0x0100, 0x7fff, 0x8000, 0xffff]
# generations: zero, small, byte-reversed pairs, byte palindromes — drawn from a small pool so that they repeat and alternate within one history
GENS = [0, 1, 2, 0x0100, 0x0001, 0x1234, 0x3412, 0x4242, 0x0101, 0xffff, 0x00ff, 0xff00]


def wrap_counts(size):
    """declared counts n for which n * size wraps a 16- or 32-bit product to a small value (n = ceil(k * 2^16 / size), and 2^32)"""
    out = []
    for k in range(1, size):
        n = -(-(k << 16) // size)
        if n < 65536:
            out += [n, n + 1]
    return out


def iface_line(i, mac=OWN, mtu=1500, **kw):
    d = dict(flags=0x2000, iftype=6, ipv4='c0a80105', ipv6='fe80000000000000020000fffe000001', speed=1000000, buf0=0)
    d.update(kw)
    return 'iface %d mtu=%d mac=%s ' % (i, mtu, mac) + ' '.join('%s=%s' % (k, v) for k, v in d.items())


def glob_line(host='6d79686f7374', icon='none', fname='none', hwid='-', hostrep='copied'):
    return 'glob host=%s hostrep=%s icon=%s fname=%s hwid=%s' % (host, hostrep, icon, fname, hwid)


def vlan(f, tci=0x0064, tpid='8100'):
    """the frame as a trunk port / a VLAN-unaware tap delivers it: an 802.1Q (or 802.1ad / legacy QinQ) tag behind the two addresses"""
    return f if f == '-' or len(f) < 24 else f[:24] + tpid + '%04x' % (tci & 0xffff) + f[24:]


def rand_mac(rng):
    return rng.choice(STATIONS + NEAR + HIGH) if rng.random() < 0.7 else ''.join('%02x' % rng.randrange(256) for _ in range(6))


def rand_u16(rng):
    return rng.choice(U16) if rng.random() < 0.6 else rng.randrange(65536)


def session(rng, own, n=None, mtu=1500, stations=None):
    """a mostly valid session of one or more mappers: list of frames (hex)"""
    st = stations or STATIONS
    frames = []
    mapper = rng.choice(st)
    bridged = rng.random() < 0.25
    eth = rng.choice(st) if bridged else None
    gen = rand_u16(rng)
    xid = rng.randrange(1, 65536)
    tos = rng.choice([0, 0, 0, 1])
    frames.append(discover(mapper, gen, xid, [], tos=tos, eth_src=eth))
    for _ in range(n if n is not None else rng.randint(1, 12)):
        c = rng.random()
        seq = rng.randrange(1, 65536)
        if c < 0.15:
            frames.append(discover(rng.choice([mapper, mapper, rng.choice(st)]), rand_u16(rng), rng.randrange(65536), [own] if rng.random() < 0.5 else [], tos=rng.choice([0, 0, 1]), eth_src=eth))
        elif c < 0.25:
            frames.append(hello(rng.choice(st), rand_u16(rng), mapper, mapper, tos=rng.choice([0, 1])))
        elif c < 0.45:
            nd = rng.choice([1, 1, 2, 3, 5])
            frames.append(emit(mapper, own, seq, [(rng.choice([0, 1]), rng.choice([0, 1, 5, 255]), rand_mac(rng), rand_mac(rng)) for _ in range(nd)], eth_src=eth))
        elif c < 0.70:
            frames.append(probe(rand_mac(rng), rng.choice([own, own, BCAST]), rand_mac(rng), rng.choice([own, own, own, rand_mac(rng)]), train=rng.random() < 0.4))
        elif c < 0.82:
            frames.append(query(mapper, own, seq, eth_src=eth))
        elif c < 0.94:
            frames.append(qltlv(mapper, own, rng.choice([seq, seq, 0]), rng.choice([0x0e, 0x11, 0x13, 0x0e, 0x12, rng.randrange(256)]), rng.choice([0, 0, 1, 100, 1466, 1467, 65535, rng.randrange(3000)]), eth_src=eth, tos=rng.choice([0, 0, 1])))
        else:
            frames.append(reset(mapper, tos=rng.choice([0, 0, 1])))
    if rng.random() < 0.6:
        frames.append(reset(mapper, tos=0))
    return frames


def mutate(rng, f):
    """single-field mutation or truncation of a valid frame"""
    b = bytearray.fromhex(f)
    c = rng.random()
    if c < 0.5:
        pos = rng.choice([12, 13, 14, 15, 16, 17, 30, 31, 32, 33, 34, 35, rng.randrange(len(b))])
        if pos < len(b):
            b[pos] = rng.choice([0, 1, 2, 0x7f, 0x80, 0xff, rng.randrange(256)])
    elif c < 0.75:
        b = b[:rng.randrange(len(b) + 1)]
    else:
        b += bytes(rng.randrange(256) for _ in range(rng.randrange(40)))
    return b.hex()


def noise(rng, maxlen):
    n = rng.choice([0, 1, 14, 31, 32, 33, 46, 60, 100, rng.randrange(maxlen + 1)])
    n = min(n, maxlen)
    b = bytearray(rng.randrange(256) for _ in range(n))
    if n > 17 and rng.random() < 0.7:
        b[15] = rng.choice([0, 0, 1, 2]); b[17] = rng.randrange(13)
    return bytes(b).hex() or '-'


# ---------------------------------------------------------------------------------------------------------------
# Universal traffic: every dimension the seeded changes of rounds 1-5 needed, in one generator used by ALL frame-level
# checks next to their targeted cases (each check evaluates its own predicate on it; the specification state folded by
# the predicates takes strangers, bridges, both services and Resets into account).
# ---------------------------------------------------------------------------------------------------------------
IFMACS = [OWN, OWN2, '00005e000001']
BLOBS = ['none', '-', '-', 'gen:5:7', 'gen:300:1', 'gen:542:2', 'gen:543:3', 'gen:3000:4', 'gen:65535:5', 'gen:65536:6', 'gen:70000:7']     # also beyond what a 16-bit length holds
SSIDS = ['linksys', 'default', 'NETGEAR', 'dlink', 'eduroam', 'FRITZ!Box 7590', 'AndroidAP', 'iPhone', 'xfinitywifi', 'DIRECT-roku-123', 'guest', 'home', ' ', 'hidden']
# host names a real network produces (defaults of unconfigured systems, vendor defaults, FQDNs, non-ASCII)
HOSTNAMES = ['localhost', 'localhost.localdomain', '(none)', 'raspberrypi', 'DESKTOP-0A1B2C3', 'WIN-9QK2J3', 'android-1f2e3d4c5b6a', 'ubuntu', 'debian', 'openwrt', 'OpenWrt', 'esp32',
             'MacBook-Pro.local', 'unknown', 'host', 'a', 'nas.example.org', 'b\u00fcro-pc', 'new-host-2', 'linux', 'buildroot', 'archlinux', 'fedora', 'none', 'null', 'NULL', 'default', 'router']
# hardware identifiers (UCS-2LE): ASCII, characters whose LOW byte is zero (U+4E00, U+0100, U+3000), full 64 bytes, an embedded NUL character
HWIDS = ['-', '4100', '41004200430044004500', 'ab' * 64, '4100004e4200', '00014100', '4d006f00640065006c002d004100004e2d003700',
         '4100' * 10 + '0001' + '4200' * 21, '41004200000043004400', '0030']


CLOCK_STEPS = [1, 3, 10, 20, 50, 99, 100, 101, 250, 999, 1000, 1001, 5000, 30000, 61000]


def universal(rng, nif=None, length=None, with_glob_changes=True):
    """ops for 1..3 interfaces of one responder"""
    nif = nif or rng.choice([1, 1, 1, 2, 2, 3, 3, 9, 17, 24, 33, 40, 66, 70][:rng.choice([7, 7, 7, 10, 14])])      # now and then a host with many interfaces (VLANs, containers, a hypervisor)
    clocked = rng.random() < 0.5
    mtus = [rng.choice([576, 576, 1500, 1492, 577 + rng.randrange(40), 9216]) for _ in range(nif)]
    macs = (IFMACS + ['02aabbcc%02x%02x' % (0xe0 + (k // 8) % 32, k % 256) for k in range(3, 256)])[:nif]
    if nif >= 2 and rng.random() < 0.15:
        macs = [macs[0]] * nif           # a bridge and its port, bond slaves, a VLAN sub-interface: distinct contexts, one hardware address
    ops = []
    for i in range(nif):
        kw = {}
        if rng.random() < 0.4:
            kw.update(wifi=1, mode=rng.choice([0, 1, 2, 255]), bssid=rand_mac(rng),
                      ssid=(rng.choice(SSIDS).encode().hex() if rng.random() < 0.25 else ''.join('%02x' % rng.choice([0, 0x41, 0x61, rng.randrange(256)]) for _ in range(rng.choice([0, 1, 4, 6, 31, 32, 33, 40]))) or '-'),
                      ssidrep=rng.choice(['copied', 'full']), rate=rand_u16(rng), rssi=rng.choice([-128, -1, 0, 1, 127, -60]))
        kw['flags'] = rng.choice([0, 0x2000, 0x800, 0x2800, 0x8000, 0xa000, 0xffff, 0x12345678, 0xffffffff])
        kw['iftype'] = rng.choice([6, 71, 0, 0xffffffff])
        kw['speed'] = rng.choice([0, 1, 1000000, 0x7fffffff, 0x80000000, 0xffffffff])
        kw['ipv4'] = '%08x' % rng.choice([0, 0xc0a80105, 0xffffffff, rng.randrange(2**32)])
        kw['buf0'] = rng.choice([0, 0xff, 0x5a])
        if rng.random() < 0.3:
            kw['align'] = 2            # the receive buffer starts 2 bytes past a word boundary
        ops.append(iface_line(i, mac=macs[i], mtu=mtus[i], **kw))
    hostlen = rng.choice([0, 1, 6, 6, 31, 32, 33, 40])
    host = ''.join('%02x' % rng.randrange(1, 256) for _ in range(hostlen)) or '-'
    if rng.random() < 0.3:
        host = rng.choice(HOSTNAMES).encode().hex()     # names a real network produces
    ops.append(glob_line(host=host, hostrep=rng.choice(['copied', 'copied', 'full']),
                         icon=rng.choice(BLOBS), fname=rng.choice(BLOBS[:5] + ['4c004c00']), hwid=rng.choice(HWIDS)))
    if rng.random() < 0.3:
        ops.append('glob failrc=%d' % rng.choice([1, 22, -22, 1000]))      # a failing getter returns some other non-zero code than -1
    if rng.random() < 0.3:
        ops.append('glob failsize=%d' % rng.choice([1, 40, 3000, 70000]))      # a failing icon / name query has already stored the size
    if rng.random() < 0.3:
        ops.append('glob memcmprep=wide')        # lltd_port_memcmp answers with a large magnitude (only the sign is specified)
    if rng.random() < 0.3:
        ops.append('glob sendok=len')           # a successful transmit answers with the byte count (the contract: negative = refused)
    if rng.random() < 0.4:
        ops.append('glob emptyrep=block')       # an empty icon / name comes as a zero-length block, not as NULL
    pool = STATIONS[:4] if rng.random() < 0.65 else HIGH[:4]      # the stations of this history: ordinary ones, or twins differing in their first bytes only
    alloc = list(mtus)             # the receive buffers keep the size of the MTU at creation; `mtus` is the current MTU
    mapper = [None] * nif          # who the generator believes is active (only a bias for choosing senders)
    seen_src = [[] for _ in range(nif)]
    for _ in range(length or (rng.randint(8, 70) if nif <= 3 else rng.randint(3 * nif, 6 * nif))):
        i = rng.randrange(nif)
        own, mtu = macs[i], mtus[i]
        who = mapper[i] if (mapper[i] and rng.random() < 0.75) else rng.choice(pool)
        eth = None if rng.random() < 0.6 else rng.choice(pool + [rng.choice(macs)])
        tos01 = rng.choice([0, 0, 0, 1])
        seq = rng.choice([0, 1, 2, 0x00ff, 0x0100, 0x7fff, 0x8000, 0xffff, rng.randrange(65536)])
        c = rng.random()
        z = rng.choice(['', ' zero', ' zero'])
        if rng.random() < 0.06:
            # a burst of distinct observations around the capacity of one QueryResp at this MTU (sometimes far beyond)
            cap = (mtu - 34) // 20
            nb = rng.choice([cap - 1, cap, cap + 1, 2 * cap + 1, 5, 80])
            tag = rng.randrange(256)
            for k in range(max(nb, 1)):
                ops.append('rx %d %s zero' % (i, probe('0e%02x0000%04x' % (tag, k), own, rng.choice([who, rand_mac(rng)]), own, train=k % 3 == 0)))
            continue
        if c < 0.16:
            gen = rng.choice(GENS + [rng.randrange(65536)])
            st = [rng.choice([own, rand_mac(rng)]) for _ in range(rng.choice([0, 0, 1, 3]))]
            f = discover(who, gen, rng.randrange(65536), st, tos=rng.choice([0, 0, 1, 1, 2, 3, 0xff]), eth_src=eth)
            if mapper[i] is None:
                mapper[i] = who
        elif c < 0.22:
            f = hello(rng.choice(pool), rand_u16(rng), who, who, tos=tos01)
        elif c < 0.36:
            nd = rng.choice([1, 1, 2, 3, 5, (mtu - 34) // 14])
            descs = []
            for _ in range(nd):
                src = rng.choice([rand_mac(rng), own, rng.choice(macs), who, '000d3ad7f1%02x' % rng.randrange(256)])
                dst = rng.choice([rng.choice(macs), rng.choice(macs), rand_mac(rng), BCAST])
                descs.append((rng.choice([0, 1, 1, 0, 2]), rng.choice([0, 0, 1, 255]), src, dst))
            f = emit(who, own, seq, descs, eth_src=eth, declared=rng.choice([None, None, None, nd + 1, 0xffff, 0, 0x8000, rng.choice(wrap_counts(14))]), tos=rng.choice([0, 0, 0, 1, 2]))
            if len(f) // 2 > mtu:
                f = f[:2 * mtu]
        elif c < 0.58:
            if seen_src[i] and rng.random() < 0.2:
                src, rsrc = rng.choice(seen_src[i])            # a duplicate
            else:
                src = rng.choice([rand_mac(rng), own, rng.choice(macs), '0c00000000%02x' % rng.randrange(8)])
                rsrc = rng.choice([rand_mac(rng), rng.choice(macs), who])
                seen_src[i].append((src, rsrc))
            rdst = rng.choice([own, own, own, rng.choice(macs), rand_mac(rng), BCAST])
            f = probe(src, rng.choice([own, BCAST, rand_mac(rng)]), rsrc, rdst, train=rng.random() < 0.4, tos=rng.choice([0, 0, 0, 1, 2]))
        elif c < 0.70:
            f = query(who, own, seq, eth_src=eth, tos=rng.choice([0, 0, 0, 1, 2]))
        elif c < 0.84:
            ty = rng.choice([0x0e, 0x0e, 0x11, 0x13, 0x12, 0x14, 0, rng.randrange(256)])
            P = mtu - 34
            off = rng.choice([0, 0, 1, P - 1, P, P + 1, 2 * P, 299, 300, 301, 542, 543, 3000, 0x7fff, 0x8000, 0xffff, rng.randrange(65536)])
            f = qltlv(who, own, seq, ty, min(off, 65535), eth_src=eth, tos=rng.choice([0, 0, 1, 1, 2]))
        elif c < 0.91:
            f = reset(who, tos=rng.choice([0, 0, 1, 2]), eth_src=eth, own=rng.choice([BCAST, own]))
            if rng.random() < 0.8:
                mapper[i] = None
        elif c < 0.96:
            f = raw(rng.choice([2, 3, 0x80, 0xff, rng.randrange(256)]), rng.choice([0, 0, 2, 6, 8, 11, rng.randrange(256)]), rng.choice([own, BCAST]), eth or who,
                    rng.choice([own, BCAST]), who, seq, ''.join('%02x' % rng.randrange(256) for _ in range(rng.choice([0, 4, 40]))))
        else:
            f = rng.choice([raw(0, rng.choice([5, 7, 9, 10, 12, 13, 200]), own, who, own, who, seq, '0001'), mutate(rng, discover(who, 1, 1, eth_src=eth))])
        if len(f) // 2 > mtu:
            f = f[:2 * mtu]
        elif rng.random() < 0.12 and len(f) // 2 == 60 and f.endswith('00' * 20):
            f = f.rstrip('0')                    # the frame without Ethernet padding (what a tap / a loopback delivers) ...
            f += '0' * (len(f) % 2)
            f += '00' * max(0, 32 - len(f) // 2)  # ... but never shorter than the base header
        elif rng.random() < 0.05:
            f = f + '00' * (mtu - len(f) // 2)    # padded to the full buffer
        if clocked and rng.random() < 0.5:
            # time passes between frames (the frame handlers are specified without reference to the clock)
            ops.append('clock %d' % rng.choice(CLOCK_STEPS))
        ops.append('rx %d %s%s' % (i, f or '-', z))
        if rng.random() < 0.03:
            # the interface MTU is lowered (or restored) while the responder runs; the receive buffer keeps its size
            mtus[i] = rng.choice([576, 576, max(576, alloc[i] // 2), alloc[i], alloc[i]])
            ops.append('set %d mtu=%d' % (i, mtus[i]))
        if rng.random() < 0.04:
            # an attribute of the interface changes between two frames; getters other than address / MTU may start or stop failing
            ops.append('set %d %s' % (i, rng.choice(['speed=%d' % rng.choice([0, 1000000, 0x80000000, 0xffffffff]), 'flags=%d' % rng.choice([0, 0x2000, 0x2800, 0xa000]),
                                                     'ipv4=%08x' % rng.randrange(2**32), 'iftype=%d' % rng.choice([6, 71]), 'getfail=%d' % (rng.randrange(512) & ~3), 'getfail=0'])))
        if with_glob_changes and rng.random() < 0.05:
            ops.append(rng.choice(['glob icon=%s' % rng.choice(BLOBS), 'glob fname=%s' % rng.choice(BLOBS[:5]),
                                   'glob host=%s' % (''.join('%02x' % rng.randrange(1, 256) for _ in range(rng.choice([0, 2, 13, 32, 33]))) or '-'),
                                   'glob hwid=%s' % rng.choice(HWIDS), 'glob emptyrep=%s' % rng.choice(['block', 'null'])]))
    for i in range(nif):
        ops.append('dump %d' % i)
    if nif >= 2 and rng.random() < 0.5:
        ops = with_nesting(rng, ops)
    return ops


def with_nesting(rng, ops, p=0.5):
    """two consecutive frames for different interfaces become one handled WHILE the thread handling the other sleeps inside
    the core (op `nest`: the per-interface threads of the daemons share the core and sleep with no lock held); interfaces
    are isolated, so the specified outcome is that of the two frames handled one after the other"""
    out = []
    k = 0
    while k < len(ops):
        a = ops[k].split()
        b = ops[k + 1].split() if k + 1 < len(ops) else []
        if a and b and a[0] == 'rx' and b[0] == 'rx' and a[1] != b[1] and rng.random() < p:
            out.append('nest %s %d' % (' '.join(b[1:]), rng.choice([1, 1, 1, 2, 3])))
            out.append(ops[k])
            k += 2
        else:
            out.append(ops[k])
            k += 1
    return out


# ---------------------------------------------------------------------------------------------------------------
# Small scope, exhaustively: ALL sequences up to a given length over an alphabet of representative frames (one per
# frame type x sender x path x service that the handlers distinguish).  Used by the frame-level checks as an exhaustive
# slice of the correspondence (and of their predicates): every reachable combination of "what came before" up to depth.
# ---------------------------------------------------------------------------------------------------------------

def with_faults(rng, ops, malloc=True, send=True, getters=True, rate=0.12, getter_mask=0x1ff & ~3, mtu0=False, malloc_after_seen=False):
    """a stream of operations with platform faults injected at random points before received frames (fault indices count
    from the `fault` line): single / several / all allocations refused, transmits refused, interface getters failing,
    process-wide getters failing, and the faults cleared again; the address and MTU getters (bits 0, 1) fail only when
    `getter_mask` includes them: the frame-level properties are stated for a station that knows its own address"""
    out = []
    kinds = []
    if malloc:
        kinds += ['m'] * 7 + ['mall']
    if send:
        kinds += ['s'] * 5 + ['sall']
    if getters:
        kinds += ['g'] * 3 + ['glob'] * 2
    kinds += ['clear'] * 2
    if mtu0:
        kinds += ['mtu0'] * 2        # the MTU query SUCCEEDS with 0 (the core falls back to 1500, like for a failing query)
    nif = sum(1 for o in ops if o.startswith('iface '))
    seen = set()          # interfaces that have handled a frame while no allocation fault was scheduled: their record exists
    mactive = False
    for o in ops:
        if o.startswith('nest '):
            continue           # fault indices count calls in program order: no second thread inside a faulty stream
        if o.startswith('rx ') and rng.random() < rate:
            k = rng.choice(kinds)
            if malloc_after_seen and k in ('m', 'mall') and len(seen) < nif:
                k = 'clear'    # `malloc_after_seen`: memory is refused only once every interface's record exists
            if k in ('m', 'mall'):
                mactive = True
            elif k == 'clear':
                mactive = False
            if k == 'm':
                out.append('fault malloc=%s' % ','.join(str(x) for x in sorted(rng.sample(range(1, 12), rng.choice([1, 1, 2, 3])))))
            elif k == 's':
                out.append('fault send=%s' % ','.join(str(x) for x in sorted(rng.sample(range(1, 8), rng.choice([1, 1, 2])))))
            elif k == 'mall':
                out.append('fault mallocall')
            elif k == 'sall':
                out.append('fault sendall')
            elif k == 'g':
                out.append('set %s getfail=%d' % (o.split()[1], rng.randrange(512) & getter_mask))
                if getter_mask & 1 and rng.random() < 0.5:
                    out.append('glob mtuclobber=%d' % rng.choice([1, 34, 68, 100, 65535, 0]))     # the failing MTU query scribbles on its output
            elif k == 'mtu0':
                out.append('set %s mtu=0' % o.split()[1])
            elif k == 'glob':
                out.append('glob %s' % rng.choice(['icon=none', 'fname=none', 'icon=none fname=none hwid=-', 'icon=gen:300:1 fname=gen:40:2']))
            else:
                out.append('fault clear')
        if o.startswith('rx ') and not mactive:
            seen.add(o.split()[1])
        out.append(o)
    return out


SOAK_KINDS = ['emit', 'stranger', 'mapper_discover', 'probe_distinct', 'probe_same', 'query', 'qltlv', 'hello', 'emit_sendfail', 'reset_discover', 'probe_query',
              'quick_discover', 'charge_like']


def soak(rng, kind=None, n=None):
    """ONE kind of event repeated hundreds (or thousands) of times — what wraps an 8-bit counter, trips a threshold, exhausts a budget —
    followed by ordinary traffic that shows the consequences.  Everything a responder does on the n-th repetition must be what
    it does on the first."""
    kind = kind or rng.choice(SOAK_KINDS)
    n = n or rng.choice([300, 300, 520, 700])
    own, (A, B, C) = OWN, STATIONS[:3]
    mtu = rng.choice([576, 1500])
    ops = [iface_line(0, mac=own, mtu=mtu), iface_line(1, mac=OWN2, mtu=mtu), glob_line(icon='gen:900:1', fname='4c004c00', hwid='41004200'),
           'rx 0 %s zero' % discover(A, 1, 1)]
    if kind == 'emit_sendfail':
        ops.append('fault sendall')
    for k in range(n):
        s = (k % 65535) + 1
        if kind in ('emit', 'emit_sendfail'):
            f = emit(A, own, s, [(k & 1, 0, '0c00000000%02x' % (k & 255), B), (1, 0, own, C)][:1 + (k % 2)])
        elif kind == 'stranger':
            f = discover([B, C][k & 1], 1 + (k & 1), s, tos=k % 3 == 0)
        elif kind == 'mapper_discover':
            f = discover(A, 1, s, stations=[own] if k & 1 else [])
        elif kind == 'quick_discover':
            f = discover(A, 2, s, tos=1)
        elif kind == 'probe_distinct':
            f = probe('0e00%04x%04x' % (k >> 16, k & 0xffff), own, B, own, train=bool(k & 1))
        elif kind == 'probe_same':
            f = probe(B, own, B, own, train=bool(k & 1))
        elif kind == 'probe_query':
            f = probe('0e01%04x%04x' % (k >> 16, k & 0xffff), own, A, own) if k % 20 else query(A, own, s)
        elif kind == 'query':
            f = query(A, own, s)
        elif kind == 'qltlv':
            f = qltlv(A, own, s, [0x0e, 0x11, 0x13][k % 3], (k * 37) % 1000)
        elif kind == 'hello':
            f = hello(B, k & 0xffff, A, A)
        elif kind == 'charge_like':
            f = raw(0, 9, own, A, own, A, s, '')
        else:  # reset_discover
            f = reset(A) if k & 1 else discover(A, 1, s)
        ops.append('rx 0 %s zero' % f)
    if kind == 'emit_sendfail':
        ops.append('fault clear')
    # the consequences: arbitration, Emit, observation and retrieval must work as on a fresh session; then the same after a Reset
    tail = [discover(A, 1, 7), discover(B, 1, 8), emit(A, own, 9, [(1, 0, C, B), (0, 0, C, own)]), probe(C, own, C, own), probe('0e02aabbcc01', own, B, own),
            query(A, own, 10), query(A, own, 11), qltlv(A, own, 12, 0x0e, 0), reset(A), discover(B, 3, 13), emit(B, own, 14, [(1, 0, C, A)]),
            probe(C, own, C, own), query(B, own, 15), reset(B)]
    ops += ['rx 0 %s zero' % f for f in tail]
    ops += ['rx 1 %s zero' % discover(A, 1, 1), 'dump 0', 'dump 1']
    return ops


def soak_cases(rng, tier, faults=True):
    """one soak per kind (quick: 130..520 repetitions; thorough: also 70 000), plus one long run past 2^13 observations"""
    out = [('soak_%s' % kd, soak(rng, kd)) for kd in SOAK_KINDS if faults or kd != 'emit_sendfail']
    out.append(('soak_long', soak(rng, rng.choice(['probe_query', 'probe_same']), 8300)))
    out.append(('soak_cap', soak(rng, 'probe_distinct', 1100)))          # past the cap of the observation list
    if tier == 'thorough':
        out += [('soak70k_%s' % kd, soak(rng, kd, 70000)) for kd in ('emit', 'probe_same', 'mapper_discover', 'query')]
    return out

def alphabet(own=OWN):
    A, B, X = STATIONS[0], STATIONS[1], STATIONS[2]
    S1, R1, S2, R2 = '0a0000000001', '0b0000000001', '0a0000000002', '0b0000000002'
    return [
        ('dA', discover(A, 1, 1)), ('dAx', discover(A, 2, 2, eth_src=X)), ('dB', discover(B, 1, 3)), ('dA1', discover(A, 1, 4, tos=1)), ('dB1', discover(B, 7, 5, tos=1)),
        ('rA', reset(A)), ('rB1', reset(B, tos=1)),
        ('eA', emit(A, own, 9, [(1, 1, S1, B)])), ('eB', emit(B, own, 10, [(0, 0, S2, A)])), ('eAx', emit(A, own, 11, [(1, 0, S1, own), (0, 2, S2, X)], eth_src=X)),
        ('p1', probe(S1, own, R1, own)), ('t2', probe(S2, BCAST, R2, own, train=True)), ('pO', probe(S1, own, R1, B)),
        ('qA', query(A, own, 20)), ('qBx', query(B, own, 21, eth_src=X)),
        ('lA', qltlv(A, own, 30, 0x0e, 0)), ('lB1', qltlv(B, own, 31, 0x0e, 1, tos=1)), ('lAf', qltlv(A, own, 32, 0x11, 0)), ('lAh', qltlv(A, own, 33, 0x13, 0)),
        ('lA0', qltlv(A, own, 0, 0x0e, 0)),
        ('hB', hello(B, 3, A, A)), ('f2', raw(2, 0, BCAST, B, BCAST, B, 6, '00050000')), ('c0', raw(0, 9, own, A, own, A, 7)),
    ]


def small_scope(depth, symbols=None, mtu=576):
    import itertools
    al = alphabet()
    if symbols:
        al = [a for a in al if a[0] in symbols]
    head = [iface_line(0, mtu=mtu), glob_line(icon='gen:600:1', fname='4c004c00', hwid='41004200')]
    out = []
    for d in range(1, depth + 1):
        for seq in itertools.product(al, repeat=d):
            out.append(('ss_' + '_'.join(s[0] for s in seq), head + ['rx 0 %s zero' % s[1] for s in seq] + ['dump 0']))
    return out
