"""LLTD frame builders for the generators (hex strings)."""
BCAST = 'ffffffffffff'


def hx(v, n):
    return ('%0' + str(2 * n) + 'x') % (v & ((1 << (8 * n)) - 1))


def base(tos, op, eth_dst, eth_src, real_dst, real_src, seq, version=1, reserved=0, ethertype=0x88d9):
    return eth_dst + eth_src + hx(ethertype, 2) + hx(version, 1) + hx(tos, 1) + hx(reserved, 1) + hx(op, 1) + real_dst + real_src + hx(seq, 2)


def pad60(f):
    """pad to the Ethernet minimum (60 bytes without FCS)"""
    return f + '00' * max(0, 60 - len(f) // 2)


def discover(mapper, gen, xid, stations=(), tos=0, eth_src=None, declared=None, pad=True):
    f = base(tos, 0, BCAST, eth_src or mapper, BCAST, mapper, xid) + hx(gen, 2) + hx(len(stations) if declared is None else declared, 2) + ''.join(stations)
    return pad60(f) if pad else f


def hello(src, gen, cur, app, tos=0):
    return pad60(base(tos, 1, BCAST, src, BCAST, src, 0) + hx(gen, 2) + cur + app + '0106' + src + '00')


def emit(mapper, own, seq, descs, eth_src=None, declared=None, tos=0, pad=True):
    """descs: list of (kind, pause, src, dst)"""
    body = ''.join(hx(k, 1) + hx(p, 1) + s + d for (k, p, s, d) in descs)
    f = base(tos, 2, own, eth_src or mapper, own, mapper, seq) + hx(len(descs) if declared is None else declared, 2) + body
    return pad60(f) if pad else f


def probe(eth_src, eth_dst, real_src, real_dst, train=False, tos=0):
    return pad60(base(tos, 3 if train else 4, eth_dst, eth_src, real_dst, real_src, 0))


def query(mapper, own, seq, eth_src=None, tos=0):
    return pad60(base(tos, 6, own, eth_src or mapper, own, mapper, seq))


def qltlv(mapper, own, seq, ty, offset, eth_src=None, tos=0):
    return pad60(base(tos, 11, own, eth_src or mapper, own, mapper, seq) + hx(ty, 1) + '00' + hx(offset, 2))


def reset(mapper, own=BCAST, tos=0, eth_src=None):
    return pad60(base(tos, 8, own, eth_src or mapper, own, mapper, 0))


def raw(tos, op, eth_dst, eth_src, real_dst, real_src, seq, payload=''):
    return pad60(base(tos, op, eth_dst, eth_src, real_dst, real_src, seq) + payload)


OWN = '02aabbccdd01'
OWN2 = '02aabbccdd02'
STATIONS = ['020000000011', '020000000012', '020000000013', '030000000011', '020000000111']
# near-collision pool: pairs differing in exactly one byte position
NEAR = [OWN, '03aabbccdd01', '02abbbccdd01', '02aabcccdd01', '02aabbcddd01', '02aabbccde01', '02aabbccdd00', '000000000000', BCAST]
U16 = [0, 1, 0x00ff, 0x0100, 0x7fff, 0x8000, 0xffff]


def iface_line(i, mac=OWN, mtu=1500, **kw):
    d = dict(flags=0x2000, iftype=6, ipv4='c0a80105', ipv6='fe80000000000000020000fffe000001', speed=1000000, buf0=0)
    d.update(kw)
    return 'iface %d mtu=%d mac=%s ' % (i, mtu, mac) + ' '.join('%s=%s' % (k, v) for k, v in d.items())


def glob_line(host='6d79686f7374', icon='none', fname='none', hwid='-', hostrep='copied'):
    return 'glob host=%s hostrep=%s icon=%s fname=%s hwid=%s' % (host, hostrep, icon, fname, hwid)


def rand_mac(rng):
    return rng.choice(STATIONS + NEAR) if rng.random() < 0.7 else ''.join('%02x' % rng.randrange(256) for _ in range(6))


def rand_u16(rng):
    return rng.choice(U16) if rng.random() < 0.6 else rng.randrange(65536)


def session(rng, own, n=None, mtu=1500, stations=None):
    """a mostly valid session of one or more mappers: list of frames (hex)"""
    st = stations or STATIONS
    frames = []
    mapper = rng.choice(st)
    bridged = rng.random() < 0.25
    eth = rng.choice(st) if bridged else None
    gen = rand_u16(rng)
    xid = rng.randrange(1, 65536)
    tos = rng.choice([0, 0, 0, 1])
    frames.append(discover(mapper, gen, xid, [], tos=tos, eth_src=eth))
    for _ in range(n if n is not None else rng.randint(1, 12)):
        c = rng.random()
        seq = rng.randrange(1, 65536)
        if c < 0.15:
            frames.append(discover(rng.choice([mapper, mapper, rng.choice(st)]), rand_u16(rng), rng.randrange(65536), [own] if rng.random() < 0.5 else [], tos=rng.choice([0, 0, 1]), eth_src=eth))
        elif c < 0.25:
            frames.append(hello(rng.choice(st), rand_u16(rng), mapper, mapper, tos=rng.choice([0, 1])))
        elif c < 0.45:
            nd = rng.choice([1, 1, 2, 3, 5])
            frames.append(emit(mapper, own, seq, [(rng.choice([0, 1]), rng.choice([0, 1, 5, 255]), rand_mac(rng), rand_mac(rng)) for _ in range(nd)], eth_src=eth))
        elif c < 0.70:
            frames.append(probe(rand_mac(rng), rng.choice([own, own, BCAST]), rand_mac(rng), rng.choice([own, own, own, rand_mac(rng)]), train=rng.random() < 0.4))
        elif c < 0.82:
            frames.append(query(mapper, own, seq, eth_src=eth))
        elif c < 0.94:
            frames.append(qltlv(mapper, own, rng.choice([seq, seq, 0]), rng.choice([0x0e, 0x11, 0x13, 0x0e, 0x12, rng.randrange(256)]), rng.choice([0, 0, 1, 100, 1466, 1467, 65535, rng.randrange(3000)]), eth_src=eth, tos=rng.choice([0, 0, 1])))
        else:
            frames.append(reset(mapper, tos=rng.choice([0, 0, 1])))
    if rng.random() < 0.6:
        frames.append(reset(mapper, tos=0))
    return frames


def mutate(rng, f):
    """single-field mutation or truncation of a valid frame"""
    b = bytearray.fromhex(f)
    c = rng.random()
    if c < 0.5:
        pos = rng.choice([12, 13, 14, 15, 16, 17, 30, 31, 32, 33, 34, 35, rng.randrange(len(b))])
        if pos < len(b):
            b[pos] = rng.choice([0, 1, 2, 0x7f, 0x80, 0xff, rng.randrange(256)])
    elif c < 0.75:
        b = b[:rng.randrange(len(b) + 1)]
    else:
        b += bytes(rng.randrange(256) for _ in range(rng.randrange(40)))
    return b.hex()


def noise(rng, maxlen):
    n = rng.choice([0, 1, 14, 31, 32, 33, 46, 60, 100, rng.randrange(maxlen + 1)])
    n = min(n, maxlen)
    b = bytearray(rng.randrange(256) for _ in range(n))
    if n > 17 and rng.random() < 0.7:
        b[15] = rng.choice([0, 0, 1, 2]); b[17] = rng.randrange(13)
    return bytes(b).hex() or '-'
