"""C07 — every observed probe is reported exactly once"""
from . import frames as F
from .c02 import project

PROP = 'C07'
PREDICATE = 'C07'
LEAN_TARGETS = ['LLTD.Props.C07', 'LLTD.Props.C07H', 'LLTD.Props.C07T']
VARIANT = 'plain'
RULE = ('histories with k in {0,1,maxD-1,maxD,maxD+1,2maxD+3,300,random} distinct Probe/Train observations (maxD = (MTU-34)/20) plus '
        'duplicates, frames for other stations and near-collision sources, interleaved Discover (same / changed / zero generation, either service)/Emit/QueryLargeTlv, followed by Queries '
        'until the more flag clears and one extra Query, then more observations and a Reset; MTU in {576,1500,9216,1492,1472, 576+0..39 (every residue of the descriptor size), random}, direct and bridged '
        'mapper, the Queries arriving by the same or another path than the Discover; non-trivial = a QueryResp listing at least one observation; distinct = distinct projected transcript')
ASSUMPTIONS = ['port contract as for C02', 'at most 300 distinct observations between Queries (the property\'s domain); beyond that the predicate is silent until a Reset']


def obs_frame(rng, own, key=None):
    src, rsrc = key if key else (F.rand_mac(rng), F.rand_mac(rng))
    return F.probe(src, rng.choice([own, own, F.BCAST, F.rand_mac(rng)]), rsrc, own, train=rng.random() < 0.4)


def cases(rng, tier, X):
    n = 120 if tier == 'quick' else 8000
    out = []
    for k in range(n):
        mtu = rng.choice([576, 1500, 9216, 1492, 1472, 576 + rng.randrange(40), 576 + rng.randrange(40), rng.randint(576, 9216)])
        maxd = (mtu - 34) // 20
        own = F.OWN
        mapper = rng.choice(F.STATIONS)
        eth = rng.choice([None, None, rng.choice(F.STATIONS)])
        ops = [F.iface_line(0, mac=own, mtu=mtu), F.glob_line(fname='4c00')]
        ops.append('rx 0 ' + F.discover(mapper, 1, 1, eth_src=eth))
        for rnd in range(rng.randint(1, 3)):
            kk = rng.choice([0, 1, maxd - 1, maxd, maxd + 1, 2 * maxd + 3, 300, rng.randint(0, 300)])
            kk = min(kk, 300)
            keys = []
            for i in range(kk):
                keys.append(('02%02x%02x%02x%02x%02x' % (rnd, i >> 8, i & 255, rng.randrange(4), rng.randrange(2)), rng.choice(F.STATIONS + ['0a00000000%02x' % (i & 255)])))
            if rng.random() < 0.4:
                # twins among the observations: same real source and Ethernet sources equal but for their first byte(s) — and the
                # other way round — with the high bit set in every byte
                tw = rng.sample(F.HIGH, rng.choice([2, 3, 4]))
                fixed = rng.choice(F.HIGH + F.STATIONS)
                keys += [(x, fixed) for x in tw] if rng.random() < 0.5 else [(fixed, x) for x in tw]
                rng.shuffle(keys)
                keys = keys[:300]
            keys = list(dict.fromkeys(keys))
            for key in keys:
                ops.append('rx 0 ' + obs_frame(rng, own, key))
                r = rng.random()
                if r < 0.08:
                    ops.append('rx 0 ' + obs_frame(rng, own, rng.choice(keys[:len(keys)])))       # duplicate
                elif r < 0.14:
                    ops.append('rx 0 ' + F.probe(F.rand_mac(rng), own, F.rand_mac(rng), rng.choice(F.NEAR[1:])))   # for another station
                elif r < 0.17:
                    ops.append('rx 0 ' + rng.choice([F.discover(mapper, rng.choice([1, 1, 2, 0, F.rand_u16(rng)]), rng.randrange(65536), tos=rng.choice([0, 0, 1]), eth_src=eth), F.qltlv(mapper, own, 9, 0x11, 0, eth_src=eth),
                                                     F.emit(mapper, own, 3, [(1, 0, F.rand_mac(rng), F.rand_mac(rng))], eth_src=eth)]))
            for q in range(len(keys) // maxd + 2):
                # the Query may arrive by another path than the frame that established the mapper (directly / through a bridge)
                if rng.random() < 0.2:
                    # the platform refuses the memory for this response (once, or for a while): the mapper retries - nothing may be lost
                    ops.append(rng.choice(['fault malloc=1', 'fault malloc=1', 'fault malloc=1,2', 'fault mallocall']))
                    for _ in range(rng.choice([1, 1, 2])):
                        ops.append('rx 0 ' + F.query(mapper, own, rng.randrange(1, 65536), eth_src=rng.choice([eth, eth, None])))
                    ops.append('fault clear')
                ops.append('rx 0 ' + F.query(mapper, own, rng.randrange(1, 65536), eth_src=rng.choice([eth, eth, None, rng.choice(F.STATIONS)])))
            if rng.random() < 0.3:
                for _ in range(rng.randint(1, 5)):
                    ops.append('rx 0 ' + obs_frame(rng, own))
                ops.append('rx 0 ' + F.reset(mapper))
                ops.append('rx 0 ' + F.query(mapper, own, 5, eth_src=eth))
        out.append(('q%d' % k, ops))
    # small scope, exhaustively: every frame sequence up to length 2 (thorough: 3) over the 23-symbol alphabet of frames.alphabet()
    out += F.small_scope(2 if tier == 'quick' else 3)
    # one kind of event repeated hundreds / thousands of times (counters wrapping, thresholds, budgets), then ordinary traffic
    out += F.soak_cases(rng, tier)
    # universal traffic (every frame type / sender / path / service / boundary value, 1..3 interfaces): this check's predicate on it
    for k in range(150 if tier == 'quick' else 6000):
        out.append(('u%d' % k, F.universal(rng)))
    return out


def nontrivial(ops, impl):
    for l in impl:
        if l.startswith('tx '):
            h = l.split()[2]
            if h[34:36] == '07' and len(h) > 68:
                return True
    return False


def classify(ops, impl):
    more = any(l.startswith('tx ') and l.split()[2][34:36] == '07' and int(l.split()[2][64:66], 16) >= 0x80 for l in impl)
    return ['with_more_flag' if more else 'single_response']
