"""C10 — probes emitted by one responder are observed by a peer responder"""
from . import frames as F
from .c02 import project

PROP = 'C10'
PREDICATE = 'C10'
LEAN_TARGETS = ['LLTD.Props.C10', 'LLTD.Props.C10H', 'LLTD.Props.C10T']
VARIANT = 'plain'
RULE = ('two responder instances A and B (distinct addresses from a near-collision pool) in one process: a mapper orders A to emit 1..20 '
        'Probe/Train frames towards B (some towards other stations), A\'s transmitted frames are delivered unmodified to B (`relay`), '
        'interleaved with unrelated traffic on B before and after the delivery (Hellos, Discovers of either service with the same or a changed generation, QueryLargeTlv, including Probes from third stations that use the same Ethernet source addresses), then B is queried until the more flag clears; batches that fill B\'s record to exactly (one below / above) the capacity of one QueryResp at B\'s MTU, for every residue of that MTU modulo the descriptor size; non-trivial = B reported at least one '
        'observation whose real source is A; distinct = distinct projected transcript')
ASSUMPTIONS = ['port contract as for C02', 'no Reset reaches B between the delivery and the Queries; at most 300 distinct observations']


def cases(rng, tier, X):
    n = 200 if tier == 'quick' else 15000
    out = []
    for k in range(n):
        a, b = rng.sample(F.NEAR[:7], 2)
        mapper = rng.choice(F.STATIONS)
        mtu = rng.choice([576, 1500])
        ops = [F.iface_line(0, mac=a, mtu=mtu), F.iface_line(1, mac=b, mtu=rng.choice([576, 1500])), F.glob_line()]
        ops.append('rx 0 ' + F.discover(mapper, 1, 1))
        if rng.random() < 0.7:
            ops.append('rx 1 ' + F.discover(mapper, 1, 1))
        for rnd in range(rng.randint(1, 3)):
            nd = rng.randint(1, 20)
            descs = [(rng.choice([0, 1]), rng.choice([0, 1, 255]), rng.choice([F.rand_mac(rng), mapper, '0c00000000%02x' % i]),
                      b if rng.random() < 0.85 else F.rand_mac(rng)) for i in range(nd)]
            # unrelated traffic that B records before A's frames arrive: same Ethernet sources, other real sources
            for d in descs:
                if rng.random() < 0.25:
                    ops.append('rx 1 ' + F.probe(d[2], rng.choice([b, F.BCAST]), rng.choice(F.STATIONS + [mapper]), b, train=rng.random() < 0.5))
            if rng.random() < 0.25:
                # for the duration of ONE unrelated frame B's address (or MTU) query fails / B has another address; it works again
                # before A's frames arrive
                ops.append(rng.choice(['set 1 getfail=2', 'set 1 getfail=3', 'set 1 mac=%s' % F.STATIONS[4]]))
                ops.append('rx 1 ' + F.probe(F.rand_mac(rng), rng.choice([b, F.rand_mac(rng)]), F.rand_mac(rng), rng.choice([b, F.rand_mac(rng)]), train=rng.random() < 0.5))
                ops.append('set 1 getfail=0 mac=%s' % b)
            ops.append('rx 0 ' + F.emit(mapper, a, rng.randrange(1, 65536), descs))
            ops.append('relay 0 1')
            for _ in range(rng.randint(0, 4)):
                ops.append('rx 1 ' + rng.choice([F.hello(rng.choice(F.STATIONS), 1, mapper, mapper), F.probe(F.rand_mac(rng), b, F.rand_mac(rng), rng.choice([b, a])),
                                                 F.discover(mapper, rng.choice([1, 1, 2, 0, F.rand_u16(rng)]), rng.randrange(65536), tos=rng.choice([0, 0, 1])), F.qltlv(mapper, b, 4, 0x11, 0)]))
            for _ in range(3):
                ops.append('rx 1 ' + F.query(mapper, b, rng.randrange(1, 65536)))
        out.append(('p%d' % k, ops))
    # B's record filled to exactly (or one around) what one QueryResp holds at B's MTU — for every residue of the MTU modulo the
    # descriptor size — by ONE batch from A whose first frame carries A's own address as source
    for k in range(40 if tier == 'quick' else 2000):
        a, b = rng.sample(F.NEAR[:7], 2)
        mapper = rng.choice(F.STATIONS)
        mtub = rng.choice([576 + r for r in range(20)] + [1492, 1500, 1512, 1472])
        capb = (mtub - 34) // 20
        ops = [F.iface_line(0, mac=a, mtu=9216), F.iface_line(1, mac=b, mtu=mtub), F.glob_line(),
               'rx 0 ' + F.discover(mapper, 1, 1), 'rx 1 ' + F.discover(mapper, 1, 1)]
        total = capb + rng.choice([-1, 0, 0, 0, 1])
        descs = [(rng.choice([0, 1]), 0, a if i == 0 else '0c%02x0000%04x' % (k & 255, i), b) for i in range(total)]
        ops.append('rx 0 ' + F.emit(mapper, a, rng.randrange(1, 65536), descs))
        ops.append('relay 0 1')
        for _ in range(3):
            ops.append('rx 1 ' + F.query(mapper, b, rng.randrange(1, 65536)))
        out.append(('cap%d' % k, ops))
    # a long-lived B: thousands of observations recorded and reported (or hundreds of Emits executed by A) before the batch under test
    for k in range(3 if tier == 'quick' else 60):
        a, b = rng.sample(F.NEAR[:7], 2)
        mapper = rng.choice(F.STATIONS)
        ops = [F.iface_line(0, mac=a, mtu=1500), F.iface_line(1, mac=b, mtu=1500), F.glob_line(),
               'rx 0 ' + F.discover(mapper, 1, 1), 'rx 1 ' + F.discover(mapper, 1, 1)]
        if k % 3 == 2:
            for i in range(rng.choice([260, 520])):
                ops.append('rx 0 ' + F.emit(mapper, a, (i % 65535) + 1, [(i & 1, 0, '0c01%04x%04x' % (i >> 16, i & 0xffff), b)]))
                ops.append('relay 0 1')
                if i % 50 == 49:
                    ops.append('rx 1 ' + F.query(mapper, b, (i % 65535) + 1))
        else:
            for i in range(8300 if k % 3 == 0 else 1100):
                ops.append('rx 1 ' + F.probe('0e03%04x%04x' % (i >> 16, i & 0xffff) if k % 3 == 0 else F.STATIONS[2], b, F.STATIONS[3], b, train=bool(i & 1)))
                if i % 60 == 59:
                    ops.append('rx 1 ' + F.query(mapper, b, (i % 65535) + 1))
        for _ in range(3):
            ops.append('rx 1 ' + F.query(mapper, b, 7))
        descs = [(rng.choice([0, 1]), 0, a if i == 0 else '0c02%04x%04x' % (k, i), b) for i in range(12)]
        ops.append('rx 0 ' + F.emit(mapper, a, 77, descs))
        ops.append('relay 0 1')
        for _ in range(2):
            ops.append('rx 1 ' + F.query(mapper, b, 78))
        out.append(('long%d' % k, ops))
    # universal traffic (every frame type / sender / path / service / boundary value, 1..3 interfaces): this check's predicate on it
    for k in range(150 if tier == 'quick' else 6000):
        out.append(('u%d' % k, F.universal(rng)))
    return out


def nontrivial(ops, impl):
    return any(l.startswith('tx 1 ') and l.split()[2][34:36] == '07' and len(l.split()[2]) > 68 for l in impl)


def classify(ops, impl):
    return ['delivered' if any(l.startswith('deliver ') for l in impl) else 'nothing_delivered']
