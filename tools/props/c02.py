"""C02 — everything the responder transmits: valid sessions, mutated frames, noise; two poison patterns"""
from . import frames as F

PROP = 'C02'
PREDICATE = 'C02'
LEAN_TARGETS = ['LLTD.Props.C02', 'LLTD.Props.C02H', 'LLTD.Props.C02T']
VARIANT = 'plain'
RULE = ('seeded histories (10..60 frames) mixing mostly-valid sessions of 1..4 stations, single-field mutations / truncations of '
        'valid frames and pure noise 1:1:1, MTU in {576, 577, 1500, 9216, 1492, 576+0..39, random} (every residue of the descriptor sizes), bursts of observations filling a QueryResp to the MTU boundary, wired and Wi-Fi attribute sets with names of '
        'length 0..40; every history is run twice with fresh-memory poison 0x00 and 0xA5 and the transmitted bytes compared '
        '(determinism clause); non-trivial = at least one frame transmitted; distinct = distinct projected transcript')
ASSUMPTIONS = ['port contract: getters deterministic during a run, string getters write at most dst_len bytes, 576 <= MTU <= 9216 = receive buffer size',
               'frames shorter than the Ethernet minimum of 60 bytes are judged on the first 60 bytes of the receive buffer (what the core can see)']


def project(lines):
    return [l for l in lines if l.startswith(('#', 'tx', 'sleep', 'abort', 'fault', 'bad-op', 'st ', 'obs '))]


def attrs(rng):
    kw = {}
    if rng.random() < 0.5:
        kw.update(wifi=1, mode=rng.choice([0, 1, 2, 255]), bssid=F.rand_mac(rng), ssid=(''.join('%02x' % rng.randrange(256) for _ in range(rng.choice([0, 1, 31, 32, 33, 40]))) or '-'),
                  ssidrep=rng.choice(['copied', 'full']), rate=F.rand_u16(rng), rssi=rng.choice([-128, -1, 0, 1, 127, -60]))
    kw['flags'] = rng.choice([0, 0x2000, 0x800, 0xffff, 0x12345678, 0xffffffff])
    kw['iftype'] = rng.choice([6, 71, 0, 0xffffffff])
    kw['speed'] = rng.choice([0, 1, 1000000, 0xffffffff])
    kw['buf0'] = rng.choice([0, 0xff, 0x5a])
    return kw


def burst(rng, own, mtu):
    """enough distinct observations to fill a QueryResp, then Queries (response sizes at the MTU boundary)"""
    maxd = (mtu - 34) // 20
    k = maxd + rng.choice([-1, 0, 1, 2, 5])
    m = rng.choice(F.STATIONS)
    fr = [F.discover(m, 1, 1)]
    tag = rng.randrange(256)
    fr += [F.probe('0e%02x%04x%04x' % (tag, i, rng.randrange(65536)), own, rng.choice(F.STATIONS), own, train=bool(i & 1)) for i in range(k)]
    fr += [F.query(m, own, rng.randrange(1, 65536)) for _ in range(3)]
    return fr


def history(rng, own, mtu):
    fr = []
    if mtu < 1600 and rng.random() < 0.35:
        fr += burst(rng, own, mtu)
    for _ in range(rng.randint(1, 4)):
        s = F.session(rng, own, mtu=mtu)
        m = rng.random()
        if m < 0.34:
            fr += s
        elif m < 0.67:
            fr += [F.mutate(rng, f) if rng.random() < 0.5 else f for f in s]
        else:
            fr += [F.noise(rng, mtu) for _ in range(rng.randint(1, 10))]
    return [f if len(f) // 2 <= mtu else f[:2 * mtu] for f in fr]


def cases(rng, tier, X):
    n = 250 if tier == 'quick' else 20000
    out = []
    for k in range(n):
        mtu = rng.choice([576, 577, 1500, 9216, 1492, 576 + rng.randrange(40), rng.randint(576, 9216)])
        own = rng.choice([F.OWN, F.OWN2, '00005e000001'])
        hostlen = rng.choice([0, 1, 6, 31, 32, 33, 40])
        g = F.glob_line(host=(''.join('%02x' % rng.randrange(1, 256) for _ in range(hostlen)) or '-'), hostrep=rng.choice(['copied', 'full']),
                        icon=rng.choice(['none', 'gen:100:1', 'gen:3000:2', '-']), fname=rng.choice(['none', '4c004c00', 'gen:2000:3']),
                        hwid=rng.choice(['-', '4100420043004400', '41004200000043004400', 'gen' if False else '0102']))
        body = [F.iface_line(0, mac=own, mtu=mtu, **attrs(rng)), g]
        body += ['rx 0 %s' % f for f in history(rng, own, mtu)]
        for po in (0, 0xA5):
            out.append(('h%d_p%d' % (k, po), ['poison %d' % po] + body))
    # small scope, exhaustively: every frame sequence up to length 2 (thorough: 3) over the 23-symbol alphabet of frames.alphabet()
    out += F.small_scope(2 if tier == 'quick' else 3)
    # one kind of event repeated hundreds / thousands of times (counters wrapping, thresholds, budgets), then ordinary traffic
    out += F.soak_cases(rng, tier)
    # universal traffic (every frame type / sender / path / service / boundary value, 1..3 interfaces): this check's predicate on it
    for k in range(150 if tier == 'quick' else 6000):
        out.append(('u%d' % k, F.universal(rng)))
        if k % 2 == 0:
            # the same kind of traffic with every kind of platform fault injected at random points
            out.append(('uf%d' % k, F.with_faults(rng, F.universal(rng))))
    return out


def nontrivial(ops, impl):
    return any(l.startswith('tx ') for l in impl)


def classify(ops, impl):
    ks = set()
    for l in impl:
        if l.startswith('tx '):
            h = l.split()[2]
            if len(h) >= 36:
                ks.add('tx_opcode_%d' % int(h[34:36], 16))
    return sorted(ks) or ['silent']


def extra_predicate(cases, impl):
    """determinism clause: the two poison runs of one history transmit identical bytes"""
    bad = {}
    for cid, ops in cases:
        if cid.endswith('_p0'):
            other = cid[:-3] + '_p165'
            if other not in impl:
                continue          # the pair is not complete in this pass (a sampled pass): nothing to compare
            a = [l for l in impl.get(cid, []) if l.startswith(('tx', 'sleep'))]
            b = [l for l in impl.get(other, []) if l.startswith(('tx', 'sleep'))]
            if a != b:
                i = next((j for j in range(min(len(a), len(b))) if a[j] != b[j]), min(len(a), len(b)))
                bad[cid] = (0, 'transmitted bytes depend on the content of freshly allocated memory: poison 0x00 gives %r, poison 0xA5 gives %r'
                            % ((a + ['<none>'])[i][:120], (b + ['<none>'])[i][:120]))
    return bad
