"""C16 — session table: random operation sequences over 24 keys, step-by-step dumps"""
from .common import ident

from . import auto

PROP = 'C16'
PREDICATE = 'C16'
LEAN_TARGETS = ['LLTD.Props.C16', 'LLTD.Props.C16T']
VARIANT = 'plain'
RULE = ('seeded random sequences (length 20..200) of add / find / remove / complete / clear / status update / dump / expiry tick / '
        'clock advance (0..200 s incl. 59/60/61) over 24 keys (8 near-colliding addresses x 3 generations) so that the full-table '
        'case is forced; plus full tables in each completion pattern (none / some / all complete) followed by adds of absent and present keys; the table is dumped after every op; non-trivial = the set of live sessions changed at least 3 times; '
        'distinct = distinct projected transcript')
ASSUMPTIONS = ['completion is only ever set the way the glue does it (entry->complete = true followed by the status update)']
project = ident

MACS = ['020000000001', '020000000002', '020000000101', '030000000001', '0200000000ff', 'ffffffffffff', '000000000000', '020000010001']
KEYS = [(m, g) for m in MACS for g in (0, 1, 65535)]


def seq(rng, n, hot):
    ops = ['tbl new 0', 'clock %d' % rng.choice([0, 1000, 61000])]
    keys = rng.sample(KEYS, hot)
    for _ in range(n):
        c = rng.random()
        m, g = rng.choice(keys)
        if c < 0.40:
            ops.append('tbl add 0 %s %d %d' % (m, g, rng.choice([0, 1, 2, 65535])))
        elif c < 0.50:
            ops.append('tbl find 0 %s %d' % (m, g))
        elif c < 0.60:
            ops.append('tbl remove 0 %s %d' % (m, g))
        elif c < 0.72:
            ops.append('tbl complete 0 %s %d' % (m, g))
        elif c < 0.74:
            ops.append('tbl clear 0')
        elif c < 0.78:
            ops.append(rng.choice(['tbl update 0', 'tbl dump 0']))
        elif c < 0.90:
            ops.append('clock %d' % (1000 * rng.choice([0, 1, 30, 59, 60, 61, 62, 120, 200, rng.randint(0, 200)]) + rng.choice([0, 0, 999])))
        else:
            ops.append('tick - - 0 none')
    return ops


def cases(rng, tier, X):
    n = 400 if tier == 'quick' else 40000
    out = []
    for k in range(n):
        out.append(('seq%d' % k, seq(rng, rng.randint(20, 200), rng.choice([3, 8, 17, 20, 24]))))
    # the full table in each completion pattern (none / some / all complete), then operations that must fail or refresh
    for k in range(12 if tier == 'quick' else 600):
        keys = rng.sample(KEYS, 20)
        ops = ['tbl new 0', 'clock 1000']
        for (m, g) in keys[:16]:
            ops.append('tbl add 0 %s %d %d' % (m, g, 1))
        pat = k % 3
        for j, (m, g) in enumerate(keys[:16]):
            if pat == 2 or (pat == 1 and rng.random() < 0.5):
                ops.append('tbl complete 0 %s %d' % (m, g))
        ops.append('tbl update 0')
        for _ in range(rng.randint(3, 12)):
            m, g = rng.choice(keys)
            ops.append(rng.choice(['tbl add 0 %s %d %d' % (m, g, rng.choice([1, 2])), 'tbl add 0 %s %d %d' % (m, g, 1), 'tbl find 0 %s %d' % (m, g),
                                   'tbl complete 0 %s %d' % (m, g), 'tbl dump 0', 'tbl remove 0 %s %d' % (m, g), 'clock 1000', 'tick - - 0 none']))
        out.append(('full%d' % k, ops))
    # universal automata schedule (all public calls, missing objects, near-colliding keys, bridged frames, every deadline): this check's predicate on it
    # one kind of call repeated hundreds of times (run lengths, counters, thresholds), then the consequences
    out += auto.soak_cases(rng, tier)
    for k in range(150 if tier == 'quick' else 6000):
        out.append(('au%d' % k, auto.schedule(rng)))
        if k % 3 == 0:
            out.append(('au2_%d' % k, auto.schedule2(rng)))      # two responders in one process, interleaved on the shared clock
    return out


def nontrivial(ops, impl):
    counts = [l for l in impl if l.startswith('tbl 0 count=')]
    return len(set(counts)) >= 3


def classify(ops, impl):
    ks = []
    if any(l.startswith('tbl 0 count=16') for l in impl):
        ks.append('table_full')
    if any(l == 'ret -1' for l in impl):
        ks.append('add_or_find_failed')
    if any(o.startswith('tick') for o in ops):
        ks.append('has_expiry_tick')
    return ks
