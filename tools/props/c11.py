"""C11 — session-event classifier: station lists of every length/position, table contents, all opcodes"""
from .common import ident

from . import auto

PROP = 'C11'
PREDICATE = 'C11'
LEAN_TARGETS = ['LLTD.Props.C11', 'LLTD.Props.C11T']
VARIANT = 'san'
RULE = ('derive_session_event on harness-built frames in an exact-size heap image: Discover with station counts 0..240, the own '
        'address at every position / absent / near-collisions differing in one byte / present in the bytes of the list but at no entry (straddling two entries at every byte offset, behind the declared list, byte-reversed), declared count above what the frame holds '
        '(incl. 0xFFFF), session tables with same/different sequence number and generation, Discovers arriving directly or through a bridge (Ethernet source = another station or another known mapper), all 256 opcodes, Reset to broadcast / '
        'unicast, truncated images; non-trivial = event != -1; distinct = distinct (op, result) line pairs')
ASSUMPTIONS = ['the classifier is told the number of bytes it may read (frame_len), as the repaired signature requires']
project = ident

OWN = '02aabbccdd01'
NEAR = ['02aabb000000', '02aabbccdd02', '02aabb112233', '03aabbccdd01', '02abbbccdd01', '02aabcccdd01', '02aabbcddd01', '02aabbccde01', '02aabbccdd00', '000000000000', 'ffffffffffff']
MAPPERS = ['020000000011', '020000000012', '0200000000aa']


def hdr(tos, op, dst, src, rdst, rsrc, seq):
    return dst + src + '88d9' + '01' + '%02x' % tos + '00' + '%02x' % op + rdst + rsrc + '%04x' % seq


def discover(rng, mapper, gen, xid, stations, declared=None, tos=0, eth=None):
    """eth: the Ethernet source when the Discover arrives through a bridge (another station, possibly another known mapper)"""
    d = len(stations) if declared is None else declared
    # now and then the broadcast is delivered as unicast (an access point converting multicast to unicast): the Ethernet destination is
    # this station or another one, the real destination stays broadcast - the list counts all the same
    edst = rng.choice(['ffffffffffff'] * 5 + [OWN, NEAR[1]])
    return hdr(tos, 0, edst, eth or mapper, 'ffffffffffff', mapper, xid) + '%04x%04x' % (gen, d) + ''.join(stations)


def cases(rng, tier, X):
    out = []
    base = ['iface 0 mtu=1500 mac=%s' % OWN, 'tbl new 0']
    tblops = ['tbl add 0 %s 7 100' % MAPPERS[0], 'tbl add 0 %s 8 200' % MAPPERS[1], 'tbl add 0 %s 7 300' % MAPPERS[1]]
    # own address at every position, for a set of list lengths
    lens = list(range(0, 12)) + [15, 16, 17, 100, 239, 240, 243] if tier == 'quick' else list(range(0, 244))
    ops = base + tblops
    for n in lens:
        positions = list(range(n)) + [None]
        if tier == 'quick' and n > 20:
            positions = [0, 1, n // 2, n - 2, n - 1, None]
        for pos in positions:
            st = [rng.choice(NEAR) for _ in range(n)]
            if pos is not None:
                st[pos] = OWN
            mapper = rng.choice(MAPPERS)
            gen = rng.choice([7, 8, 9])
            xid = rng.choice([100, 200, 300, 1])
            f = discover(rng, mapper, gen, xid, st, eth=rng.choice([None, None, None, rng.choice(MAPPERS)]))
            avail = rng.choice([1500, 576, len(f) // 2, len(f) // 2])
            if avail < len(f) // 2:
                avail = len(f) // 2
            ops.append('ev 0 %s avail=%d tbl=%s%s' % (f, avail, rng.choice(['0', '0', '-']), rng.choice(['', ' off=2'])))      # half of them in an image 2 bytes past a word boundary
    out.append(('positions', ops))
    # the own address present in the BYTES of the list but at no entry: straddling two consecutive entries at every byte
    # offset, starting in the generation / count fields before the list, running past the declared count into the
    # padding, split by a foreign byte, byte-reversed — none of these acknowledges
    ops = base + tblops
    for n in [2, 3, 4, 12]:
        for e in range(n - 1):
            if n == 12 and e not in (0, 6, 10):
                continue
            for r in range(1, 6):
                raw = bytearray(rng.randrange(256) for _ in range(6 * n))
                for i in range(n):
                    raw[6 * i:6 * i + 6] = bytes.fromhex(rng.choice(NEAR[:6]))
                raw[6 * e + r:6 * e + r + 6] = bytes.fromhex(OWN)
                st = [raw[6 * i:6 * i + 6].hex() for i in range(n)]
                for xid in (100, 1):
                    f = discover(rng, MAPPERS[0], 7, xid, st)
                    ops.append('ev 0 %s avail=%d tbl=0' % (f, rng.choice([len(f) // 2, 1500])))
    for n in [1, 2, 5]:
        st = [rng.choice(NEAR[:6]) for _ in range(n)]
        f = discover(rng, MAPPERS[0], 7, 100, st)
        # the own address right behind the declared list (padding / next bytes of the buffer), one byte early, one late
        for shift in (0, -1, 1, -5, 5):
            img = f + '00' * 12
            at = 2 * (len(f) // 2 + shift)
            img = img[:at] + OWN + img[at + 12:]
            ops.append('ev 0 %s avail=%d tbl=0' % (img, len(img) // 2))
        ops.append('ev 0 %s avail=%d tbl=0' % (discover(rng, MAPPERS[0], 7, 100, [OWN[10:12] + OWN[8:10] + OWN[6:8] + OWN[4:6] + OWN[2:4] + OWN[0:2]] + st), 1500))
    # the own address as the mapper / the Ethernet source / the real destination but not in the list
    for st in ([], [NEAR[0]], [NEAR[1], NEAR[2]]):
        ops.append('ev 0 %s avail=1500 tbl=0' % (hdr(0, 0, OWN, MAPPERS[0], OWN, MAPPERS[0], 100) + '%04x%04x' % (7, len(st)) + ''.join(st)))
        ops.append('ev 0 %s avail=1500 tbl=0' % (hdr(0, 0, 'ffffffffffff', OWN, 'ffffffffffff', MAPPERS[0], 100) + '%04x%04x' % (7, len(st)) + ''.join(st)))
    out.append(('straddle', ops))
    # declared count vs what the frame holds
    ops = base + tblops
    for declared in [0, 1, 2, 5, 6, 7, 240, 241, 256, 0x7fff, 0x8000, 0xffff, 10923, 10924, 21846, 32769, 43691, 54614]:    # incl. counts whose product with 6 wraps 16 bits
        for n in [0, 1, 5, 6]:
            for pos in [None, 0, n - 1]:
                if pos is not None and (pos < 0 or pos >= n):
                    continue
                st = [rng.choice(NEAR) for _ in range(n)]
                if pos is not None:
                    st[pos] = OWN
                f = discover(rng, MAPPERS[0], 7, 100, st, declared=declared)
                for extra in [0, 1, 5, 6, 11, 12]:
                    ops.append('poison %d' % rng.choice([0, 0xA5, int(OWN[0:2], 16)]))
                    ops.append('ev 0 %s avail=%d tbl=0' % (f, len(f) // 2 + extra))
    out.append(('declared', ops))
    # HISTORIES of one session: an acknowledging Discover, then the same mapper's next Discovers announcing FEWER stations while
    # the buffer still holds the old list behind the announced one (a re-used transmit buffer, a trailer) - whatever the
    # classifier remembered about the session from the earlier frame, only the announced entries count
    for hk, (n, p) in enumerate([(3, 2), (3, 1), (12, 11), (12, 5), (40, 39), (200, 150)]):
        ops = base + ['tbl add 0 %s 7 100' % MAPPERS[0], 'tbl add 0 %s 8 200' % MAPPERS[1]]
        st = [rng.choice(NEAR) for _ in range(n)]
        st[p] = OWN
        for mapper, gen in ((MAPPERS[0], 7), (MAPPERS[1], 8)):
            ops.append('ev 0 %s avail=1500 tbl=0' % discover(rng, mapper, gen, 100, st))
            for declared in sorted({1, p, max(p - 1, 1), p + 1, n, 0}):
                for xid in (100, 101):
                    f = discover(rng, mapper, gen, xid, st, declared=declared)
                    ops.append('ev 0 %s avail=%d tbl=0' % (f, rng.choice([len(f) // 2, 1500])))
            ops.append('ev 0 %s avail=1500 tbl=0' % discover(rng, mapper, gen, 102, [NEAR[0]] * n))
            ops.append('ev 0 %s avail=1500 tbl=0' % discover(rng, mapper, gen, 103, st, declared=1))
        out.append(('hist%d' % hk, ops))
    # all opcodes, resets, hello, truncation
    ops = base + tblops
    for op in range(256):
        for rdst in ['ffffffffffff', OWN, 'fffffffffffe']:
            f = hdr(rng.choice([0, 1, 2]), op, 'ffffffffffff', MAPPERS[0], rdst, MAPPERS[0], 5) + '00070001' + OWN
            ops.append('ev 0 %s avail=%d tbl=0' % (f, rng.choice([len(f) // 2, 100])))
    f = discover(rng, MAPPERS[0], 7, 100, [OWN])
    for avail in range(0, len(f) // 2 + 1):
        ops.append('ev 0 %s avail=%d tbl=0' % (f[:2 * avail], avail))
    out.append(('opcodes', ops))
    # random tables and frames
    n = 60 if tier == 'quick' else 5000
    for k in range(n):
        ops = list(base)
        for _ in range(rng.randint(0, 6)):
            ops.append('tbl add 0 %s %d %d' % (rng.choice(MAPPERS), rng.choice([7, 8]), rng.choice([100, 200])))
        if rng.random() < 0.3:
            ops.append('tbl remove 0 %s %d' % (rng.choice(MAPPERS), rng.choice([7, 8])))
        for _ in range(rng.randint(1, 12)):
            nst = rng.choice([0, 1, 2, 3, 10, 40])
            st = [rng.choice(NEAR + [OWN]) if rng.random() < 0.15 else rng.choice(NEAR) for _ in range(nst)]
            f = discover(rng, rng.choice(MAPPERS), rng.choice([7, 8]), rng.choice([100, 200, 300]), st,
                         declared=rng.choice([None, None, None, nst + 1, 0xffff, 0]), eth=rng.choice([None, None, rng.choice(MAPPERS), '0200000000bb']))
            ops.append('ev 0 %s avail=%d tbl=%s' % (f, len(f) // 2 + rng.choice([0, 0, 3, 6, 700]), rng.choice(['0', '0', '0', '-'])))
            if nst > 1 and rng.random() < 0.3:
                # the next Discover of that mapper: the same bytes, fewer (or more) stations announced
                g = f[:68] + '%04x' % rng.randrange(0, nst + 2) + f[72:]
                ops.append('ev 0 %s avail=%d tbl=0' % (g, len(g) // 2))
        out.append(('rand%d' % k, ops))
    # universal automata schedule (all public calls, missing objects, near-colliding keys, bridged frames, every deadline): this check's predicate on it
    # one kind of call repeated hundreds of times (run lengths, counters, thresholds), then the consequences
    out += auto.soak_cases(rng, tier)
    for k in range(150 if tier == 'quick' else 6000):
        out.append(('au%d' % k, auto.schedule(rng)))
        if k % 3 == 0:
            out.append(('au2_%d' % k, auto.schedule2(rng)))      # two responders in one process, interleaved on the shared clock
    return out


def nontrivial(ops, impl):
    return any(l.startswith('event ') and l != 'event -1' for l in impl)


def classify(ops, impl):
    return sorted({l for l in impl if l.startswith('event ')})
