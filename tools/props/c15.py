"""C15 — session automaton: exhaustive single steps + random event sequences"""
from .common import ident

from . import auto

PROP = 'C15'
PREDICATE = 'C15'
LEAN_TARGETS = ['LLTD.Props.C15', 'LLTD.Props.C15T']
VARIANT = 'plain'
EXHAUSTIVE = True
RULE = ('every tier: all (state, input in -128..255 and boundary ints, elapsed in {0,t-1,t,t+1,10t}) single steps of '
        'switch_state_session, all pairs of events with the clock moving on during the first one (`fsm stepj`: entry phase within the second x jump x gap around the timeout), plus seeded random event/time sequences over the session-event alphabet; '
        'non-trivial = the automaton changed state; distinct = distinct projected transcript')
ASSUMPTIONS = ['clock values stay below 2^64 s and never run backwards']
project = ident

INPUTS = list(range(-128, 256)) + [-32768, -129, 256, 65535, 2147483647, -2147483647]


def cells(X):
    tos = X['sessionTimeouts']
    out = []
    for s in range(X['sessionStatesNo']):
        t = tos[s] if s < len(tos) else 0
        for el in sorted({0, max(t - 1, 0), t, t + 1, 10 * t, 100, 255, 256, 256 + t, 65535, 65536, 65536 + t, 65537 + t, 2**32, 2**32 + t}):     # also what a narrowed elapsed time would alias
            base = 5000 if el < 5000 else 10**10
            ops = ['fsm new 0 sess', 'clock %d' % (base * 1000)]
            for i in INPUTS:
                ops.append('fsm set 0 %d %d' % (s, base - el))
                ops.append('fsm step 0 %d' % i)
            out.append(('cell_s%d_e%d' % (s, el), ops))
    return out


def cases(rng, tier, X):
    out = cells(X)
    out += auto.moving_clock_cells('sess', X['sessionStatesNo'], X['sessionTimeouts'], list(range(8)))
    n = 300 if tier == 'quick' else 20000
    for k in range(n):
        ops = ['fsm new 0 sess', 'clock %d' % rng.choice([0, 5000])]
        for _ in range(rng.randint(3, 40)):
            if rng.random() < 0.7:
                ops.append('fsm step 0 %d' % rng.choice([-1, 0, 1, 2, 3, 4, 5, 6, 7, 2, 3, 4, 5, 1, 8, rng.randint(-5, 12)]))
                if rng.random() < 0.2:
                    ops[-1] = ops[-1].replace('fsm step', 'fsm stepj') + ' %d' % rng.choice([1, 500, 1000, 1001])
            else:
                ops.append('clock %d' % rng.choice([0, 500, 999, 1000, 1001, 2000, 2001, 3000, rng.randint(0, 5000)]))
        out.append(('seq%d' % k, ops))
    # universal automata schedule (all public calls, missing objects, near-colliding keys, bridged frames, every deadline): this check's predicate on it
    # one kind of call repeated hundreds of times (run lengths, counters, thresholds), then the consequences
    out += auto.soak_cases(rng, tier)
    for k in range(150 if tier == 'quick' else 6000):
        out.append(('au%d' % k, auto.schedule(rng)))
        if k % 3 == 0:
            out.append(('au2_%d' % k, auto.schedule2(rng)))      # two responders in one process, interleaved on the shared clock
    return out


def nontrivial(ops, impl):
    return len({l.split()[2] for l in impl if l.startswith('fsm 0 ')}) > 1


def classify(ops, impl):
    return ['cell' if (ops[1].startswith('clock 5000000') or ops[1].startswith('clock 10000000000000')) else 'sequence']
