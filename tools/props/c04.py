"""C04 — Hello properties encode the interface attributes; Linux port clause"""
import os
import subprocess
from . import frames as F
from .c02 import project

PROP = 'C04'
PREDICATE = 'C04'
LEAN_TARGETS = ['LLTD.Props.C04']
VARIANT = 'plain'
RULE = ('attribute tuples dense on byte boundaries (every byte of flags/ifType/IPv4/speed/rate in {00,01,7F,80,FF}), MAC/BSSID from a '
        'near-collision pool, IPv6 random and patterned, names and SSIDs of every length 0..40, RSSI over [-128,127], wireless on/off, '
        'every getter failing alone and in random subsets; each tuple answered by one Discover on a fresh interface; plus random '
        'network_interface_t records through the real os/linux/lltd_port.c getters; non-trivial = a Hello was produced; '
        'distinct = distinct attribute line')
ASSUMPTIONS = ['port contract as for C02', 'the getifaddrs-based IPv4/IPv6 lookups of the Linux port are OS state and not exercised',
               'big-endian hosts are not exercised (the endianness probe runs on x86-64)']
B = [0x00, 0x01, 0x7f, 0x80, 0xff]


def u32(rng):
    return (rng.choice(B) << 24) | (rng.choice(B) << 16) | (rng.choice(B) << 8) | rng.choice(B)


def tuple_ops(rng, k):
    wifi = rng.random() < 0.6
    kw = dict(flags=u32(rng), iftype=u32(rng), ipv4='%08x' % u32(rng), speed=u32(rng),
              ipv6=rng.choice(['00' * 16, 'ff' * 16, 'fe80' + '00' * 6 + '0123456789abcdef', ''.join('%02x' % rng.randrange(256) for _ in range(16))]),
              buf0=rng.choice([0, 0xff]))
    if wifi:
        kw.update(wifi=1, mode=rng.choice(B + [2]), bssid=F.rand_mac(rng),
                  ssid=(''.join('%02x' % rng.randrange(256) for _ in range(k % 41)) or '-'), ssidrep=rng.choice(['copied', 'full']),
                  rate=(rng.choice(B) << 8) | rng.choice(B), rssi=rng.choice([-128, -127, -1, 0, 1, 126, 127, rng.randint(-128, 127)]))
    r = rng.random()
    if r < 0.25:
        kw['getfail'] = 1 << rng.randrange(9)
    elif r < 0.4:
        kw['getfail'] = rng.randrange(512) & ~1     # the MTU getter is C18's business
    hostlen = (k * 7) % 41
    host = ''.join('%02x' % rng.randrange(256) for _ in range(hostlen)) or '-'
    mac = rng.choice(F.NEAR[:7] + [''.join('%02x' % rng.choice(B) for _ in range(6))])
    return [F.iface_line(0, mac=mac, mtu=rng.choice([576, 1500]), **kw), F.glob_line(host=host, hostrep=rng.choice(['copied', 'full'])),
            'rx 0 ' + F.discover(rng.choice(F.STATIONS), rng.randrange(65536), rng.randrange(65536), tos=rng.choice([0, 1]))]


def cases(rng, tier, X):
    n = 1200 if tier == 'quick' else 120000
    return [('t%d' % k, tuple_ops(rng, k)) for k in range(n)]


def nontrivial(ops, impl):
    return any(l.startswith('tx ') for l in impl)


def classify(ops, impl):
    ks = ['wifi' if 'wifi=1' in ops[0] else 'wired']
    if 'getfail=' in ops[0]:
        ks.append('getter_failure')
    return ks
