"""C04 — Hello properties encode the interface attributes; Linux port clause"""
import os
import subprocess
from . import frames as F
from .c02 import project

PROP = 'C04'
PREDICATE = 'C04'
LEAN_TARGETS = ['LLTD.Props.C04', 'LLTD.Props.C04H', 'LLTD.Props.C04T']
VARIANT = 'plain'
RULE = ('attribute tuples dense on byte boundaries (every byte of flags/ifType/IPv4/speed/rate in {00,01,7F,80,FF}), MAC/BSSID from a '
        'near-collision pool, IPv6 random and patterned, names and SSIDs of every length 0..40, RSSI over [-128,127], wireless on/off, '
        'every getter failing alone and in random subsets; each tuple answered by one Discover on a fresh interface; plus random '
        'network_interface_t records through the real os/linux/lltd_port.c getters; non-trivial = a Hello was produced; '
        'distinct = distinct attribute line')
ASSUMPTIONS = ['port contract as for C02', 'the getifaddrs-based IPv4/IPv6 lookups of the Linux port are OS state and not exercised',
               'big-endian hosts are not exercised (the endianness probe runs on x86-64)']
B = [0x00, 0x01, 0x7f, 0x80, 0xff]


def u32(rng):
    return (rng.choice(B) << 24) | (rng.choice(B) << 16) | (rng.choice(B) << 8) | rng.choice(B)


def tuple_ops(rng, k):
    wifi = rng.random() < 0.6
    kw = dict(flags=u32(rng), iftype=u32(rng), ipv4='%08x' % u32(rng), speed=u32(rng),
              ipv6=rng.choice(['00' * 16, 'ff' * 16, 'fe80' + '00' * 6 + '0123456789abcdef', ''.join('%02x' % rng.randrange(256) for _ in range(16))]),
              buf0=rng.choice([0, 0xff]))
    if wifi:
        kw.update(wifi=1, mode=rng.choice(B + [2]), bssid=F.rand_mac(rng),
                  ssid=(''.join('%02x' % rng.randrange(256) for _ in range(k % 41)) or '-'), ssidrep=rng.choice(['copied', 'full']),
                  rate=(rng.choice(B) << 8) | rng.choice(B), rssi=rng.choice([-128, -127, -1, 0, 1, 126, 127, rng.randint(-128, 127)]))
    r = rng.random()
    if r < 0.25:
        kw['getfail'] = 1 << rng.randrange(9)
    elif r < 0.4:
        kw['getfail'] = rng.randrange(512) & ~1     # the MTU getter is C18's business
    hostlen = (k * 7) % 41
    host = ''.join('%02x' % rng.randrange(256) for _ in range(hostlen)) or '-'
    mac = rng.choice(F.NEAR[:7] + [''.join('%02x' % rng.choice(B) for _ in range(6))])
    return [F.iface_line(0, mac=mac, mtu=rng.choice([576, 1500]), **kw), F.glob_line(host=host, hostrep=rng.choice(['copied', 'full'])),
            'rx 0 ' + F.discover(rng.choice(F.STATIONS), rng.randrange(65536), rng.randrange(65536), tos=rng.choice([0, 1]))]


def cases(rng, tier, X):
    n = 1200 if tier == 'quick' else 120000
    out = [('t%d' % k, tuple_ops(rng, k)) for k in range(n)]
    # the attributes change between two Hellos (machine name renamed, addresses, speed, ...), also seen from a second interface
    for k in range(40 if tier == 'quick' else 3000):
        ops = tuple_ops(rng, k)
        ops.insert(1, F.iface_line(1, mac=F.OWN2, mtu=576, wifi=rng.choice([0, 1]), mode=1, bssid=F.STATIONS[3], ssid='6162', rate=11, rssi=-70))
        M = F.STATIONS[0]
        for _ in range(rng.randint(1, 3)):
            ops.append(rng.choice(['glob host=%s' % (''.join('%02x' % rng.randrange(1, 256) for _ in range(rng.choice([0, 2, 13, 31, 32, 33, 40]))) or '-'),
                                   'set 0 speed=%d' % rng.randrange(2**32), 'set 0 ipv4=%08x' % rng.randrange(2**32), 'set 0 flags=%d' % rng.randrange(65536),
                                   'set 1 rssi=%d' % rng.randint(-128, 127), 'set 1 rate=%d' % rng.randrange(65536)]))
            if rng.random() < 0.5:
                ops.append('rx %d %s' % (rng.choice([0, 1]), F.reset(M)))
            ops.append('rx 1 %s' % F.discover(M, 3, 4, tos=rng.choice([0, 1])))
            ops.append('rx 0 %s' % F.discover(M, 5, 6, tos=rng.choice([0, 1])))
        out.append(('chg%d' % k, ops))
    # universal traffic (every frame type / sender / path / service / boundary value, 1..3 interfaces): this check's predicate on it
    for k in range(150 if tier == 'quick' else 6000):
        out.append(('u%d' % k, F.universal(rng)))
        if k % 2 == 0:
            # the same kind of traffic with every kind of platform fault injected at random points
            out.append(('uf%d' % k, F.with_faults(rng, F.universal(rng))))
    return out


def nontrivial(ops, impl):
    return any(l.startswith('tx ') for l in impl)


def classify(ops, impl):
    ks = ['wifi' if 'wifi=1' in ops[0] else 'wired']
    if 'getfail=' in ops[0]:
        ks.append('getter_failure')
    return ks


def extra_run(tier, seed, tag):
    """Linux clause: the REAL os/linux/lltd_port.c getters on random / boundary records vs the Lean model,
    plus the property's relation checked on the implementation's output"""
    import random
    import vlib
    out = {'violations': [], 'notes': [], 'coverage': {}}
    bdir = os.path.join(vlib.BUILD, tag, 'linuxport')
    os.makedirs(bdir, exist_ok=True)
    src = os.path.join(vlib.REPO, 'os', 'linux', 'lltd_port.c')
    r = vlib.run(['gcc', '-std=gnu11', '-O1', '-w', '-D_GNU_SOURCE', '-I' + os.path.join(vlib.REPO, 'lltdResponder'), '-I' + os.path.join(vlib.REPO, 'os', 'linux'),
                  src, os.path.join(vlib.VERIF, 'harness', 'linuxport_main.c'), '-o', os.path.join(bdir, 'linuxport')])
    if r.returncode != 0:
        out['notes'].append('Linux port harness does not build: ' + r.stdout[-500:])
        return out
    rng = random.Random(seed * 31 + 5)
    U = [0, 1, 99, 100, 101, 199, 200, 0x7fffffff, 0x80000000, 0xffffffff, 1000000000, 10000000]
    recs = []
    for k in range(400 if tier == 'quick' else 40000):
        mac = rng.choice(F.NEAR[:7]) if rng.random() < 0.5 else ''.join('%02x' % rng.choice(B) for _ in range(6))
        recs.append('%s %d %d %d %d %d %d' % (mac, rng.choice([576, 1500, 9216, 0, 0xffffffff, rng.randrange(2**32)]), rng.choice(U + [rng.randrange(2**32)]),
                                           rng.choice(U + [rng.randrange(2**32)]), rng.choice([0, 0x10, 0x20, 0x30, 0xffffffef, 0xffffffff, rng.randrange(2**32)]),
                                           rng.choice([0, 8, 1, 0x41, 0x49, 0xfffffff7, 0xffffffff, rng.randrange(2**32)]),
                                           rng.choice([0, 0, rng.randrange(1, 2**31)])))
    # the IANA / ARPHRD interface types a real host has, for every class of record (junk % 8 = class)
    for ift in (6, 1, 24, 71, 131, 53, 772, 801, 803):
        for cls in range(8):
            recs.append('%s 1500 %d 1000000000 %d %d %d' % (F.NEAR[0], ift, rng.choice([0, 0x10]), rng.choice([0, 8, 0x41]), 8 * rng.randrange(1, 1000) + cls))
    rp = os.path.join(bdir, 'recs.txt')
    open(rp, 'w').write('\n'.join(recs) + '\n')
    impl = subprocess.run([os.path.join(bdir, 'linuxport')], stdin=open(rp), stdout=subprocess.PIPE, text=True).stdout.strip().split('\n')
    model = vlib.run([vlib.DRIVER, 'linuxrec', rp]).stdout.strip().split('\n')
    nd = 0
    for i, rec in enumerate(recs):
        a = impl[i] if i < len(impl) else '<missing>'
        b = model[i] if i < len(model) else '<missing>'
        mac, mtu, ift, spd, med, fl, _junk = rec.split()
        spd, med, fl = int(spd), int(med), int(fl)
        want = 'rec mac=%s mtu=%s iftype=%s speed=%d flags=%d rc=0000' % (mac, mtu, ift, spd // 100, (0x2000 if med & 0x10 else 0) | (0x800 if fl & 8 else 0))
        if a != want:
            out['violations'].append(('linuxrec%d' % i, ['linuxrec ' + rec], (0, 'C04 Linux clause: record `%s` is supplied as `%s`, expected `%s`' % (rec, a, want))))
        if a != b:
            nd += 1
            if nd <= 3:
                out['notes'].append('Linux port: model and implementation differ on record `%s`: %s vs %s' % (rec, a, b))
    out['coverage'] = {'linux_port_records': len(recs), 'linux_port_differences': nd, 'linux_port_sample': [recs[0], impl[0] if impl else '']}
    return out
