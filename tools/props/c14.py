"""C14 — mapping engine: exhaustive single steps + random event/time/tick sequences"""
from .common import ident

from . import auto

PROP = 'C14'
PREDICATE = 'C14'
LEAN_TARGETS = ['LLTD.Props.C14', 'LLTD.Props.C14T']
VARIANT = 'plain'
EXHAUSTIVE = True
RULE = ('every tier: all (state, input in -128..255 and boundary ints, elapsed in {0,t-1,t,t+1,10t}) single steps of '
        'switch_state_mapping via `fsm set`/`fsm step`, all pairs of events with the clock moving on during the first one (`fsm stepj`), plus seeded random sequences of inputs, clock advances, '
        'charge/inactivity calls and ticks with a session table; a case is non-trivial if the automaton changed state; '
        'distinct = distinct projected transcript')
ASSUMPTIONS = ['clock values stay below 2^64 s and never run backwards (uint64_t wrap-around of time stamps is not modelled)']
project = ident

INPUTS = list(range(-128, 256)) + [-32768, -129, 256, 257, 65535, 2147483647, -2147483647]


def cells(X):
    tos = X['mappingTimeouts']
    out = []
    for s in range(X['mappingStatesNo']):
        t = tos[s] if s < len(tos) else 0
        els = sorted({0, max(t - 1, 0), t, t + 1, 10 * t, 31, 100, 255, 256, 256 + t, 65535, 65536, 65536 + t, 65537 + t, 2**32, 2**32 + t})     # also what a narrowed elapsed time would alias
        for el in els:
            base = 5000 if el < 5000 else 10**10
            ops = ['fsm new 0 map', 'clock %d' % (base * 1000)]
            for i in INPUTS:
                ops.append('fsm set 0 %d %d' % (s, base - el))
                ops.append('fsm step 0 %d' % i)
            out.append(('cell_s%d_e%d' % (s, el), ops))
    return out


def sequence(rng, n):
    ops = ['fsm new 0 map', 'tbl new 0', 'fsm new 1 enum', 'clock %d' % rng.choice([0, 1000, 123456])]
    macs = ['0200000000%02x' % k for k in range(1, 5)]
    for _ in range(n):
        c = rng.random()
        if c < 0.35:
            i = rng.choice([0, 0, 2, 2, 8, 4, 6, 11, 9, -3, -2, -1, 1, 3, 5, 7, 12, rng.randint(-128, 255)])
            ops.append('fsm step 0 %d' % i)
            if rng.random() < 0.15:
                ops[-1] = 'fsm stepj 0 %d %d' % (i, rng.choice([1, 500, 1000, 1001]))
            if rng.random() < 0.6:
                ops.append('map resetinact 0')
        elif c < 0.6:
            ops.append('clock %d' % rng.choice([0, 1, 999, 1000, 1001, 4000, 5000, 6000, 29000, 30000, 31000, 61000, rng.randint(0, 120000)]))
        elif c < 0.75:
            ops.append('tick 0 %s 0 %s' % (rng.choice(['1', '-']), rng.choice(['wired', 'none'])))
        elif c < 0.85:
            ops.append('tbl add 0 %s %d %d' % (rng.choice(macs), rng.randint(0, 2), rng.randint(0, 3)))
        elif c < 0.92:
            ops.append('map charge 0')
        else:
            ops.append(rng.choice(['map checkcharge 0', 'map checkinact 0', 'map resetcharge 0']))
    return ops


def cases(rng, tier, X):
    out = cells(X)
    out += auto.moving_clock_cells('map', X['mappingStatesNo'], X['mappingTimeouts'], [0, 2, 8, -1, -3, 3, 6])
    n = 300 if tier == 'quick' else 20000
    for k in range(n):
        out.append(('seq%d' % k, sequence(rng, rng.randint(5, 60))))
    # universal automata schedule (all public calls, missing objects, near-colliding keys, bridged frames, every deadline): this check's predicate on it
    # one kind of call repeated hundreds of times (run lengths, counters, thresholds), then the consequences
    out += auto.soak_cases(rng, tier)
    for k in range(150 if tier == 'quick' else 6000):
        out.append(('au%d' % k, auto.schedule(rng)))
        if k % 3 == 0:
            out.append(('au2_%d' % k, auto.schedule2(rng)))      # two responders in one process, interleaved on the shared clock
    return out


def nontrivial(ops, impl):
    states = {l.split()[2] for l in impl if l.startswith('fsm 0 ')}
    return len(states) > 1


def classify(ops, impl):
    ks = []
    if any(o.startswith('tick') for o in ops):
        ks.append('has_tick')
    if any(' state=0 ' in l for l in impl if l.startswith('fsm 0')) and any(' state=2 ' in l for l in impl if l.startswith('fsm 0')):
        ks.append('reaches_emit_and_idle')
    ks.append('cell' if ops and (ops[1].startswith('clock 5000000') or ops[1].startswith('clock 10000000000000')) else 'sequence')
    return ks
