"""C19 — bounded memory, nothing leaked"""
from . import frames as F

PROP = 'C19'
PREDICATE = 'C19'
LEAN_TARGETS = ['LLTD.Props.C19', 'LLTD.Props.C19H']
VARIANT = 'plain'
RULE = ('histories of all request types on one or two interfaces with the ledger line after every frame compared to the retained state the '
        'specification predicts; floods of Probes with pairwise distinct sources and no Query (quick 2 x 3000 frames, thorough 10^5), flood/Query rounds where a Query leaves a remainder, '
        'Resets at random points; non-trivial = the number of live allocations changed at least 3 times; distinct = distinct projected transcript')
ASSUMPTIONS = ['port contract as for C02', 'the ledger of the verification port sees every lltd_port_malloc/free and the icon / friendly-name blocks the port hands out']


def project(lines):
    return [l for l in lines if l.startswith(('#', 'tx', 'sleep', 'abort', 'fault', 'bad-op', 'end ', 'st ', 'obs '))]


def cases(rng, tier, X):
    out = []
    n = 150 if tier == 'quick' else 10000
    for k in range(n):
        ops = [F.iface_line(0, mac=F.OWN, mtu=rng.choice([576, 1500])), F.iface_line(1, mac=F.OWN2, mtu=1500),
               F.glob_line(icon=rng.choice(['none', 'gen:500:3', 'gen:4000:1']), fname=rng.choice(['none', 'gen:300:2']), hwid='41004200')]
        for _ in range(rng.randint(1, 5)):
            i = rng.choice([0, 0, 1])
            own = F.OWN if i == 0 else F.OWN2
            for f in F.session(rng, own, n=rng.randint(1, 25)):
                if len(f) // 2 <= 576:
                    ops.append('rx %d %s' % (i, f))
        out.append(('h%d' % k, ops))
    # flood / Query rounds: a Query that cannot carry everything leaves a remainder; the cap must still hold afterwards
    for c in range(2 if tier == 'quick' else 20):
        ops = [F.iface_line(0, mac=F.OWN, mtu=rng.choice([576, 1500])), F.glob_line()]
        ops.append('rx 0 ' + F.discover(F.STATIONS[0], 1, 1))
        serial = 0
        for rnd in range(3):
            for i in range(rng.choice([60, 400, 1100])):
                serial += 1
                src = '07%02x%02x%02x%02x%02x' % (c, (serial >> 16) & 255, (serial >> 8) & 255, serial & 255, rnd)
                ops.append('rx 0 ' + F.probe(src, F.OWN, src, F.OWN, train=bool(i & 1)))
            for _ in range(rng.choice([1, 1, 3])):
                ops.append('rx 0 ' + F.query(F.STATIONS[0], F.OWN, 5 + rnd))
        ops.append('rx 0 ' + F.reset(F.STATIONS[0]))
        out.append(('rounds%d' % c, ops))
    floods = [(2, 3000)] if tier == 'quick' else [(2, 3000), (1, 100000)]
    for fi, (cnt, length) in enumerate(floods):
        for c in range(cnt):
            ops = [F.iface_line(0, mac=F.OWN, mtu=576), F.glob_line()]
            ops.append('rx 0 ' + F.discover(F.STATIONS[0], 1, 1))
            for i in range(length):
                src = '06%02x%02x%02x%02x%02x' % (c, (i >> 16) & 255, (i >> 8) & 255, i & 255, rng.randrange(256))
                ops.append('rx 0 ' + F.probe(src, F.OWN, src, F.OWN, train=bool(i & 1)))
                if i in (500, 2000) and c == 1:
                    ops.append('rx 0 ' + F.reset(F.STATIONS[0]))
            ops.append('rx 0 ' + F.reset(F.STATIONS[0]))
            out.append(('flood%d_%d' % (fi, c), ops))
    # small scope, exhaustively: every frame sequence up to length 2 (thorough: 3) over the 23-symbol alphabet of frames.alphabet()
    out += F.small_scope(2 if tier == 'quick' else 3)
    # one kind of event repeated hundreds / thousands of times (counters wrapping, thresholds, budgets), then ordinary traffic
    out += F.soak_cases(rng, tier)
    # universal traffic (every frame type / sender / path / service / boundary value, 1..3 interfaces): this check's predicate on it
    for k in range(150 if tier == 'quick' else 6000):
        out.append(('u%d' % k, F.universal(rng)))
        if k % 2 == 0:
            # the same kind of traffic with transmit refusals (the only platform fault this predicate is stated for) injected at random points
            out.append(('uf%d' % k, F.with_faults(rng, F.universal(rng), malloc=False, getters=False)))
    return out


def nontrivial(ops, impl):
    return len({l for l in impl if l.startswith('end ')}) >= 3


def classify(ops, impl):
    return ['flood' if len(ops) > 1000 else 'history']
