"""C09 — a topology Reset returns the responder to fresh-start behaviour (paired traces)"""
from . import frames as F
from .c02 import project, attrs, history

PROP = 'C09'
PREDICATE = 'C09'
LEAN_TARGETS = ['LLTD.Props.C09']
VARIANT = 'plain'
RULE = ('two interface contexts with identical attributes in one process: arbitrary history h (valid sessions, mutations, noise; '
        'platform attributes incl. the icon changed with `set`/`glob`, in particular right before the Reset; single frames during which the address / MTU query fails or the interface has another address) on context 0, a ToS-0 Reset, '
        'then a continuation c (sessions incl. QueryLargeTlv of every cached property, Queries, Emits) delivered to both contexts with '
        'zero-filled buffer tails; the reactions are compared frame by frame; non-trivial = the continuation produced at least 3 '
        'transmits; distinct = distinct projected transcript')
ASSUMPTIONS = ['port contract as for C02', 'both contexts see the same buffer images (tail zero-filled), the same platform attributes and no faults']


def cases(rng, tier, X):
    n = 200 if tier == 'quick' else 15000
    out = []
    for k in range(n):
        mtu = rng.choice([576, 1500])
        a = attrs(rng)
        ops = [F.iface_line(0, mac=F.OWN, mtu=mtu, **a), F.iface_line(1, mac=F.OWN, mtu=mtu, **a),
               F.glob_line(icon=rng.choice(['none', 'gen:700:1', 'gen:2000:2']), fname=rng.choice(['none', '41004200']), hwid='4100')]
        clocked = rng.random() < 0.5
        if clocked:
            ops.append('clock %d' % rng.choice([1, 1000, 5000]))
        hist = history(rng, F.OWN, mtu)
        for f in hist:
            if clocked and rng.random() < 0.5:
                ops.append('clock %d' % rng.choice(F.CLOCK_STEPS[:10]))     # time passes; in particular Resets a few milliseconds apart
            hiccup = rng.random() < 0.08
            if hiccup:
                # the platform misbehaves for exactly this frame: the address / MTU query fails (any non-zero code), or the
                # interface has another address for a moment — nothing of it may outlive the Reset
                ops.append(rng.choice(['set 0 getfail=2', 'set 0 getfail=1', 'set 0 getfail=3', 'set 0 mac=%s' % F.OWN2]))
            ops.append('rx 0 %s%s' % (f, rng.choice(['', ' zero'])))
            if hiccup:
                ops.append('set 0 getfail=0 mac=%s' % F.OWN)
            if rng.random() < 0.05:
                ops.append('glob icon=%s' % rng.choice(['gen:300:7', 'gen:900:8', 'none', 'none failsize=%d' % rng.choice([40, 3000])]))
        if rng.random() < 0.6:
            ops.append('glob icon=%s failsize=0' % rng.choice(['gen:100:9', 'gen:1200:4', 'none', '-']))
        if rng.random() < 0.3:
            ops.append('glob host=%s' % rng.choice(['6161', '-', '62' * 33]))
        if rng.random() < 0.3:
            # an earlier Reset a few milliseconds before the one under test, with state-building frames in between
            m = rng.choice(F.STATIONS)
            ops.append('rx 0 %s zero' % F.reset(m, tos=0))
            for f in [F.discover(m, 9, 9), F.probe(F.STATIONS[1], F.OWN, F.STATIONS[1], F.OWN), F.qltlv(m, F.OWN, 3, 0x0e, 0)]:
                ops.append('clock %d' % rng.choice([0, 1, 5, 20, 30]))
                ops.append('rx 0 %s zero' % f)
        if clocked:
            ops.append('clock %d' % rng.choice(F.CLOCK_STEPS[:10]))
        ops.append('rx 0 %s zero' % F.reset(rng.choice(F.STATIONS), tos=0))
        ops.append('note continuation')
        cont = []
        if rng.random() < 0.5:
            # the continuation starts with the very frames that came last before the Reset (same senders, same sequence
            # numbers, same offsets): whatever the responder remembered about them must be gone
            cont += hist[-rng.randint(1, 4):]
            if rng.random() < 0.5:
                cont.append(F.query(rng.choice(F.STATIONS), F.OWN, 5))
        if rng.random() < 0.4:
            # ... or with commands carrying the sequence numbers a freshly started responder has never seen but a cleared record
            # holds: 0 (what the Reset writes), the last numbers of the history - from any station, before any Discover
            m = rng.choice(F.STATIONS)
            for q in rng.sample([0, 0, 1, 5, 7, 65535], 3):
                cont.append(rng.choice([F.query(m, F.OWN, q), F.query(m, F.OWN, q), F.qltlv(m, F.OWN, q, rng.choice([0x0e, 0x11, 0x13]), 0),
                                        F.emit(m, F.OWN, q, [(1, 0, F.STATIONS[2], F.STATIONS[3])])]))
        for _ in range(rng.randint(1, 3)):
            cont += F.session(rng, F.OWN, n=rng.randint(2, 14))
        mapper = rng.choice(F.STATIONS)
        cont += [F.discover(mapper, 3, 4), F.qltlv(mapper, F.OWN, 5, 0x0e, 0), F.qltlv(mapper, F.OWN, 6, 0x0e, 100), F.query(mapper, F.OWN, 7)]
        for f in cont:
            if len(f) // 2 <= mtu:
                ops.append('rx 0 %s zero' % f)
                ops.append('rx 1 %s zero' % f)
        out.append(('r%d' % k, ops))
    # universal traffic (every frame type / sender / path / service / boundary value, 1..3 interfaces): this check's predicate on it
    for k in range(150 if tier == 'quick' else 6000):
        out.append(('u%d' % k, F.universal(rng)))
    return out


def nontrivial(ops, impl):
    seen = False
    n = 0
    for l in impl:
        if l.startswith('# note continuation'):
            seen = True
        elif seen and l.startswith('tx 1 '):
            n += 1
    return n >= 3


def classify(ops, impl):
    return ['icon_changed_before_reset' if any(o.startswith('glob icon=') for o in ops) else 'icon_constant']
