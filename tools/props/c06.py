"""C06 — Emit execution"""
from . import frames as F
from .c02 import project

PROP = 'C06'
PREDICATE = 'C06'
LEAN_TARGETS = ['LLTD.Props.C06', 'LLTD.Props.C06H', 'LLTD.Props.C06T']
VARIANT = 'plain'
RULE = ('Emit frames from the active mapper with n in {1,2,3,cap-1,cap,random} descriptors that fit (cap = (MTU-34)/14), kinds 0/1, pauses '
        '0/1/255/random, arbitrary addresses, nonzero sequence numbers, MTU in {576,1500,9216}, direct and bridged mappers, preceded by '
        'random session prefixes and, in a third of the cases, by an Emit executed on a second interface with another address; an Emit executed while the thread of another interface handles its own Emit / Discover / Query / Probe during one of the pauses (op `nest`); plus declared counts exceeding what the frame carries (cap+1, 0x7FFF, 0xFFFF) and unknown kinds; '
        'non-trivial = at least two Probe/Train frames and an ACK were sent; distinct = distinct projected transcript')
ASSUMPTIONS = ['port contract as for C02']


def cases(rng, tier, X):
    n = 250 if tier == 'quick' else 20000
    out = []
    for k in range(n):
        mtu = rng.choice([576, 1500, 9216]) if rng.random() < 0.92 else rng.choice([9217, 9710, 16110])      # now and then beyond the usual jumbo ceiling (ixgbe 9710, e1000 16110): C06 does not bound the MTU
        cap = (mtu - 34) // 14
        own = F.OWN
        mapper = rng.choice(F.STATIONS)
        eth = rng.choice([None, None, rng.choice(F.STATIONS)])
        ops = [F.iface_line(0, mac=own, mtu=mtu), F.glob_line()]
        if rng.random() < 0.3:
            ops.append('glob sendok=len')          # a successful transmit answers with the byte count
        if rng.random() < 0.3:
            # another interface of the same responder (its own address) has executed an Emit before
            ops.insert(1, F.iface_line(1, mac=F.OWN2, mtu=rng.choice([576, 1500])))
            m2 = rng.choice(F.STATIONS)
            ops.append('rx 1 ' + F.discover(m2, 1, 1))
            ops.append('rx 1 ' + F.emit(m2, F.OWN2, 5, [(1, 0, F.rand_mac(rng), F.rand_mac(rng)), (0, 1, F.rand_mac(rng), F.rand_mac(rng))]))
        if rng.random() < 0.3:
            ops += ['rx 0 ' + f for f in F.session(rng, own, n=rng.randint(0, 5))]
            ops.append('rx 0 ' + F.reset(mapper))
        ops.append('rx 0 ' + F.discover(mapper, rng.randrange(65536), rng.randrange(65536), eth_src=eth))
        if rng.random() < 0.3:
            ops.append('rx 0 ' + F.query(mapper, own, rng.randrange(1, 65536), eth_src=rng.choice([eth, None, rng.choice(F.STATIONS)])))
        for _ in range(rng.randint(1, 4)):
            nd = rng.choice([1, 1, 2, 3, cap - 1, cap, rng.randint(1, cap)])
            descs = [(rng.choice([0, 1]), rng.choice([0, 1, 255, rng.randrange(256)]), F.rand_mac(rng), F.rand_mac(rng)) for _ in range(nd)]
            r = rng.random()
            declared = None
            if r < 0.2:
                declared = rng.choice([cap + 1, 0x7fff, 0x8000, 0xffff, nd + 1, 0, rng.choice(F.wrap_counts(14)), rng.choice(F.wrap_counts(14))])
            elif r < 0.3:
                descs[rng.randrange(nd)] = (rng.choice([2, 3, 0xff]), 1, F.rand_mac(rng), F.rand_mac(rng))
            f = F.emit(mapper, own, rng.choice([1, 0x00ff, 0x0100, 0xffff, rng.randrange(1, 65536)]), descs, eth_src=eth, declared=declared)
            if len(f) // 2 > mtu:
                f = f[:2 * mtu]
            ops.append('rx 0 ' + f)
        out.append(('e%d' % k, ops))
    # two interfaces served by two threads of one daemon: while the thread executing an Emit on interface 0 waits out a pause,
    # the thread of interface 1 executes its own Emit / answers its own Discover / Query completely (op `nest`)
    for k in range(40 if tier == 'quick' else 2000):
        m0, m1 = rng.choice(F.STATIONS), rng.choice(F.STATIONS)
        ops = [F.iface_line(0, mac=F.OWN, mtu=rng.choice([576, 1500])), F.iface_line(1, mac=F.OWN2, mtu=rng.choice([576, 1500])), F.glob_line(),
               'rx 0 ' + F.discover(m0, 1, 1), 'rx 1 ' + F.discover(m1, 2, 2)]
        for _ in range(rng.randint(1, 4)):
            nd = rng.choice([1, 2, 3, 5])
            descs = [(rng.choice([0, 1]), rng.choice([0, 1, 255]), F.rand_mac(rng), F.rand_mac(rng)) for _ in range(nd)]
            inner = rng.choice([F.emit(m1, F.OWN2, rng.randrange(1, 65536), [(rng.choice([0, 1]), rng.choice([0, 3]), F.rand_mac(rng), F.rand_mac(rng)) for _ in range(rng.choice([1, 2]))]),
                                F.discover(m1, 2, 3), F.query(m1, F.OWN2, 9), F.probe(F.rand_mac(rng), F.OWN2, F.rand_mac(rng), F.OWN2)])
            ops.append('nest 1 %s zero %d' % (inner, rng.randint(1, nd + 1)))
            ops.append('rx 0 ' + F.emit(m0, F.OWN, rng.randrange(1, 65536), descs) + ' zero')
        out.append(('nest%d' % k, ops))
    # small scope, exhaustively: every frame sequence up to length 2 (thorough: 3) over the 23-symbol alphabet of frames.alphabet()
    out += F.small_scope(2 if tier == 'quick' else 3)
    # one kind of event repeated hundreds / thousands of times (counters wrapping, thresholds, budgets), then ordinary traffic
    out += F.soak_cases(rng, tier, faults=False)
    # universal traffic (every frame type / sender / path / service / boundary value, 1..3 interfaces): this check's predicate on it
    for k in range(150 if tier == 'quick' else 6000):
        out.append(('u%d' % k, F.universal(rng)))
    return out


def nontrivial(ops, impl):
    codes = [l.split()[2][34:36] for l in impl if l.startswith('tx ') and len(l.split()) > 2]
    return codes.count('05') >= 1 and (codes.count('03') + codes.count('04')) >= 2


def classify(ops, impl):
    n = sum(1 for l in impl if l.startswith('tx ') and l.split()[2][34:36] in ('03', '04'))
    return ['probes_%s' % ('0' if n == 0 else '1_10' if n <= 10 else '11_100' if n <= 100 else '100plus')]
