"""C05 — mapper arbitration: exhaustive (ToS, opcode) single steps + random histories over >= 3 stations"""
from . import frames as F
from .c02 import project

PROP = 'C05'
PREDICATE = 'C05'
LEAN_TARGETS = ['LLTD.Props.C05', 'LLTD.Props.C05H', 'LLTD.Props.C05T']
VARIANT = 'plain'
EXHAUSTIVE = True
RULE = ('every tier: ALL frame sequences up to length 2 (thorough: 3, and 4 over nine symbols) over an alphabet of 23 representative frames (frame type x sender x path x service);  all 256 x 256 (ToS, opcode) frames from a stranger while a mapper is active, each followed by a Discover from the '
        'mapper and one from the stranger (thorough: also from the mapper itself and with no mapper active); plus seeded histories over '
        '4 stations issuing Discover/Reset/Hello/Probe/Emit/Query/QueryLargeTlv with any ToS, commands only from the active mapper or '
        'while none is active, Discover/Reset/commands arriving directly or through a bridge (Ethernet source = another station of the pool); '
        'non-trivial = at least one Discover was refused and one answered; distinct = distinct projected transcript')
ASSUMPTIONS = ['port contract as for C02', 'a stranger command while a mapper is active makes later arbitration unconstrained until the next Reset (property text)']
M, S = F.STATIONS[0], F.STATIONS[1]


def sweep(tier):
    out = []
    states = [('active', 'stranger')] if tier == 'quick' else [('active', 'stranger'), ('active', 'mapper'), ('none', 'stranger')]
    for st, who in states:
        for tos in range(256):
            ops = [F.iface_line(0, mtu=576), F.glob_line()]
            for op in range(256):
                ops.append('rx 0 ' + F.reset(M) + ' zero')
                if st == 'active':
                    ops.append('rx 0 ' + F.discover(M, 5, 1) + ' zero')
                src = S if who == 'stranger' else M
                ops.append('rx 0 ' + F.raw(tos, op, F.OWN, src, F.OWN, src, 7, '00050000') + ' zero')
                ops.append('rx 0 ' + F.discover(M, 5, 2) + ' zero')
                ops.append('rx 0 ' + F.discover(S, 6, 3) + ' zero')
            out.append(('sweep_%s_%s_tos%d' % (st, who, tos), ops))
    return out


def history(rng):
    ops = [F.iface_line(0, mtu=rng.choice([576, 1500])), F.glob_line()]
    active = None
    st = F.STATIONS[:4] if rng.random() < 0.6 else F.HIGH[:4]     # ordinary stations, or twins equal but for their first byte(s)
    for _ in range(rng.randint(5, 60)):
        c = rng.random()
        x = rng.choice(st)
        tos = rng.choice([0, 0, 0, 1, 1, 2, 2, 3, 0x80, 0xff, rng.randrange(256)])
        if c < 0.40:
            ops.append('rx 0 ' + F.discover(x, rng.choice(F.GENS + [rng.randrange(65536)]), rng.randrange(65536), tos=tos, eth_src=rng.choice([None, rng.choice(st)])))
            if tos <= 1 and active is None:
                active = x
        elif c < 0.55:
            ops.append('rx 0 ' + F.reset(x, tos=tos, eth_src=rng.choice([None, None, rng.choice(st)])))
            if tos <= 1:
                active = None
        elif c < 0.65:
            ops.append('rx 0 ' + F.hello(x, rng.randrange(65536), x, x, tos=rng.choice([0, 1, 2])))
        elif c < 0.75:
            ops.append('rx 0 ' + F.probe(F.rand_mac(rng), F.OWN, F.rand_mac(rng), F.OWN, train=rng.random() < 0.5, tos=rng.choice([0, 0, 1, 2])))
        else:
            # commands: only from the active mapper, or from anyone while none is active (C05's domain)
            who = active if active is not None else x
            kind = rng.choice(['emit', 'query', 'qltlv'])
            ctos = rng.choice([0, 0, 0, 1, 2, tos])
            seq = rng.choice([0, 1, 7, 65535])
            via = rng.choice([None, None, rng.choice(st)])   # the command may arrive through a bridge: Ethernet source differs from the real source
            if kind == 'emit':
                ops.append('rx 0 ' + F.emit(who, F.OWN, seq, [(1, 0, F.rand_mac(rng), F.rand_mac(rng))], tos=ctos, eth_src=via))
                opener = ctos == 0
            elif kind == 'query':
                ops.append('rx 0 ' + F.query(who, F.OWN, seq, tos=ctos, eth_src=via))
                opener = ctos == 0
            else:
                ops.append('rx 0 ' + F.qltlv(who, F.OWN, seq, 0x11, 0, tos=ctos, eth_src=via))
                opener = ctos <= 1 and seq != 0
            if opener and active is None:
                active = who
    return ops


def cases(rng, tier, X):
    out = sweep(tier)
    n = 300 if tier == 'quick' else 30000
    out += [('hist%d' % k, history(rng)) for k in range(n)]
    # small scope, exhaustively: every frame sequence up to length 2 (quick) / 3 (thorough) over the 23-symbol alphabet, and up to length 4 over 9 symbols
    out += F.small_scope(2 if tier == 'quick' else 3)
    # one kind of event repeated hundreds / thousands of times (counters wrapping, thresholds, budgets), then ordinary traffic
    out += F.soak_cases(rng, tier)
    if tier == 'thorough':
        out += [c for c in F.small_scope(4, symbols={'dA', 'dB', 'dA1', 'rA', 'rB1', 'eA', 'qA', 'lB1', 'p1'}) if c[0].count('_') == 4]
    # universal traffic (every frame type / sender / path / service / boundary value, 1..3 interfaces): this check's predicate on it
    for k in range(150 if tier == 'quick' else 6000):
        out.append(('u%d' % k, F.universal(rng)))
        if k % 2 == 0:
            # the same kind of traffic with transmit refusals (the only platform fault this predicate is stated for) injected at random points
            out.append(('uf%d' % k, F.with_faults(rng, F.universal(rng), malloc=False, getters=False)))
        if k % 2 == 1:
            # ... and with memory refused as well, once every interface's record exists (`C05.history_any`: no stranger is ever answered,
            # at most one Hello, who the mapper is does not depend on whether the Hello could be built)
            out.append(('ufm%d' % k, F.with_faults(rng, F.universal(rng), getters=False, malloc_after_seen=True, rate=0.2)))
    return out


def nontrivial(ops, impl):
    # replies and refusals both occur
    rx = 0
    answered = refused = 0
    cur_is_disc = False
    got = False
    for l in impl:
        if l.startswith('# rx '):
            if cur_is_disc:
                answered += got
                refused += (not got)
            h = l.split()[3]
            cur_is_disc = len(h) >= 36 and h[34:36] == '00' and h[30:32] in ('00', '01')
            got = False
        elif l.startswith('tx '):
            got = True
    return answered > 0 and refused > 0


def classify(ops, impl):
    return ['sweep' if ops[0].startswith('iface 0 mtu=576') and len(ops) > 500 else 'history']
