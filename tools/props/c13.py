"""C13 — RepeatBand arithmetic: boundary-dense r (quick), wide sweeps (thorough)"""
from .common import ident

from . import auto

PROP = 'C13'
PREDICATE = 'C13'
LEAN_TARGETS = ['LLTD.Props.C13', 'LLTD.Props.C13T', 'LLTD.Props.C13TT']
VARIANT = 'plain'
RULE = ('band_update_stats / band_choose_hello_time on band states set through the public struct: r dense at '
        '{0..20, 9768..9772, 65535..65537, 2^k and 2^k±1, 2^32-1} x prior Ni x begun, plus seeded random r; thorough adds '
        'a strided sweep of the whole 32-bit range; plus band_on_hello_received at the 8/16/32-bit boundaries of the counter (every Hello heard adds exactly one); plus automata_tick on band states whose Hello and block deadlines expire together or apart (the block end inside the tick), also with the clock moving on while the tick runs (`tickj`); non-trivial = Ni changed; distinct = distinct (r, begun, Ni before) triple')
ASSUMPTIONS = ['time stamps stay below 2^63 ms (no uint64_t wrap-around of now + interval)']
project = ident


def rvalues(rng, tier):
    rs = set(range(0, 21)) | {9768, 9769, 9770, 9771, 9772, 65535, 65536, 65537, 92681, 92682, 2**32 - 1, 2**32 - 2}
    for k in range(1, 33):
        for d in (-1, 0, 1):
            v = 2**k + d
            if 0 <= v < 2**32:
                rs.add(v)
    n = 400 if tier == 'quick' else 200000
    for _ in range(n):
        rs.add(rng.randrange(2**32))
        rs.add(rng.randrange(300))
    if tier == 'thorough':
        rs |= set(range(0, 2**32, 40507))
    return sorted(rs)


def cases(rng, tier, X):
    rs = rvalues(rng, tier)
    out = []
    chunk = 500
    for c in range(0, len(rs), chunk):
        ops = ['fsm new 0 enum', 'clock %d' % rng.choice([0, 7, 100000])]
        for r in rs[c:c + chunk]:
            ni = rng.choice([45, 45, 46, 180, 9999, 10000, 0, 44, 10001, rng.randrange(2**32)])
            begun = rng.choice([1, 1, 1, 0])
            ops.append('band set 0 %d %d %d %d %d' % (ni, r, begun, rng.choice([0, 50]), rng.choice([0, 300])))
            ops.append('band update 0')
            ops.append('band choose 0')
        out.append(('r%d' % c, ops))
    # the counter itself: Hellos heard at the 8/16/32-bit boundaries of r, then the block end
    ops = ['fsm new 0 enum', 'clock 1000']
    for r in [0, 1, 8, 9, 10, 254, 255, 256, 65534, 65535, 65536, 65537, 131071, 2**24 - 1, 2**31 - 1, 2**32 - 3, 2**32 - 2]:
        ops.append('band set 0 45 %d 1 0 0' % r)
        ops += ['band heard 0', 'band heard 0', 'band update 0', 'band choose 0']
    out.append(('heard', ops))
    # sequences through the public calls only (heard ... update ... dohello)
    for k in range(40 if tier == 'quick' else 2000):
        ops = ['fsm new 0 enum', 'band init 0']
        for _ in range(rng.randint(1, 6)):
            for _ in range(rng.choice([0, 1, 2, 9, 10, 11, 14, 15, 16, 40])):
                ops.append('band heard 0')
            ops.append('clock %d' % rng.choice([0, 299, 300, 301]))
            ops.append(rng.choice(['band update 0', 'band dohello 0', 'band choose 0', 'band update 0']))
        out.append(('seq%d' % k, ops))
    # the tick itself: enumeration in Pausing with an incomplete session, Hello deadline and block deadline expired
    # together / separately, the last transmit recent or long ago, every wiring of the port
    for k in range(150 if tier == 'quick' else 6000):
        ops = ['fsm new 0 map', 'fsm new 1 enum', 'tbl new 0', 'tbl add 0 020000000011 1 1', 'clock %d' % rng.choice([5000, 100000, 2**32 - 400, 2**32 + 5000, 2**40])]
        now = int(ops[-1].split()[1])
        for _ in range(rng.randint(1, 8)):
            d = rng.choice([0, 1, 100, 299, 300, 301, 999, 1000, 1001, 5000])
            now += d
            ops.append('clock %d' % d)           # `clock` advances the virtual clock
            ops.append('fsm set 1 1 %d' % (now // 1000))
            r = rng.choice([0, 1, 2, 3, 5, 9, 14, 15, 16, 100, 70000, rng.randrange(2**32)])
            ni = rng.choice([45, 45, 180, 10000, rng.randrange(45, 10001)])
            hts = rng.choice([0, 1, now - 1, now, now + 1, now + 500])
            bts = rng.choice([0, 1, now - 1, now, now + 1, now + 200])
            ops.append('band set 1 %d %d %d %d %d' % (ni, r, rng.choice([1, 1, 0]), max(hts, 0), max(bts, 0)))
            ops.append('tick 0 1 0 %s' % rng.choice(['wired', 'wired', 'nolast', 'none']))
            if rng.random() < 0.4:
                # the clock moves on while the tick runs (the Hello transmit blocks, the log sink is slow)
                ops[-1] = ops[-1].replace('tick ', 'tickj ') + ' %d %d' % (rng.choice([1, 2]), rng.choice([1, 2, 40, 120, 1000]))
            if rng.random() < 0.5:
                ops.append('band heard 1')
        out.append(('tick%d' % k, ops))
    # universal automata schedule (all public calls, missing objects, near-colliding keys, bridged frames, every deadline): this check's predicate on it
    # one kind of call repeated hundreds of times (run lengths, counters, thresholds), then the consequences
    out += auto.soak_cases(rng, tier)
    for k in range(150 if tier == 'quick' else 6000):
        out.append(('au%d' % k, auto.schedule(rng)))
        if k % 3 == 0:
            out.append(('au2_%d' % k, auto.schedule2(rng)))      # two responders in one process, interleaved on the shared clock
    return out


def nontrivial(ops, impl):
    nis = {l.split()[2] for l in impl if l.startswith('band 0 ')}
    return len(nis) > 1


def classify(ops, impl):
    return ['sweep' if ops[0] == 'fsm new 0 enum' and len(ops) > 100 else 'sequence']
