"""Universal schedule over the automata side (lltdAutomata.c): every public call of the three automata, RepeatBand, the session
table, the classifier and the tick — with objects possibly missing, keys near-colliding, frames arriving directly or through a
bridge, clock steps at every deadline — in one generator used by ALL automata-level checks next to their targeted cases."""
from . import frames as F

COMMON_RULE = ('; plus, in every automata-level check: universal schedules over every public call (objects missing, near-colliding keys, bridged frames, clock steps at every deadline, '
               'clock origins 0 .. 2^48, the clock moving during a step or a tick), two responders in one process interleaved on the shared clock, and soak cases (one kind of call repeated 300-700 times, thorough 70000)')

MACS = ['020000000011', '020000000012', '020000000013', '020000000111', '030000000011', '0200000000ff']
OWN = F.OWN


def schedule(rng, length=None):
    ops = ['iface 0 mtu=1500 mac=%s' % OWN, 'fsm new 0 map', 'fsm new 1 enum', 'fsm new 2 sess', 'tbl new 0', 'clock %d' % rng.choice([0, 1, 5000, 100000, 100000, 2**32 - 900, 2**32 + 5000, 2**32 * 1000 + 77, 2**48])]      # also past 49.7 days of uptime (2^32 ms) and 2^32 s
    now = int(ops[-1].split()[1])
    keys = rng.sample([(m, g) for m in MACS for g in (0, 1, 2, 65535)], rng.choice([2, 3, 8, 17, 20, 24]))   # few keys: refresh / reuse; many: full table
    if len(keys) >= 17 and rng.random() < 0.6:
        for (m, g) in keys[:rng.choice([15, 16, 17])]:          # start from a (nearly) full table
            ops.append('tbl add 0 %s %d %d' % (m, g, 1))
            if rng.random() < 0.3:
                ops.append('tbl complete 0 %s %d' % (m, g))
        if rng.random() < 0.4:                                   # ... every session of it complete
            for (m, g) in keys[:17]:
                ops.append('tbl complete 0 %s %d' % (m, g))
            ops.append('tbl update 0')
    for _ in range(length or rng.randint(20, 200)):
        c = rng.random()
        m, g = rng.choice(keys)
        if rng.random() < 0.06:
            # the documented per-frame flow of the daemons for a Discover (both arms of the enumeration branch) followed by a tick
            ack = rng.random() < 0.4
            ops += ['tbl add 0 %s %d %d' % (m, g, rng.choice([1, 2])), 'tbl touch 0 %s %d %d' % (m, g, 3 if ack else 2)]
            ops.append('tbl complete 0 %s %d' % (m, g) if ack else 'tbl update 0')
            ops += ['fsm step 0 0', 'map resetinact 0']
            ops += rng.choice([['band init 1', 'band choose 1'], ['band begun 1']])
            ops += ['fsm step 1 3', 'tick 0 1 0 wired']
            continue
        if c < 0.16:
            ops.append('tick %s %s %s %s' % ('0' if rng.random() < 0.9 else '-', '1' if rng.random() < 0.9 else '-', '0' if rng.random() < 0.9 else '-',
                                              rng.choice(['wired', 'wired', 'nolast', 'none'])))
            if rng.random() < 0.2:
                # the clock moves on while the tick runs (a blocking transmit, a slow log sink): right after its first / second reading
                ops[-1] = ops[-1].replace('tick ', 'tickj ', 1) + ' %d %d' % (rng.choice([1, 2]), rng.choice([1, 5, 40, 299, 300, 1000, 1001]))
        elif c < 0.34:
            d = rng.choice([0, 1, 6, 99, 100, 101, 299, 300, 301, 999, 1000, 1001, 1999, 2000, 4999, 5000, 5001, 29999, 30000, 30001, 59999, 60000, 60001,
                            61000, 120000, rng.randint(0, 3000), rng.randint(0, 90000)])
            now += d
            ops.append('clock %d' % d)           # `clock` advances the virtual clock
        elif c < 0.46:
            k = rng.random()
            if k < 0.5:
                ops.append('tbl add 0 %s %d %d' % (m, g, rng.choice([0, 1, 2, 3, 65535])))
            elif k < 0.62:
                ops.append('tbl complete 0 %s %d' % (m, g))
            elif k < 0.74:
                ops.append('tbl remove 0 %s %d' % (m, g))
            elif k < 0.84:
                ops.append('tbl find 0 %s %d' % (m, g))
            elif k < 0.87:
                ops.append('tbl touch 0 %s %d %d' % (m, g, rng.choice([2, 3])))
            elif k < 0.90:
                ops.append('tbl readd 0 %s %d %d %d' % (m, g, rng.choice([0, 1, 2, 65535]), rng.choice([1, 2, 3])))     # the key bytes lie inside the entry just removed
            elif k < 0.95:
                ops.append(rng.choice(['tbl update 0', 'tbl dump 0']))
            else:
                ops.append('tbl clear 0')
        elif c < 0.58:
            ops.append('fsm step 0 %d' % rng.choice([0, 0, 2, 2, 8, 8, 4, 6, 11, 9, 3, 1, 5, 7, 12, -1, -2, -3, rng.randint(-128, 255), 256, 65535]))
            if rng.random() < 0.15:
                ops[-1] = ops[-1].replace('fsm step', 'fsm stepj') + ' %d' % rng.choice([1, 1, 999, 1000, 1500])     # the clock moves during the call
            if rng.random() < 0.6:
                ops.append('map resetinact 0')
        elif c < 0.66:
            ops.append('fsm step 2 %d' % rng.choice([-1, 0, 1, 2, 3, 4, 5, 6, 7, 2, 3, 4, 5, 1, 8, 11, rng.randint(-5, 12)]))
            if rng.random() < 0.15:
                ops[-1] = ops[-1].replace('fsm step', 'fsm stepj') + ' %d' % rng.choice([1, 1, 999, 1000, 1500])
        elif c < 0.74:
            ops.append('fsm step 1 %d' % rng.choice([0, 1, 2, 3, 3, 3, -1, 4, rng.randint(-3, 8)]))
        elif c < 0.84:
            k = rng.random()
            if k < 0.45:
                for _ in range(rng.choice([1, 1, 2, 3, 9, 10, 11, 15, 16])):
                    ops.append('band heard 1')
            elif k < 0.6:
                ops.append('band set 1 %d %d %d %d %d' % (rng.choice([45, 45, 180, 8820, 10000, rng.randrange(45, 10001)]),
                                                          rng.choice([0, 1, 2, 3, 14, 15, 16, 255, 256, 65535, 65536, 70000, 2**32 - 2]), rng.choice([1, 1, 0]),
                                                          max(now + rng.choice([-1000, -1, 0, 1, 500]), 0), max(now + rng.choice([-300, -1, 0, 1, 200]), 0)))
            else:
                ops.append(rng.choice(['band init 1', 'band choose 1', 'band begun 1', 'band dohello 1', 'band update 1']))
        elif c < 0.90:
            ops.append(rng.choice(['map charge 0', 'map checkcharge 0', 'map checkinact 0', 'map resetcharge 0', 'map resetinact 0']))
        else:
            # the classifier on a Discover / Reset / other frame, directly or through a bridge, against the live table
            xid = rng.choice([0, 1, 2, 3, 65535])
            eth = rng.choice([None, None, rng.choice(MACS), '0200000000bb'])
            st = [rng.choice([OWN, F.rand_mac(rng)]) for _ in range(rng.choice([0, 0, 1, 2, 6]))]
            k = rng.random()
            if k < 0.7:
                f = F.discover(m, g, xid, st, tos=rng.choice([0, 0, 1]), eth_src=eth, declared=rng.choice([None, None, len(st) + 1, 0xffff]), pad=rng.random() < 0.5,
                               eth_dst=rng.choice([None, None, None, OWN, F.STATIONS[1]]))
            elif k < 0.85:
                f = F.reset(m, tos=rng.choice([0, 1]), eth_src=eth, own=rng.choice([F.BCAST, OWN]))
            else:
                f = rng.choice([F.hello(m, g, m, m), F.query(m, OWN, xid), F.raw(rng.choice([0, 1, 2]), rng.randrange(256), OWN, m, OWN, m, xid)])
            ops.append('ev 0 %s avail=%d tbl=%s%s' % (f, len(f) // 2 + rng.choice([0, 0, 6, 700]), rng.choice(['0', '0', '0', '-']), rng.choice(['', '', ' off=2'])))
    return ops


def _remap(op):
    """the same operation on the second responder's objects (automata 3/4/5, table 1)"""
    w = op.split()
    if w[0] == 'fsm':
        w[2] = str(int(w[2]) + 3)
    elif w[0] == 'tbl':
        w[2] = '1'
    elif w[0] == 'map':
        w[2] = '3'
    elif w[0] == 'band':
        w[2] = '4'
    elif w[0] in ('tick', 'tickj'):
        w[1] = '3' if w[1] != '-' else '-'
        w[2] = '4' if w[2] != '-' else '-'
        w[3] = '1' if w[3] != '-' else '-'
    elif w[0] == 'ev':
        w[-1] = 'tbl=1' if w[-1] == 'tbl=0' else w[-1]
    return ' '.join(w)


def schedule2(rng):
    """two responders (two interfaces of one daemon: each with its own three automata and session table) in ONE process,
    their schedules interleaved on the shared clock — in particular both ticked within the same second, in a stable order.
    Nothing one of them does may show in the other."""
    a = schedule(rng, length=rng.randint(15, 120))
    b = [_remap(o) for o in schedule(rng, length=rng.randint(15, 120))]
    head = a[:6] + [o for o in b[1:5]]            # one interface line, one initial clock
    a, b = a[6:], b[6:]
    out = list(head)
    paired = rng.random() < 0.7
    while a or b:
        src = a if (a and (not b or rng.random() < 0.5)) else b
        o = src.pop(0)
        out.append(o)
        if paired and o.startswith(('tick ', 'tickj ')):
            # the daemon's timer serves every interface in turn, at the same clock reading
            other = 'tick 3 4 1 wired' if src is a else 'tick 0 1 0 wired'
            out.append(other)
    return out


def moving_clock_cells(kind, nstates, timeouts, inputs):
    """pairs of events with the clock moving on WHILE the first one is handled (`fsm stepj`: the reading taken on entry is in
    one second, a later reading in the next): every state x first event x phase of the entry within its second x jump x
    gap to the second event around the timeout x second event.  The event time is the reading on entry."""
    out = []
    for s in range(nstates):
        t = timeouts[s] if s < len(timeouts) else 0
        for phase in (999, 500, 0):
            for d in (1, 1000, 2500):
                ops = ['fsm new 0 %s' % kind]
                now = 0
                base = 50
                for e1 in inputs:
                    for gap in sorted({0, max(t - 1, 0), t, t + 1, t + 2}):
                        for e2 in inputs:
                            entry1 = base * 1000 + phase
                            ops.append('clock %d' % (entry1 - now)); now = entry1
                            ops.append('fsm set 0 %d %d' % (s, base))
                            ops.append('fsm stepj 0 %d %d' % (e1, d)); now += d
                            entry2 = (base + gap) * 1000 + (0 if (base + gap) * 1000 >= now else phase)
                            if entry2 < now:
                                entry2 = now
                            ops.append('clock %d' % (entry2 - now)); now = entry2
                            ops.append('fsm step 0 %d' % e2)
                            base += gap + 40
                out.append(('mclk_s%d_p%d_d%d' % (s, phase, d), ops))
    return out


AUTO_SOAK = ['sess_same', 'sess_p4', 'sess_c5', 'sess_pair', 'map_same', 'tbl_same', 'tbl_cycle', 'heard', 'tick', 'flow', 'classify']


def soak(rng, kind, n=None):
    """ONE kind of call repeated hundreds of times on the automata side (counters wrapping, thresholds, run-length shortcuts), each
    repetition within the time-outs, followed by a pause past every time-out and ordinary calls that show the consequences"""
    n = n or rng.choice([300, 300, 520, 700])
    ops = ['iface 0 mtu=1500 mac=%s' % OWN, 'fsm new 0 map', 'fsm new 1 enum', 'fsm new 2 sess', 'tbl new 0', 'clock %d' % rng.choice([0, 5000, 100000])]
    m, g = MACS[0], 1
    ops += ['fsm step 0 0', 'map resetinact 0', 'tbl add 0 %s %d 1' % (m, g), 'band init 1', 'band choose 1', 'fsm step 1 3', 'fsm step 2 %d' % rng.choice([2, 3])]
    e = rng.choice([4, 5, 2, 3, 6, 7])
    if kind in ('sess_p4', 'sess_c5'):
        # the two self-loops of the session automaton: Pending + non-acknowledging Discover with a changed transaction, Complete +
        # acknowledging one with a changed transaction — what a mapper that keeps re-sending its Discover produces
        ops[-1] = 'fsm step 2 %d' % (2 if kind == 'sess_p4' else 3)
        e = 4 if kind == 'sess_p4' else 5
        kind = 'sess_same'
    for k in range(n):
        ops.append('clock %d' % rng.choice([0, 100, 250, 250, 700]))
        if kind == 'sess_same':
            ops.append('fsm step 2 %d' % e)
        elif kind == 'sess_pair':
            ops.append('fsm step 2 %d' % (3 if k & 1 else 4))
        elif kind == 'map_same':
            ops += ['fsm step 0 %d' % rng.choice([6, 6, 6, 11, 3]), 'map resetinact 0']
        elif kind == 'tbl_same':
            ops.append('tbl add 0 %s %d %d' % (m, g, (k % 65535) + 1))
        elif kind == 'tbl_cycle':
            mm = MACS[k % 3]
            ops += ['tbl add 0 %s %d %d' % (mm, k % 2, k & 0xffff), 'tbl remove 0 %s %d' % (MACS[(k + 1) % 3], (k + 1) % 2)]
        elif kind == 'heard':
            ops.append('band heard 1')
        elif kind == 'tick':
            ops.append('tick 0 1 0 wired')
        elif kind == 'flow':
            ops += ['tbl add 0 %s %d %d' % (m, g, (k % 65535) + 1), 'tbl touch 0 %s %d 2' % (m, g), 'tbl update 0', 'fsm step 0 0', 'map resetinact 0', 'band begun 1', 'fsm step 1 3', 'tick 0 1 0 wired']
        else:
            f = F.discover(m, g, (k % 65535) + 1, [F.rand_mac(rng) for _ in range(k % 4)] + ([OWN] if k % 5 == 0 else []))
            ops.append('ev 0 %s avail=%d tbl=0' % (f, len(f) // 2))
    ops += ['clock 2500', 'fsm step 2 3', 'fsm step 2 5', 'fsm step 0 2', 'tick 0 1 0 wired', 'clock 61000', 'tick 0 1 0 wired', 'fsm step 2 2', 'fsm step 0 0', 'tbl dump 0', 'tbl add 0 %s 7 1' % MACS[1],
            'tbl find 0 %s 7' % MACS[1], 'band update 1', 'band choose 1']
    return ops


def recycle(rng):
    """GENERATIONS of automata on an allocator that hands freed blocks back as their last owner left them (`glob recycle=on`:
    what malloc does; the port's poison fill hides it): three automata are driven through random steps, released in a
    random order (an interface going away), created again in another order - so that each kind lands on a block another kind
    (or the same kind in another state) left behind - and then taken through every (state, input) cell of their machines"""
    kinds = ['map', 'enum', 'sess']
    ops = ['glob recycle=on', 'clock %d' % rng.choice([0, 5000, 100000])]
    order = rng.sample(range(3), 3)
    for a in order:
        ops.append('fsm new %d %s' % (a, kinds[a]))
    ops += ['band init 1', 'band choose 1']
    for _ in range(rng.randint(5, 40)):
        a = rng.randrange(3)
        ev = {0: [0, 2, 8, -1, -3, 4, 6, 11, 9, -2], 1: [0, 1, 2, 3], 2: [-1, 0, 1, 2, 3, 4, 5, 6, 7]}[a]
        ops.append('fsm step %d %d' % (a, rng.choice(ev)))
        if rng.random() < 0.2:
            ops.append('clock %d' % rng.choice([0, 500, 1000, 2000, 6000]))
    for a in rng.sample(range(3), 3):
        ops.append('fsm free %d' % a)
    # second generation: the kinds move to other slots / other blocks
    perm = rng.sample(range(3), 3)
    kind_at = {}
    for slot, k in zip(rng.sample(range(3), 3), perm):
        ops.append('fsm new %d %s' % (slot, kinds[k]))
        kind_at[slot] = k
    ops.append('clock 5000000')
    for slot, k in kind_at.items():
        nst = {0: 3, 1: 3, 2: 4}[k]
        ev = {0: [0, 2, 8, -1, -3, 4, 6], 1: [0, 1, 2, 3], 2: [-1, 0, 1, 2, 3, 4, 5, 6, 7]}[k]
        # first what an ordinary session does with the fresh automaton, then every cell
        for e in ({0: [0, 2, -3, 8], 1: [3, 2, 1, 0], 2: [2, 3, 4, 1]}[k]):
            ops.append('fsm step %d %d' % (slot, e))
        for st in range(nst):
            for e in ev:
                ops += ['fsm set %d %d 5000' % (slot, st), 'fsm step %d %d' % (slot, e)]
    return ops


def soak_cases(rng, tier):
    out = [('asoak_%s' % kd, soak(rng, kd)) for kd in AUTO_SOAK]
    out += [('arecycle%d' % k, recycle(rng)) for k in range(12 if tier == 'quick' else 400)]
    if tier == 'thorough':
        out += [('asoak70k_%s' % kd, soak(rng, kd, 70000)) for kd in ('sess_same', 'tbl_same', 'heard')]
    return out
