"""C01 — memory safety / no UB at every receive entry point (ASan + UBSan build, abort mode)"""
from . import frames as F
from .c02 import attrs

PROP = 'C01'
PREDICATE = 'C01'
LEAN_TARGETS = ['LLTD.Props.C01', 'LLTD.Props.C01T']
VARIANT = 'san'
RULE = ('receive buffer is malloc(MTU) exactly, frames of length 0..MTU copied to its start, tail kept (stale bytes) or zeroed; every opcode x '
        'ToS in {0,1,2,random}; wire counters (Emit numDescs, Discover stationNumber, QueryLargeTlv offset) at 0, 1, the largest that fits, one '
        'more, 0x7FFF, 0x8000, 0xFFFF; MTU in {576,577,1500,9216,random}; wired / Wi-Fi attribute sets with names of length 0..40; the same '
        'frames through derive_session_event (avail = MTU), the Linux daemons\' loop body and lltd_esp32_handle_frame (exact-size heap copy), '
        'interleaved with clock advances and ticks; plus the real Linux daemons as a whole (interface discovery, threads, recvfrom into malloc(MTU), Linux port) on datagrams of every length incl. longer than the MTU; built with -fsanitize=address,undefined -fno-sanitize-recover=all; non-trivial = the '
        'case made the core transmit or change automaton state; distinct = distinct projected transcript')
ASSUMPTIONS = ['576 <= MTU <= 9216 and the receive buffer is exactly MTU bytes (port contract)', 'lifetime errors and UB at expressions the model does not contain are observed by ASan/UBSan only']


def project(lines):
    return lines


def adversarial(rng, own, mtu):
    M = rng.choice(F.STATIONS)
    cap14 = (mtu - 34) // 14
    cap6 = (mtu - 36) // 6
    cnt = lambda cap: rng.choice([0, 1, cap - 1, cap, cap + 1, 0x7fff, 0x8000, 0xffff, rng.randrange(65536), rng.choice(F.wrap_counts(14)), rng.choice(F.wrap_counts(6)), rng.choice(F.wrap_counts(20))])
    c = rng.random()
    if c < 0.2:
        n = rng.choice([0, 1, 3, cap14])
        f = F.emit(M, own, rng.randrange(65536), [(rng.choice([0, 1, 2, 255]), rng.randrange(256), F.rand_mac(rng), F.rand_mac(rng)) for _ in range(n)],
                   declared=cnt(cap14), tos=rng.choice([0, 0, 1, 2]), pad=rng.random() < 0.5)
    elif c < 0.4:
        n = rng.choice([0, 1, 5, cap6])
        f = F.discover(M, rng.randrange(65536), rng.randrange(65536), [rng.choice([own, F.rand_mac(rng)]) for _ in range(n)], declared=cnt(cap6),
                       tos=rng.choice([0, 1, 2, rng.randrange(256)]), pad=rng.random() < 0.5)
    elif c < 0.55:
        f = F.qltlv(M, own, rng.choice([0, 1, 65535]), rng.choice([0x0e, 0x11, 0x13, rng.randrange(256)]), rng.choice([0, 1, mtu - 35, mtu - 34, mtu - 33, 0x7fff, 0x8000, 0xffff]), tos=rng.choice([0, 1, 2]))
    elif c < 0.7:
        f = F.raw(rng.choice([0, 1, 2, rng.randrange(256)]), rng.randrange(256), rng.choice([own, F.BCAST]), M, rng.choice([own, F.BCAST]), M, rng.randrange(65536),
                  ''.join('%02x' % rng.randrange(256) for _ in range(rng.choice([0, 4, 30, 200]))))
    elif c < 0.85:
        f = rng.choice([F.query(M, own, rng.randrange(65536)), F.probe(F.rand_mac(rng), own, F.rand_mac(rng), own), F.reset(M, tos=rng.choice([0, 1])),
                        F.hello(M, 1, M, M)])
    else:
        f = F.noise(rng, mtu)
    if f != '-' and rng.random() < 0.15:
        # encapsulations a real network produces: one 802.1Q tag, a service tag, two tags
        f = F.vlan(f, rng.choice([0, 1, 100, 0x0fff, 0xe064]), rng.choice(['8100', '8100', '88a8', '9100']))
        if rng.random() < 0.25:
            f = F.vlan(f, rng.randrange(4096), '8100')
    if f != '-' and rng.random() < 0.25:
        f = f[:2 * rng.randrange(len(f) // 2 + 1)] or '-'
    if f != '-' and len(f) // 2 > mtu:
        f = f[:2 * mtu]
    return f


def cases(rng, tier, X):
    n = 250 if tier == 'quick' else 30000
    out = []
    for k in range(n):
        mtu = rng.choice([576, 577, 1500, 9216, rng.randint(576, 9216)])
        own = F.OWN
        hostlen = rng.choice([0, 31, 32, 33, 40])
        ops = [F.iface_line(0, mac=own, mtu=mtu, **attrs(rng)),
               F.glob_line(host=('61' * hostlen or '-'), hostrep=rng.choice(['copied', 'full']), icon=rng.choice(['none', 'gen:5000:1', 'gen:1:1']),
                           fname=rng.choice(['none', 'gen:3000:1']), hwid=rng.choice(['-', 'ab' * 64, '4100', 'ab' * 100])),
               'fsm new 0 map', 'fsm new 1 sess', 'fsm new 2 enum', 'tbl new 0', 'espinit']
        for _ in range(rng.randint(5, 40)):
            f = adversarial(rng, own, mtu)
            c = rng.random()
            if c < 0.55:
                ops.append('rx 0 %s%s' % (f, rng.choice(['', '', ' zero'])))
            elif c < 0.7:
                ops.append('ev 0 %s avail=%d tbl=%s' % (f, mtu, rng.choice(['0', '-'])))
            elif c < 0.8:
                ops.append('esp %s' % f)
            elif c < 0.88:
                ops.append('linuxrx 0 0 1 %s' % f)
            elif c < 0.94:
                ops.append('clock %d' % rng.choice([0, 100, 1000, 31000, 61000]))
            else:
                ops.append('tick 0 2 0 %s' % rng.choice(['wired', 'nolast', 'none']))
                if rng.random() < 0.3:
                    ops.append('tbl add 0 %s %d %d' % (rng.choice(F.STATIONS), 1, 1))
                    ops.append('fsm step 2 3')
        out.append(('a%d' % k, ops))
    # the universal traffic and the small-scope sequences of the frame-level checks, here under ASan + UBSan (use after free, double free,
    # reads of freed list nodes, signed overflow ... in any handler, after any history)
    for k in range(150 if tier == 'quick' else 6000):
        out.append(('u%d' % k, F.universal(rng)))
        if k % 2 == 0:
            # the same kind of traffic with every kind of platform fault injected at random points
            out.append(('uf%d' % k, F.with_faults(rng, F.universal(rng), getter_mask=0x1ff, mtu0=True)))
    out += F.small_scope(2 if tier == 'quick' else 3)
    # one kind of event repeated hundreds / thousands of times (counters wrapping, thresholds, budgets), then ordinary traffic
    out += F.soak_cases(rng, tier)
    # tagged frames (802.1Q / 802.1ad / two tags) whose wire counters exceed what fits, for every residue of the MTU modulo the element
    # sizes of the three counted lists (14 descriptors, 6 stations, 20 observations) - a handler that steps over a tag has less
    # room behind its pointer than the MTU it computes its bound from
    for r in range(42 if tier == 'thorough' else 14):
        mtu = 1486 + r
        ops = [F.iface_line(0, mac=F.OWN, mtu=mtu, buf0=0xff), F.glob_line(), 'tbl new 0', 'espinit']
        M = F.STATIONS[0]
        for tags in ([('8100', 100)], [('88a8', 7), ('8100', 100)], [('9100', 0)]):
            for declared in ((mtu - 34) // 14, (mtu - 34) // 14 + 1, 0xffff):
                f = F.emit(M, F.OWN, 5, [(1, 0, F.STATIONS[1], F.STATIONS[2])] * 3, declared=declared, pad=True)
                g = F.discover(M, 1, 1, [F.STATIONS[1]] * 3, declared=min(declared, 0xffff), pad=True)
                for tp, tci in tags:
                    f, g = F.vlan(f, tci, tp), F.vlan(g, tci, tp)
                ops += ['rx 0 ' + F.discover(M, 1, 1), 'rx 0 ' + f[:2 * mtu], 'rx 0 ' + f[:2 * mtu] + ' zero', 'rx 0 ' + g[:2 * mtu], 'rx 0 ' + g[:2 * mtu] + ' zero', 'ev 0 %s avail=%d tbl=0' % (g[:2 * mtu], mtu), 'esp ' + f[:2 * mtu]]
        out.append(('vlan_mtu%d' % mtu, ops))
    # every length 0..60 and around the MTU of one frame per opcode (thorough: all lengths)
    mtu = 576
    for op in range(13):
        ops = [F.iface_line(0, mtu=mtu, buf0=0xff), F.glob_line(), 'espinit']
        full = F.raw(0, op, F.OWN, F.STATIONS[0], F.OWN, F.STATIONS[0], 7, 'ff' * (mtu - 32))
        lens = list(range(0, 62)) + [mtu - 1, mtu] if tier == 'quick' else list(range(0, mtu + 1))
        for L in lens:
            ops.append('rx 0 %s' % (full[:2 * L] or '-'))
            ops.append('esp %s' % (full[:2 * L] or '-'))
        out.append(('len_op%d' % op, ops))
    return out


def extra_run(tier, seed, tag):
    """daemon level: the real linux-embedded-main.c (anchor of C01: receive buffer of MTU bytes, recvfrom(…, MTU)) and linux-main.c
    with the real Linux port under ASan+UBSan on adversarial datagrams of every length, including longer than the MTU; the
    transmitted frames are compared with the model (stale buffer tails included: ASan fills fresh memory with 0xBE, the model's buf0)"""
    import os
    import random
    import vlib
    import daemonlib as D
    out = {'violations': [], 'notes': [], 'coverage': {}}
    rng = random.Random(seed * 17 + 3)
    work = os.path.join(vlib.BUILD, tag, 'daemon', 'run')
    cov = {}
    for which in ('embedded', 'nm'):
        b, err = D.build(tag, which, 'asan')
        if not b:
            out['notes'].append('daemon harness (%s, asan) does not build against the working tree: %s' % (which, err[-300:]))
            cov[which] = 'build failed'
            continue
        n = 6 if tier == 'quick' else 300
        ran = diffs = reports = 0
        for k in range(n):
            nif = rng.choice([1, 2, 2, 3])
            ifaces = [('vif%d' % i, '02aabbccdd%02x' % (i + 1), rng.choice([576, 577, 1500, 4000, 9000, 9216, rng.randint(576, 9216)]), 'c0a801%02x' % (5 + i)) for i in range(nif)]
            frames = []
            for i, (_, mac, mtu, _) in enumerate(ifaces):
                for _ in range(rng.randint(5, 60)):
                    f = adversarial(rng, mac, mtu)
                    if f == '-':
                        f = ''
                    if rng.random() < 0.08:
                        f = f + 'ee' * (mtu - len(f) // 2 + rng.choice([1, 2, 14, 100]))     # a datagram longer than the buffer: the kernel truncates
                    frames.append((i, f))
            label = 'c01_%s_%d' % (which, k)
            impl, san, rc, sp = D.run(b, D.script(ifaces, frames), work, label)
            ran += 1
            replay = ['%% daemon-level run: harness/build_daemon.sh <dir> %s asan ; <dir>/daemon_%s_asan <this file>' % (which, which)] + ['%d ' + l for l in D.script(ifaces, frames)]
            if impl is None:
                out['violations'].append(('daemon_' + label, replay, (0, 'C01 daemon level (%s): the daemon did not finish serving the scripted datagrams (%s)' % (which, san))))
                continue
            summ = D.sanitizer_summary(san)
            if summ or rc != 0:
                reports += 1
                out['violations'].append(('daemon_' + label, replay, (0, 'C01 daemon level (%s, receive path of the real daemon + Linux port): %s' % (which, summ or ('abnormal end, exit %s: %s' % (rc, san[-200:]))))))
                continue
            ops = D.model_ops(ifaces, frames, 0xbe)
            model, bad = D.model_run(ops, work, label)
            d = D.compare(ifaces, impl, model)
            if d:
                diffs += 1
                out['violations'].append(('daemon_' + label, replay + ['% model ops:'] + ['% ' + o for o in ops],
                                          (0, 'C01 daemon level (%s): what the daemon sent on interface %d differs from the model at line %d: %r vs %r' % ((which,) + d))))
        cov[which] = '%d runs, %d trace differences, %d sanitizer reports / abnormal ends' % (ran, diffs, reports)
    out['coverage'] = {'daemon_level': cov}
    return out


def nontrivial(ops, impl):
    return any(l.startswith('tx ') for l in impl) or len({l for l in impl if l.startswith('fsm 0')}) > 1


def classify(ops, impl):
    ks = set()
    for o in ops:
        ks.add('op_' + o.split()[0])
    return sorted(ks)
