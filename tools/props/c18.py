"""C18 — platform faults: k-th allocation failure, transmit refusals, failing getters, constructors"""
from . import frames as F
from .c02 import attrs

PROP = 'C18'
PREDICATE = 'C18'
LEAN_TARGETS = ['LLTD.Props.C18']
VARIANT = 'san'
RULE = ('a corpus of scenarios covering every request type (Discover both services, Emit 1..5 descriptors, Probe/Train recording and '
        'duplicates, Query with 0/3/40 observations, QueryLargeTlv of icon / friendly name / hardware id / unknown, Reset) run under: '
        'the k-th core allocation failing for every k = 1..K (K above the scenario\'s allocation count), all allocations failing, single '
        'and repeated transmit refusals, every single failing getter and random subsets (thorough: all 2^9), the process-wide icon / friendly-name / hardware-id getters failing during the faulty phase and working again after it, then the fault cleared, a '
        'Reset, and a continuation compared against a fresh twin interface; plus the four constructors under each allocation failure, the tick with every subset of its objects missing in every enumeration state, and the daemon start-up order with the k-th allocation refused followed by the Discover flow and ticks; '
        'built with ASan+UBSan; non-trivial = at least one injected fault fired (the model\'s ledger or output differs from the fault-free run); '
        'distinct = distinct projected transcript')
ASSUMPTIONS = ['port contract as for C02 (a failing getter leaves its output untouched)', 'memory corruption is observed by ASan/UBSan only (the model has value semantics)']


def project(lines):
    return [l for l in lines if l.startswith(('#', 'tx', 'sleep', 'abort', 'fault', 'bad-op', 'end ', 'fsm', 'tbl', 'map', 'band', 'st ', 'obs '))]


def scenarios(rng):
    M = F.STATIONS[0]
    own = F.OWN
    sc = []
    sc.append(('discover', [F.discover(M, 5, 1), F.discover(M, 6, 2, tos=1)]))
    sc.append(('emit', [F.discover(M, 5, 1), F.emit(M, own, 3, [(1, 1, F.STATIONS[1], F.STATIONS[2]), (0, 0, F.STATIONS[2], F.STATIONS[3]), (1, 2, F.STATIONS[3], F.STATIONS[1])])]))
    sc.append(('probe_query', [F.discover(M, 5, 1)] + [F.probe('0a00000000%02x' % i, own, '0b00000000%02x' % i, own, train=i % 2 == 0) for i in range(4)]
               + [F.probe('0a0000000001', own, '0b0000000001', own), F.query(M, own, 9), F.query(M, own, 10)]))
    sc.append(('query_many', [F.discover(M, 5, 1)] + [F.probe('0a00000000%02x' % i, own, '0b00000000%02x' % i, own) for i in range(40)] + [F.query(M, own, 9), F.query(M, own, 10)]))
    sc.append(('large', [F.discover(M, 5, 1), F.qltlv(M, own, 4, 0x0e, 0), F.qltlv(M, own, 5, 0x0e, 542), F.qltlv(M, own, 6, 0x11, 0), F.qltlv(M, own, 7, 0x13, 0),
                         F.qltlv(M, own, 8, 0x12, 0), F.qltlv(M, own, 9, 0x0e, 0, tos=1)]))
    sc.append(('mixed', F.session(rng, own, n=15)))
    # a long outage: hundreds of Emits while every transmit (or every allocation) is refused
    sc.append(('emit_soak', [F.discover(M, 5, 1)] + [F.emit(M, own, (i % 65535) + 1, [(i & 1, 0, F.STATIONS[1], F.STATIONS[2]), (1, 0, F.STATIONS[2], F.STATIONS[3])]) for i in range(300)]))
    return sc


REFS = {}        # first line of a wrapped case (the interface's attributes) -> operations of its reference case


def cont_frames():
    M = F.STATIONS[1]
    return [F.discover(M, 1, 1), F.qltlv(M, F.OWN, 2, 0x0e, 0), F.probe('0a0000000009', F.OWN, '0b0000000009', F.OWN), F.query(M, F.OWN, 3),
            F.emit(M, F.OWN, 4, [(1, 0, F.STATIONS[2], F.STATIONS[3])])]


def wrap(rng, head_extra, fault_ops, frames, a):
    ops = [F.iface_line(0, mac=F.OWN, mtu=576, **a), F.iface_line(1, mac=F.OWN, mtu=576, **a),
           F.glob_line(icon='gen:900:1', fname='gen:40:2', hwid='4100420043')] + head_extra + fault_ops
    if ops[0] not in REFS:
        # the reference: the same continuation on a responder that has just been STARTED (its own process: the harness forks per
        # case) - process-wide state the faulty phase left behind cannot hide in it
        r = ops[:3] + ['glob host=6d79686f7374 icon=gen:900:1 fname=gen:40:2 hwid=4100420043 emptyrep=null failsize=0', 'note recovered']
        for f in cont_frames():
            r += ['rx 0 %s zero' % f, 'rx 1 %s zero' % f]
        REFS[ops[0]] = r
    ops += ['rx 0 %s zero' % f for f in frames if len(f) // 2 <= 576]
    ops += ['fault clear', 'set 0 getfail=0', 'glob host=6d79686f7374 icon=gen:900:1 fname=gen:40:2 hwid=4100420043 emptyrep=null failsize=0', 'rx 0 %s zero' % F.reset(F.STATIONS[0]), 'note recovered']
    for f in cont_frames():
        ops.append('rx 0 %s zero' % f)
        ops.append('rx 1 %s zero' % f)
    return ops


def reactions(impl_lines, iface):
    """what interface `iface` transmitted / slept for each frame it received after the `note recovered` marker"""
    out, cur, on = [], None, False
    for l in impl_lines:
        if l.startswith('# note recovered'):
            on = True
        elif l.startswith('# '):
            if cur is not None:
                out.append(cur)
            cur = [] if (on and l.startswith('# rx %d ' % iface)) else None
        elif cur is not None and l.startswith(('tx ', 'sleep ', 'abort')):
            cur.append(l)
    if cur is not None:
        out.append(cur)
    return out


def extra_predicate(cases, impl):
    """recovery judged against a freshly STARTED responder (the reference case runs in its own process)"""
    res = {}
    byops = {tuple(o): c for c, o in cases if c.split('_')[-2:-1] == ['ref'] or '_ref_' in c or c.startswith('ref_')}
    for cid, ops in cases:
        if 'note recovered' not in ops or ops[0] not in REFS or cid in byops.values():
            continue
        rid = byops.get(tuple(REFS[ops[0]]))
        if rid is None or rid not in impl or cid not in impl:
            continue
        mine, ref = reactions(impl[cid], 0), reactions(impl[rid], 0)
        if mine != ref:
            k = next((i for i in range(min(len(mine), len(ref))) if mine[i] != ref[i]), min(len(mine), len(ref)))
            res[cid] = (ops.index('note recovered') + 1 + 2 * k,
                        'C18 recovery: after the faults cleared and a Reset, the responder answers frame %d of the continuation with %s where a freshly started responder (own process) answers %s'
                        % (k, (mine[k] if k < len(mine) else ['<nothing>'])[:2], (ref[k] if k < len(ref) else ['<nothing>'])[:2]))
    return res


def cases(rng, tier, X):
    out = cases_(rng, tier, X)
    out += [('ref_%d' % i, r) for i, r in enumerate(REFS.values())]
    return out


def cases_(rng, tier, X):
    out = []
    a = dict(buf0=0)
    for name, frames in scenarios(rng):
        kmax = 30 if name != 'query_many' else 60
        if name == 'emit_soak':
            out.append(('%s_sall' % name, wrap(rng, [], ['fault sendall'], frames, a)))
            out.append(('%s_mall' % name, wrap(rng, [], ['fault mallocall'], frames, a)))
            out.append(('%s_m2on' % name, wrap(rng, [], ['fault malloc=%s' % ','.join(str(x) for x in range(2, 30))], frames, a)))
            continue
        for k in range(1, kmax + 1):
            out.append(('%s_m%d' % (name, k), wrap(rng, [], ['fault malloc=%d' % k], frames, a)))
        out.append(('%s_mall' % name, wrap(rng, [], ['fault mallocall'], frames, a)))
        for _ in range(3):
            ks = sorted(rng.sample(range(1, kmax), 3))
            out.append(('%s_m%s' % (name, '_'.join(map(str, ks))), wrap(rng, [], ['fault malloc=%s' % ','.join(map(str, ks))], frames, a)))
        for j in range(1, 8):
            out.append(('%s_s%d' % (name, j), wrap(rng, [], ['fault send=%d' % j], frames, a)))
        out.append(('%s_sall' % name, wrap(rng, [], ['fault sendall'], frames, a)))
        out.append(('%s_s1_2_3' % name, wrap(rng, [], ['fault send=1,2,3'], frames, a)))
        # the process-wide getters fail during the faulty phase (icon / friendly name unavailable, hardware id empty) and work again afterwards
        for gf in ('host=-', 'host=- hwid=-', 'icon=none', 'fname=none', 'icon=none fname=none hwid=-', 'icon=- fname=-', 'icon=- fname=- emptyrep=block', 'icon=none fname=none failsize=40', 'icon=none failsize=3000'):     # the last: empty, handed over as zero-length blocks
            out.append(('%s_glob_%s' % (name, gf.replace(' ', '_').replace('=', '')), wrap(rng, ['glob ' + gf], [], frames, a)))
        masks = [1 << b for b in range(9)] + [rng.randrange(1, 512) for _ in range(6 if tier == 'quick' else 0)]
        if tier == 'thorough':
            masks = list(range(1, 512))
        for m in masks:
            for wifi in (0, 1):
                aa = dict(a)
                if wifi:
                    aa.update(wifi=1, mode=1, bssid=F.STATIONS[4], ssid='6162', rate=108, rssi=-40)
                aa2 = dict(aa)
                ops = wrap(rng, ['set 0 getfail=%d' % m], [], frames, aa2)
                out.append(('%s_g%d_w%d' % (name, m, wifi), ops))
                if m & 1 and not wifi:
                    # the failing MTU query has scribbled a small / huge value on its output before reporting failure
                    for junk in (68, 65535):
                        out.append(('%s_g%d_junk%d' % (name, m, junk), wrap(rng, ['set 0 getfail=%d' % m, 'glob mtuclobber=%d' % junk], [], frames, aa2)))
    # constructors
    for kind in ('map', 'sess', 'enum'):
        for k in (1, 2, 3):
            out.append(('ctor_%s_%d' % (kind, k), ['fault malloc=%d' % k, 'fsm new 0 %s' % kind, 'fault clear', 'fsm new 1 %s' % kind, 'fsm step 1 0', 'clock 40000', 'fsm step 1 2']))
    for k in (1, 2):
        out.append(('ctor_tbl_%d' % k, ['fault malloc=%d' % k, 'tbl new 0', 'fault clear', 'tbl new 1', 'tbl add 1 020000000001 1 1']))
    # the tick with any subset of its objects missing (what a daemon passes on after a failed constructor), in every
    # enumeration / mapping state, every wiring of the port
    for mask in range(8):
        for est in (0, 1, 2):
            for port in ('wired', 'nolast', 'none'):
                M, E, T = mask & 1, mask & 2, mask & 4
                ops = ['fsm new 0 map', 'fsm new 1 enum', 'tbl new 0', 'clock 5000']
                if T and est:
                    ops.append('tbl add 0 020000000011 1 1')
                ops += ['fsm set 1 %d 5' % est, 'band set 1 45 3 1 4000 4000', 'fsm step 0 0', 'map resetinact 0']
                ops.append('tick %s %s %s %s' % ('0' if M else '-', '1' if E else '-', '0' if T else '-', port))
                ops += ['clock 40000', 'tick %s %s %s %s' % ('0' if M else '-', '1' if E else '-', '0' if T else '-', port)]
                out.append(('tick_m%d_e%d_%s' % (mask, est, port), ops))
    # daemon start-up order (mapping, enumeration, session table) with the k-th allocation refused, then the documented Discover flow and ticks
    for k in range(1, 7):
        mnull, enull, tnull = k == 1, k in (3, 4), k == 5
        ops = ['fault malloc=%d' % k, 'fsm new 0 map', 'fsm new 1 enum', 'tbl new 0', 'fault clear', 'clock 5000']
        if not tnull:
            ops.append('tbl add 0 020000000011 1 1')
        if not mnull:
            ops += ['fsm step 0 0']
            if k != 2:
                ops += ['map resetinact 0']
        if not enull:
            ops += ['band init 1', 'band choose 1', 'fsm step 1 3']
        tk = 'tick %s %s %s wired' % ('-' if mnull else '0', '-' if enull else '1', '-' if tnull else '0')
        ops += [tk, 'clock 6500', tk, 'clock 70000', tk]
        out.append(('startup_m%d' % k, ops))
    # universal traffic (1..3 interfaces, every frame type / sender / path) with faults injected at random points
    for k in range(150 if tier == 'quick' else 6000):
        ops = F.with_faults(rng, F.universal(rng), getter_mask=0x1ff, mtu0=True)
        out.append(('uf%d' % k, ops))
    out.append(('ctor_all', ['fault mallocall', 'fsm new 0 map', 'fsm new 1 sess', 'fsm new 2 enum', 'tbl new 0', 'espinit', 'fault clear', 'fsm new 0 map', 'tick 0 - - none']))
    return out


def nontrivial(ops, impl):
    # a fault fired if some rx produced fewer port calls than the fault-free scenario would: approximated by `txfail` or a stats line with faults>0
    return any(l.startswith('txfail') for l in impl) or any(' null' in l for l in impl) or any('getfail' in o and 'getfail=0' not in o for o in ops) or any(o.startswith('fault malloc') for o in ops)


def classify(ops, impl):
    ks = []
    for o in ops:
        if o.startswith('fault malloc'):
            ks.append('malloc_fault')
        elif o.startswith('fault send'):
            ks.append('send_fault')
        elif o.startswith('set 0 getfail=') and not o.endswith('=0'):
            ks.append('getter_fault')
        elif o.startswith('fsm new') or o.startswith('tbl new'):
            ks.append('constructor')
    return sorted(set(ks))
