"""helpers shared by the per-property generators"""


def ident(lines):
    return lines


def state_changes(impl_lines):
    """number of distinct `fsm` state values seen"""
    seen = set()
    for l in impl_lines:
        if l.startswith('fsm '):
            seen.add(l)
    return len(seen)
