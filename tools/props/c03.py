"""C03 — Hello answering an accepted Discover"""
from . import frames as F
from .c02 import project, attrs

PROP = 'C03'
PREDICATE = 'C03'
LEAN_TARGETS = ['LLTD.Props.C03', 'LLTD.Props.C03H', 'LLTD.Props.C03T']
VARIANT = 'plain'
RULE = ('Discover frames with generation in {0,1,0x00FF,0xFF00,0xFFFF,random}, any transaction id, direct and bridged, ToS 0/1, '
        'preceded by arbitrary histories (Hellos of other stations, Discovers of the other service, Resets, commands); '
        'non-trivial = a Hello was transmitted; distinct = distinct projected transcript')
ASSUMPTIONS = ['port contract as for C02']


def cases(rng, tier, X):
    n = 300 if tier == 'quick' else 30000
    out = []
    for k in range(n):
        own = F.OWN
        ops = [F.iface_line(0, mac=own, mtu=rng.choice([576, 1500, 9216]), **attrs(rng)), F.glob_line()]
        mapper = rng.choice(F.STATIONS)
        for _ in range(rng.randint(1, 25)):
            c = rng.random()
            if c < 0.55:
                m = rng.choice([mapper, mapper, mapper, rng.choice(F.STATIONS)])
                eth = rng.choice([None, None, rng.choice(F.STATIONS)])
                ops.append('rx 0 ' + F.discover(m, rng.choice(F.GENS + [rng.randrange(65536)]), rng.randrange(65536),
                                                 [own] if rng.random() < 0.3 else [], tos=rng.choice([0, 0, 1]), eth_src=eth))
            elif c < 0.70:
                ops.append('rx 0 ' + F.hello(rng.choice(F.STATIONS), rng.randrange(65536), mapper, mapper, tos=rng.choice([0, 1])))
            elif c < 0.82:
                ops.append('rx 0 ' + F.reset(rng.choice([mapper, rng.choice(F.STATIONS)]), tos=rng.choice([0, 1])))
                if rng.random() < 0.5:
                    mapper = rng.choice(F.STATIONS)
            else:
                ops += ['rx 0 ' + f for f in F.session(rng, own, n=2)[1:]]
        out.append(('d%d' % k, ops))
    # small scope, exhaustively: every frame sequence up to length 2 (thorough: 3) over the 23-symbol alphabet of frames.alphabet()
    out += F.small_scope(2 if tier == 'quick' else 3)
    # one kind of event repeated hundreds / thousands of times (counters wrapping, thresholds, budgets), then ordinary traffic
    out += F.soak_cases(rng, tier)
    # universal traffic (every frame type / sender / path / service / boundary value, 1..3 interfaces): this check's predicate on it
    for k in range(150 if tier == 'quick' else 6000):
        out.append(('u%d' % k, F.universal(rng)))
        if k % 2 == 0:
            # the same kind of traffic with every kind of platform fault injected at random points
            out.append(('uf%d' % k, F.with_faults(rng, F.universal(rng))))
    return out


def nontrivial(ops, impl):
    return any(l.startswith('tx ') and l.split()[2][34:36] == '01' for l in impl)


def classify(ops, impl):
    n = sum(1 for l in impl if l.startswith('tx ') and l.split()[2][34:36] == '01')
    return ['hellos_%s' % ('0' if n == 0 else '1_3' if n <= 3 else '4plus')]
