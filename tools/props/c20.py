"""C20 — the core reaches the outside world only through the port API.
Extractor: builds the four core translation units under 12 compiler configurations (guard OFF — the shipping
core), links each set relocatably and records the undefined symbols; reads the port API from the preprocessed
lltdPort.h; records every angle-bracket include and every line matching the lint's two regexes.  The tables go
to Generated/Symbols.lean; Props/C20.lean decides them."""
import os
import re
import shutil
import subprocess
import time

import vlib

PROP = 'C20'
CUSTOM = True
LEAN_TARGETS = ['LLTD.Props.C20']
OS_MACRO = re.compile(r'(__APPLE__|__linux__|_WIN32|__WIN32|__FreeBSD__|__sun|__sunos|__SVR4|__VMKERNEL__|__ESXI__|ESP_PLATFORM)')
OS_HEADER = re.compile(r'(<windows\.h>|<CoreFoundation/|<CoreServices/|<IOKit/|<mach/|<SystemConfiguration/|<linux/|<net/|<ifaddrs\.h>|<arpa/inet\.h>|<syslog\.h>)')
CORE_TUS = ['lltdBlock.c', 'lltdTlvOps.c', 'lltdWire.c', 'lltdAutomata.c']
CONFIGS = [(cc, o, fs) for cc in ('gcc', 'clang') for o in ('-O0', '-O2', '-Os') for fs in ('', '-ffreestanding')] + \
    [('gcc', '-O3', ''), ('gcc', '-Ofast', ''), ('clang', '-O3', '')]      # what CMake Release / hand-tuned ports use: more loop idioms recognised
# the core built for OTHER targets the repository has ports for (object files only: no SDK, no libc headers — clang's own
# freestanding headers are all the core includes): Apple triples in hosted mode (where LLVM knows the C library and may
# emit calls into it), a 32-bit x86 and a bare-metal ARM target (ILP32: the compiler's 64-bit helpers appear)
CROSS = [('x86_64-apple-macosx10.13', '-O2', ''), ('x86_64-apple-macosx10.13', '-Os', ''), ('arm64-apple-macosx11.0', '-O2', ''), ('arm64-apple-macosx11.0', '-Os', ''),
         ('i386-unknown-linux-gnu', '-O2', '-ffreestanding'), ('armv7-none-eabi', '-Os', '-ffreestanding')]


def lstr(xs):
    return '[' + ', '.join('"%s"' % x.replace('\\', '\\\\').replace('"', '\\"') for x in xs) + ']'


def extract_symbols():
    core = os.path.join(vlib.REPO, 'lltdResponder')
    work = os.path.join(vlib.BUILD, 'c20')
    shutil.rmtree(work, ignore_errors=True)
    os.makedirs(work)
    undef = []
    failures = []
    for cc, o, fs in CONFIGS:
        name = ' '.join(x for x in (cc, o, fs) if x)
        d = os.path.join(work, name.replace(' ', '_'))
        os.makedirs(d)
        objs = []
        ok = True
        for tu in CORE_TUS:
            obj = os.path.join(d, tu[:-2] + '.o')
            r = vlib.run([cc, o] + ([fs] if fs else []) + ['-w', '-c', os.path.join(core, tu), '-o', obj])
            if r.returncode != 0:
                failures.append('%s: %s does not compile: %s' % (name, tu, r.stdout[-400:]))
                ok = False
                break
            objs.append(obj)
        if not ok:
            continue
        r = vlib.run(['ld', '-r'] + objs + ['-o', os.path.join(d, 'core.o')])
        if r.returncode != 0:
            failures.append('%s: ld -r failed: %s' % (name, r.stdout[-400:]))
            continue
        r = vlib.run(['nm', '-u', os.path.join(d, 'core.o')])
        syms = sorted({l.split()[-1] for l in r.stdout.split('\n') if l.strip()})
        undef.append((name, syms))
    nm = 'llvm-nm-14' if shutil.which('llvm-nm-14') else 'llvm-nm'
    for target, o, fs in CROSS:
        name = ' '.join(x for x in ('clang', '--target=' + target, o, fs) if x)
        d = os.path.join(work, name.replace(' ', '_').replace('=', '_'))
        os.makedirs(d)
        objs = []
        ok = True
        for tu in CORE_TUS:
            obj = os.path.join(d, tu[:-2] + '.o')
            r = vlib.run(['clang', '--target=' + target, '-nostdlibinc', o] + ([fs] if fs else []) + ['-w', '-c', os.path.join(core, tu), '-o', obj])
            if r.returncode != 0:
                failures.append('%s: %s does not compile: %s' % (name, tu, r.stdout[-400:]))
                ok = False
                break
            objs.append(obj)
        if not ok:
            continue
        # no linker for these targets here: undefined symbols of all objects minus the symbols any of them defines
        ru = vlib.run([nm, '-u'] + objs)
        rd = vlib.run([nm, '--defined-only'] + objs)
        if ru.returncode != 0 or rd.returncode != 0:
            failures.append('%s: %s failed' % (name, nm))
            continue
        und = {l.split()[-1] for l in ru.stdout.split('\n') if l.strip() and not l.rstrip().endswith(':')}
        dfn = {l.split()[-1] for l in rd.stdout.split('\n') if len(l.split()) == 3}
        syms = sorted(und - dfn)
        if 'apple' in target:
            syms = sorted(s[1:] if s.startswith('_') else s for s in syms)          # Mach-O prefixes every C symbol with an underscore
        undef.append((name, syms))
    r = vlib.run(['gcc', '-E', '-P', os.path.join(core, 'lltdPort.h')])
    api = sorted(set(re.findall(r'\b(lltd_port_\w+)\s*\(', r.stdout)))
    includes, tokens = [], []
    for f in sorted(os.listdir(core)):
        if not f.endswith(('.c', '.h', '.m', '.mm', '.cc', '.cpp', '.hpp')):
            continue
        txt = open(os.path.join(core, f), errors='replace').read()
        inc = re.findall(r'^\s*#\s*include\s*<([^>]+)>', txt, re.M)
        includes.append((f, sorted(set(inc))))
        hits = ['%d: %s' % (i, l.strip()[:100]) for i, l in enumerate(txt.split('\n'), 1) if OS_MACRO.search(l) or OS_HEADER.search(l)]
        tokens.append((f, hits))
    out = ['/- GENERATED by tools/props/c20.py from the working tree; do not edit. -/', 'namespace LLTD.Sym', '']
    out.append('def portApi : List String := ' + lstr(api))
    out.append('def undef : List (String × List String) := [' + ', '.join('("%s", %s)' % (n, lstr(s)) for n, s in undef) + ']')
    out.append('def angleIncludes : List (String × List String) := [' + ', '.join('("%s", %s)' % (n, lstr(s)) for n, s in includes) + ']')
    out.append('def osTokens : List (String × List String) := [' + ', '.join('("%s", %s)' % (n, lstr(s)) for n, s in tokens) + ']')
    out += ['', 'end LLTD.Sym', '']
    txt = '\n'.join(out)
    target = os.path.join(vlib.LEAN, 'LLTD', 'Generated', 'Symbols.lean')
    if not os.path.exists(target) or open(target).read() != txt:
        with open(target, 'w') as f:
            f.write(txt)
    shutil.rmtree(work, ignore_errors=True)
    return undef, api, includes, tokens, failures


ALLOWED_RT = ['__stack_chk_fail', '__stack_chk_guard', '_GLOBAL_OFFSET_TABLE_', '__udivdi3', '__umoddi3', '__divdi3', '__moddi3', '__muldi3',
              '__ashldi3', '__lshrdi3', '__ashrdi3', '__udivmoddi4', '__bswapsi2', '__bswapdi2',
              '__aeabi_memcpy', '__aeabi_memcpy4', '__aeabi_memcpy8', '__aeabi_memmove', '__aeabi_memmove4', '__aeabi_memmove8', '__aeabi_memset', '__aeabi_memset4',
              '__aeabi_memset8', '__aeabi_memclr', '__aeabi_memclr4', '__aeabi_memclr8', '__aeabi_uldivmod', '__aeabi_ldivmod', '__aeabi_uidiv', '__aeabi_uidivmod',
              '__aeabi_idiv', '__aeabi_idivmod', '__aeabi_lmul', '__aeabi_llsl', '__aeabi_llsr', '__aeabi_lasr']
MEM = ['memcpy', 'memset', 'memmove', 'memcmp']
FREESTANDING = ['stdbool.h', 'stddef.h', 'stdint.h', 'stdarg.h', 'limits.h', 'float.h', 'iso646.h', 'stdalign.h', 'stdnoreturn.h']


def custom_check(tier, seed, finish, write_replay):
    t0 = time.time()
    with vlib.Lock('c20'):
        undef, api, includes, tokens, failures = extract_symbols()
    notes = list(failures)
    # concrete offenders (the "failing input" of this property is a (configuration, symbol) or (file, line) pair)
    offenders = []
    for name, syms in undef:
        for s in syms:
            if s not in api and s not in MEM and s not in ALLOWED_RT:
                offenders.append('configuration `%s`: the relocatably linked core references `%s`, which is not declared in lltdPort.h' % (name, s))
    for f, inc in includes:
        for h in inc:
            if h not in FREESTANDING:
                offenders.append('%s includes <%s>, which is not a freestanding C header' % (f, h))
    for f, hits in tokens:
        for h in hits:
            offenders.append('%s:%s  (OS-specific macro or header)' % (f, h))
    lint = vlib.run(['bash', os.path.join(vlib.REPO, 'scripts', 'lint_core_no_os_conditionals.sh')], cwd=vlib.REPO)
    lint_ok = lint.returncode == 0
    if not lint_ok and not any('OS-specific' in o for o in offenders):
        notes.append("the repository's own lint script fails: " + lint.stdout[-300:])
    ok, out = vlib.lake_build(LEAN_TARGETS)
    broken = []
    if ok:
        aud = vlib.audit(PROP, thorough=(tier == 'thorough'))
        if aud['problems']:
            notes.append('audit: ' + '; '.join(aud['problems']))
    else:
        broken = vlib.broken_theorems(out, PROP) or ['(build failed) ' + out[-500:]]
        notes.append('proof obligations no longer check: ' + '; '.join(broken))
        aud = {'theorems': vlib.theorem_names(PROP), 'discharged': [], 'axioms': []}
    if len(undef) != len(CONFIGS) + len(CROSS):
        notes.append('only %d of %d compiler configurations produced a symbol table' % (len(undef), len(CONFIGS) + len(CROSS)))
    cov = {
        'obligations': len(aud['theorems']), 'discharged': 0 if broken else len(aud['discharged']),
        'checker_cmd': 'cd /verif/lean && lake build LLTD.Props.C20 && lake env lean <generated #print axioms file>',
        'trusted_base': ['Lean 4.33.0 kernel'] + ['axiom ' + a for a in aud['axioms']] + ['tools/props/c20.py (the translator: compilers, ld -r, nm -u, cpp, regexes)', 'gcc 12, clang 14, binutils'],
        'theorems': aud['theorems'],
        'evaluations': sum(len(s) for _, s in undef) + sum(len(i) for _, i in includes) + len(tokens),
        'distinct_nontrivial': len({s for _, ss in undef for s in ss}),
        'rule': 'one evaluation per (configuration, undefined symbol), per (file, angle include) and per file scanned for OS tokens; distinct = distinct undefined symbols seen',
        'samples': [{'configuration': n, 'undefined': s} for n, s in undef[:2]] + [{'file': f, 'angle_includes': i} for f, i in includes[:2]],
        'audit_raw': aud.get('raw', ''), 'exhaustive': True, 'configurations': [n for n, _ in undef], 'port_api': api, 'repo_lint_ok': lint_ok, 'notes': notes,
    }
    if offenders:
        p = write_replay('C20_offender.txt', ['property C20 fails on the working tree:'] + offenders + notes, [])
        finish(p, False, cov)
    if notes:
        p = write_replay('C20_unproved.txt', ['property C20 is no longer shown to hold; no offending symbol / include / token was found'] + notes, [])
        finish(p, True, cov)
    finish(None, False, cov)
