#!/bin/bash
./setup.sh >/dev/null 2>&1
for s in 2 3 4 5; do for i in 01 02 03 04 05 06 07 08 09 10 11 12 13 14 15 16 17 18 19 20; do r=$(VERIF_SEED=$s VERIF_TAG=sd$s ./check C$i 2>&1 | grep -E "^(OK|VIOLATION)" | tail -1); echo "seed$s C$i: $r"; done; done
