#!/bin/bash
# usage: eval_round.sh <dir with wt_Cxx worktrees, each with a change applied> [props...]
# Runs, from THIS copy of /verif (works in a `vp run` snapshot), the quick check of every property against its worktree
# (VERIF_REPO) after confirming suite + demo; one result line per change.  /repo is never touched.
HERE="$(cd "$(dirname "$0")/.." && pwd)"
R="$1"; shift
cd "$HERE"
[ -d lean/.lake ] || ./setup.sh >/dev/null 2>&1
for wt in "$R"/wt_C*; do
  p=$(basename $wt); p=${p#wt_}
  if [ $# -gt 0 ] && ! echo " $* " | grep -q " $p "; then continue; fi
  ( cd $wt
    git diff -- . ':!demo' ':!NOTE.md' ':!PROPERTY.json' > /tmp/ev_$p.diff
    suite=$(make clean-tests test 2>&1 | grep -c "PASSED")
    (cd demo && bash run_demo.sh >/dev/null 2>&1); with=$?
    git apply -R /tmp/ev_$p.diff; (cd demo && bash run_demo.sh >/dev/null 2>&1); without=$?
    git apply /tmp/ev_$p.diff; make clean-tests >/dev/null 2>&1
    echo "$p: suite_passed_groups=$suite demo_with=$with demo_without=$without" )
  r=$(VERIF_REPO=$wt VERIF_TAG=ev ./check $p 2>&1 | grep -E "^(OK|VIOLATION)" | tail -1 | cut -c1-150)
  echo "$p: $r"
  rm -rf build/${p}_ev /tmp/ev_$p.diff
done
python3 -c "import sys; sys.path.insert(0,'$HERE/tools'); import vlib; vlib.extract()" >/dev/null 2>&1
