#!/bin/bash
# Re-run every archived seeded change (seeded/<id>/patch.diff) against the quick check of its property, without touching /repo:
# the change is applied to a scratch worktree and the check is pointed at it (VERIF_REPO).  One line per change; exit 1 if any is missed.
# usage: tools/archive_eval.sh            all checks, all generators
#        VERIF_CASE_PREFIX=u  tools/archive_eval.sh     only the universal frame-side cases   (au: automata side)
HERE="$(cd "$(dirname "$0")/.." && pwd)"; cd "$HERE"
[ -d lean/.lake ] || ./setup.sh >/dev/null 2>&1
WT=$(mktemp -d /tmp/wt_archive.XXXXXX); rmdir $WT
git -C /repo worktree add --detach $WT HEAD >/dev/null 2>&1 || exit 2
missed=0
for d in seeded/*; do
  id=$(basename $d); prop=${id%_*}
  git -C $WT checkout -q -- . ; git -C $WT clean -fdq
  git -C $WT apply $PWD/$d/patch.diff 2>/dev/null || { echo "$id: APPLY-FAILED"; missed=1; continue; }
  r=$(VERIF_REPO=$WT VERIF_TAG=archive ./check $prop 2>&1 | grep -E "^(OK|VIOLATION)" | tail -1 | cut -c1-120)
  echo "$id: $r"
  case "$r" in VIOLATION*) ;; *) if grep -q '"outside_modelled_environment": true' $d/meta.json; then echo "   ($id needs an environment the machinery does not model, see its meta.json: not counted)"; else missed=1; fi;; esac
done
git -C /repo worktree remove --force $WT
rm -rf build/*_archive
python3 -c "import sys; sys.path.insert(0,'$HERE/tools'); import vlib; vlib.extract()" >/dev/null 2>&1
exit $missed
