#!/usr/bin/env python3
"""
c2lean_wire: the translator for the BYTE WRITERS of the core - lltdResponder/lltdWire.c, lltdResponder/lltdTlvOps.c and the inline
helpers of lltdEndian.h - from clang's typed JSON AST to pure Lean 4  ->  lean/LLTD/Generated/TranslatedWire.lean.

It complements tools/c2lean.py (which translates the arithmetic / table code of lltdAutomata.c with structs BY VALUE): the functions
here write through casts of a `void *buffer` to packed structs, through `memcpy` of the object representation of locals, and
through port getters that fill memory, so this translator has a small BYTE-LEVEL MEMORY MODEL instead (DESIGN.md section 12.10):

  * every object whose address is used is a REGION of bytes (`List Nat`): each pointer parameter (the object it points to, passed
    BY VALUE and returned in the state; pointer parameters are assumed non-NULL and not aliasing each other), each local array /
    struct, and each scalar local whose address is taken (kept as a value; its object representation is `CSem.le n v`, i.e. the
    LITTLE-ENDIAN layout of the host the harness runs on - `lltd_is_little_endian()` is translated like any other function and
    computes `true` from that layout);
  * a pointer VALUE is symbolic: (region, byte offset expression, pointee type).  Pointer locals are resolved at their declaration
    (`T *p = (T *)(base + offset)`); the variables such an expression reads must never be assigned in the function (checked);
  * `p->f = e`, `*p = e`, `a[i] = e` are `CSem.wr region (off + offsetof f) (CSem.le (sizeof f) e)`; a struct assignment copies
    the source bytes; reads are `CSem.unle (CSem.rd region off n)`.  sizeof / offsetof come from a probe COMPILED AND RUN against the
    working tree's headers on every run, so a changed struct or packing changes the generated offsets;
  * an uninitialised local array holds `env.uninit n` (an arbitrary list chosen by the environment), never zeros;
  * `lltd_port_memcpy` / `lltd_port_memset` are byte copies / fills; every other `lltd_port_get_*` call is an ORACLE: the environment
    record has one field per getter, `{ retI, retN, out }` = the value returned and the bytes the port stores through its output
    pointer (at most the capacity the call site offers: the `dst_len` argument, or the size of the object whose address is passed);
    the interface-context argument is dropped;
  * integer expressions as in c2lean.py: unsigned arithmetic of width n is `Nat` arithmetic followed by `% 2^n` (width from the type
    clang computed AFTER the usual arithmetic conversions), signed arithmetic is `Int` arithmetic (overflow not modelled);
  * control flow: straight-line code, `if` / `else`, early `return` (what follows a possible `return` is guarded by `s.done`);
  * a `static` local is accepted only when `const` (it is then its initialiser); a mutable one keeps state between calls and is refused;
  * ANYTHING ELSE raises `Unsupported`: the check then reports the tie as broken instead of guessing.

Trusted: clang's AST, this file, the layout probe, the four helpers `CSem.le / unle / rd / wr`.
Not modelled: out-of-bounds accesses (a write past the end of a region LENGTHENS the list - the equalities of Lemmas/TranslatedWireEq
are stated for buffers with room and conclude that the length is kept), big-endian hosts, aliasing between parameters.
"""
import json, os, re, subprocess, sys, tempfile
sys.path.insert(0, os.path.dirname(os.path.abspath(__file__)))
import c2lean as C
from c2lean import Unsupported, lname, walk

SOURCES = ['lltdWire.c', 'lltdTlvOps.c', 'lltdAutomata.c', 'lltdBlock.c']
# translated when defined in one of SOURCES (or, for the inline helpers, in a header they include)
HELPERS = ['lltd_bswap16', 'lltd_bswap32', 'lltd_is_little_endian', 'lltd_htons', 'lltd_ntohs', 'lltd_htonl', 'lltd_ntohl']
WANTED = {
    'lltdWire.c': ['compareEthernetAddress', 'setLltdHeader', 'setLltdHeaderEx', 'setHelloHeader'],
    'lltdTlvOps.c': ['setHostnameTLV', 'setHostIdTLV', 'setCharacteristicsTLV', 'setPerfCounterTLV', 'setIconImageTLV',
                     'setSupportInfoTLV', 'setFriendlyNameTLV', 'setUuidTLV', 'setHardwareIdTLV', 'setQosCharacteristicsTLV',
                     'setEndOfPropertyTLV', 'setPhysicalMediumTLV', 'setIPv4TLV', 'setIPv6TLV', 'setLinkSpeedTLV',
                     'setWirelessTLV', 'setBSSIDTLV', 'setSSIDTLV', 'setWifiMaxRateTLV', 'setWifiRssiTLV', 'set80211MediumTLV'],
    'lltdAutomata.c': ['derive_session_event'],
    'lltdBlock.c': ['mapper_matches', 'set_active_mapper'],
}
# sources OUTSIDE lltdResponder/ (path relative to the repository, extra include directories): the getters of the Linux port that answer
# from the interface record.  In these functions `iface_ctx` IS the object read (a region), not an opaque context.
EXTRA_SOURCES = {'os/linux/lltd_port.c': (['os/linux'], ['lltd_port_get_mtu', 'lltd_port_get_mac_address', 'lltd_port_get_characteristics_flags',
                                                          'lltd_port_get_if_type', 'lltd_port_get_link_speed_100bps'])}
EXTRA_HEADERS = [('os/linux', 'daemon/linux-main.h')]     # headers the layout probe includes in addition (records named in them are probed)
# structs DEFINED IN A .c FILE whose layout the probe needs: the probe includes that file (with generated stubs for the port functions)
PRIVATE_RECORDS = {'lltd_iface_state': 'lltdBlock.c'}
# calls answered by the ENVIRONMENT instead of being translated here (tools/c2lean.py translates them with structs by value):
# name -> (size-of-result struct name).  The oracle gets the scalar arguments and, for a pointer argument, the bytes from that address on;
# it returns NULL (`none`) or the object representation of the struct the returned pointer points to.
ORACLES = {'session_table_find': 'session_entry'}


def q(t):
    return C.qual(t) if isinstance(t, dict) else t


class Layout:
    """sizeof / offsetof as the compiler computes them for the working tree's headers (probe compiled and run)"""
    def __init__(self, repo, records, flags, private=(), stubs=()):
        core = os.path.join(repo, 'lltdResponder')
        lines = ['#include <stdio.h>', '#include <stddef.h>', '#include <stdint.h>', '#include "lltdProtocol.h"', '#include "lltdAutomata.h"']
        lines += ['#include "%s"' % h for _, h in EXTRA_HEADERS]
        lines += ['#include "%s"' % f for f in private] + list(stubs) + ['int main(void){']
        for name, fields in sorted(records.items()):
            lines.append('printf("S %s %%zu\\n", sizeof(%s));' % (name, name))
            for f in fields:
                lines.append('printf("F %s %s %%zu %%zu\\n", offsetof(%s,%s), sizeof(((%s*)0)->%s));' % (name, f, name, f, name, f))
        lines += ['return 0;}']
        d = tempfile.mkdtemp(prefix='c2lw_')
        try:
            src = os.path.join(d, 'p.c')
            open(src, 'w').write('\n'.join(lines))
            extra = [os.path.join(core, f) for f in ('lltdWire.c', 'lltdTlvOps.c', 'lltdAutomata.c')] if private else []
            incs = ['-I' + os.path.join(repo, i) for i, _ in EXTRA_HEADERS]
            r = subprocess.run(['gcc', '-std=gnu11', '-w', '-D_GNU_SOURCE', '-I' + core] + incs + ['-o', os.path.join(d, 'p'), src] + extra + flags,
                               stdout=subprocess.PIPE, stderr=subprocess.PIPE, text=True)
            if r.returncode != 0:
                raise Unsupported('layout probe does not compile:\n' + r.stderr[-1500:])
            out = subprocess.run([os.path.join(d, 'p')], stdout=subprocess.PIPE, text=True).stdout
        finally:
            subprocess.run(['rm', '-rf', d])
        self.size = {}
        self.field = {}
        for l in out.splitlines():
            p = l.split()
            if p[0] == 'S':
                self.size[p[1]] = int(p[2])
            else:
                self.field[(p[1], p[2])] = (int(p[3]), int(p[4]))


class Ptr:
    def __init__(self, region, off, pointee):
        self.region, self.off, self.pointee = region, off, pointee      # off: Lean Nat expression (string)


class Fn:
    def __init__(self, tr, decl):
        self.tr, self.decl, self.name = tr, decl, decl['name']
        self.fields = []          # (lean name, lean type, initial value)
        self.regions = {}         # C name -> ('param'|'local', size or None, const)
        self.scalars = {}         # C name -> kind
        self.ptrs = {}            # C pointer local -> Ptr
        self.frozen = set()       # variables a symbolic pointer reads
        self.pre = []             # state updates hoisted out of the expression being translated
        self.ntemp = 0
        self.loopvars = {}        # C name of a `for` counter -> kind (rendered as the Lean variable of the loop body)
        self.optptrs = {}         # pointer local that may be NULL and points to an oracle's result -> struct name
        self.oracles = set()
        self.in_loop = 0
        self.params = []
        self.calls = set()
        self.getters = set()
        self.ret_kind = C.kind_of(re.sub(r'\(.*$', '', q(decl['type'])).strip())

    # ---- helpers -------------------------------------------------------------------------------------------------
    def fail(self, msg):
        raise Unsupported('%s: %s' % (self.name, msg))

    def add(self, name, ty, init):
        if name not in [f[0] for f in self.fields]:
            self.fields.append((name, ty, init))

    def sizeof(self, t):
        k = C.kind_of(t)
        return self.sizeof_kind(k, t)

    def sizeof_kind(self, k, t=None):
        if k[0] in ('u', 's'):
            return k[1] // 8
        if k[0] == 'b':
            return 1
        if k[0] == 'arr':
            return k[2] * self.sizeof_kind(k[1])
        if k[0] == 'struct':
            if k[1] in self.tr.layout.size:
                return self.tr.layout.size[k[1]]
        self.fail('size of %r unknown' % (t or k,))

    def temp(self, ty, init):
        self.ntemp += 1
        nm = 't%d' % self.ntemp
        self.add(nm, ty, init)
        return nm

    # ---- pointers and places -------------------------------------------------------------------------------------
    def ptr(self, n):
        """symbolic value of a pointer-typed expression"""
        k = n.get('kind')
        if k in ('ParenExpr', 'ConstantExpr'):
            return self.ptr(n['inner'][0])
        if k in ('ImplicitCastExpr', 'CStyleCastExpr'):
            ck = n.get('castKind')
            if ck == 'LValueToRValue':
                m = C.strip(n)
                if m.get('kind') == 'DeclRefExpr':
                    nm = m['referencedDecl']['name']
                    if nm in self.ptrs:
                        return self.ptrs[nm]
                    if nm in self.optptrs:
                        return Ptr(nm, '0', ('struct', self.optptrs[nm]))
                    if nm in self.regions and self.regions[nm][0] == 'param':
                        return Ptr(nm, '0', C.kind_of(q(m['type'])[:-1].strip()) if q(m['type']).endswith('*') else ('void',))
                self.fail('pointer read from an object that is not a pointer local / parameter')
            if ck in ('BitCast', 'NoOp'):
                p = self.ptr(n['inner'][0])
                tq = q(n['type'])
                return Ptr(p.region, p.off, C.kind_of(tq[:-1].strip()) if tq.endswith('*') else ('void',))
            if ck == 'ArrayToPointerDecay':
                reg, off, kd = self.place(n['inner'][0])
                if kd[0] != 'arr':
                    self.fail('decay of a non-array')
                return Ptr(reg, off, kd[1])
            self.fail('pointer cast %s' % ck)
        if k == 'BinaryOperator' and n['opcode'] in ('+', '-'):
            a, b = n['inner']
            if C.kind_of(a['type'])[0] != 'ptr':
                if n['opcode'] == '-':
                    self.fail('integer - pointer')
                a, b = b, a
            p = self.ptr(a)
            t, kd = self.expr(b)
            if kd[0] != 'u':
                lit = C.strip(b)
                if lit.get('kind') == 'IntegerLiteral':
                    t = lit['value']
                else:
                    self.fail('signed pointer offset')
            if n['opcode'] == '-':
                self.fail('pointer minus integer')
            sz = 1 if p.pointee[0] == 'void' else self.sizeof_kind(p.pointee)
            self.freeze(b)
            return Ptr(p.region, '(%s + %s)' % (p.off, t if sz == 1 else '%s * %d' % (t, sz)), p.pointee)
        if k == 'UnaryOperator' and n['opcode'] == '&':
            reg, off, kd = self.place(n['inner'][0])
            return Ptr(reg, off, kd)
        self.fail('pointer expression of kind %s' % k)

    def freeze(self, n):
        for m in walk(n):
            if m.get('kind') == 'DeclRefExpr' and m['referencedDecl'].get('kind') in ('VarDecl', 'ParmVarDecl'):
                self.frozen.add(m['referencedDecl']['name'])

    def place(self, n):
        """(region, byte offset, kind) of an lvalue; region 'var:x' = a scalar local kept as a value"""
        k = n.get('kind')
        if k == 'ParenExpr':
            return self.place(n['inner'][0])
        if k == 'DeclRefExpr':
            nm = n['referencedDecl']['name']
            if nm in self.loopvars:
                return ('loop:' + nm, '0', self.loopvars[nm])
            if nm in self.scalars:
                return ('var:' + nm, '0', self.scalars[nm])
            if nm in self.regions and self.regions[nm][0] == 'local':
                return (nm, '0', C.kind_of(n['type']))
            self.fail('lvalue %s' % nm)
        if k == 'MemberExpr':
            base = n['inner'][0]
            if n.get('isArrow'):
                p = self.ptr(base)
                st = p.pointee
                reg, off = p.region, p.off
            else:
                reg, off, st = self.place(base)
            if st[0] != 'struct' or (st[1], n['name']) not in self.tr.layout.field:
                self.fail('member %s of %r' % (n['name'], st))
            fo, _ = self.tr.layout.field[(st[1], n['name'])]
            return (reg, '(%s + %d)' % (off, fo), C.kind_of(n['type']))
        if k == 'UnaryOperator' and n['opcode'] == '*':
            p = self.ptr(n['inner'][0])
            return (p.region, p.off, p.pointee)
        if k == 'ArraySubscriptExpr':
            p = self.ptr(n['inner'][0])
            t, kd = self.expr(n['inner'][1])
            lit = C.strip(n['inner'][1])
            if lit.get('kind') == 'IntegerLiteral':
                t = lit['value']
            elif kd[0] != 'u':
                t = '(Int.toNat %s)' % t          # a negative index is out of the model (reads nothing sensible); counters are unsigned here
            sz = self.sizeof_kind(p.pointee)
            return (p.region, '(%s + %s)' % (p.off, t if sz == 1 else '%s * %d' % (t, sz)), p.pointee)
        self.fail('lvalue of kind %s' % k)

    def region_bytes(self, reg):
        """Lean expression for the bytes of a region"""
        if reg.startswith('var:'):
            nm = reg[4:]
            kd = self.scalars[nm]
            v = 's.%s' % lname(nm)
            if kd[0] == 's':
                v = '(CSem.toU %d %s)' % (kd[1], v)
            if kd[0] == 'b':
                v = '(if %s then 1 else 0)' % v
            return '(CSem.le %d %s)' % (kd[1] // 8 if kd[0] != 'b' else 1, v)
        return 's.%s' % lname(reg)

    def is_const_region(self, reg):
        return reg in self.optptrs or (reg in self.regions and self.regions[reg][2])

    def store_bytes(self, reg, off, bs):
        """state update writing the byte list `bs` at `off` of a region"""
        if reg.startswith('var:'):
            nm = reg[4:]
            kd = self.scalars[nm]
            if nm in self.frozen:
                self.fail('write through a pointer to %s, which a pointer expression reads' % nm)
            raw = '(CSem.unle (CSem.wr %s %s %s))' % (self.region_bytes(reg), off, bs)
            if kd[0] == 's':
                raw = '(CSem.toS %d %s)' % (kd[1], raw)
            if kd[0] == 'b':
                raw = '(%s != 0)' % raw
            return '{ s with %s := %s }' % (lname(nm), raw)
        if reg.startswith('loop:'):
            self.fail('write to the loop counter')
        if self.is_const_region(reg):
            self.fail('write into the const object %s' % reg)
        return '{ s with %s := CSem.wr s.%s %s %s }' % (lname(reg), lname(reg), off, bs)

    def value_bytes(self, t, kd):
        if kd[0] == 'u':
            return '(CSem.le %d %s)' % (kd[1] // 8, t)
        if kd[0] == 's':
            return '(CSem.le %d (CSem.toU %d %s))' % (kd[1] // 8, kd[1], t)
        if kd[0] == 'b':
            return '(CSem.le 1 (if %s then 1 else 0))' % t
        self.fail('object representation of %r' % (kd,))

    def load(self, reg, off, kd):
        if reg.startswith('loop:'):
            return (lname(reg[5:]), kd)
        if reg.startswith('var:') and off == '0' and kd == self.scalars[reg[4:]]:
            return ('s.%s' % lname(reg[4:]), kd)
        if kd[0] in ('u', 's', 'b'):
            n = 1 if kd[0] == 'b' else kd[1] // 8
            raw = '(CSem.unle (CSem.rd %s %s %d))' % (self.region_bytes(reg), off, n)
            if kd[0] == 's':
                raw = '(CSem.toS %d %s)' % (kd[1], raw)
            if kd[0] == 'b':
                raw = '(%s != 0)' % raw
            return (raw, kd)
        self.fail('load of %r' % (kd,))

    # ---- expressions ---------------------------------------------------------------------------------------------
    def conv(self, t, sk, tk, lit):
        saved = C.Fn.convert
        class Dummy:
            name = self.name
        return C.Fn.convert(Dummy, t, sk, tk, lit)

    def expr(self, n):
        """(Lean term, kind) of an integer / boolean expression"""
        k = n.get('kind')
        if k in ('ParenExpr', 'ConstantExpr'):
            return self.expr(n['inner'][0])
        if k == 'IntegerLiteral' or k == 'CharacterLiteral':
            kd = C.kind_of(n['type'])
            v = int(n['value'])
            return (str(v) if kd[0] == 'u' or v >= 0 else '(%d : Int)' % v, kd) if kd[0] != 's' else ('(%d : Int)' % v, kd)
        if k == 'DeclRefExpr':
            d = n['referencedDecl']
            if d.get('kind') == 'EnumConstantDecl':
                kd = C.kind_of(n['type'])
                v = self.tr.enums[d['name']]
                return (str(v) if kd[0] == 'u' else '(%d : Int)' % v, kd)
            self.fail('reference to %s used as a value without a load' % d['name'])
        if k in ('ImplicitCastExpr', 'CStyleCastExpr'):
            ck = n.get('castKind')
            sub = n['inner'][0]
            if ck == 'LValueToRValue':
                reg, off, kd = self.place(sub)
                return self.load(reg, off, kd)
            if ck == 'NoOp':
                return self.expr(sub)
            if ck == 'ToVoid':
                return self.expr(sub)
            if ck == 'IntegralCast' or ck == 'IntegralToBoolean':
                t, sk = self.expr(sub)
                tk = C.kind_of(n['type'])
                mlit = re.match(r'^\((-?\d+) : Int\)$', t)
                if sk[0] == 's' and mlit and tk[0] == 'u':
                    return (str(int(mlit.group(1)) % 2 ** tk[1]), tk)
                return self.conv(t, sk, tk, C.strip(sub))
            self.fail('cast %s' % ck)
        if k == 'UnaryExprOrTypeTraitExpr':
            if n.get('name') != 'sizeof':
                self.fail('%s' % n.get('name'))
            t = n['argType'] if 'argType' in n else n['inner'][0]['type']
            return (str(self.sizeof(t)), C.kind_of(n['type']))
        if k == 'UnaryOperator':
            op = n['opcode']
            if op == '!':
                return ('(!%s)' % self.boolean(n['inner'][0]), ('b', 1))
            if op == '-':
                t, kd = self.expr(n['inner'][0])
                if kd[0] == 's':
                    return ('(-%s)' % t, kd)
            if op == '*' :
                reg, off, kd = self.place(n)
                return self.load(reg, off, kd)
            self.fail('unary %s' % op)
        if k == 'BinaryOperator':
            op = n['opcode']
            if op in ('&&', '||'):
                return ('(%s %s %s)' % (self.boolean(n['inner'][0]), op, self.boolean(n['inner'][1])), ('b', 1))
            a, ka = self.expr(n['inner'][0])
            b, kb = self.expr(n['inner'][1])
            if op in ('==', '!=', '<', '>', '<=', '>='):
                if ka[0] != kb[0] and 'b' not in (ka[0], kb[0]):
                    self.fail('comparison of %r with %r' % (ka, kb))
                if ka[0] == 'b' or kb[0] == 'b':
                    a = '(if %s then 1 else 0)' % a if ka[0] == 'b' else a
                    b = '(if %s then 1 else 0)' % b if kb[0] == 'b' else b
                lop = {'==': '==', '!=': '!='}.get(op)
                ty = 'Int' if 's' in (ka[0], kb[0]) else 'Nat'
                if lop:
                    return ('((%s : %s) %s %s)' % (a, ty, lop, b), ('b', 1))
                return ('(decide ((%s : %s) %s %s))' % (a, ty, {'<': '<', '>': '>', '<=': '≤', '>=': '≥'}[op], b), ('b', 1))
            kd = C.kind_of(n['type'])
            if kd[0] == 's' and op in ('|', '&', '<<', '>>'):
                # signed bit operations: only on non-negative operands are they what Nat computes; keep them in Int via toNat
                if op in ('|', '&'):
                    return ('((%s %s %s : Nat) : Int)' % ('(Int.toNat %s)' % a, {'|': '|||', '&': '&&&'}[op], '(Int.toNat %s)' % b), kd)
                if op == '<<':
                    return ('(%s * (2 ^ (Int.toNat %s) : Nat))' % (a, b), kd)
                return ('(%s / (2 ^ (Int.toNat %s) : Nat))' % (a, b), kd)
            class Dummy:
                name = self.name
            return (C.Fn.arith(Dummy, op, a, b, kd, kb), kd)
        if k == 'ConditionalOperator':
            c = self.boolean(n['inner'][0])
            a, ka = self.expr(n['inner'][1])
            b, kb = self.expr(n['inner'][2])
            if ka != kb:
                self.fail('?: with operands of different types')
            return ('(if %s then %s else %s)' % (c, a, b), ka)
        if k == 'CallExpr':
            return self.call(n)
        self.fail('expression of kind %s' % k)

    def boolean(self, n):
        m = n
        while m.get('kind') in ('ParenExpr',) or (m.get('kind') == 'ImplicitCastExpr' and m.get('castKind') in ('LValueToRValue', 'NoOp', 'PointerToBoolean')):
            m = m['inner'][0]
        if C.kind_of(m['type'])[0] == 'ptr' if 'type' in m else False:
            if m.get('kind') == 'DeclRefExpr':
                nm = m['referencedDecl']['name']
                if nm in self.optptrs:
                    return 's.%s_nn' % lname(nm)
                if nm in self.regions and self.regions[nm][0] == 'param':
                    return 'true'          # pointer parameters are assumed non-NULL (the NULL paths are C18's business)
                if nm == 'table':
                    return 'true'
            self.fail('truth value of a pointer expression')
        t, kd = self.expr(n)
        if kd[0] == 'b':
            return t
        return '(%s != 0)' % t

    # ---- calls ---------------------------------------------------------------------------------------------------
    def callee(self, n):
        m = n['inner'][0]
        while m.get('kind') in ('ImplicitCastExpr', 'ParenExpr'):
            m = m['inner'][0]
        if m.get('kind') != 'DeclRefExpr':
            self.fail('indirect call')
        return m['referencedDecl']['name']

    def call(self, n):
        name = self.callee(n)
        args = n['inner'][1:]
        if name in ('lltd_port_memcpy', 'memcpy'):
            d, s = self.ptr(args[0]), self.ptr(args[1])
            cnt, kd = self.expr(args[2])
            self.pre.append(self.store_bytes(d.region, d.off, '(CSem.rd %s %s %s)' % (self.region_bytes(s.region), s.off, cnt)))
            return ('0', ('void',))
        if name in ('lltd_port_memset', 'memset'):
            d = self.ptr(args[0])
            v, kv = self.expr(args[1])
            cnt, kd = self.expr(args[2])
            if kv[0] == 's':
                v = '(CSem.toU 8 %s)' % v
            self.pre.append(self.store_bytes(d.region, d.off, '(List.replicate %s (%s %% 256))' % (cnt, v)))
            return ('0', ('void',))
        if name.startswith('lltd_port_log_'):
            return ('0', ('void',))
        if name.startswith('lltd_port_get_'):
            proto = self.tr.protos.get(name)
            if proto is None:
                self.fail('no prototype for %s' % name)
            g = name[len('lltd_port_'):]
            self.getters.add(g)
            rk = C.kind_of(re.sub(r'\(.*$', '', q(proto['type'])).strip())
            pnames = [p.get('name', '') for p in proto.get('inner', []) if p.get('kind') == 'ParmVarDecl']
            if len(pnames) != len(args):
                self.fail('call of %s with %d arguments' % (name, len(args)))
            dst = None
            cap = None
            for pn, a in zip(pnames, args):
                ak = C.kind_of(a['type'])
                if pn == 'iface_ctx':
                    continue
                if ak[0] == 'ptr':
                    if dst is not None:
                        self.fail('%s has two output pointers' % name)
                    dst = self.ptr(a)
                elif pn == 'dst_len':
                    cap, _ = self.expr(a)
                else:
                    self.fail('argument %s of %s' % (pn, name))
            if dst is not None:
                if cap is None:
                    if dst.pointee[0] == 'void':
                        self.fail('%s: capacity of the output unknown' % name)
                    if dst.region in self.regions and self.regions[dst.region][0] == 'local' and dst.off == '0':
                        cap = str(self.regions[dst.region][1])
                    else:
                        cap = str(self.sizeof_kind(dst.pointee))
                self.pre.append(self.store_bytes(dst.region, dst.off, '(env.%s.out.take %s)' % (g, cap)))
            if rk[0] == 's':
                return ('(CSem.toSI %d env.%s.retI)' % (rk[1], g), rk)
            if rk[0] == 'u':
                return ('(env.%s.retN %% %d)' % (g, 2 ** rk[1]), rk)
            self.fail('return type of %s' % name)
        # another translated function: scalar arguments, and pointers to const objects (passed as the bytes from that address on)
        f = self.tr.fn(name)
        if any(not f.regions[p][2] for p in f.regions_params()):
            self.fail('call of %s, which may write through a pointer' % name)
        self.calls.add(name)
        ts = []
        for a, (pn, pk) in zip(args, f.params):
            if pk[0] == 'region':
                pa = self.ptr(a)
                ts.append('(List.drop %s %s)' % (pa.off, self.region_bytes(pa.region)))
                continue
            t, kd = self.expr(a)
            if kd != pk:
                self.fail('argument of %s: %r for %r' % (name, kd, pk))
            ts.append(t)
        return ('(%s env %s).ret' % (lname(name), ' '.join(ts)) if ts else '(%s env).ret' % lname(name), f.ret_kind)

    def regions_params(self):
        return [p for p in self.regions if self.regions[p][0] == 'param']

    # ---- statements ----------------------------------------------------------------------------------------------
    def flush(self, lines):
        for u in self.pre:
            lines.append('let s := %s' % u)
        self.pre = []

    def may_return(self, n):
        return any(m.get('kind') == 'ReturnStmt' for m in walk(n))

    def assigned(self, n, acc):
        for m in walk(n):
            if m.get('kind') in ('BinaryOperator', 'CompoundAssignOperator') and (m.get('opcode') == '=' or m.get('kind') == 'CompoundAssignOperator'):
                l = m['inner'][0]
                while l.get('kind') == 'ParenExpr':
                    l = l['inner'][0]
                if l.get('kind') == 'DeclRefExpr':
                    acc.add(l['referencedDecl']['name'])
            if m.get('kind') == 'UnaryOperator' and m.get('opcode') in ('++', '--'):
                l = C.strip(m['inner'][0])
                if l.get('kind') == 'DeclRefExpr':
                    acc.add(l['referencedDecl']['name'])

    def stmt(self, n, lines):
        k = n.get('kind')
        if k == 'NullStmt':
            return
        if k == 'CompoundStmt':
            self.block(n.get('inner', []) or [], lines)
            return
        if k == 'DeclStmt':
            for v in n['inner']:
                if v.get('kind') != 'VarDecl':
                    self.fail('declaration of kind %s' % v.get('kind'))
                self.decl_var(v, lines)
            return
        if k == 'ReturnStmt':
            if n.get('inner'):
                if self.ret_kind[0] == 'b':
                    t = self.boolean(n['inner'][0])
                else:
                    t, kd = self.expr(n['inner'][0])
                    if kd != self.ret_kind:
                        if kd[0] != 'b':
                            self.fail('return of %r from a function returning %r' % (kd, self.ret_kind))
                        t = '(if %s then 1 else 0)' % t
                self.flush(lines)
                lines.append('let s := { s with ret := %s, done := true }' % t)
            else:
                lines.append('let s := { s with done := true }')
            return
        if k == 'IfStmt':
            inner = n['inner']
            c = self.boolean(inner[0])
            self.flush(lines)
            a = []
            self.stmt(inner[1], a)
            b = []
            if len(inner) > 2:
                self.stmt(inner[2], b)
            lines.append('let s := if %s then (' % c)
            lines += ['  ' + l for l in a] + ['  s)', 'else (']
            lines += ['  ' + l for l in b] + ['  s)']
            return
        if k == 'CompoundAssignOperator':
            op = n['opcode'][:-1]
            lhs, rhs = n['inner']
            reg, off, kd = self.place(lhs)
            ck = C.kind_of(n['computeResultType'])
            a, ka = self.load(reg, off, kd)
            if ka != ck:
                a, _ = self.conv(a, ka, ck, {})
            b, kb = self.expr(rhs)
            if kb != ck and op not in ('<<', '>>'):
                self.fail('compound assignment operand of kind %r for %r' % (kb, ck))
            class Dummy:
                name = self.name
            t = C.Fn.arith(Dummy, op, a, b, ck, kb)
            if ck != kd:
                t, _ = self.conv(t, ck, kd, {})
            self.flush(lines)
            if reg.startswith('var:') and off == '0':
                lines.append('let s := { s with %s := %s }' % (lname(reg[4:]), t))
            else:
                lines.append('let s := %s' % self.store_bytes(reg, off, self.value_bytes(t, kd)))
            return
        if k == 'BreakStmt':
            if not self.in_loop:
                self.fail('break outside a loop')
            lines.append('let s := { s with brk := true }')
            return
        if k == 'ForStmt':
            self.for_stmt(n, lines)
            return
        if k == 'BinaryOperator' and n.get('opcode') == '=' and C.strip(n['inner'][0]).get('kind') == 'DeclRefExpr' and \
                C.strip(n['inner'][0])['referencedDecl']['name'] in self.optptrs:
            self.assign_optptr(C.strip(n['inner'][0])['referencedDecl']['name'], n['inner'][1], lines)
            return
        if k == 'BinaryOperator' and n.get('opcode') == '=':
            lhs, rhs = n['inner']
            reg, off, kd = self.place(lhs)
            if kd[0] in ('struct', 'arr'):
                # struct assignment: copy the object representation
                r = C.strip(rhs)
                rreg, roff, rkd = self.place(r)
                if rkd != kd:
                    self.fail('struct assignment between different types')
                bs = '(CSem.rd %s %s %d)' % (self.region_bytes(rreg), roff, self.sizeof_kind(kd))
                self.flush(lines)
                lines.append('let s := %s' % self.store_bytes(reg, off, bs))
                return
            if kd[0] == 'b':
                t = self.boolean(rhs)
            else:
                t, rk = self.expr(rhs)
                if rk != kd:
                    self.fail('assignment of %r to %r' % (rk, kd))
            self.flush(lines)
            if reg.startswith('var:') and off == '0' and kd == self.scalars[reg[4:]]:
                nm = reg[4:]
                if nm in self.frozen:
                    self.fail('assignment to %s, which a pointer expression reads' % nm)
                lines.append('let s := { s with %s := %s }' % (lname(nm), t))
            else:
                lines.append('let s := %s' % self.store_bytes(reg, off, self.value_bytes(t, kd)))
            return
        if k in ('CallExpr', 'CStyleCastExpr', 'ImplicitCastExpr', 'ParenExpr'):
            m = n
            while m.get('kind') in ('CStyleCastExpr', 'ImplicitCastExpr', 'ParenExpr'):
                m = m['inner'][0]
            if m.get('kind') == 'CallExpr':
                self.call(m)
                self.flush(lines)
                return
            if m.get('kind') == 'DeclRefExpr':
                return          # (void)parameter;
            self.fail('expression statement')
        self.fail('statement of kind %s' % k)

    def is_null(self, n):
        while n.get('kind') in ('ParenExpr', 'ImplicitCastExpr', 'CStyleCastExpr'):
            n = n['inner'][0]
        return n.get('kind') == 'IntegerLiteral' and int(n['value']) == 0

    def assign_optptr(self, nm, rhs, lines):
        m = rhs
        while m.get('kind') in ('ParenExpr', 'ImplicitCastExpr', 'CStyleCastExpr'):
            m = m['inner'][0]
        if self.is_null(rhs):
            lines.append('let s := { s with %s := ([] : List Nat), %s_nn := false }' % (lname(nm), lname(nm)))
            return
        if m.get('kind') != 'CallExpr' or self.callee(m) not in ORACLES or ORACLES[self.callee(m)] != self.optptrs[nm]:
            self.fail('assignment to the pointer %s' % nm)
        name = self.callee(m)
        proto = self.tr.protos.get(name) or self.tr.fns.get(name)
        pnames = [p.get('name', '') for p in proto.get('inner', []) if p.get('kind') == 'ParmVarDecl']
        ts = []
        for pn, a in zip(pnames, m['inner'][1:]):
            ak = C.kind_of(a['type'])
            if ak[0] == 'ptr':
                if pn == 'table':
                    continue              # the table itself is the oracle's business
                pa = self.ptr(a)
                ts.append('(List.drop %s %s)' % (pa.off, self.region_bytes(pa.region)))
            else:
                t, kd = self.expr(a)
                if kd[0] != 'u':
                    self.fail('oracle argument of kind %r' % (kd,))
                ts.append(t)
        self.flush(lines)
        self.oracles.add((name, len(ts)))
        call = '(env.%s %s)' % (name, ' '.join(ts))
        lines.append('let s := { s with %s := (%s).getD [], %s_nn := (%s).isSome }' % (lname(nm), call, lname(nm), call))

    def for_stmt(self, n, lines):
        inner = n['inner']
        if len(inner) != 5:
            self.fail('for statement shape')
        init, _, cond, inc, body = inner
        if init.get('kind') != 'DeclStmt' or len(init['inner']) != 1 or init['inner'][0].get('kind') != 'VarDecl':
            self.fail('for: the counter must be declared in the statement')
        v = init['inner'][0]
        nm, kd = v['name'], C.kind_of(v['type'])
        if kd[0] != 'u':
            self.fail('for: counter of kind %r' % (kd,))
        i0 = [c for c in v.get('inner', []) if isinstance(c, dict)]
        lit = C.strip(i0[0]) if i0 else {}
        while lit.get('kind') == 'ImplicitCastExpr':
            lit = C.strip(lit['inner'][0])
        if lit.get('kind') != 'IntegerLiteral':
            self.fail('for: the counter must start at a constant')
        start = int(lit['value'])
        # condition  i < bound
        def unwrap(x):
            while x.get('kind') in ('ParenExpr', 'ImplicitCastExpr'):
                x = x['inner'][0]
            return x
        if cond.get('kind') != 'BinaryOperator' or cond.get('opcode') != '<' or unwrap(cond['inner'][0]).get('kind') != 'DeclRefExpr' or \
                unwrap(cond['inner'][0])['referencedDecl']['name'] != nm:
            self.fail('for: condition must be `counter < bound`')
        bx = unwrap(cond['inner'][1])
        if bx.get('kind') != 'DeclRefExpr' or bx['referencedDecl']['name'] not in self.scalars:
            self.fail('for: the bound must be a scalar local')
        bname = bx['referencedDecl']['name']
        bk = self.scalars[bname]
        if bk[0] != 'u' or bk[1] > kd[1]:
            self.fail('for: bound wider than the counter (the counter could wrap)')
        if inc.get('kind') != 'UnaryOperator' or inc.get('opcode') != '++' or unwrap(inc['inner'][0])['referencedDecl']['name'] != nm:
            self.fail('for: increment must be counter++')
        acc = set()
        self.assigned(body, acc)
        if nm in acc or bname in acc:
            self.fail('for: the body assigns the counter or the bound')
        if self.may_return(body):
            self.fail('for: return inside the loop')
        self.loopvars[nm] = kd
        self.in_loop += 1
        b = []
        self.stmt(body, b)
        self.in_loop -= 1
        del self.loopvars[nm]
        self.flush(lines)
        self.nloops = getattr(self, 'nloops', 0) + 1
        lname_loop = '%s.loop%d' % (lname(self.name), self.nloops)
        if not hasattr(self, 'loopdefs'):
            self.loopdefs = []
        self.loopdefs.append(['/-- body of the %s `for` loop of %s (one iteration; skipped once a `break` was executed) -/' % (
                                  {1: 'first', 2: 'second', 3: 'third'}.get(self.nloops, '%d-th' % self.nloops), self.name),
                              'def %s (env : Env) (%s : Nat) (s : %s.S) : %s.S :=' % (lname_loop, lname(nm), lname(self.name), lname(self.name)),
                              '  if s.brk then s else ('] + ['    ' + l for l in b] + ['    s)', ''])
        lines.append('let s := CSem.loopRange %d s.%s (%s env) s' % (start, lname(bname), lname_loop))
        lines.append('let s := { s with brk := false }')

    def decl_var(self, v, lines):
        nm = v['name']
        if v.get('storageClass') == 'static' and not re.search(r'\bconst\b', v['type'].get('qualType', '')):
            self.fail('the local %s is static and not const: it keeps its value between calls, which this translation (one call = one state) does not model' % nm)
        kd = C.kind_of(v['type'])
        init = [c for c in v.get('inner', []) if isinstance(c, dict) and c.get('kind') not in (None,) and 'Attr' not in c.get('kind', '')]
        if kd[0] == 'ptr' and C.kind_of(kd[1]) [0] == 'struct' and C.kind_of(kd[1])[1] in ORACLES.values():
            self.optptrs[nm] = C.kind_of(kd[1])[1]
            self.add(lname(nm), 'List Nat', '[]')
            self.add(lname(nm) + '_nn', 'Bool', 'false')
            if not init:
                self.fail('pointer %s without initialiser' % nm)
            self.assign_optptr(nm, init[0], lines)
            return
        if kd[0] == 'ptr':
            if not init:
                self.fail('pointer %s without initialiser' % nm)
            self.ptrs[nm] = self.ptr(init[0])
            if self.pre:
                self.fail('side effect in a pointer initialiser')
            return
        if kd[0] in ('arr', 'struct'):
            size = self.sizeof_kind(kd)
            self.regions[nm] = ('local', size, False)
            if not init:
                val = '(env.uninit %d)' % size
            else:
                val = self.init_bytes(init[0], kd)
            self.add(lname(nm), 'List Nat', '[]')
            lines.append('let s := { s with %s := %s }' % (lname(nm), val))
            return
        if kd[0] in ('u', 's', 'b'):
            self.scalars[nm] = kd
            self.add(lname(nm), {'u': 'Nat', 's': 'Int', 'b': 'Bool'}[kd[0]], {'u': '0', 's': '0', 'b': 'false'}[kd[0]])
            if not init:
                self.fail('scalar %s declared without initialiser' % nm)
            if kd[0] == 'b':
                t = self.boolean(init[0])
            else:
                t, rk = self.expr(init[0])
                if rk != kd:
                    self.fail('initialiser of %s: %r for %r' % (nm, rk, kd))
            self.flush(lines)
            lines.append('let s := { s with %s := %s }' % (lname(nm), t))
            return
        self.fail('local %s of kind %r' % (nm, kd))

    def init_bytes(self, n, kd):
        """object representation of a brace initialiser made of integer constants"""
        if n.get('kind') == 'InitListExpr':
            if kd[0] == 'arr':
                items = n.get('inner', []) or []
                parts = [self.init_bytes(i, kd[1]) for i in items]
                missing = kd[2] - len(items)
                if missing:
                    parts.append('(List.replicate %d 0)' % (missing * self.sizeof_kind(kd[1])))
                return '(' + ' ++ '.join(parts) + ')'
            if kd[0] == 'struct':
                # packed structs of scalars / arrays only: fields in order must tile the struct
                flds = self.tr.records.get(kd[1])
                items = n.get('inner', []) or []
                if flds is None or len(items) != len(flds):
                    self.fail('initialiser of struct %s' % kd[1])
                parts, at = [], 0
                for f, it in zip(flds, items):
                    fo, fs = self.tr.layout.field[(kd[1], f)]
                    if fo != at:
                        self.fail('padding in %s' % kd[1])
                    parts.append(self.init_bytes(it, self.tr.field_kind[(kd[1], f)]))
                    at += fs
                if at != self.sizeof_kind(kd):
                    self.fail('padding at the end of %s' % kd[1])
                return '(' + ' ++ '.join(parts) + ')'
        t, k2 = self.expr(n)
        if kd[0] in ('u', 's'):
            if k2 != kd:
                self.fail('initialiser element %r for %r' % (k2, kd))
            return self.value_bytes(t, kd)
        self.fail('initialiser for %r' % (kd,))

    def may_break(self, n):
        return self.in_loop and any(m.get('kind') == 'BreakStmt' for m in walk(n))

    def block(self, stmts, lines):
        for i, st in enumerate(stmts):
            self.stmt(st, lines)
            if (self.may_return(st) or self.may_break(st)) and i + 1 < len(stmts):
                rest = []
                self.block(stmts[i + 1:], rest)
                lines.append('if s.done || s.brk then s else')
                lines += rest
                return

    # ---- whole function ------------------------------------------------------------------------------------------
    def setup(self):
        for p in self.decl.get('inner', []):
            if p.get('kind') != 'ParmVarDecl':
                continue
            nm = p.get('name')
            if nm is None:
                self.fail('unnamed parameter')
            kd = C.kind_of(p['type'])
            if kd[0] == 'ptr':
                if (nm == 'iface_ctx' or nm == 'networkInterface') and self.tr.defined_in.get(self.name) not in EXTRA_SOURCES:
                    continue
                const = bool(re.search(r'\bconst\b', p['type'].get('qualType', '').split('*')[0]))
                self.regions[nm] = ('param', None, const)
                self.add(lname(nm), 'List Nat', None)
                self.params.append((nm, ('region',)))
            elif kd[0] in ('u', 's', 'b'):
                self.scalars[nm] = kd
                self.add(lname(nm), {'u': 'Nat', 's': 'Int', 'b': 'Bool'}[kd[0]], None)
                self.params.append((nm, kd))
            else:
                self.fail('parameter %s of kind %r' % (nm, kd))
        body = next(c for c in self.decl['inner'] if c.get('kind') == 'CompoundStmt')
        lines = []
        self.block(body.get('inner', []) or [], lines)
        acc = set()
        self.assigned(body, acc)
        bad = acc & self.frozen
        if bad:
            self.fail('%s is assigned although a pointer expression reads it' % ', '.join(sorted(bad)))
        self.lines = lines

    def emit(self):
        rt = {'u': ('Nat', '0'), 's': ('Int', '0'), 'b': ('Bool', 'false'), 'void': ('Nat', '0')}[self.ret_kind[0]]
        out = ['structure %s.S where' % lname(self.name)]
        for nm, ty, _ in self.fields:
            out.append('  %s : %s' % (nm, ty))
        out += ['  ret : %s' % rt[0], '  done : Bool', '  brk : Bool', 'deriving Repr, DecidableEq', '']
        ps = ' '.join('(%s : %s)' % (lname(nm), 'List Nat' if kd[0] == 'region' else {'u': 'Nat', 's': 'Int', 'b': 'Bool'}[kd[0]])
                      for nm, kd in self.params)
        for ld in getattr(self, 'loopdefs', []):
            out += ld
        out.append('def %s (env : Env)%s : %s.S :=' % (lname(self.name), (' ' + ps) if ps else '', lname(self.name)))
        inits = []
        pn = [lname(nm) for nm, _ in self.params]
        for nm, ty, init in self.fields:
            inits.append('%s := %s' % (nm, nm if nm in pn else init))
        out.append('  let s : %s.S := { %s }' % (lname(self.name), ', '.join(inits + ['ret := %s' % rt[1], 'done := false', 'brk := false'])))
        out += ['  ' + l for l in self.lines]
        out += ['  s', '']
        return out


class Translator:
    def __init__(self, repo, flags):
        self.repo, self.flags = repo, flags
        self.fns, self.protos, self.enums, self.records, self.field_kind = {}, {}, {}, {}, {}
        self.defined_in = {}
        self.cache = {}

    def load(self, src, incs=()):
        core = os.path.join(self.repo, 'lltdResponder')
        path = os.path.join(self.repo, src) if '/' in src else os.path.join(core, src)
        cmd = ['clang-14', '-std=gnu11', '-D_GNU_SOURCE', '-I' + core] + ['-I' + os.path.join(self.repo, i) for i in incs] + \
              ['-w', '-fsyntax-only', '-Xclang', '-ast-dump=json'] + self.flags + [path]
        r = subprocess.run(cmd, stdout=subprocess.PIPE, stderr=subprocess.PIPE, text=True)
        if r.returncode != 0:
            raise Unsupported('clang cannot parse %s:\n' % src + r.stderr[-2000:])
        ast = json.loads(r.stdout)
        byid = {}
        for n in ast['inner']:
            kd = n.get('kind')
            if kd == 'RecordDecl' and n.get('completeDefinition'):
                byid[n['id']] = n
                if n.get('name'):
                    self.add_record(n['name'], n)
            elif kd == 'TypedefDecl' and n.get('name'):
                under = C.qual(n['type'])
                if re.sub(r'^struct ', '', under) != n['name']:
                    C.TYPEDEFS[n['name']] = under
                for m in walk(n):
                    oid = (m.get('ownedTagDecl') or {}).get('id') or (m.get('decl') or {}).get('id')
                    if oid in byid:
                        self.add_record(n['name'], byid[oid])
            elif kd == 'EnumDecl':
                nxt = 0
                for e in n.get('inner', []):
                    if e.get('kind') != 'EnumConstantDecl':
                        continue
                    val = None
                    for m in walk(e):
                        if m.get('kind') == 'ConstantExpr' and 'value' in m:
                            val = int(m['value'])
                            break
                        if m.get('kind') == 'IntegerLiteral' and m is not e:
                            val = int(m['value'])
                            break
                    if val is None:
                        val = nxt
                    self.enums[e['name']] = val
                    nxt = val + 1
            elif kd == 'FunctionDecl':
                if any(c.get('kind') == 'CompoundStmt' for c in n.get('inner', [])):
                    if src in EXTRA_SOURCES and n['name'] not in EXTRA_SOURCES[src][1]:
                        continue          # only the listed functions of a port file are of interest (the rest uses the OS)
                    self.fns[n['name']] = n
                    self.defined_in.setdefault(n['name'], src)
                else:
                    self.protos.setdefault(n['name'], n)

    def add_record(self, name, n):
        flds = []
        for f in n.get('inner', []):
            if f.get('kind') == 'FieldDecl' and f.get('name'):
                if f.get('isBitfield'):
                    return
                flds.append(f['name'])
                self.field_kind[(name, f['name'])] = None if C.qual(f['type']).endswith('*') else f['type']
        self.records[name] = flds

    def fn(self, name):
        if name not in self.cache:
            if name not in self.fns:
                raise Unsupported('function %s is not defined in %s' % (name, ' / '.join(SOURCES)))
            f = Fn(self, self.fns[name])
            self.cache[name] = f
            f.setup()
        return self.cache[name]

    def run(self):
        C.TYPEDEFS.clear()
        for src in SOURCES:
            self.load(src)
        for src, (incs, _) in EXTRA_SOURCES.items():
            self.load(src, incs)
        recs = {k: v for k, v in self.records.items() if re.match(r'^[A-Za-z_]\w*$', k) and k in C.TYPEDEFS or k in self.records}
        # only typedef'd records of lltdProtocol.h can be named in the probe
        hdr = open(os.path.join(self.repo, 'lltdResponder', 'lltdProtocol.h')).read() + open(os.path.join(self.repo, 'lltdResponder', 'lltdAutomata.h')).read()
        for i, h in EXTRA_HEADERS:
            hdr += open(os.path.join(self.repo, i, h)).read()
        named = {k: v for k, v in recs.items() if re.search(r'\}\s*(__attribute__\s*\(\(.*?\)\)\s*)?%s\s*;' % re.escape(k), hdr)}
        private = sorted(set(PRIVATE_RECORDS.values()))
        for k, f in PRIVATE_RECORDS.items():
            if k in self.records:
                named[k] = self.records[k]
        stubs = []
        for nm, proto in sorted(self.protos.items()):
            if nm.startswith('lltd_port_') and (nm not in self.fns or self.defined_in.get(nm) in EXTRA_SOURCES):
                tq = q(proto['type'])
                ret = tq.split('(')[0].strip()
                params = [p for p in proto.get('inner', []) if p.get('kind') == 'ParmVarDecl']
                ps = ', '.join('%s a%d' % (p['type']['qualType'].replace('[16]', '*').replace('[6]', '*'), i) if '[' not in p['type']['qualType'] else
                               '%s a%d' % (re.sub(r'\[\d*\]', '*', p['type']['qualType']), i) for i, p in enumerate(params)) or 'void'
                if proto.get('variadic') or '...' in tq:
                    ps += ', ...'
                stubs.append('%s %s(%s) { %s }' % (ret, nm, ps, '' if ret == 'void' else 'return (%s)0;' % ret))
        self.layout = Layout(self.repo, named, self.flags, private, stubs)
        for key in list(self.field_kind):
            if self.field_kind[key] is not None:
                self.field_kind[key] = C.kind_of(self.field_kind[key])
        wanted = []
        for src, (_, names) in EXTRA_SOURCES.items():
            WANTED[src] = names
        for src in SOURCES + list(EXTRA_SOURCES):
            for nm in WANTED[src]:
                if self.defined_in.get(nm) != src and nm not in self.fns:
                    raise Unsupported('function %s not found in %s' % (nm, src))
                wanted.append(nm)
        fns = []
        self.failed = {}
        for n in wanted:
            try:
                fns.append(self.fn(n))
            except Unsupported as e:
                # the function has left the subset: it is LEFT OUT of the generated file (the Lean proofs about it then fail to build, which
                # the check of the properties anchored in it reports) and named in FAILED; the other functions are still translated
                self.failed[n] = str(e)
                self.cache.pop(n, None)
        order = []
        def visit(nm):
            if nm in order:
                return
            for c in sorted(self.cache[nm].calls):
                visit(c)
            order.append(nm)
        for f in fns:
            visit(f.name)
        getters = sorted(set().union(*[self.cache[nm].getters for nm in order]))
        out = ['/- GENERATED by tools/c2lean_wire.py from lltdResponder/lltdWire.c, lltdTlvOps.c and lltdEndian.h of the working tree.',
               '   Do not edit: it is rewritten on every run; Lemmas/TranslatedWireEq.lean relates it to the hand-written model. -/',
               'import LLTD.Model.CSem', '', 'namespace LLTD.TW', 'open LLTD', '',
               '/-- what a port getter does: the value it returns and the bytes it stores through its output pointer -/',
               'structure PortOut where', '  retI : Int := 0', '  retN : Nat := 0', '  out : List Nat := []', 'deriving Repr, DecidableEq', '',
               'structure Env where', '  uninit : Nat → List Nat']
        for g in getters:
            out.append('  %s : PortOut' % g)
        for name, nargs in sorted(set().union(*[self.cache[nm].oracles for nm in order])):
            out.append('  %s : %s → Option (List Nat)' % (name, ' → '.join(['List Nat' if i == 0 else 'Nat' for i in range(nargs)])))
        out.append('')
        for nm in order:
            out += self.cache[nm].emit()
        out += ['def translatedFunctions : List String := [%s]' % ', '.join('"%s"' % n for n in order), '',
                '/-- functions that have LEFT the translatable subset on this run (empty on the pinned tree) -/',
                'def leftTheSubset : List String := [%s]' % ', '.join('"%s"' % n for n in sorted(self.failed)), '',
                '/-- struct layouts the offsets above were taken from (compiled and run against the working tree) -/',
                'def layoutUsed : List (String × Nat) := [%s]' % ', '.join('("%s", %d)' % (k, v) for k, v in sorted(self.layout.size.items())),
                '', 'end LLTD.TW', '']
        return '\n'.join(out)


TARGETS = [('x86-64 (host)', []), ('unsigned plain char', ['-funsigned-char'])]


FAILED = {}     # function -> why it could not be translated (last run of translate())


def translate(repo, verif=None):
    global FAILED
    host = None
    FAILED = {}
    for name, flags in TARGETS:
        m = subprocess.run(['clang-14', '-dM', '-E', '-x', 'c', '/dev/null'] + flags, stdout=subprocess.PIPE, stderr=subprocess.PIPE, text=True)
        C.CHAR_UNSIGNED = '__CHAR_UNSIGNED__' in m.stdout
        tr = Translator(repo, flags)
        txt = tr.run()
        FAILED.update(tr.failed)
        if host is None:
            host = txt
        elif txt != host:
            raise Unsupported('the meaning of the byte writers depends on the signedness of plain char')
    C.CHAR_UNSIGNED = False
    return host


if __name__ == '__main__':
    repo = os.environ.get('VERIF_REPO', '/repo')
    verif = os.path.dirname(os.path.dirname(os.path.abspath(__file__)))
    try:
        txt = translate(repo, verif)
    except Unsupported as e:
        print('UNSUPPORTED: %s' % e, file=sys.stderr)
        sys.exit(1)
    if len(sys.argv) > 1 and sys.argv[1] == '-':
        sys.stdout.write(txt)
    else:
        target = os.path.join(verif, 'lean', 'LLTD', 'Generated', 'TranslatedWire.lean')
        old = open(target).read() if os.path.exists(target) else None
        if old != txt:
            open(target, 'w').write(txt)
            print('TranslatedWire.lean rewritten')
        else:
            print('TranslatedWire.lean unchanged')
