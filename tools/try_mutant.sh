#!/bin/bash
# usage: try_mutant.sh <worktree> <prop> [more props...]
# 1. confirm in the worktree: suite passes with the change, demo fails with / passes without
#    (no `git stash`: the stash is shared by all worktrees of a repository)
# 2. apply the diff to /repo, run ./check for each prop, undo
WT="$1"; shift
cd "$WT" || exit 2
git diff -- . ':!demo' ':!mutant.diff' ':!NOTE.md' > /tmp/cur_mutant.diff
if [ ! -s /tmp/cur_mutant.diff ]; then echo "no change applied in $WT; applying mutant.diff"; git apply mutant.diff || exit 2; git diff -- . ':!demo' ':!mutant.diff' ':!NOTE.md' > /tmp/cur_mutant.diff; fi
echo "== files changed:"; git diff --stat -- . ':!demo' | tail -3
echo "== suite with change"; make clean-tests test 2>&1 | grep -E "PASSED|FAILED|rror:" | head
echo "== demo with change"; (cd demo && bash run_demo.sh >/tmp/demo_with.log 2>&1; echo "exit=$?")
git apply -R /tmp/cur_mutant.diff
echo "== demo without change"; (cd demo && bash run_demo.sh >/tmp/demo_without.log 2>&1; echo "exit=$?")
git apply /tmp/cur_mutant.diff
echo "== apply to /repo"; git -C /repo apply /tmp/cur_mutant.diff && git -C /repo diff --stat | tail -1
cd /verif
for p in "$@"; do ./check $p 2>&1 | tail -3; done
git -C /repo checkout -- . && echo "== /repo restored" && git -C /repo status --short | head -3
