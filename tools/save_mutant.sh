#!/bin/bash
# usage: save_mutant.sh <worktree> <seed-id> <prop> "<needs>" "<ran>"
WT="$1"; ID="$2"; PROP="$3"; NEEDS="$4"; RAN="$5"
D=/verif/seeded/$ID
mkdir -p $D
( cd $WT && git diff -- . ':!demo' ':!mutant.diff' ':!NOTE.md' ) > $D/patch.diff
rm -rf $D/demo; cp -r $WT/demo $D/demo 2>/dev/null
find $D/demo -type f \( -perm -u+x -a ! -name '*.sh' \) -size +20k -delete 2>/dev/null
cp $WT/NOTE.md $D/NOTE.md 2>/dev/null
python3 - "$D" "$PROP" "$NEEDS" "$RAN" <<'PY'
import json,sys
d,prop,needs,ran=sys.argv[1:5]
json.dump({"breaks_property":prop,"needs_to_manifest":needs,"what_was_run":ran,"origin":"independent sub-agent given only the property text and a scratch worktree"},open(d+'/meta.json','w'),indent=1)
PY
ls $D
