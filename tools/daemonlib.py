"""E-daemon: the real Linux daemons (linux-embedded-main.c / linux-main.c) + the real Linux port + the real core,
run as a whole on scripted interfaces and frames (harness/daemon_main.c interposes what is below the daemon),
compared per interface with the model (the `linuxrx` op = body of lltdLoop) configured with what the Linux port
supplies for such an interface."""
import os
import re
import subprocess

import vlib

HOST = 'verifhost'
FNAME = 'LLTD Responder'


def build(tag, which, variant):
    out = os.path.join(vlib.BUILD, tag, 'daemon')
    with vlib.Lock('d_%s_%s_%s' % (tag, which, variant)):
        r = vlib.run([os.path.join(vlib.VERIF, 'harness', 'build_daemon.sh'), out, which, variant])
    if r.returncode != 0:
        log = ''
        try:
            log = open(os.path.join(out, 'build_daemon_%s_%s.log' % (which, variant))).read()[-1500:]
        except OSError:
            pass
        return None, r.stdout + log
    return r.stdout.strip().split('\n')[-1], ''


def script(ifaces, frames):
    """ifaces: list of (name, mac, mtu, ipv4hex); frames: list of (iface index, hex)"""
    lines = ['iface %s %s %d %s' % i for i in ifaces]
    lines += ['frame %d %s' % f for f in frames]
    return lines


def run(binary, lines, workdir, label, timeout=120):
    os.makedirs(workdir, exist_ok=True)
    sp = os.path.join(workdir, label + '.script')
    with open(sp, 'w') as f:
        f.write('\n'.join(lines) + '\n')
    env = dict(os.environ)
    env.update({'ASAN_OPTIONS': 'detect_leaks=0:abort_on_error=0:exitcode=66:max_malloc_fill_size=65536:malloc_fill_byte=190', 'UBSAN_OPTIONS': 'print_stacktrace=1:exitcode=67',
                # the ThreadSanitizer reports go to their own file: on stderr they interleave with the daemon's log lines in the middle
                # of a line, and a mangled stack frame makes a known report look like a new one
                'TSAN_OPTIONS': 'halt_on_error=0:report_signal_unsafe=0:exitcode=0:log_path=' + os.path.join(workdir, label + '.tsan')})
    import glob
    for old in glob.glob(os.path.join(workdir, label + '.tsan.*')):
        os.unlink(old)
    try:
        p = subprocess.run([binary, sp], stdout=subprocess.PIPE, stderr=subprocess.PIPE, text=True, errors='replace', timeout=timeout, env=env)
    except subprocess.TimeoutExpired:
        return None, 'timeout', -1, sp
    tsan_text = ''
    for f in sorted(glob.glob(os.path.join(workdir, label + '.tsan.*'))):
        tsan_text += open(f, errors='replace').read()
        os.unlink(f)
    per = {}
    cur = None
    for l in p.stdout.split('\n'):
        if l.startswith('%%iface '):
            cur = int(l.split()[1])
            per[cur] = []
        elif cur is not None and l.startswith(('tx ', 'sleep ')):
            per[cur].append(l)
    san = [l for l in p.stderr.split('\n') if not l.startswith(('DEBUG:', 'WARN:'))] + tsan_text.split('\n')
    complete = 'daemon rc=' in p.stdout
    return per, '\n'.join(san), (p.returncode if complete else (p.returncode or -2)), sp


def model_ops(ifaces, frames, buf0):
    ops = []
    for i, (name, mac, mtu, ip) in enumerate(ifaces):
        # what os/linux/lltd_port.c supplies for an interface filled in by the daemons: type 0, speed 0, no duplex / loopback bit,
        # the AF_INET address of getifaddrs, no AF_INET6 entry (getter fails), not wireless
        ops.append('iface %d mtu=%d mac=%s flags=0 iftype=0 ipv4=%s speed=0 getfail=16 buf0=%d' % (i, mtu, mac, ip, buf0))
    ops.append('glob host=%s hostrep=copied icon=none fname=%s hwid=-' % (HOST.encode().hex(), FNAME.encode().hex()))
    for i in range(len(ifaces)):
        ops.append('fsm new %d map' % (2 * i))
        ops.append('fsm new %d sess' % (2 * i + 1))
    ops.append('clock 5000')
    for i, h in frames:
        mtu = ifaces[i][2]
        if len(h) // 2 == 0:
            continue                      # recvfrom returned 0: the loop skips it
        ops.append('linuxrx %d %d %d %s' % (i, 2 * i, 2 * i + 1, h[:2 * mtu]))      # a longer datagram is truncated to the buffer
    return ops


def model_run(ops, workdir, label):
    op = os.path.join(workdir, label + '.ops')
    out = os.path.join(workdir, label + '.model')
    vlib.write_cases(op, [('d', ops)])
    vlib.run_side(vlib.DRIVER, op, out)
    lines = vlib.split_cases(out).get('d', [])
    per = {}
    cur = None
    bad = [l for l in lines if l.startswith('bad-op')]
    for l in lines:
        if l.startswith('# linuxrx '):
            cur = int(l.split()[2])
            per.setdefault(cur, [])
        elif l.startswith('# '):
            cur = None
        elif cur is not None and l.startswith('tx '):
            per[cur].append(l)
        elif cur is not None and l.startswith('sleep '):
            per[cur].append('sleep %d %s' % (cur, l.split()[1]))
        elif cur is not None and l.startswith('fault '):
            per[cur].append(l)
    return per, bad


def compare(ifaces, impl, model):
    """first difference per interface, or None"""
    for i in range(len(ifaces)):
        a, b = impl.get(i, []), model.get(i, [])
        if a != b:
            j = next((k for k in range(min(len(a), len(b))) if a[k] != b[k]), min(len(a), len(b)))
            return i, j, (a + ['<end>'])[j][:160], (b + ['<end>'])[j][:160]
    return None


def sanitizer_summary(text):
    m = re.search(r'(ERROR: AddressSanitizer: [^\n]*|runtime error: [^\n]*|WARNING: ThreadSanitizer: data race[^\n]*)', text)
    if not m:
        return None
    loc = re.search(r'#0 \S+ in (\S+) (\S+?):(\d+)', text[m.start():])
    return m.group(1)[:140] + (' in %s (%s:%s)' % (loc.group(1), os.path.basename(loc.group(2)), loc.group(3)) if loc else '')
