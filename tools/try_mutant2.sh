#!/bin/bash
# usage: try_mutant2.sh <worktree with the change applied> <prop> [more props...]
# Like try_mutant.sh but never touches /repo: the checks are pointed at the worktree itself (VERIF_REPO), with their own build tag.
WT="$1"; shift
cd "$WT" || exit 2
git diff -- . ':!demo' ':!mutant.diff' ':!NOTE.md' > /tmp/cur_mutant_$$.diff
if [ ! -s /tmp/cur_mutant_$$.diff ]; then echo "no change applied in $WT; applying mutant.diff"; git apply mutant.diff || exit 2; git diff -- . ':!demo' ':!mutant.diff' ':!NOTE.md' > /tmp/cur_mutant_$$.diff; fi
echo "== files changed:"; git diff --stat -- . ':!demo' | tail -3
echo "== suite with change"; make clean-tests test 2>&1 | grep -E "PASSED|FAILED|rror:" | head
echo "== demo with change"; (cd demo && bash run_demo.sh >/tmp/demo_with_$$.log 2>&1; echo "exit=$?")
git apply -R /tmp/cur_mutant_$$.diff
echo "== demo without change"; (cd demo && bash run_demo.sh >/tmp/demo_without_$$.log 2>&1; echo "exit=$?")
git apply /tmp/cur_mutant_$$.diff
make clean-tests >/dev/null 2>&1
cd /verif
for p in "$@"; do VERIF_REPO="$WT" VERIF_TAG="ev_$p" ./check $p 2>&1 | grep -v "^KNOWN" | tail -2; rm -rf build/${p}_ev_$p; done
rm -f /tmp/cur_mutant_$$.diff /tmp/demo_with_$$.log /tmp/demo_without_$$.log
# the generated Lean data may have been rewritten from the mutated tree: regenerate from /repo
python3 -c "import sys; sys.path.insert(0,'/verif/tools'); import vlib; vlib.extract()" >/dev/null 2>&1
