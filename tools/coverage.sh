#!/bin/bash
# Which lines of the core do the correspondence runs execute?  (a measurement for the generators, not a check)
# Replays the .ops files the last runs of ./check left under build/C??/run on a gcov build of the harness made in a
# scratch directory, prints the per-file summary and the lines never executed, and removes the scratch directory.
set -u
VERIF="$(cd "$(dirname "$0")/.." && pwd)"
REPO="${VERIF_REPO:-/repo}"
C="$REPO/lltdResponder"
T="$(mktemp -d /tmp/verif_cov.XXXXXX)"
trap 'rm -rf "$T"' EXIT
cd "$T" || exit 2
sed 's/_exit(0);/{ extern void __gcov_dump(void); __gcov_dump(); _exit(0); }/' "$VERIF/harness/main.c" > main_cov.c
SV=""; grep -q lltd_verif_state_view "$C/lltdBlock.c" && SV="-DHAVE_STATE_VIEW"
gcc -std=gnu11 -g -O0 --coverage -D_GNU_SOURCE -DD3VI1_LLTDRESPONDER_VERIF $SV -DWITH_ESP32 -I"$C" -I"$VERIF/harness" -I"$REPO/os/esp32/daemon" -w \
    "$C/lltdBlock.c" "$C/lltdTlvOps.c" "$C/lltdWire.c" "$C/lltdAutomata.c" "$REPO/os/esp32/daemon/lltd_esp32.c" \
    "$VERIF/harness/vport.c" main_cov.c "$VERIF/harness/yield_stub.c" -o harness_cov || exit 2
n=$(ls "$VERIF"/build/C??/run/*.ops 2>/dev/null | wc -l)
echo "replaying $n operation files"
ls "$VERIF"/build/C??/run/*.ops 2>/dev/null | xargs -P 14 -I{} sh -c './harness_cov {} >/dev/null 2>&1'
gcov -b -o . harness_cov-lltdBlock.gcno harness_cov-lltdAutomata.gcno harness_cov-lltdWire.gcno harness_cov-lltdTlvOps.gcno harness_cov-lltd_esp32.gcno 2>/dev/null \
    | grep -A4 "^File '$REPO"
for f in lltdBlock.c lltdAutomata.c lltdWire.c lltd_esp32.c; do
  echo "== never executed in $f"
  grep "#####" "$f.gcov" | cut -c1-120
done
