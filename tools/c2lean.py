#!/usr/bin/env python3
"""
c2lean: a translator from a small, checked subset of C (clang's typed JSON AST of the working tree's
lltdResponder/lltdAutomata.c) to pure Lean 4 definitions  ->  lean/LLTD/Generated/Translated.lean.

It is the SECOND tie between /repo and the Lean model (DESIGN.md section 12.9): the functions listed in FUNCTIONS are
regenerated from the source on every run; `LLTD/Lemmas/TranslatedEq.lean` proves that each generated definition equals
the hand-written model function the property theorems are about, so a change to one of these C functions changes the
Lean term the equality is stated for and `lake build` re-checks it.

What the translation does (trusted, kept small and syntactic):
  * every C object a function touches becomes a field of one state record `f.S`: the pointer parameters (as the VALUE
    of the struct they point to; they are assumed non-NULL and not aliasing each other), the scalar parameters, every
    local variable (hoisted; an uninitialised read is not modelled), plus `ret`, `done` (a `return` was executed) and
    `brk` (a `break` was executed);
  * a statement is a function `f.S -> f.S`, a block is their composition (`let s := ...`), and everything after a
    statement that may `return` / `break` is guarded by `if s.done || s.brk then s else ...`;
  * `for (int i = a; i < b; i++)` with the body assigning neither `i` nor anything `b` reads is
    `CSem.loopRange a b (fun i s => ...)`;
  * unsigned arithmetic of width n is `Nat` arithmetic followed by `% 2^n` (taken from the type clang computed for the
    node, i.e. AFTER the usual arithmetic conversions, every implicit cast being explicit in the AST); signed
    arithmetic is `Int` arithmetic (overflow = undefined behaviour, not modelled); comparisons and `&& || !` are `Bool`;
  * `T *p = &place;` makes `p` an alias of `place` with the index expressions evaluated at the declaration;
  * calls: the two clocks are read from `env` (one reading per call of the OUTERMOST translated function: a clock
    that moves during a call is the business of the hand-written `…R` models), `lltd_port_log_*` is dropped (its
    arguments are checked to be free of side effects), another translated function is called on the current value of
    the pointed-to struct and its result is written back; a function that calls itself gets a fuel argument;
  * anything else raises `Unsupported` — the run then reports the tie as broken instead of guessing.
"""
import json, os, re, subprocess, sys

LEAN_KEYWORDS = {'from', 'with', 'at', 'do', 'end', 'if', 'then', 'else', 'let', 'have', 'show', 'fun', 'match', 'in', 'open',
                 'local', 'instance', 'structure', 'namespace', 'section', 'variable', 'universe', 'where', 'by', 'def',
                 'theorem', 'example', 'return', 'for', 'mut', 'import', 'private', 'deriving', 'class', 'extends', 'type',
                 'Type', 'Prop', 'Sort', 'using', 'calc', 'nomatch', 'then', 'unless', 'try', 'catch', 'finally', 'macro',
                 'syntax', 'notation', 'infix', 'prefix', 'postfix', 'abbrev', 'axiom', 'inductive', 'mutual', 'partial',
                 'unsafe', 'protected', 'noncomputable', 'attribute', 'export', 'set_option', 'this', 'to'}

INT_TYPES = {'unsigned char': ('u', 8), 'unsigned short': ('u', 16), 'unsigned int': ('u', 32), 'unsigned long': ('u', 64),
             'unsigned long long': ('u', 64), 'signed char': ('s', 8), 'char': ('s', 8), 'short': ('s', 16), 'int': ('s', 32),
             'long': ('s', 64), 'long long': ('s', 64), '_Bool': ('b', 1), 'bool': ('b', 1)}

CLOCKS = {'lltd_monotonic_milliseconds': 'env.nowMs', 'lltd_monotonic_seconds': 'env.nowS'}

# functions translated, in dependency order is not required (sorted topologically below)
FUNCTIONS = ['band_init_stats', 'band_update_stats', 'band_choose_hello_time', 'band_do_hello', 'band_on_hello_received',
             'mapping_reset_charge', 'mapping_on_charge', 'mapping_check_charge_timeout', 'mapping_check_inactive_timeout',
             'mapping_reset_inactive_timeout', 'session_table_is_empty', 'session_table_all_complete',
             'session_table_update_complete_status', 'session_table_clear',
             'mac_equal', 'mac_copy', 'session_table_find', 'session_table_add', 'session_table_remove',
             'switch_state_mapping', 'switch_state_session', 'switch_state_enumeration', 'automata_tick']


class Unsupported(Exception):
    pass


TYPEDEFS = {}      # typedef name -> underlying type (filled from the AST)
CHAR_UNSIGNED = False


def lname(n):
    return n + '_' if n in LEAN_KEYWORDS else n


def qual(t):
    q = t.get('desugaredQualType', t['qualType'])
    q = re.sub(r'\b(const|volatile|restrict)\b', '', q).strip()
    return re.sub(r'\s+', ' ', q)


def kind_of(t):
    """('u',bits) | ('s',bits) | ('b',1) | ('ptr', pointee) | ('struct', name) | ('arr', elemkind, n) | ('void',)"""
    q = qual(t) if isinstance(t, dict) else t
    if q == 'char':
        return ('u', 8) if CHAR_UNSIGNED else ('s', 8)      # plain char: its signedness is the target's choice
    if q in INT_TYPES:
        return INT_TYPES[q]
    m = re.match(r'^(.*)\[(\d+)\]$', q)
    if m:
        return ('arr', kind_of(m.group(1).strip()), int(m.group(2)))
    if q.endswith('*'):
        return ('ptr', q[:-1].strip())
    if q == 'void':
        return ('void',)
    if '(' in q:
        return ('fn',)
    q = re.sub(r'^struct ', '', q)
    if q in TYPEDEFS and TYPEDEFS[q] != q:
        return kind_of(TYPEDEFS[q])
    return ('struct', q)


def lean_type(k, structs):
    if k[0] == 'u':
        return 'Nat'
    if k[0] == 's':
        return 'Int'
    if k[0] == 'b':
        return 'Bool'
    if k[0] == 'struct':
        return lname(k[1])
    if k[0] == 'arr':
        return 'List ' + lean_type(k[1], structs)
    raise Unsupported('no Lean type for %r' % (k,))


def zero_of(k):
    if k[0] == 'u':
        return '0'
    if k[0] == 's':
        return '0'
    if k[0] == 'b':
        return 'false'
    if k[0] == 'struct':
        return lname(k[1]) + '.zero'
    if k[0] == 'arr':
        return '(List.replicate %d %s)' % (k[2], zero_of(k[1]))
    raise Unsupported('no zero for %r' % (k,))


def walk(n):
    yield n
    for c in n.get('inner', []) or []:
        if isinstance(c, dict):
            yield from walk(c)


def strip(n):
    """skip parentheses and value-preserving wrappers"""
    while n.get('kind') in ('ParenExpr', 'ConstantExpr') or \
            (n.get('kind') in ('ImplicitCastExpr', 'CStyleCastExpr') and n.get('castKind') in ('LValueToRValue', 'NoOp')):
        n = n['inner'][0]
    return n


class Fn:
    def __init__(self, tr, decl):
        self.tr = tr
        self.decl = decl
        self.name = decl['name']
        self.params = [p for p in decl.get('inner', []) if p['kind'] == 'ParmVarDecl']
        self.body = [c for c in decl['inner'] if c['kind'] == 'CompoundStmt'][0]
        self.fields = {}        # lean field name -> (lean type, default)
        self.order = []
        self.ptr_params = {}    # C name -> struct name
        self.alias = {}         # C name of a local pointer -> place
        self.loopvars = []
        self.renames = {}       # decl id -> lean field
        self.calls = set()
        self.dead = set()
        self.arr_params = {}
        self.const_params = set()
        self.extra_structs = []
        self.assumed_present = set()
        self.optptr = {}        # local pointer that may be NULL (result of a pointer-returning translated function): name -> place builder
        self.ret_base = None    # for a function returning `T *`: the place (below a pointer parameter) every non-NULL result points into
        self.aux = []
        self.nstages = 0
        self.staged = sum(1 for x in walk(self.body) if x.get('kind') in ('IfStmt', 'ForStmt', 'CallExpr')) > 25
        self.emitted = None
        self.ret_elem = None
        self.last_call_places = {}
        self.nloops = 0
        self.recursive = False
        rk = kind_of(decl['type']['qualType'].split('(')[0].strip())
        self.ret_kind = rk

    def add_field(self, name, ty, default):
        if name in self.fields:
            if self.fields[name][0] != ty:
                raise Unsupported('%s: two locals named %s with different types' % (self.name, name))
            return
        self.fields[name] = (ty, default)
        self.order.append(name)

    # ---------------------------------------------------------------- places
    def place(self, n):
        """an lvalue as a list of accessors from `s`: ('f', field) | ('i', nat-term, elemkind)"""
        n = strip(n)
        k = n['kind']
        if k == 'DeclRefExpr':
            ref = n['referencedDecl']
            nm = ref['name']
            if nm in self.alias:
                return list(self.alias[nm])
            if nm in self.ptr_params or nm in self.arr_params:
                return [('f', lname(nm))]
            if nm in self.loopvars:
                raise Unsupported('%s: loop variable %s used as an lvalue' % (self.name, nm))
            kd = kind_of(ref['type'])
            if kd[0] in ('u', 's', 'b'):
                return [('f', lname(nm))]
            raise Unsupported('%s: reference to %s of type %s' % (self.name, nm, qual(ref['type'])))
        if k == 'MemberExpr':
            base = self.place(n['inner'][0])
            return base + [('f', lname(n['name']))]
        if k == 'ArraySubscriptExpr':
            arr = n['inner'][0]
            while arr.get('kind') == 'ImplicitCastExpr' and arr.get('castKind') in ('ArrayToPointerDecay', 'LValueToRValue', 'NoOp'):
                arr = arr['inner'][0]
            base = self.place(arr)
            ak = kind_of(arr['type'])
            if ak[0] == 'ptr' and arr.get('kind') == 'DeclRefExpr' and arr['referencedDecl']['name'] in self.arr_params:
                ak = ('arr', self.arr_params[arr['referencedDecl']['name']], None)
            if ak[0] != 'arr':
                raise Unsupported('%s: subscript of a non-array (%s)' % (self.name, qual(arr['type'])))
            idx = self.nat(n['inner'][1])
            return base + [('i', idx, ak[1])]
        if k == 'UnaryOperator' and n.get('opcode') == '*':
            m = strip(n['inner'][0])
            while m.get('kind') == 'ImplicitCastExpr':
                m = strip(m['inner'][0])
            comp = self.companion(m, kind_of(n['type']))
            if comp:
                return [('f', comp)]
            raise Unsupported('%s: dereference of a computed pointer' % self.name)
        raise Unsupported('%s: lvalue of kind %s' % (self.name, k))

    def companion(self, m, pointee_kind, struct_name=None):
        """`param->member` with `member` a pointer: the object it points to becomes an extra parameter `param_member` of the
        translated function (assumed present and not aliasing anything else); returns its field name or None"""
        if m.get('kind') != 'MemberExpr' or kind_of(m['type'])[0] != 'ptr':
            return None
        base = strip(m['inner'][0])
        while base.get('kind') == 'ImplicitCastExpr':
            base = strip(base['inner'][0])
        if base.get('kind') != 'DeclRefExpr' or base['referencedDecl']['name'] not in self.ptr_params:
            return None
        name = '%s_%s' % (lname(base['referencedDecl']['name']), m['name'])
        if struct_name is not None:
            self.add_field(name, lname(struct_name), None)
            self.extra_structs.append(struct_name)
        elif pointee_kind[0] in ('u', 's', 'b'):
            self.add_field(name, lean_type(pointee_kind, None), None)
        else:
            return None
        self.assumed_present.add('%s->%s' % (base['referencedDecl']['name'], m['name']))
        return name

    def read(self, place, s='s'):
        t = s
        for a in place:
            if a[0] == 'f':
                t = '%s.%s' % (t, a[1])
            else:
                t = '(%s.getD %s %s)' % (t, a[1], zero_of(a[2]))
        return t

    def write(self, place, val, s='s'):
        """term for `s` with `place` replaced by `val`"""
        def go(prefix, rest):
            if not rest:
                return val
            a = rest[0]
            if a[0] == 'f':
                inner = go('%s.%s' % (prefix, a[1]), rest[1:])
                return '{ %s with %s := %s }' % (prefix, a[1], inner)
            cur = '(%s.getD %s %s)' % (prefix, a[1], zero_of(a[2]))
            inner = go(cur, rest[1:])
            return '(%s.set %s %s)' % (prefix, a[1], inner)
        return go(s, place)

    # ---------------------------------------------------------------- expressions
    def pure(self, n):
        for x in walk(n):
            if x.get('kind') == 'CallExpr':
                cn = self._callee(x)
                if cn in CLOCKS or (cn in self.tr.wanted and cn != self.name and self.tr.fn(cn).const_only()):
                    continue
                return False
            if x.get('kind') in ('CompoundAssignOperator',) or \
               (x.get('kind') == 'BinaryOperator' and x.get('opcode') == '=') or \
               (x.get('kind') == 'UnaryOperator' and x.get('opcode') in ('++', '--')):
                return False
        return True

    def expr(self, n):
        """-> (lean term, kind) with kind ('u',n) Nat | ('s',n) Int | ('b',1) Bool | ('ptr',..)"""
        k = n['kind']
        if k in ('ParenExpr', 'ConstantExpr'):
            return self.expr(n['inner'][0])
        if k == 'IntegerLiteral' or k == 'CharacterLiteral':
            kd = kind_of(n['type'])
            v = int(n['value'])
            return (str(v) if v >= 0 else '(%d)' % v, kd)
        if k in ('ImplicitCastExpr', 'CStyleCastExpr'):
            ck = n.get('castKind')
            sub = n['inner'][0]
            if ck in ('LValueToRValue', 'NoOp'):
                return self.expr(sub)
            if ck == 'ToVoid':
                return ('()', ('void',))
            if ck in ('NullToPointer', 'BitCast', 'ArrayToPointerDecay', 'FunctionToPointerDecay'):
                return ('()', ('ptr', ''))
            if ck == 'PointerToBoolean':
                m0 = strip(sub)
                if m0.get('kind') == 'DeclRefExpr' and m0['referencedDecl']['name'] in self.optptr:
                    return ('s.%s_idx.isSome' % lname(m0['referencedDecl']['name']), ('b', 1))
                mm = strip(sub)
                while mm.get('kind') == 'ImplicitCastExpr':
                    mm = strip(mm['inner'][0])
                if self.member_of_param(mm):
                    return ('true', ('b', 1))
                self.nonnull(sub)
                return ('true', ('b', 1))
            if ck == 'IntegralToBoolean':
                t, sk = self.expr(sub)
                if sk[0] == 'b':
                    return (t, sk)
                lit = strip(sub)
                if lit['kind'] == 'IntegerLiteral':
                    return ('true' if int(lit['value']) != 0 else 'false', ('b', 1))
                return ('(%s != 0)' % t, ('b', 1))
            if ck == 'IntegralCast':
                t, sk = self.expr(sub)
                return self.convert(t, sk, kind_of(n['type']), strip(sub))
            raise Unsupported('%s: cast kind %s' % (self.name, ck))
        if k == 'DeclRefExpr':
            ref = n['referencedDecl']
            nm = ref['name']
            if ref.get('kind') == 'EnumConstantDecl':
                raise Unsupported('%s: enum constant %s' % (self.name, nm))
            if nm in self.loopvars:
                return ('(%s : Int)' % lname(nm), ('s', 32))
            kd = kind_of(ref['type'])
            if kd[0] == 'ptr':
                return ('()', kd)
            return (self.read(self.place(n)), kd)
        if k in ('MemberExpr', 'ArraySubscriptExpr'):
            kd = kind_of(n['type'])
            if kd[0] not in ('u', 's', 'b'):
                if kd[0] in ('ptr', 'fn') and self.member_of_param(n):
                    return ('()', ('ptr', ''))
                if kd[0] == 'ptr':
                    raise Unsupported('%s: read of pointer member %s' % (self.name, n.get('name')))
                raise Unsupported('%s: read of a non-scalar (%s)' % (self.name, qual(n['type'])))
            return (self.read(self.place(n)), kd)
        if k == 'UnaryOperator':
            op = n['opcode']
            sub = n['inner'][0]
            if op == '!':
                bt = self.boolean(sub)
                if bt in ('true', 'false'):
                    return ('false' if bt == 'true' else 'true', ('b', 1))
                return ('(!%s)' % bt, ('b', 1))
            kd = kind_of(n['type'])
            if op == '-':
                t, sk = self.expr(sub)
                lit = strip(sub)
                if lit['kind'] == 'IntegerLiteral' and kd[0] == 's':
                    return ('(-%s)' % lit['value'], kd)
                if kd[0] == 's':
                    return ('(-%s)' % t, kd)
                return ('((%d - %s) %% %d)' % (2 ** kd[1], t, 2 ** kd[1]), kd)
            if op == '+':
                return self.expr(sub)
            if op == '*':
                if kd[0] in ('u', 's', 'b'):
                    return (self.read(self.place(n)), kd)
                raise Unsupported('%s: dereference yielding a non-scalar' % self.name)
            if op == '~' and kd[0] == 'u':
                t, sk = self.expr(sub)
                return ('(%d - %s)' % (2 ** kd[1] - 1, t), kd)
            raise Unsupported('%s: unary %s in an expression' % (self.name, op))
        if k == 'BinaryOperator':
            op = n['opcode']
            a, b = n['inner']
            if op in ('&&', '||'):
                if not (self.pure(a) and self.pure(b)):
                    raise Unsupported('%s: side effect under %s' % (self.name, op))
                ba, bb = self.boolean(a), self.boolean(b)
                unit, zero = ('false', 'true') if op == '||' else ('true', 'false')
                if ba == unit:
                    return (bb, ('b', 1))
                if bb == unit:
                    return (ba, ('b', 1))
                if ba == zero:
                    return (zero, ('b', 1))
                return ('(%s %s %s)' % (ba, op, bb), ('b', 1))
            if op in ('<', '>', '<=', '>=', '==', '!='):
                ta, ka = self.expr(a)
                tb, kb = self.expr(b)
                if ka[0] == 'ptr' or kb[0] == 'ptr':
                    raise Unsupported('%s: pointer comparison' % self.name)
                if ka[0] != kb[0] and not (ka[0] == 'b' or kb[0] == 'b'):
                    raise Unsupported('%s: comparison of %r with %r' % (self.name, ka, kb))
                if ka[0] == 'b' or kb[0] == 'b':
                    ta = self.as_int(ta, ka)
                    tb = self.as_int(tb, kb)
                lop = {'==': '==', '!=': '!='}.get(op)
                if lop:
                    return ('(%s %s %s)' % (ta, lop, tb), ('b', 1))
                return ('(decide (%s %s %s))' % (ta, op, tb), ('b', 1))
            if op == ',':
                raise Unsupported('%s: comma operator' % self.name)
            if op == '=':
                raise Unsupported('%s: assignment inside an expression' % self.name)
            kd = kind_of(n['type'])
            ta, ka = self.expr(a)
            tb, kb = self.expr(b)
            if ka[0] == 'b':
                ta, ka = self.as_int(ta, ka), ('s', 32)
            if kb[0] == 'b':
                tb, kb = self.as_int(tb, kb), ('s', 32)
            return (self.arith(op, ta, tb, kd, kb), kd)
        if k == 'ConditionalOperator':
            c, a, b = n['inner']
            if not (self.pure(c) and self.pure(a) and self.pure(b)):
                raise Unsupported('%s: side effect under ?:' % self.name)
            ta, ka = self.expr(a)
            tb, kb = self.expr(b)
            if ka[0] != kb[0]:
                raise Unsupported('%s: ?: arms of different kinds' % self.name)
            return ('(if %s then %s else %s)' % (self.boolean(c), ta, tb), ka)
        if k == 'CallExpr':
            callee = strip(n['inner'][0])
            while callee.get('kind') == 'ImplicitCastExpr':
                callee = callee['inner'][0]
            nm = callee.get('referencedDecl', {}).get('name')
            if nm in CLOCKS:
                return (CLOCKS[nm], ('u', 64))
            if nm in self.tr.wanted and nm != self.name and self.tr.fn(nm).const_only():
                g = self.tr.fn(nm)
                self.calls.add(nm)
                terms = []
                for p, a in zip(g.params, n['inner'][1:]):
                    pk = kind_of(p['type'])
                    if pk[0] == 'ptr':
                        if p['name'] in g.ignored_ptr_params:
                            continue
                        terms.append(self.read(self.place(self.deref_arg(a))))
                    else:
                        t, kd = self.expr(a)
                        terms.append(t)
                if g.ret_kind[0] not in ('u', 's', 'b'):
                    raise Unsupported('%s: value of %s used in an expression' % (self.name, nm))
                return ('(%s env %s).ret' % (nm, ' '.join('(%s)' % t for t in terms)), g.ret_kind)
            raise Unsupported('%s: call of %s inside an expression' % (self.name, nm))
        if k == 'UnaryExprOrTypeTraitExpr':
            raise Unsupported('%s: sizeof' % self.name)
        raise Unsupported('%s: expression of kind %s' % (self.name, k))

    def as_int(self, t, kd):
        if kd[0] == 'b':
            return '(if %s then 1 else 0)' % t
        return t

    def convert(self, t, sk, tk, lit):
        if tk[0] == 'b':
            return (t if sk[0] == 'b' else '(%s != 0)' % t, tk)
        if sk[0] == 'b':
            return ('(if %s then 1 else 0)' % t, tk)
        if lit['kind'] == 'IntegerLiteral':
            v = int(lit['value'])
            if tk[0] == 'u':
                return (str(v % 2 ** tk[1]), tk)
            if v < 2 ** (tk[1] - 1):
                return (str(v), tk)
        if sk[0] == 'u' and tk[0] == 'u':
            return (t if tk[1] >= sk[1] else '(%s %% %d)' % (t, 2 ** tk[1]), tk)
        if sk[0] == 'u' and tk[0] == 's':
            return ('(%s : Int)' % t if tk[1] > sk[1] else '(CSem.toS %d %s)' % (tk[1], t), tk)
        if sk[0] == 's' and tk[0] == 'u':
            return ('(CSem.toU %d %s)' % (tk[1], t), tk)
        if sk[0] == 's' and tk[0] == 's':
            return (t if tk[1] >= sk[1] else '(CSem.toSI %d %s)' % (tk[1], t), tk)
        raise Unsupported('%s: conversion %r -> %r' % (self.name, sk, tk))

    def arith(self, op, a, b, kd, kb):
        if kd[0] == 'u':
            m = 2 ** kd[1]
            if op == '+':
                return '((%s + %s) %% %d)' % (a, b, m)
            if op == '-':
                return '((%s + %d - %s) %% %d)' % (a, m, b, m)
            if op == '*':
                return '((%s * %s) %% %d)' % (a, b, m)
            if op == '/':
                return '(%s / %s)' % (a, b)
            if op == '%':
                return '(%s %% %s)' % (a, b)
            if op == '&':
                return '(%s &&& %s)' % (a, b)
            if op == '|':
                return '(%s ||| %s)' % (a, b)
            if op == '^':
                return '(%s ^^^ %s)' % (a, b)
            if op == '<<':
                sh = b if kb[0] == 'u' else '(Int.toNat %s)' % b
                return '((%s <<< %s) %% %d)' % (a, sh, m)
            if op == '>>':
                sh = b if kb[0] == 'u' else '(Int.toNat %s)' % b
                return '(%s >>> %s)' % (a, sh)
        if kd[0] == 's':
            if op in ('+', '-', '*'):
                return '(%s %s %s)' % (a, op, b)
            if op == '/':
                return '(Int.tdiv %s %s)' % (a, b)
            if op == '%':
                return '(Int.tmod %s %s)' % (a, b)
        raise Unsupported('%s: operator %s at kind %r' % (self.name, op, kd))

    def boolean(self, n):
        m = n
        while m.get('kind') in ('ParenExpr',) or (m.get('kind') == 'ImplicitCastExpr' and m.get('castKind') in ('LValueToRValue', 'NoOp')):
            m = m['inner'][0]
        if m.get('kind') == 'ImplicitCastExpr' and m.get('castKind') == 'IntegralCast':
            t0, k0 = self.expr(m['inner'][0])
            if k0[0] == 'b':
                return t0
        t, kd = self.expr(n)
        if kd[0] == 'b':
            return t
        if kd[0] == 'ptr':
            m0 = strip(n)
            while m0.get('kind') == 'ImplicitCastExpr':
                m0 = strip(m0['inner'][0])
            if m0.get('kind') == 'DeclRefExpr' and m0['referencedDecl']['name'] in self.optptr:
                return 's.%s_idx.isSome' % lname(m0['referencedDecl']['name'])
            if self.member_of_param(m0):
                return 'true'
            self.nonnull(n)
            return 'true'
        return '(%s != 0)' % t

    def nat(self, n):
        lit = strip(n)
        if lit.get('kind') == 'IntegerLiteral' and int(lit['value']) >= 0:
            return lit['value']
        if lit.get('kind') == 'DeclRefExpr' and lit['referencedDecl']['name'] in self.loopvars:
            return lname(lit['referencedDecl']['name'])
        t, kd = self.expr(n)
        if kd[0] == 'u':
            return t
        if kd[0] == 's':
            return '(Int.toNat %s)' % t
        raise Unsupported('%s: index of kind %r' % (self.name, kd))

    def member_of_param(self, m):
        """`param->member` with a pointer (or function pointer) member: assumed non-NULL, recorded"""
        if m.get('kind') != 'MemberExpr' or kind_of(m['type'])[0] not in ('ptr', 'fn'):
            return False
        base = strip(m['inner'][0])
        while base.get('kind') == 'ImplicitCastExpr':
            base = strip(base['inner'][0])
        if base.get('kind') == 'DeclRefExpr' and base['referencedDecl']['name'] in self.ptr_params:
            self.assumed_present.add('%s->%s' % (base['referencedDecl']['name'], m['name']))
            return True
        return False

    def nonnull(self, n):
        """a pointer tested for NULL must be a pointer parameter (assumed non-NULL) or an alias / result handled elsewhere"""
        m = strip(n)
        while m.get('kind') in ('ImplicitCastExpr',):
            m = m['inner'][0]
        if m.get('kind') == 'DeclRefExpr' and m['referencedDecl']['name'] in self.ptr_params:
            return
        if m.get('kind') == 'DeclRefExpr' and m['referencedDecl']['name'] in self.arr_params:
            return
        if m.get('kind') == 'DeclRefExpr' and m['referencedDecl']['name'] in self.ignored_ptr_params:
            return
        raise Unsupported('%s: NULL test of something that is not a pointer parameter' % self.name)

    # ---------------------------------------------------------------- statements
    def may_exit(self, n):
        if n.get('id') in self.dead:
            return False
        if n.get('kind') in ('ReturnStmt', 'BreakStmt'):
            return True
        return any(self.may_exit(c) for c in (n.get('inner') or []) if isinstance(c, dict))

    def assigned_places(self, n):
        out = []
        for x in walk(n):
            if (x.get('kind') == 'BinaryOperator' and x.get('opcode') == '=') or x.get('kind') == 'CompoundAssignOperator' or \
               (x.get('kind') == 'UnaryOperator' and x.get('opcode') in ('++', '--')):
                out.append(json.dumps(self.strip_ids(strip(x['inner'][0])), sort_keys=True))
            if x.get('kind') == 'CallExpr':
                out.append('call')
        return out

    def strip_ids(self, n):
        if isinstance(n, dict):
            return {k: self.strip_ids(v) for k, v in n.items() if k in ('kind', 'name', 'opcode', 'inner', 'referencedDecl', 'value')}
        if isinstance(n, list):
            return [self.strip_ids(x) for x in n]
        return n

    def block(self, stmts, ind):
        """lines of `let s := …` for a statement list, ending with `s`"""
        pad = '  ' * ind
        lines = []
        for idx, st in enumerate(stmts):
            lines += self.stmt(st, ind)
            if self.may_exit(st) and idx + 1 < len(stmts):
                rest = self.block(stmts[idx + 1:], ind + 1)
                lines.append(pad + 'let s := if s.done || s.brk then s else (')
                lines += rest[:-1]
                lines.append(rest[-1] + ')')
                lines.append(pad + 's')
                return lines
        lines.append(pad + 's')
        return lines

    def stage(self, stmts):
        """(large functions only) a block of statements as its own named definition `f.stK env s`, so that the equality proofs can
        treat the function as a composition of small steps"""
        b = self.block(stmts, 1)
        self.nstages += 1
        nm = '%s.st%d' % (self.name, self.nstages)
        self.aux.append(['def %s (env : Env) (s : %s.S) : %s.S :=' % (nm, self.name, self.name)] + b + [''])
        return nm

    def paren_block(self, stmts, ind):
        if self.staged and not self.loopvars and len(stmts) >= 2:
            return ['  ' * ind + '(%s env s)' % self.stage(stmts)]
        b = self.block(stmts, ind + 1)
        return ['  ' * ind + '('] + b[:-1] + [b[-1] + ')']

    def body_of(self, n):
        return n['inner'] if n['kind'] == 'CompoundStmt' else [n]

    def assign(self, place_node, val, ind):
        return ['  ' * ind + 'let s := ' + self.write(self.place(place_node), val)]

    def call_stmt(self, n, ind):
        """a call as a statement or the whole right-hand side; returns (lines, value term, kind)"""
        pad = '  ' * ind
        callee = n['inner'][0]
        while callee.get('kind') in ('ImplicitCastExpr', 'ParenExpr'):
            callee = callee['inner'][0]
        nm = callee.get('referencedDecl', {}).get('name')
        args = n['inner'][1:]
        if callee.get('kind') == 'MemberExpr' and self.member_of_param(callee):
            # a callback of the port: what it does is outside the core; the translation counts the calls
            for a in args:
                if not self.pure(a):
                    raise Unsupported('%s: side effect in a callback argument' % self.name)
            base = strip(callee['inner'][0])
            while base.get('kind') == 'ImplicitCastExpr':
                base = strip(base['inner'][0])
            f = '%s_%s_calls' % (lname(base['referencedDecl']['name']), callee['name'])
            self.add_field(f, 'Nat', '0')
            return ([pad + 'let s := { s with %s := s.%s + 1 }' % (f, f)], None, None)
        if nm in CLOCKS:
            return ([], CLOCKS[nm], ('u', 64))
        if nm and nm.startswith('lltd_port_log'):
            for a in args:
                if not self.pure(a):
                    raise Unsupported('%s: side effect in a log argument' % self.name)
            return ([], None, None)
        if nm == 'lltd_port_memset':
            # only `memset(place, 0, sizeof(place))`: the whole object becomes all-zero
            dst = args[0]
            while dst.get('kind') in ('ImplicitCastExpr', 'ParenExpr', 'CStyleCastExpr'):
                dst = dst['inner'][0]
            val = strip(args[1])
            while val.get('kind') in ('ImplicitCastExpr',):
                val = strip(val['inner'][0])
            sz = args[2]
            while sz.get('kind') in ('ImplicitCastExpr', 'ParenExpr'):
                sz = sz['inner'][0]
            if dst.get('kind') == 'UnaryOperator' and dst.get('opcode') == '&':
                dst = dst['inner'][0]
            same = sz.get('kind') == 'UnaryExprOrTypeTraitExpr' and sz.get('name') == 'sizeof' and sz.get('inner') and \
                json.dumps(self.strip_ids(strip(sz['inner'][0])), sort_keys=True) == json.dumps(self.strip_ids(strip(dst)), sort_keys=True)
            if not (same and val.get('kind') == 'IntegerLiteral' and int(val['value']) == 0):
                raise Unsupported('%s: lltd_port_memset other than memset(x, 0, sizeof(x))' % self.name)
            kd = kind_of(dst['type'])
            return ([pad + 'let s := ' + self.write(self.place(dst), zero_of(kd))], None, None)
        if nm in self.tr.wanted:
            g = self.tr.fn(nm)
            self.calls.add(nm)
            terms = []
            backs = []
            self.last_call_places = {}
            self.last_callee = g
            for p, a in zip(g.params, args):
                pk = kind_of(p['type'])
                if pk[0] == 'ptr':
                    if p['name'] in g.ignored_ptr_params:
                        continue
                    pl = self.place(self.deref_arg(a))
                    terms.append(self.read(pl))
                    self.last_call_places[p['name']] = pl
                    if p['name'] not in g.const_params:
                        backs.append((pl, lname(p['name'])))
                else:
                    t, kd = self.expr(a)
                    if kd[0] != pk[0]:
                        raise Unsupported('%s: argument kind mismatch calling %s' % (self.name, nm))
                    terms.append(t)
            fuel = ''
            if nm == self.name:
                self.recursive = True
                fuel = ' fuel'
            elif g.is_recursive():
                fuel = ' 2'
            lines = [pad + 'let r := %s%s env %s' % (nm, fuel, ' '.join('(%s)' % t for t in terms))]
            for pl, f in backs:
                lines.append(pad + 'let s := ' + self.write(pl, 'r.%s' % f))
            if g.is_recursive() or nm == self.name:
                lines.append(pad + 'let s := { s with diverged := s.diverged || r.diverged }')
                self.add_field('diverged', 'Bool', 'false')
            rk = g.ret_kind
            return (lines, 'r.ret' if rk[0] in ('u', 's', 'b') else None, rk)
        raise Unsupported('%s: call of %s' % (self.name, nm))

    def deref_arg(self, a):
        m = a
        while m.get('kind') in ('ImplicitCastExpr', 'ParenExpr', 'CStyleCastExpr'):
            m = m['inner'][0]
        if m.get('kind') == 'UnaryOperator' and m.get('opcode') == '&':
            return m['inner'][0]
        return m

    def rhs(self, n, ind):
        """right-hand side that may be a call: (pre-lines, term, kind)"""
        m = n
        casts = []
        while m.get('kind') in ('ImplicitCastExpr', 'ParenExpr', 'CStyleCastExpr'):
            casts.append(m)
            m = m['inner'][0]
        if m.get('kind') == 'CallExpr':
            lines, t, kd = self.call_stmt(m, ind)
            if t is None:
                return (lines, None, kd)
            for c in reversed(casts):
                if c.get('castKind') == 'IntegralCast':
                    t, kd = self.convert(t, kd, kind_of(c['type']), {'kind': 'x'})
                elif c.get('castKind') == 'IntegralToBoolean':
                    t, kd = ('(%s != 0)' % t if kd[0] != 'b' else t, ('b', 1))
            return (lines, t, kd)
        t, kd = self.expr(n)
        return ([], t, kd)

    def stmt(self, n, ind):
        pad = '  ' * ind
        k = n['kind']
        if k == 'CompoundStmt':
            if self.staged and not self.loopvars and len(n['inner']) >= 2:
                return [pad + 'let s := %s env s' % self.stage(n['inner'])]
            b = self.block(n['inner'], ind + 1)
            return [pad + 'let s := ('] + b[:-1] + [b[-1] + ')']
        if k == 'NullStmt':
            return []
        if k == 'DeclStmt':
            out = []
            for v in n['inner']:
                if v['kind'] != 'VarDecl':
                    raise Unsupported('%s: declaration of kind %s' % (self.name, v['kind']))
                kd = kind_of(v['type'])
                nm = v['name']
                init = v.get('inner', [None])[0] if v.get('inner') else None
                if kd[0] == 'ptr':
                    if init is None:
                        raise Unsupported('%s: pointer local %s without initialiser' % (self.name, nm))
                    m = init
                    while m.get('kind') in ('ImplicitCastExpr', 'ParenExpr'):
                        m = m['inner'][0]
                    if m.get('kind') == 'UnaryOperator' and m.get('opcode') == '&':
                        pl = self.place(m['inner'][0])
                        snap = []
                        for j, a in enumerate(pl):
                            if a[0] == 'i':
                                f = '%s_idx%d' % (lname(nm), j)
                                self.add_field(f, 'Nat', '0')
                                out.append(pad + 'let s := { s with %s := %s }' % (f, a[1]))
                                snap.append(('i', 's.%s' % f, a[2]))
                            else:
                                snap.append(a)
                        self.alias[nm] = snap
                        continue
                    mm = m
                    while mm.get('kind') in ('CStyleCastExpr', 'ImplicitCastExpr', 'ParenExpr'):
                        mm = mm['inner'][0]
                    pointee = re.sub(r'^struct ', '', kd[1])
                    if mm.get('kind') == 'MemberExpr' and pointee in self.tr.structs:
                        comp = self.companion(mm, None, struct_name=pointee)
                        if comp:
                            self.alias[nm] = [('f', comp)]
                            continue
                    if m.get('kind') == 'CallExpr' and self._callee(m) in self.tr.wanted and self._callee(m) != self.name:
                        g = self.tr.fn(self._callee(m))
                        g.ensure_emitted()
                        if g.ret_base is None:
                            raise Unsupported('%s: %s returns a pointer the translator cannot place' % (self.name, g.name))
                        lines, _, _ = self.call_stmt(m, ind)
                        out += lines
                        f = '%s_idx' % lname(nm)
                        self.add_field(f, 'Option Nat', 'none')
                        out.append(pad + 'let s := { s with %s := r.ret_idx }' % f)
                        base = self.last_call_places[g.ret_base[0]] + [('f', x) for x in g.ret_base[1]]
                        self.alias[nm] = base + [('i', '(s.%s.getD 0)' % f, g.ret_elem)]
                        self.optptr[nm] = (g.ret_base, base)
                        continue
                    raise Unsupported('%s: pointer local %s initialised by %s' % (self.name, nm, m.get('kind')))
                if kd[0] not in ('u', 's', 'b'):
                    raise Unsupported('%s: local %s of type %s' % (self.name, nm, qual(v['type'])))
                self.add_field(lname(nm), lean_type(kd, None), zero_of(kd))
                if init is not None:
                    pre, t, tk = self.rhs(init, ind)
                    out += pre
                    if tk[0] != kd[0]:
                        raise Unsupported('%s: initialiser kind mismatch for %s' % (self.name, nm))
                    out.append(pad + 'let s := { s with %s := %s }' % (lname(nm), t))
            return out
        if k == 'IfStmt':
            cond = n['inner'][0]
            pre, t, kd = self.rhs(cond, ind)
            if pre:
                c = t if kd[0] == 'b' else '(%s != 0)' % t
            else:
                c = self.boolean(cond)
            if not pre and c == 'false':
                # a NULL guard on a pointer parameter (assumed non-NULL): the branch is dead
                self.dead.add(n['inner'][1].get('id'))
                if len(n['inner']) > 2:
                    return self.stmt(n['inner'][2], ind)
                return []
            if not pre and c == 'true':
                if len(n['inner']) > 2:
                    self.dead.add(n['inner'][2].get('id'))
                return self.stmt(n['inner'][1], ind)
            th = self.paren_block(self.body_of(n['inner'][1]), ind + 1)
            out = list(pre)
            out.append(pad + 'let s := if %s then' % c)
            out += th
            if len(n['inner']) > 2:
                el = self.paren_block(self.body_of(n['inner'][2]), ind + 1)
                out.append(pad + '  else')
                out += el
            else:
                out.append(pad + '  else s')
            return out
        if k == 'ForStmt':
            init, _, cond, inc, body = n['inner']
            ok = init and init.get('kind') == 'DeclStmt' and len(init['inner']) == 1 and init['inner'][0]['kind'] == 'VarDecl'
            if not ok:
                raise Unsupported('%s: for-loop without a single declared counter' % self.name)
            v = init['inner'][0]
            iv = v['name']
            lo = strip(v['inner'][0])
            if lo['kind'] != 'IntegerLiteral' or qual(v['type']) != 'int':
                raise Unsupported('%s: loop counter not `int i = <literal>`' % self.name)
            c = strip(cond)
            if not (c['kind'] == 'BinaryOperator' and c['opcode'] == '<' and strip(c['inner'][0]).get('referencedDecl', {}).get('name') == iv):
                raise Unsupported('%s: loop condition not `i < bound`' % self.name)
            incs = strip(inc)
            if not (incs['kind'] == 'UnaryOperator' and incs['opcode'] == '++' and strip(incs['inner'][0]).get('referencedDecl', {}).get('name') == iv):
                raise Unsupported('%s: loop increment not `i++`' % self.name)
            bound = c['inner'][1]
            if not self.pure(bound):
                raise Unsupported('%s: loop bound with side effects' % self.name)
            # the body must not assign the counter nor anything the bound reads
            bound_reads = set()
            for x in walk(bound):
                if x.get('kind') in ('MemberExpr', 'DeclRefExpr', 'ArraySubscriptExpr'):
                    bound_reads.add(json.dumps(self.strip_ids(strip(x)), sort_keys=True))
            for a in self.assigned_places(body):
                if a in bound_reads:
                    raise Unsupported('%s: loop body assigns what the bound reads' % self.name)
                if a != 'call' and json.loads(a).get('referencedDecl', {}).get('name') == iv:
                    raise Unsupported('%s: loop body assigns the counter' % self.name)
            if any(a == 'call' for a in self.assigned_places(body)):
                # a call in the body could change what the bound reads; only clock / log calls are harmless
                for x in walk(body):
                    if x.get('kind') == 'CallExpr':
                        cal = x['inner'][0]
                        while cal.get('kind') in ('ImplicitCastExpr', 'ParenExpr'):
                            cal = cal['inner'][0]
                        cn = cal.get('referencedDecl', {}).get('name', '')
                        if not (cn in CLOCKS or cn.startswith('lltd_port_log') or
                                (cn in self.tr.wanted and cn != self.name and self.tr.fn(cn).const_only())):
                            # a callee that writes through a pointer could change what the bound reads: allowed only when the bound is a literal
                            if strip(bound).get('kind') != 'IntegerLiteral':
                                raise Unsupported('%s: call of %s inside a loop body with a non-constant bound' % (self.name, cn))
            if any(x.get('kind') == 'ContinueStmt' for x in walk(body)):
                raise Unsupported('%s: continue' % self.name)
            hi = self.nat(bound)
            if any(x.get('kind') == 'CallExpr' and self._callee(x) == self.name for x in walk(body)):
                raise Unsupported('%s: recursive call inside a loop body' % self.name)
            self.nloops += 1
            lnm = '%s.loop%d' % (self.name, self.nloops)
            outer = ' '.join('(%s : Nat)' % lname(v) for v in self.loopvars)
            self.loopvars.append(iv)
            b = self.block(self.body_of(body), 2)
            self.loopvars.pop()
            self.aux.append(['def %s (env : Env) %s (%s : Nat) (s : %s.S) : %s.S :=' % (lnm, outer, lname(iv), self.name, self.name),
                             '  if s.done || s.brk then s else ('] + b[:-1] + [b[-1] + ')', ''])
            outer_args = ' '.join(lname(v) for v in self.loopvars)
            out = [pad + 'let s := CSem.loopRange %s %s (%s env %s) s' % (lo['value'], hi, lnm, outer_args)]
            out.append(pad + 'let s := { s with brk := false }')
            return out
        if k == 'ReturnStmt':
            if n.get('inner'):
                pre, t, kd = self.rhs(n['inner'][0], ind)
                if self.ret_kind[0] in ('u', 's', 'b'):
                    if kd[0] != self.ret_kind[0]:
                        raise Unsupported('%s: return kind mismatch' % self.name)
                    return pre + [pad + 'let s := { s with ret := %s, done := true }' % t]
                if self.ret_kind[0] == 'ptr':
                    m = n['inner'][0]
                    while m.get('kind') in ('ImplicitCastExpr', 'ParenExpr', 'CStyleCastExpr'):
                        m = m['inner'][0]
                    if m.get('kind') == 'CallExpr':
                        # `return f(p, ...)` with f handing its pointer argument back (the automata): the call has been hoisted
                        return pre + [pad + 'let s := { s with done := true }']
                    if m.get('kind') == 'IntegerLiteral' and int(m['value']) == 0:
                        self.add_field('ret_idx', 'Option Nat', 'none')
                        return pre + [pad + 'let s := { s with ret_idx := none, done := true }']
                    if m.get('kind') == 'DeclRefExpr':
                        rn = m['referencedDecl']['name']
                        if rn in self.optptr:
                            gb, base = self.optptr[rn]
                            self.set_ret_base(base)
                            self.add_field('ret_idx', 'Option Nat', 'none')
                            return pre + [pad + 'let s := { s with ret_idx := s.%s_idx, done := true }' % lname(rn)]
                        if rn in self.alias:
                            pl = self.alias[rn]
                            if pl[-1][0] != 'i':
                                raise Unsupported('%s: returned pointer is not an array element' % self.name)
                            self.set_ret_base(pl[:-1])
                            self.ret_elem = pl[-1][2]
                            self.add_field('ret_idx', 'Option Nat', 'none')
                            return pre + [pad + 'let s := { s with ret_idx := some %s, done := true }' % pl[-1][1]]
                        if rn in self.ptr_params:
                            return pre + [pad + 'let s := { s with done := true }']
                    raise Unsupported('%s: returned pointer of kind %s' % (self.name, m.get('kind')))
                return pre + [pad + 'let s := { s with done := true }']
            return [pad + 'let s := { s with done := true }']
        if k == 'BreakStmt':
            return [pad + 'let s := { s with brk := true }']
        if k in ('WhileStmt', 'DoStmt', 'SwitchStmt', 'GotoStmt', 'LabelStmt', 'ContinueStmt'):
            raise Unsupported('%s: statement of kind %s' % (self.name, k))
        # expression statements
        m = n
        while m.get('kind') == 'ParenExpr':
            m = m['inner'][0]
        if m['kind'] in ('CStyleCastExpr', 'ImplicitCastExpr') and m.get('castKind') == 'ToVoid':
            if not self.pure(m['inner'][0]):
                raise Unsupported('%s: side effect under (void)' % self.name)
            return []
        if m['kind'] == 'CallExpr':
            lines, _, _ = self.call_stmt(m, ind)
            return lines
        if m['kind'] == 'BinaryOperator' and m['opcode'] == '=':
            lhs, r = m['inner']
            lk = kind_of(lhs['type'])
            if lk[0] not in ('u', 's', 'b'):
                raise Unsupported('%s: assignment to a non-scalar' % self.name)
            pre, t, kd = self.rhs(r, ind)
            if kd[0] != lk[0]:
                raise Unsupported('%s: assignment kind mismatch (%r := %r)' % (self.name, lk, kd))
            return pre + self.assign(lhs, t, ind)
        if m['kind'] == 'CompoundAssignOperator':
            lhs, r = m['inner']
            lk = kind_of(lhs['type'])
            ck = kind_of(m['computeResultType']) if 'computeResultType' in m else lk
            cl = kind_of(m['computeLHSType']) if 'computeLHSType' in m else lk
            tl, kl = self.expr(lhs)
            tl, kl = self.convert(tl, kl, cl, {'kind': 'x'})
            tr_, kr = self.expr(r)
            val = self.arith(m['opcode'][:-1], tl, tr_, ck, kr)
            val, _ = self.convert(val, ck, lk, {'kind': 'x'})
            return self.assign(lhs, val, ind)
        if m['kind'] == 'UnaryOperator' and m['opcode'] in ('++', '--'):
            lhs = m['inner'][0]
            lk = kind_of(lhs['type'])
            tl, _ = self.expr(lhs)
            if lk[0] == 'u':
                mod = 2 ** lk[1]
                if lk[1] < 32:   # promoted to int, then converted back
                    val = '((%s + 1) %% %d)' % (tl, mod) if m['opcode'] == '++' else '((%s + %d) %% %d)' % (tl, mod - 1, mod)
                else:
                    val = '((%s + 1) %% %d)' % (tl, mod) if m['opcode'] == '++' else '((%s + %d) %% %d)' % (tl, mod - 1, mod)
            elif lk[0] == 's':
                val = '(%s + 1)' % tl if m['opcode'] == '++' else '(%s - 1)' % tl
            else:
                raise Unsupported('%s: ++/-- on kind %r' % (self.name, lk))
            return self.assign(lhs, val, ind)
        raise Unsupported('%s: statement of kind %s' % (self.name, m['kind']))

    # ---------------------------------------------------------------- whole function
    def set_ret_base(self, place):
        if not place or place[0][0] != 'f' or any(a[0] != 'f' for a in place):
            raise Unsupported('%s: returned pointer does not point below a pointer parameter' % self.name)
        pname = next((c for c in self.ptr_params if lname(c) == place[0][1]), None)
        if pname is None:
            raise Unsupported('%s: returned pointer does not point below a pointer parameter' % self.name)
        rb = (pname, tuple(a[1] for a in place[1:]))
        if self.ret_base is not None and self.ret_base != rb:
            raise Unsupported('%s: returns pointers into different objects' % self.name)
        self.ret_base = rb

    def ensure_emitted(self):
        if self.emitted is None:
            self.emitted = self.emit()
        return self.emitted

    def const_only(self):
        """every pointer parameter points to const data: a call cannot change anything the caller sees"""
        for p in self.params:
            kd = kind_of(p['type'])
            if kd[0] == 'ptr' and p['name'] not in self.ignored_ptr_params and p['name'] not in self.const_params:
                return False
        return not any(x.get('kind') == 'CallExpr' and self._callee(x) not in CLOCKS and not str(self._callee(x)).startswith('lltd_port_log')
                       and not (self._callee(x) in self.tr.wanted and self._callee(x) != self.name and self.tr.fn(self._callee(x)).const_only())
                       for x in walk(self.body))

    def is_recursive(self):
        return any(x.get('kind') == 'CallExpr' and self._callee(x) == self.name for x in walk(self.body))

    def _callee(self, x):
        c = x['inner'][0]
        while c.get('kind') in ('ImplicitCastExpr', 'ParenExpr'):
            c = c['inner'][0]
        return c.get('referencedDecl', {}).get('name')

    def setup(self):
        self.ignored_ptr_params = set()
        self.arr_params = {}
        self.const_params = set()
        for p in self.params:
            kd = kind_of(p['type'])
            nm = p['name']
            if kd[0] == 'ptr':
                pointee = re.sub(r'^struct ', '', kd[1])
                pk = kind_of(re.sub(r'\bconst\b', '', kd[1]).strip()) if kd[1] else ('void',)
                if pointee in self.tr.structs:
                    self.ptr_params[nm] = pointee
                    self.add_field(lname(nm), lname(pointee), None)
                    if 'const' in p['type']['qualType'].split('*')[0]:
                        self.const_params.add(nm)
                elif pk[0] == 'u' and pk[1] == 8 and re.sub(r'\bconst\b', '', kd[1]).strip() != 'char':
                    # `uint8_t *` / `const uint8_t *`: an array of bytes passed by reference - by VALUE here, written back by the caller
                    self.arr_params[nm] = pk
                    self.add_field(lname(nm), 'List Nat', None)
                    if 'const' in p['type']['qualType'].split('*')[0]:
                        self.const_params.add(nm)
                else:
                    self.ignored_ptr_params.add(nm)      # char *debug and the like: may only be NULL-tested or logged
            elif kd[0] in ('u', 's', 'b'):
                self.add_field(lname(nm), lean_type(kd, None), None)
            else:
                raise Unsupported('%s: parameter %s of type %s' % (self.name, nm, qual(p['type'])))

    def emit(self):
        self.setup()
        lines = self.block(self.body['inner'], 1)
        lines = [l.replace('let s := ', 'let s : %s.S := ' % self.name).replace('(fun %s s =>', '(fun %s (s : NAME.S) =>').replace('NAME.S', self.name + '.S') if True else l for l in lines]
        lines = [re.sub(r'\(fun (\w+) s =>', lambda m: '(fun %s (s : %s.S) =>' % (m.group(1), self.name), l) for l in lines]
        rec = self.is_recursive()
        if rec:
            self.add_field('diverged', 'Bool', 'false')
        out = []
        out.append('structure %s.S where' % self.name)
        for f in self.order:
            ty, d = self.fields[f]
            out.append('  %s : %s%s' % (f, ty, '' if d is None else ' := ' + d))
        if self.ret_kind[0] in ('u', 's', 'b'):
            out.append('  ret : %s := %s' % (lean_type(self.ret_kind, None), zero_of(self.ret_kind)))
        out.append('  done : Bool := false')
        out.append('  brk : Bool := false')
        out.append('')
        for a in self.aux:
            out += [l.replace('let s := ', 'let s : %s.S := ' % self.name) for l in a]
        ps = [f for f in self.order if self.fields[f][1] is None]
        sig = ' '.join('(%s : %s)' % (f, self.fields[f][0]) for f in ps)
        init = '{ ' + ', '.join('%s := %s' % (f, f) for f in ps) + ' }'
        if rec:
            out.append('def %s (fuel : Nat) (env : Env) %s : %s.S :=' % (self.name, sig, self.name))
            out.append('  match fuel with')
            out.append('  | 0 => { (%s : %s.S) with diverged := true }' % (init, self.name))
            out.append('  | fuel + 1 =>')
        else:
            out.append('def %s (env : Env) %s : %s.S :=' % (self.name, sig, self.name))
        out.append('  let s : %s.S := %s' % (self.name, init))
        out += lines
        out.append('')
        return out


class Translator:
    def __init__(self, ast, wanted):
        self.ast = ast
        self.wanted = wanted
        self.structs = {}
        self.fns = {}
        for n in ast['inner']:
            if n['kind'] == 'TypedefDecl' and n.get('name'):
                under = qual(n['type'])
                if re.sub(r'^struct ', '', under) != n['name']:
                    TYPEDEFS[n['name']] = under
            if n['kind'] == 'RecordDecl' and n.get('name') and n.get('completeDefinition'):
                self.structs[n['name']] = n
            if n['kind'] == 'FunctionDecl' and any(c.get('kind') == 'CompoundStmt' for c in n.get('inner', [])):
                self.fns[n['name']] = n
        self.cache = {}

    def fn(self, name):
        if name not in self.cache:
            if name not in self.fns:
                raise Unsupported('function %s is not defined in the translation unit' % name)
            f = Fn(self, self.fns[name])
            f.setup()
            self.cache[name] = f
        return self.cache[name]

    def struct_lines(self, name, needed):
        n = self.structs[name]
        out = ['structure %s where' % lname(name)]
        zeros = []
        for f in n['inner']:
            if f['kind'] != 'FieldDecl':
                continue
            kd = kind_of(f['type'])
            if kd[0] in ('ptr', 'fn'):
                continue      # pointers are not represented (names, `extra`)
            if kd[0] == 'struct' or (kd[0] == 'arr' and kd[1][0] == 'struct'):
                needed.append(kd[1] if kd[0] == 'struct' else kd[1][1])
            out.append('  %s : %s' % (lname(f['name']), lean_type(kd, None)))
            zeros.append('%s := %s' % (lname(f['name']), zero_of(kd)))
        out.append('deriving Repr, DecidableEq')
        out.append('')
        out.append('def %s.zero : %s := { %s }' % (lname(name), lname(name), ', '.join(zeros)))
        out.append('')
        return out

    def run(self):
        missing = [n for n in self.wanted if n not in self.fns]
        if missing:
            raise Unsupported('functions not found in lltdAutomata.c: ' + ', '.join(missing))
        fns = [self.fn(n) for n in self.wanted]
        bodies = {}
        for f in fns:
            bodies[f.name] = f.ensure_emitted()
        # order: callees first
        order = []
        def visit(nm, seen):
            if nm in order:
                return
            if nm in seen:
                return
            seen.add(nm)
            for c in sorted(next(f for f in fns if f.name == nm).calls):
                if c != nm:
                    visit(c, seen)
            order.append(nm)
        for f in fns:
            visit(f.name, set())
        # structures needed
        needed = []
        for f in fns:
            needed += list(f.ptr_params.values()) + list(f.extra_structs)
        emitted = []
        slines = []
        def emit_struct(nm):
            if nm in emitted:
                return
            inner = []
            lines = self.struct_lines(nm, inner)
            for i in inner:
                emit_struct(i)
            emitted.append(nm)
            slines.extend(lines)
        for nm in needed:
            emit_struct(nm)
        out = ['/- GENERATED by tools/c2lean.py from lltdResponder/lltdAutomata.c of the working tree.  Do not edit:',
               '   it is rewritten on every run; Lemmas/TranslatedEq.lean relates it to the hand-written model. -/',
               'import LLTD.Model.CSem', '', 'namespace LLTD.T', 'open LLTD', '',
               'structure Env where', '  nowMs : Nat', '  nowS : Nat', '']
        out += slines
        for nm in order:
            out += bodies[nm]
        out += ['def translatedFunctions : List String := [%s]' % ', '.join('"%s"' % n for n in order), '']
        out += ['/-- what the translation ASSUMES per function: pointer parameters non-NULL and not aliasing each other; the pointer members listed',
                '    here present (their pointees are the extra parameters), callbacks counted -/',
                'def assumedPresent : List (String × List String) := [%s]' % ', '.join(
                    '("%s", [%s])' % (f.name, ', '.join('"%s"' % a for a in sorted(f.assumed_present))) for f in fns if f.assumed_present),
                '', 'end LLTD.T', '']
        return '\n'.join(out)


# the data models the translation must not depend on: the host (LP64, signed char), an ABI with unsigned plain char (ARM, PowerPC,
# Xtensa / ESP32, RISC-V), ILP32 (i386, 32-bit embedded Linux), ARM EABI, AArch64
TARGETS = [('x86-64 (host)', []), ('unsigned plain char', ['-funsigned-char']), ('ILP32 (i386)', ['-m32', '-ffreestanding']),
           ('ARM EABI', ['--target=armv7-none-eabi', '-ffreestanding']), ('AArch64', ['--target=aarch64-linux-gnu', '-ffreestanding'])]


def translate_for(repo, verif, flags):
    global TYPEDEFS, CHAR_UNSIGNED
    TYPEDEFS = {}
    m = subprocess.run(['clang-14', '-dM', '-E', '-x', 'c', '/dev/null'] + flags, stdout=subprocess.PIPE, stderr=subprocess.PIPE, text=True)
    CHAR_UNSIGNED = '__CHAR_UNSIGNED__' in m.stdout
    core = os.path.join(repo, 'lltdResponder')
    src = os.path.join(core, 'lltdAutomata.c')
    cmd = ['clang-14', '-std=gnu11', '-D_GNU_SOURCE', '-DD3VI1_LLTDRESPONDER_VERIF', '-I' + core, '-I' + os.path.join(verif, 'harness'),
           '-w', '-fsyntax-only', '-Xclang', '-ast-dump=json'] + flags + [src]
    r = subprocess.run(cmd, stdout=subprocess.PIPE, stderr=subprocess.PIPE, text=True)
    if r.returncode != 0:
        raise Unsupported('clang cannot parse lltdAutomata.c (%s):\n' % ' '.join(flags) + r.stderr[-2000:])
    ast = json.loads(r.stdout)
    return Translator(ast, FUNCTIONS).run()


def translate(repo, verif):
    """the translation for the host; it must be THE SAME for every data model in TARGETS - a function whose meaning depends on the
    signedness of plain char, on the width of int / long / size_t / pointers or on a target macro is outside the subset"""
    host = translate_for(repo, verif, TARGETS[0][1])
    for name, flags in TARGETS[1:]:
        other = translate_for(repo, verif, flags)
        if other != host:
            a, b = host.split('\n'), other.split('\n')
            k = next((i for i in range(min(len(a), len(b))) if a[i] != b[i]), min(len(a), len(b)))
            fn = next((l for l in reversed(a[:k + 1]) if l.startswith(('def ', 'structure '))), '?')
            raise Unsupported('the meaning of the translated code depends on the target: for "%s" the translation differs from the host\'s in `%s`:\n  host : %s\n  %s: %s'
                              % (name, fn.split('(')[0].strip(), a[k].strip() if k < len(a) else '<end>', name, b[k].strip() if k < len(b) else '<end>'))
    return host


if __name__ == '__main__':
    repo = os.environ.get('VERIF_REPO', '/repo')
    verif = os.path.dirname(os.path.dirname(os.path.abspath(__file__)))
    try:
        txt = translate(repo, verif)
    except Unsupported as e:
        print('UNSUPPORTED: %s' % e, file=sys.stderr)
        sys.exit(1)
    if len(sys.argv) > 1 and sys.argv[1] == '-':
        sys.stdout.write(txt)
    else:
        target = os.path.join(verif, 'lean', 'LLTD', 'Generated', 'Translated.lean')
        old = open(target).read() if os.path.exists(target) else None
        if old != txt:
            with open(target + '.tmp', 'w') as f:
                f.write(txt)
            os.replace(target + '.tmp', target)
            print('Translated.lean rewritten')
        else:
            print('Translated.lean unchanged')
