#!/bin/bash
# every check's thorough tier on the clean tree, one after the other (from any copy of /verif)
HERE="$(cd "$(dirname "$0")/.." && pwd)"; cd "$HERE"
[ -d lean/.lake ] || ./setup.sh >/dev/null 2>&1
for i in ${@:-01 02 03 04 05 06 07 08 09 10 11 12 13 14 15 16 17 18 19 20}; do r=$(VERIF_TAG=th ./check C$i --tier thorough 2>&1 | grep -E "^(OK|VIOLATION)" | tail -1); echo "thorough C$i: $r"; done
