"""Shared machinery of ./check: extraction, Lean build + audit, harness build,
running the two sides of the correspondence, diffing, shrinking, verdict and
evidence.  See DESIGN.md section 3.4."""
import fcntl
import hashlib
import json
import os
import shutil
import re
import subprocess
import sys
import time

VERIF = os.path.dirname(os.path.dirname(os.path.abspath(__file__)))
REPO = os.environ.get('VERIF_REPO', '/repo')
LEAN = os.path.join(VERIF, 'lean')
BUILD = os.path.join(VERIF, 'build')
DRIVER = os.path.join(LEAN, '.lake', 'build', 'bin', 'driver')
ALLOWED_AXIOMS = {'propext', 'Classical.choice', 'Quot.sound'}
FORBIDDEN = re.compile(r'\bsorry\b|\badmit\b|^axiom\s|native_decide|bv_decide|implemented_by|\bunsafe\s|maxHeartbeats\s+0')
NCPU = os.cpu_count() or 4


class Lock:
    def __init__(self, name):
        os.makedirs(BUILD, exist_ok=True)
        self.path = os.path.join(BUILD, name + '.lock')

    def __enter__(self):
        self.f = open(self.path, 'w')
        fcntl.flock(self.f, fcntl.LOCK_EX)
        return self

    def __exit__(self, *a):
        fcntl.flock(self.f, fcntl.LOCK_UN)
        self.f.close()


def run(cmd, **kw):
    return subprocess.run(cmd, stdout=subprocess.PIPE, stderr=subprocess.STDOUT, text=True, **kw)


# ---------------------------------------------------------------- extraction
TRANSLATE_STATUS = (True, 'not run')
WIRE_STATUS = (True, 'not run')
WIRE_PROPS = ('C01', 'C02', 'C03', 'C04', 'C05', 'C06', 'C07', 'C08', 'C10', 'C11')      # properties whose <prop>T module is about Generated/TranslatedWire.lean (tools/c2lean_wire.py)


# which translated functions a property's <prop>T module is about: a function of another group leaving the subset is not this
# property's business (a harmless rewrite of an unused TLV writer must not be reported under eight properties)
W_ENDIAN = ('lltd_bswap16', 'lltd_bswap32', 'lltd_is_little_endian', 'lltd_htons', 'lltd_ntohs', 'lltd_htonl', 'lltd_ntohl')
W_HDR = ('setLltdHeader', 'setLltdHeaderEx', 'setHelloHeader', 'compareEthernetAddress')
W_HELLO = ('setHostIdTLV', 'setCharacteristicsTLV', 'setPhysicalMediumTLV', 'setIPv4TLV', 'setIPv6TLV', 'setPerfCounterTLV', 'setLinkSpeedTLV',
           'setHostnameTLV', 'setWirelessTLV', 'setBSSIDTLV', 'setSSIDTLV', 'setWifiMaxRateTLV', 'setWifiRssiTLV', 'setQosCharacteristicsTLV',
           'setIconImageTLV', 'setFriendlyNameTLV', 'setEndOfPropertyTLV')
W_OTHER_TLV = ('setSupportInfoTLV', 'setUuidTLV', 'setHardwareIdTLV', 'set80211MediumTLV')      # translated, but no frame of the model and no theorem uses them: nobody's obligation
WIRE_LINUX = ('lltd_port_get_mtu', 'lltd_port_get_mac_address', 'lltd_port_get_characteristics_flags', 'lltd_port_get_if_type', 'lltd_port_get_link_speed_100bps')
WIRE_FUNCS = {
    'C01': W_ENDIAN + W_HELLO,
    'C02': W_ENDIAN + W_HDR + W_HELLO,
    'C03': W_ENDIAN + W_HDR + W_HELLO,
    'C04': W_ENDIAN + W_HDR + W_HELLO + WIRE_LINUX,
    'C05': ('mapper_matches', 'set_active_mapper', 'compareEthernetAddress'),
    'C06': W_ENDIAN + W_HDR, 'C07': W_ENDIAN + W_HDR, 'C08': W_ENDIAN + W_HDR, 'C10': W_ENDIAN + W_HDR,
    'C11': W_ENDIAN + ('derive_session_event', 'mac_equal'),
}
WIRE_FAILED = {}


def translate_status(prop):
    if prop not in WIRE_PROPS:
        return TRANSLATE_STATUS
    if not WIRE_STATUS[0]:
        return WIRE_STATUS
    mine = [f for f in WIRE_FAILED if f in WIRE_FUNCS.get(prop, ())]
    if mine:
        return (False, 'c2lean_wire: %s left the translatable subset: %s' % (', '.join(sorted(mine)), '; '.join(WIRE_FAILED[f] for f in sorted(mine))))
    return WIRE_STATUS


def translate_wire():
    """the byte writers (tools/c2lean_wire.py): regenerate Generated/TranslatedWire.lean from the working tree's lltdWire.c,
    lltdTlvOps.c and lltdEndian.h.  Same contract as translate()."""
    global WIRE_STATUS, WIRE_FAILED
    sys.path.insert(0, os.path.join(VERIF, 'tools'))
    import c2lean, c2lean_wire
    WIRE_FAILED = {}
    target = os.path.join(LEAN, 'LLTD', 'Generated', 'TranslatedWire.lean')
    try:
        txt = c2lean_wire.translate(REPO, VERIF)
    except c2lean.Unsupported as e:
        WIRE_STATUS = (False, 'c2lean_wire: the byte-level translation (lltdWire.c, lltdTlvOps.c, lltdEndian.h, derive_session_event, mapper_matches / set_active_mapper) is not possible: %s' % e)
        return WIRE_STATUS
    except Exception as e:
        WIRE_STATUS = (False, 'c2lean_wire crashed: %r' % (e,))
        return WIRE_STATUS
    WIRE_FAILED = dict(c2lean_wire.FAILED)
    old = open(target).read() if os.path.exists(target) else None
    if old != txt:
        with open(target + '.tmp', 'w') as f:
            f.write(txt)
        os.replace(target + '.tmp', target)
        WIRE_STATUS = (True, 'TranslatedWire.lean rewritten')
    else:
        WIRE_STATUS = (True, 'TranslatedWire.lean unchanged')
    return WIRE_STATUS


def translate():
    """the second tie (tools/c2lean.py): regenerate Generated/Translated.lean from the working tree's lltdAutomata.c.
    Returns (ok, message); when the source has left the translatable subset the old file stays and the message says why."""
    global TRANSLATE_STATUS
    sys.path.insert(0, os.path.join(VERIF, 'tools'))
    import c2lean
    target = os.path.join(LEAN, 'LLTD', 'Generated', 'Translated.lean')
    try:
        txt = c2lean.translate(REPO, VERIF)
    except c2lean.Unsupported as e:
        TRANSLATE_STATUS = (False, 'c2lean: lltdAutomata.c has left the translatable subset: %s' % e)
        return TRANSLATE_STATUS
    except Exception as e:      # a translator crash is a broken tie, not a pass
        TRANSLATE_STATUS = (False, 'c2lean crashed: %r' % (e,))
        return TRANSLATE_STATUS
    old = open(target).read() if os.path.exists(target) else None
    if old != txt:
        with open(target + '.tmp', 'w') as f:
            f.write(txt)
        os.replace(target + '.tmp', target)
        TRANSLATE_STATUS = (True, 'Translated.lean rewritten')
    else:
        TRANSLATE_STATUS = (True, 'Translated.lean unchanged')
    return TRANSLATE_STATUS


def extract():
    """Compile and RUN the probe against the working tree; rewrite Extracted.lean if it changed; then run the translator.
    Returns (ok, message)."""
    with Lock('extract'):
        translate()
        translate_wire()
        out = os.path.join(BUILD, 'x')
        os.makedirs(out, exist_ok=True)
        core = os.path.join(REPO, 'lltdResponder')
        srcs = [os.path.join(core, f) for f in ('lltdBlock.c', 'lltdTlvOps.c', 'lltdWire.c', 'lltdAutomata.c')]
        h = os.path.join(VERIF, 'harness')
        probe = os.path.join(out, 'probe')
        r = run(['gcc', '-std=gnu11', '-O1', '-w', '-D_GNU_SOURCE', '-DD3VI1_LLTDRESPONDER_VERIF', '-I' + core, '-I' + h]
                + srcs + [os.path.join(h, 'vport.c'), os.path.join(h, 'yield_stub.c'), os.path.join(h, 'extract_probe.c'),
                          '-o', probe])
        if r.returncode != 0:
            return False, 'extract probe does not compile against the working tree:\n' + r.stdout[-3000:]
        try:
            r = run([probe], timeout=120)
        except subprocess.TimeoutExpired:
            return False, 'extract probe timed out'
        if r.returncode != 0:
            return False, 'extract probe crashed (exit %d):\n%s' % (r.returncode, r.stdout[-3000:])
        target = os.path.join(LEAN, 'LLTD', 'Generated', 'Extracted.lean')
        old = open(target).read() if os.path.exists(target) else None
        if old != r.stdout:
            os.makedirs(os.path.dirname(target), exist_ok=True)
            with open(target + '.tmp', 'w') as f:
                f.write(r.stdout)
            os.replace(target + '.tmp', target)
            return True, 'Extracted.lean rewritten'
        return True, 'Extracted.lean unchanged'


def extracted_values():
    vals = {}
    p = os.path.join(LEAN, 'LLTD', 'Generated', 'Extracted.lean')
    for line in open(p):
        m = re.match(r'def (\w+) : \w+ := (-?\d+)\s*$', line)
        if m:
            vals[m.group(1)] = int(m.group(2))
        m = re.match(r'def (\w+) : Option Nat := (none|some (\d+))', line)
        if m:
            vals[m.group(1)] = None if m.group(2) == 'none' else int(m.group(3))
        m = re.match(r'def (\w+) : List Nat := \[(.*)\]', line)
        if m:
            vals[m.group(1)] = [int(x) for x in m.group(2).split(',') if x.strip()]
        m = re.match(r'def (\w+) : List \(Nat × Nat × Int\) := \[(.*)\]', line)
        if m:
            vals[m.group(1)] = [tuple(int(y) for y in x.split(',')) for x in re.findall(r'\(([^)]*)\)', m.group(2))]
    return vals


# ---------------------------------------------------------------- Lean
def lake_build(targets):
    with Lock('lake'):
        r = run(['lake', 'build'] + targets, cwd=LEAN)
    return r.returncode == 0, r.stdout


def lake_build_driver(tag):
    """build the model driver and give THIS run its own copy of the binary: another check (same tree or, in experiments,
    another tree) may relink .lake/build/bin/driver while this one is still using it"""
    global DRIVER
    with Lock('lake'):
        r = run(['lake', 'build', 'driver'], cwd=LEAN)
        src = os.path.join(LEAN, '.lake', 'build', 'bin', 'driver')
        if r.returncode == 0 and os.path.exists(src):
            d = os.path.join(BUILD, tag)
            os.makedirs(d, exist_ok=True)
            tmp = os.path.join(d, 'driver.tmp%d' % os.getpid())
            shutil.copy2(src, tmp)
            os.replace(tmp, os.path.join(d, 'driver'))
            DRIVER = os.path.join(d, 'driver')
    return r.returncode == 0, r.stdout


def prop_modules(prop):
    """Props/<prop>.lean and, when present, Props/<prop>H.lean (the history form proved over the refinement) and
    Props/<prop>T.lean (the property for the TRANSLATED source, over Generated/Translated.lean)"""
    mods = [prop]
    for suffix in ('H', 'T', 'TT'):
        if os.path.exists(os.path.join(LEAN, 'LLTD', 'Props', prop + suffix + '.lean')):
            mods.append(prop + suffix)
    return mods


def theorem_names(prop):
    """all theorems declared in Props/<prop>.lean (+ Props/<prop>H.lean), qualified"""
    names = []
    for m in prop_modules(prop):
        path = os.path.join(LEAN, 'LLTD', 'Props', m + '.lean')
        txt = strip_comments(open(path).read())
        ns = re.search(r'^namespace\s+(\S+)', txt, re.M).group(1)
        names += [ns + '.' + t for t in re.findall(r'^theorem\s+(\w+)', txt, re.M)]
    return names


def strip_comments(txt):
    # remove /- ... -/ (nested) and -- comments
    out = []
    i = 0
    depth = 0
    while i < len(txt):
        if txt.startswith('/-', i):
            depth += 1
            i += 2
        elif txt.startswith('-/', i) and depth > 0:
            depth -= 1
            i += 2
        elif depth > 0:
            if txt[i] == '\n':
                out.append('\n')
            i += 1
        elif txt.startswith('--', i):
            while i < len(txt) and txt[i] != '\n':
                i += 1
        else:
            out.append(txt[i])
            i += 1
    return ''.join(out)


def lean_sources_of(prop):
    """the Lean files a property's theorems may depend on: the whole library (Lemmas import other properties' files)"""
    files = []
    for root, _, fs in os.walk(os.path.join(LEAN, 'LLTD')):
        for f in fs:
            if f.endswith('.lean'):
                rel = os.path.relpath(os.path.join(root, f), LEAN)
                files.append(os.path.join(root, f))
    return files


def audit(prop, thorough=False):
    """#print axioms for every theorem of the property + forbidden-token grep.
    Returns dict(theorems, discharged, axioms, problems)."""
    names = theorem_names(prop)
    problems = []
    for f in lean_sources_of(prop):
        txt = strip_comments(open(f).read())
        for ln, line in enumerate(txt.split('\n'), 1):
            if FORBIDDEN.search(line):
                problems.append('%s:%d: forbidden token: %s' % (os.path.relpath(f, LEAN), ln, line.strip()[:80]))
    os.makedirs(os.path.join(BUILD, 'audit'), exist_ok=True)
    af = os.path.join(BUILD, 'audit', prop + '.lean')
    with open(af, 'w') as f:
        for m in prop_modules(prop):
            f.write('import LLTD.Props.%s\n' % m)
        for n in names:
            f.write('#print axioms %s\n' % n)
    with Lock('lake'):
        r = run(['lake', 'env', 'lean', af], cwd=LEAN)
    axioms = set()
    seen = set()
    for m in re.finditer(r"'([^']+)' depends on axioms: \[([^\]]*)\]", r.stdout.replace('\n', ' ')):
        seen.add(m.group(1))
        ax = {a.strip() for a in m.group(2).split(',') if a.strip()}
        axioms |= ax
        bad = ax - ALLOWED_AXIOMS
        if bad:
            problems.append('%s depends on non-standard axioms %s' % (m.group(1), sorted(bad)))
    for m in re.finditer(r"'([^']+)' does not depend on any axioms", r.stdout):
        seen.add(m.group(1))
    if r.returncode != 0:
        problems.append('audit file failed to elaborate: ' + r.stdout[-1500:])
    missing = [n for n in names if n not in seen]
    for n in missing:
        problems.append('no axiom report for ' + n)
    res = {'theorems': names, 'discharged': [n for n in names if n in seen], 'axioms': sorted(axioms), 'problems': problems,
           'raw': r.stdout[-1500:] if len(seen) != len(names) else ''}
    if thorough:
        with Lock('lake'):
            rs = [(m, run(['lake', 'env', 'leanchecker', 'LLTD.Props.' + m], cwd=LEAN)) for m in prop_modules(prop)]
        res['leanchecker'] = 'ok' if all(r.returncode == 0 for _, r in rs) else ' '.join(r.stdout[-800:] for _, r in rs if r.returncode != 0)
        for m, r in rs:
            if r.returncode != 0:
                problems.append('leanchecker rejected LLTD.Props.%s: %s' % (m, r.stdout[-400:]))
    return res


def broken_theorems(build_output, prop):
    """map error positions of a failed build to theorem names"""
    names = []
    for m in re.finditer(r'error: (LLTD/[\w/]+\.lean):(\d+):', build_output):
        path, line = os.path.join(LEAN, m.group(1)), int(m.group(2))
        try:
            src = open(path).read().split('\n')
        except OSError:
            continue
        decl = None
        for i in range(min(line, len(src)) - 1, -1, -1):
            mm = re.match(r'\s*(?:private\s+)?(theorem|lemma|def|example|instance)\s*(\w*)', src[i])
            if mm:
                decl = '%s %s (%s:%d)' % (mm.group(1), mm.group(2), m.group(1), line)
                break
        names.append(decl or '%s:%d' % (m.group(1), line))
    seen = []
    for n in names:
        if n not in seen:
            seen.append(n)
    return seen


# ---------------------------------------------------------------- harness
def build_harness(tag, variant):
    out = os.path.join(BUILD, tag)
    with Lock('h_' + tag):
        r = run([os.path.join(VERIF, 'harness', 'build.sh'), out, variant])
    if r.returncode != 0:
        log = ''
        try:
            log = open(os.path.join(out, 'build.log')).read()[-3000:]
        except OSError:
            pass
        return None, r.stdout + log
    return r.stdout.strip().split('\n')[-1], ''


SAN_ENV = {'ASAN_OPTIONS': 'detect_leaks=0:abort_on_error=0:exitcode=66', 'UBSAN_OPTIONS': 'print_stacktrace=1:exitcode=67'}


def run_side(binary, ops_path, out_path, err_path=None, flush=False):
    env = dict(os.environ)
    env.update(SAN_ENV)
    if flush or binary.endswith('_san'):
        env['VERIF_FLUSH'] = '1'      # a sanitizer abort must be attributable to the op that caused it
    with open(out_path, 'w') as o, open(err_path or os.devnull, 'w') as e:
        p = subprocess.run([binary, ops_path], stdout=o, stderr=e, env=env)
    return p.returncode


def split_cases(path):
    """transcript -> {case_id: [lines]} (lines outside any case go to case '')"""
    cases = {}
    cur = ''
    cases[cur] = []
    with open(path, errors='replace') as f:
        for line in f:
            line = line.rstrip('\n')
            if line.startswith('%%case'):
                cur = line.split(None, 1)[1] if ' ' in line else ''
                cases[cur] = []
            elif line.startswith('stats '):
                continue
            else:
                cases[cur].append(line)
    if not cases['']:
        del cases['']
    return cases


def write_cases(path, cases):
    """cases: list of (case_id, [op lines])"""
    with open(path, 'w') as f:
        for cid, ops in cases:
            f.write('%%%%case %s\n' % cid)
            for l in ops:
                f.write(l + '\n')


def run_parallel(binary, cases, workdir, tag, shards=None):
    """run `cases` through `binary` in parallel shards; returns {case_id: lines}"""
    import concurrent.futures
    os.makedirs(workdir, exist_ok=True)
    n = shards or min(NCPU, max(1, len(cases) // 50))
    n = max(1, n)
    chunks = [cases[i::n] for i in range(n)]
    results = {}

    def one(i):
        ops = os.path.join(workdir, '%s.%d.ops' % (tag, i))
        out = os.path.join(workdir, '%s.%d.out' % (tag, i))
        err = os.path.join(workdir, '%s.%d.err' % (tag, i))
        write_cases(ops, chunks[i])
        rc = run_side(binary, ops, out, err)
        return rc, split_cases(out)

    with concurrent.futures.ThreadPoolExecutor(max_workers=n) as ex:
        for rc, res in ex.map(one, range(n)):
            results.update(res)
    return results


def first_diff(a, b):
    for i in range(max(len(a), len(b))):
        x = a[i] if i < len(a) else '<end>'
        y = b[i] if i < len(b) else '<end>'
        if x != y:
            return i, x, y
    return None


def digest(lines):
    return hashlib.sha1('\n'.join(lines).encode()).hexdigest()[:16]


# ---------------------------------------------------------------- known findings
def known_findings(prop):
    p = os.path.join(VERIF, 'known_findings.json')
    if not os.path.exists(p):
        return []
    data = json.load(open(p))
    return [f for f in data.get('findings', []) if f.get('property') == prop]


# ---------------------------------------------------------------- evidence
def write_evidence(prop, tier, seed, coverage, wall, violations, assumptions):
    os.makedirs(os.path.join(VERIF, 'evidence'), exist_ok=True)
    ev = {
        'property_id': prop, 'tier': tier, 'seed': seed, 'level': 'proof',
        'coverage': coverage, 'assumptions': assumptions, 'wall_s': round(wall, 2), 'violations': violations,
    }
    p = os.path.join(VERIF, 'evidence', prop + '.json')
    if os.environ.get('VERIF_TAG'):
        # an experiment against another tree (tools/try_mutant2.sh, tools/archive_eval.sh): evidence/ describes /repo only
        os.makedirs(os.path.join(BUILD, 'evidence_' + os.environ['VERIF_TAG']), exist_ok=True)
        p = os.path.join(BUILD, 'evidence_' + os.environ['VERIF_TAG'], prop + '.json')
    with open(p + '.tmp', 'w') as f:
        json.dump(ev, f, indent=1)
    os.replace(p + '.tmp', p)
