#!/bin/bash
# Offline set-up: build the Lean library (model, theorems, audits) and the model driver.
set -e
cd "$(dirname "$0")"
python3 tools/extract.py
cd lean
lake build
