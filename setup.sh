#!/bin/bash
# Offline set-up: regenerate the extracted data from /repo, build the Lean library
# (model, specifications, theorems) and the model driver.
set -e
cd "$(dirname "$0")"
python3 - <<'PY'
import sys
sys.path.insert(0, 'tools')
import vlib
ok, msg = vlib.extract()
print(msg)
from props import c20
c20.extract_symbols()
sys.exit(0 if ok else 1)
PY
cd lean
lake build
