/-
  Thread clause of C17, at the granularity of the two hook points of lltd_state_for_iface and under
  sequential consistency.  Each thread t (serving interface context t) executes, for its first frame,
    segment 1: walk the list from `head` looking for context t (miss), allocate node t, `node.next := head`
    segment 2: `head := node t`
  A schedule is an interleaving of the four segments of two threads.  What this model cannot exhibit: the
  C11 data race itself (unsynchronised access is undefined behaviour whatever the schedule) — only TSan sees that.
-/
namespace LLTD.Race

structure G where
  head : Option Nat := none                 -- node id = context id
  next : List (Nat × Option Nat) := []      -- node ↦ its `next` field
  seg  : List (Nat × Nat) := []             -- thread ↦ segments completed
deriving Repr, DecidableEq

def nextOf (g : G) (n : Nat) : Option Nat := (g.next.lookup n).getD none

/-- is context `c` reachable from `head` (fuel = number of nodes) -/
def reach (g : G) (c : Nat) : Nat → Option Nat → Bool
  | 0, _ => false
  | _, none => false
  | fuel + 1, some n => if n = c then true else reach g c fuel (nextOf g n)

def found (g : G) (c : Nat) : Bool := reach g c (g.next.length + 1) g.head

/-- one segment of thread `t` -/
def step (g : G) (t : Nat) : G :=
  match (g.seg.lookup t).getD 0 with
  | 0 =>
    if found g t then { g with seg := (t, 2) :: g.seg.filter (·.1 != t) }          -- record exists: nothing to insert
    else { g with next := (t, g.head) :: g.next, seg := (t, 1) :: g.seg.filter (·.1 != t) }
  | 1 => { g with head := some t, seg := (t, 2) :: g.seg.filter (·.1 != t) }
  | _ => g

def run (sched : List Nat) : G := sched.foldl step {}

/-- bit t set = the state of interface t is no longer reachable after both first frames -/
def lost (sched : List Nat) : List Nat := [0, 1].filter (fun t => !found (run sched) t)

def schedules : List (List Nat) := [[0,0,1,1], [0,1,0,1], [0,1,1,0], [1,0,0,1], [1,0,1,0], [1,1,0,0]]

/-- the insertion with both segments executed atomically (what a lock around lltd_state_for_iface would give) -/
def runLocked (order : List Nat) : G := order.foldl (fun g t => step (step g t) t) {}

end LLTD.Race
