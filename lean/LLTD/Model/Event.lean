/-
  Model of derive_session_event (lltdAutomata.c) and of the length-checked
  embedded entry point lltd_esp32_handle_frame (os/esp32/daemon/lltd_esp32.c).
  `img` is the exact memory the callee may touch (`img.length` = the length it
  was told); `footprint` = 1 + highest offset read.
-/
import LLTD.Model.Block

namespace LLTD

structure EvOut where
  event     : Int
  footprint : Nat
deriving Repr, DecidableEq

/-- the station-list scan: `count` entries of `stride` bytes from `base`, compared field of 6 bytes -/
def stationScan (img : List Nat) (base stride : Nat) (our : Mac) : Nat → Nat → Bool × Nat
  | 0, i => (false, i)
  | k + 1, i =>
    if slice img (base + i * stride) 6 == our then (true, i + 1) else stationScan img base stride our k (i + 1)

/-- the clamped station count: what the wire says, bounded by what the frame holds -/
def stationCount (img : List Nat) : Nat :=
  let declared := unbe (slice img (X.sizeofDemux + X.offDiscCount) 2)
  let maxStations := (img.length - (X.sizeofDemux + X.offDiscList)) / X.strideStation
  if declared > maxStations then maxStations else declared

/-- (acknowledged?, station entries examined) -/
def ackScan (img : List Nat) (our : Option Mac) : Bool × Nat :=
  match our with
  | none => (false, 0)
  | some m =>
    if unbe (slice img (X.sizeofDemux + X.offDiscCount) 2) = 0 then (true, 0)
    else stationScan img (X.sizeofDemux + X.offDiscList) X.strideStation m (stationCount img) 0

/-- session_table_find as derive_session_event uses it: the first valid slot with this (mapper, generation) -/
def existingOf (tbl : Option Table) (mac : Mac) (gen : Nat) : Option Entry :=
  match tbl with
  | some t => t.entries.find? (fun e => e.matches mac gen)
  | none => none

/-- the classification of a Discover that holds its fixed header -/
def discoverEvent (img : List Nat) (tbl : Option Table) (our : Option Mac) : Int :=
  let xid := fSeq img
  let changed := match existingOf tbl (fRealSrc img) (fDiscGen img) with | some e => e.seq != xid | none => false
  if (ackScan img our).1 then (if changed then X.sessAckingChgd else X.sessAcking)
  else (if changed then X.sessNoackChgd else X.sessNoack)

/-- derive_session_event: the event code -/
def deriveCode (img : List Nat) (tbl : Option Table) (our : Option Mac) : Int :=
  if img.length < X.sizeofDemux then -1 else
  let op := fOpcode img
  if op = X.opReset then (if fRealDst img == bcast then X.sessTopoReset else X.sessReset)
  else if op = X.opHello then X.sessHello
  else if op = X.opDiscover then
    if img.length < X.sizeofDemux + X.offDiscList then -1 else discoverEvent img tbl our
  else -1

/-- 1 + the highest offset derive_session_event reads -/
def deriveFootprint (img : List Nat) (our : Option Mac) : Nat :=
  if img.length < X.sizeofDemux then 0 else
  let op := fOpcode img
  if op = X.opReset then X.offRealDst + 6
  else if op = X.opHello then X.offOpcode + 1
  else if op = X.opDiscover then
    if img.length < X.sizeofDemux + X.offDiscList then X.offOpcode + 1 else
    let n := (ackScan img our).2
    if n = 0 then X.sizeofDemux + X.offDiscList else X.sizeofDemux + X.offDiscList + (n - 1) * X.strideStation + 6
  else X.offOpcode + 1

def deriveEvent (img : List Nat) (tbl : Option Table) (our : Option Mac) : EvOut :=
  { event := deriveCode img tbl our, footprint := deriveFootprint img our }

/-- lltd_esp32_handle_frame on a frame of exactly `frame.length` bytes -/
def espHandleFrame (fm fs fe : Fsm) (frame : List Nat) (nowS : Nat) : Fsm × Fsm × Fsm :=
  if frame.length < X.sizeofDemux then (fm, fs, fe) else
  let op := fOpcode frame
  let ev : Nat := if op = X.opHello then X.enumHello else if op = X.opDiscover then X.enumNewSession else X.enumSessComplete
  (stepMapping fm op nowS, stepSession fs op nowS, stepEnumeration fe ev nowS)

/-- 1 + highest offset lltd_esp32_handle_frame reads -/
def espFootprint (frame : List Nat) : Nat := if frame.length < X.sizeofDemux then 0 else X.offOpcode + 1

end LLTD
