/-
  Model of derive_session_event (lltdAutomata.c) and of the length-checked
  embedded entry point lltd_esp32_handle_frame (os/esp32/daemon/lltd_esp32.c).
  `img` is the exact memory the callee may touch (`img.length` = the length it
  was told); `footprint` = 1 + highest offset read.
-/
import LLTD.Model.Block

namespace LLTD

structure EvOut where
  event     : Int
  footprint : Nat
deriving Repr, DecidableEq

/-- the station-list scan: `count` entries of `stride` bytes from `base`, compared field of 6 bytes -/
def stationScan (img : List Nat) (base stride : Nat) (our : Mac) : Nat → Nat → Bool × Nat
  | 0, i => (false, i)
  | k + 1, i =>
    if slice img (base + i * stride) 6 == our then (true, i + 1) else stationScan img base stride our k (i + 1)

def deriveEvent (img : List Nat) (tbl : Option Table) (our : Option Mac) : EvOut :=
  let len := img.length
  if len < X.sizeofDemux then { event := -1, footprint := 0 } else
  let op := fOpcode img
  if op = X.opReset then
    { event := if fRealDst img == bcast then X.sessTopoReset else X.sessReset, footprint := X.offRealDst + 6 }
  else if op = X.opHello then { event := X.sessHello, footprint := X.offOpcode + 1 }
  else if op = X.opDiscover then
    let fixed := X.sizeofDemux + X.offDiscList
    if len < fixed then { event := -1, footprint := X.offOpcode + 1 } else
    let maxStations := (len - fixed) / X.strideStation
    let gen := fDiscGen img
    let xid := fSeq img
    let existing : Option Entry := match tbl with
      | some t => (t.find (fRealSrc img) gen).bind (fun i => t.entries[i]?)
      | none => none
    let declared := unbe (slice img (X.sizeofDemux + X.offDiscCount) 2)
    let (acking, scanned) : Bool × Nat := match our with
      | none => (false, 0)
      | some m =>
        if declared = 0 then (true, 0)
        else stationScan img fixed X.strideStation m (if declared > maxStations then maxStations else declared) 0
    let changed := match existing with | some e => e.seq != xid | none => false
    let ev : Int :=
      if acking then (if changed then X.sessAckingChgd else X.sessAcking)
      else (if changed then X.sessNoackChgd else X.sessNoack)
    { event := ev, footprint := if scanned = 0 then fixed else fixed + (scanned - 1) * X.strideStation + 6 }
  else { event := -1, footprint := X.offOpcode + 1 }

/-- lltd_esp32_handle_frame on a frame of exactly `frame.length` bytes -/
def espHandleFrame (fm fs fe : Fsm) (frame : List Nat) (nowS : Nat) : Fsm × Fsm × Fsm :=
  if frame.length < X.sizeofDemux then (fm, fs, fe) else
  let op := fOpcode frame
  let ev : Nat := if op = X.opHello then X.enumHello else if op = X.opDiscover then X.enumNewSession else X.enumSessComplete
  (stepMapping fm op nowS, stepSession fs op nowS, stepEnumeration fe ev nowS)

/-- 1 + highest offset lltd_esp32_handle_frame reads -/
def espFootprint (frame : List Nat) : Nat := if frame.length < X.sizeofDemux then 0 else X.offOpcode + 1

end LLTD
