/-
  The handful of C-semantics helpers the GENERATED file `Generated/Translated.lean` (tools/c2lean.py) refers to.
  Unsigned values of width n are `Nat`s kept below 2^n by an explicit `% 2^n` after every operation that can leave
  the range; signed values are `Int`s (signed overflow is undefined behaviour in C and is NOT modelled: the
  translation computes the mathematical result).  No Mathlib.
-/
namespace LLTD.CSem

/-- `for (int i = a; i < b; i++) body` with `a`, `b` evaluated once (the translator checks that the body assigns
    neither `i` nor anything `b` mentions). -/
def loopRange {σ : Type} (a b : Nat) (f : Nat → σ → σ) (s : σ) : σ :=
  (List.range' a (b - a)).foldl (fun s i => f i s) s

/-- conversion to an n-bit unsigned type -/
def toU (n : Nat) (x : Int) : Nat := Int.toNat (x % (2 ^ n : Nat))

/-- conversion of an unsigned value to an n-bit signed type (two's complement, what gcc and clang do) -/
def toS (n : Nat) (x : Nat) : Int :=
  let y := x % 2 ^ n
  if y < 2 ^ (n - 1) then (y : Int) else (y : Int) - (2 ^ n : Nat)

/-- conversion of a signed value to a narrower signed type -/
def toSI (n : Nat) (x : Int) : Int := toS n (toU n x)


/-! ## The byte-level memory model of `tools/c2lean_wire.py` (Generated/TranslatedWire.lean) -/

/-- object representation of an n-byte unsigned value on the (little-endian) host -/
def le : Nat → Nat → List Nat
  | 0, _ => []
  | n + 1, v => (v % 256) :: le n (v / 256)

/-- the value an n-byte object holds -/
def unle : List Nat → Nat
  | [] => 0
  | b :: bs => b + 256 * unle bs

/-- `n` bytes at offset `off` of a region -/
def rd (l : List Nat) (off n : Nat) : List Nat := (l.drop off).take n

/-- the region after the bytes `bs` were stored at offset `off` (a store past the end LENGTHENS the list: out-of-bounds
    stores are not modelled, the equalities are stated for regions with room) -/
def wr (l : List Nat) (off : Nat) (bs : List Nat) : List Nat := l.take off ++ bs ++ l.drop (off + bs.length)

@[simp] theorem loopRange_empty {σ : Type} (a b : Nat) (f : Nat → σ → σ) (s : σ) (h : b ≤ a) : loopRange a b f s = s := by
  simp [loopRange, Nat.sub_eq_zero_of_le h]

theorem loopRange_succ {σ : Type} (a b : Nat) (f : Nat → σ → σ) (s : σ) (h : a < b) :
    loopRange a b f s = loopRange (a + 1) b f (f a s) := by
  unfold loopRange
  have : b - a = (b - (a + 1)) + 1 := by omega
  rw [this, List.range'_succ]; rfl

/-- a loop over a list-shaped range is a fold over the indices -/
theorem loopRange_zero_eq {σ : Type} (n : Nat) (f : Nat → σ → σ) (s : σ) :
    loopRange 0 n f s = (List.range n).foldl (fun s i => f i s) s := by
  simp [loopRange, List.range_eq_range']

end LLTD.CSem
