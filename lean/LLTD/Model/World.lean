/-
  The port as the model sees it (mirrors harness/vport.c): virtual clock,
  allocation ledger with a fault schedule, transmit fault schedule, poison byte
  of fresh memory.  `malloc`/`free` are the only ways the ledger changes.
-/
import LLTD.Model.Automata

namespace LLTD

structure World where
  clockMs       : Nat := 0
  poison        : Nat := 0xA5
  mallocCalls   : Nat := 0
  sendCalls     : Nat := 0
  failMalloc    : List Nat := []     -- absolute indices of core malloc calls that return NULL
  failSend      : List Nat := []
  failMallocAll : Bool := false
  failSendAll   : Bool := false
  live          : Nat := 0           -- live ledger blocks
  bytes         : Nat := 0
deriving Repr, DecidableEq

def World.nowS (w : World) : Nat := w.clockMs / 1000

/-- lltd_port_malloc(n): consumes one fault index; `true` = a block was returned -/
def World.malloc (w : World) (n : Nat) : World × Bool :=
  let k := w.mallocCalls + 1
  let w := { w with mallocCalls := k }
  if w.failMallocAll || w.failMalloc.contains k then (w, false)
  else ({ w with live := w.live + 1, bytes := w.bytes + n }, true)

/-- port-internal allocation (icon / friendly name handed to the core): in the ledger, no fault index -/
def World.rawAlloc (w : World) (n : Nat) : World := { w with live := w.live + 1, bytes := w.bytes + n }

/-- lltd_port_free of a block of n bytes -/
def World.free (w : World) (n : Nat) : World := { w with live := w.live - 1, bytes := w.bytes - n }

/-- lltd_port_send_frame: `true` = accepted -/
def World.send (w : World) : World × Bool :=
  let k := w.sendCalls + 1
  let w := { w with sendCalls := k }
  (w, !(w.failSendAll || w.failSend.contains k))

/-! ## Constructors of lltdAutomata.c (C18: they report failure, they do not dereference NULL) -/

def initMapping (w : World) : World × Option (Fsm × Option MapState) :=
  let (w, ok) := w.malloc X.sizeofAutomata
  if !ok then (w, none) else
  let (w, ok2) := w.malloc X.sizeofMappingState
  (w, some ({ state := X.mappingInit, lastTs := w.nowS }, if ok2 then some MapState.init else none))

def initEnumeration (w : World) : World × Option (Fsm × Option Band) :=
  let (w, ok) := w.malloc X.sizeofAutomata
  if !ok then (w, none) else
  let (w, ok2) := w.malloc X.sizeofBandState
  if !ok2 then (w.free X.sizeofAutomata, none)
  else (w, some ({ state := X.enumerationInit, lastTs := w.nowS }, some Band.init))

def initSession (w : World) : World × Option Fsm :=
  let (w, ok) := w.malloc X.sizeofAutomata
  if !ok then (w, none) else (w, some { state := X.sessionInit, lastTs := w.nowS })

def tableCreate (w : World) : World × Option Table :=
  let (w, ok) := w.malloc X.sizeofSessionTable
  if !ok then (w, none) else (w, some Table.create)

end LLTD
