/-
  Model of lltdBlock.c (+ lltdWire.c header writers and the lltdTlvOps.c
  writers used by answerHello): `parseFrame` and its handlers over the image
  of the MTU-sized receive buffer, the per-interface state record and the port
  (`World`, `Cfg`, `Glob`).

  Conventions (DESIGN.md §4): the C code is handed a bare pointer, so the
  model's input is the whole buffer image; every read is bounds-checked against
  the image (`Fault.oobRead`), every write against the allocated size
  (`Fault.oobWrite`); outgoing frames are built by concatenation in wire order,
  the layout assumptions being tied to the extracted `offsetof`/`sizeof` values
  by `LLTD.Layout` (Props/Layout.lean).
-/
import LLTD.Model.Bytes
import LLTD.Model.World

namespace LLTD

inductive Fault where
  | oobRead  (site : String)
  | oobWrite (site : String)
deriving Repr, DecidableEq

inductive Fx where
  | sleep (ms : Nat)
  | send (ok : Bool) (iface : Nat) (frame : List Nat)
deriving Repr, DecidableEq

/-- process-wide platform attributes (the port API has no interface argument for these) -/
structure Glob where
  host     : List Nat := []
  hostFull : Bool := false
  hwid     : List Nat := []
  icon     : Option (List Nat) := none      -- none: the getter fails
  fname    : Option (List Nat) := none
  emptyBlock : Bool := false               -- how an EMPTY icon is handed over: as a zero-length block (non-NULL) instead of NULL
deriving Repr, DecidableEq

/-- what the per-interface getters answer -/
structure Cfg where
  idx      : Nat := 0
  mtu      : Nat := 1500
  mac      : Mac := zeroMac
  flags    : Nat := 0
  iftype   : Nat := 0
  ipv4     : List Nat := zeros 4
  ipv6     : List Nat := zeros 16
  speed    : Nat := 0
  wifi     : Bool := false
  mode     : Nat := 0
  bssid    : Mac := zeroMac
  ssid     : List Nat := []
  ssidFull : Bool := false
  rate     : Nat := 0
  rssi     : Int := 0
  failMtu  : Bool := false
  failMac  : Bool := false
  failIfType : Bool := false
  failIpv4 : Bool := false
  failIpv6 : Bool := false
  failSpeed : Bool := false
  failBssid : Bool := false
  failRate : Bool := false
  failRssi : Bool := false
deriving Repr, DecidableEq

/-- one recorded Probe/Train observation (probe_t) -/
structure Obs where
  typ     : Nat        -- 1 Probe, 0 Train
  realSrc : Mac
  src     : Mac
  dst     : Mac
deriving Repr, DecidableEq

/-- lltd_iface_state -/
structure St where
  sees     : List Obs := []       -- newest first
  count    : Nat := 0             -- see_list_count (uint32_t)
  mapperReal     : Mac := zeroMac
  mapperApparent : Mac := zeroMac
  known    : Bool := false
  seq      : Nat := 0
  genTopo  : Nat := 0
  genQuick : Nat := 0
  icon     : Option (List Nat) := none     -- cached small icon (pointer non-NULL)
deriving Repr, DecidableEq

structure Out where
  st    : St
  w     : World
  fx    : List Fx
  fault : Option Fault := none
deriving Repr, DecidableEq

/-! ## Port getters -/

/-- the three call sites with the 1500 fallback -/
def Cfg.mtuEff (c : Cfg) : Nat := if c.failMtu ∨ c.mtu = 0 then 1500 else c.mtu
def Cfg.ourMac (c : Cfg) : Mac := if c.failMac then zeroMac else c.mac

/-! ## Field access on the received image -/

def fTos (img : List Nat) : Nat := byteAt img X.offTos
def fOpcode (img : List Nat) : Nat := byteAt img X.offOpcode
def fEthDst (img : List Nat) : Mac := slice img X.offEthDst 6
def fEthSrc (img : List Nat) : Mac := slice img X.offEthSrc 6
def fRealDst (img : List Nat) : Mac := slice img X.offRealDst 6
def fRealSrc (img : List Nat) : Mac := slice img X.offRealSrc 6
def fSeq (img : List Nat) : Nat := unbe (slice img X.offSeq 2)
def fDiscGen (img : List Nat) : Nat := unbe (slice img (X.sizeofDemux + X.offDiscGen) 2)

/-! ## lltdWire.c -/

/-- setLltdHeaderEx into a buffer whose `reserved` byte holds `resv` (0 after the memset) -/
def lltdHeader (resv : Nat) (ethDst ethSrc realDst realSrc : Mac) (seq opcode tos : Nat) : List Nat :=
  ethDst ++ ethSrc ++ be 2 X.etherType ++ [1, tos, resv, opcode] ++ realDst ++ realSrc ++ be 2 seq

/-- setHelloHeader -/
def helloHeader (gen : Nat) (current apparent : Mac) : List Nat := be 2 gen ++ current ++ apparent

/-! ## lltdTlvOps.c (the writers answerHello uses) -/

def tlv (t : Nat) (v : List Nat) : List Nat := [t, v.length] ++ v

def tlvHostId (c : Cfg) : List Nat := tlv X.tlvHostId c.ourMac
def tlvCharacteristics (c : Cfg) : List Nat := tlv X.tlvCharacteristics (be 4 ((c.flags * 65536) % u32))
def tlvIfType (c : Cfg) : List Nat := tlv X.tlvIfType (be 4 (if c.failIfType then 0 else c.iftype))
def tlvIpv4 (c : Cfg) : List Nat := tlv X.tlvIpv4 (if c.failIpv4 then zeros 4 else c.ipv4)
def tlvIpv6 (c : Cfg) : List Nat := tlv X.tlvIpv6 (if c.failIpv6 then zeros 16 else c.ipv6)
def tlvPerf : List Nat := tlv X.tlvPerfCounter (be 8 1000000)
def tlvSpeed (c : Cfg) : List Nat := tlv X.tlvLinkSpeed (be 4 (if c.failSpeed then 0 else c.speed))
def tlvHostname (g : Glob) : List Nat := tlv X.tlvHostname (g.host.take 32)
def tlvWifiMode (c : Cfg) : List Nat := tlv X.tlvWifiMode [c.mode]
def tlvBssid (c : Cfg) : List Nat := if c.failBssid then [] else tlv X.tlvBssid c.bssid
def tlvSsid (c : Cfg) : List Nat := tlv X.tlvSsid (c.ssid.take 32)
def tlvRate (c : Cfg) : List Nat := tlv X.tlvWifiMaxRate (be 2 (if c.failRate then 0 else c.rate))
def tlvRssi (c : Cfg) : List Nat := tlv X.tlvWifiRssi (be 4 (i8ToU32 (if c.failRssi then 0 else c.rssi)))
def tlvQos : List Nat := tlv X.tlvQos (be 4 (((X.qosL2Fwd ||| X.qosPrioTag ||| X.qosVlan) * 65536) % u32))
def tlvIcon : List Nat := tlv X.tlvIconImage []
def tlvFriendly : List Nat := tlv X.tlvFriendlyName []

def wifiTlvs (c : Cfg) : List Nat :=
  if c.wifi then tlvWifiMode c ++ tlvBssid c ++ tlvSsid c ++ tlvRate c ++ tlvRssi c else []

/-- the property list of a Hello, end marker included -/
def helloTlvs (c : Cfg) (g : Glob) : List Nat :=
  tlvHostId c ++ tlvCharacteristics c ++ tlvIfType c ++ tlvIpv4 c ++ tlvIpv6 c ++ tlvPerf ++ tlvSpeed c ++
  tlvHostname g ++ wifiTlvs c ++ tlvQos ++ tlvIcon ++ tlvFriendly ++ [X.eop]

/-! ## Mapper bookkeeping -/

def mapperMatches (st : St) (realSrc : Mac) : Bool := !st.known || st.mapperReal == realSrc

def setActiveMapper (st : St) (realSrc ethSrc : Mac) : St :=
  if st.known then st else { st with mapperReal := realSrc, mapperApparent := ethSrc, known := true }

/-- broadcast-if-bridged rule of QueryResp / QueryLargeTlvResp -/
def respDest (img : List Nat) : Mac := if fRealSrc img == fEthSrc img then fRealSrc img else bcast

/-! ## Handlers -/

def sendFx (c : Cfg) (w : World) (frame : List Nat) : World × Fx × Bool :=
  let (w, ok) := w.send
  (w, Fx.send ok c.idx frame, ok)

/-- sendProbeMsg -/
def sendProbeMsg (c : Cfg) (st : St) (w : World) (fx : List Fx) (src dst : Mac) (pause ty : Nat) (ack : Bool) :
    World × List Fx :=
  let (w, ok) := w.malloc X.sizeofDemux
  if !ok then (w, fx) else
  let code := if ty = 1 then X.opProbe else X.opTrain
  let probe := lltdHeader 0 dst src dst c.ourMac 0 code X.tosDiscovery
  let fx := fx ++ [Fx.sleep pause]
  let (w, f1, ok1) := sendFx c w probe
  let fx := fx ++ [f1]
  if !ok1 then (w.free X.sizeofDemux, fx) else
  if ack then
    let ackF := lltdHeader 0 st.mapperApparent c.ourMac st.mapperReal c.ourMac st.seq X.opAck X.tosDiscovery
    let (w, f2, _) := sendFx c w ackF
    (w.free X.sizeofDemux, fx ++ [f2])
  else (w.free X.sizeofDemux, fx)

/-- the descriptor loop of parseEmit: `k` descriptors left, index `i`, `n` = clamped count -/
def emitLoop (c : Cfg) (st : St) (img : List Nat) (n : Nat) : Nat → Nat → World → List Fx → World × List Fx × Option Fault
  | 0, _, w, fx => (w, fx, none)
  | k + 1, i, w, fx =>
    let off := X.sizeofDemux + X.sizeofEmitHdr + (i * X.sizeofEmitee) % u16
    if !rdOk img off X.sizeofEmitee then (w, fx, some (.oobRead "parseEmit.descriptor")) else
    let ty := byteAt img (off + X.offEmiteeType)
    let pause := byteAt img (off + X.offEmiteePause)
    let src := slice img (off + X.offEmiteeSrc) 6
    let dst := slice img (off + X.offEmiteeDst) 6
    let (w, fx) := if ty = 1 ∨ ty = 0 then sendProbeMsg c st w fx src dst pause ty (i + 1 = n) else (w, fx)
    emitLoop c st img n k (i + 1) w fx

def parseEmit (c : Cfg) (w : World) (st : St) (img : List Nat) : Out :=
  if c.failMtu ∨ c.mtu < X.sizeofDemux + X.sizeofEmitHdr then { st := st, w := w, fx := [] } else
  let maxDescs := (c.mtu - X.sizeofDemux - X.sizeofEmitHdr) / X.sizeofEmitee
  let st := { st with seq := fSeq img }
  let st := setActiveMapper st (fRealSrc img) (fEthSrc img)
  if !rdOk img X.sizeofDemux 2 then { st := st, w := w, fx := [], fault := some (.oobRead "parseEmit.numDescs") } else
  let declared := unbe (slice img X.sizeofDemux 2)
  let n := if declared > maxDescs then maxDescs else declared
  let (w, fx, flt) := emitLoop c st img n n 0 w []
  { st := st, w := w, fx := fx, fault := flt }

/-- `see_list_count >= LLTD_SEE_LIST_MAX` (the cap is observed by the extractor; `none` = no cap) -/
def seesFull (count : Nat) : Bool :=
  match X.seesCap with
  | some cap => decide (count ≥ cap)
  | none => false

/-- parseProbe -/
def parseProbe (c : Cfg) (w : World) (st : St) (img : List Nat) : Out :=
  let nofx : Out := { st := st, w := w, fx := [] }
  if fRealDst img != c.ourMac then nofx else
  if seesFull st.count then nofx else
  let (w, ok) := w.malloc X.nodeBytes
  if !ok then { st := st, w := w, fx := [] } else
  let o : Obs := { typ := if fOpcode img = X.opProbe then 1 else 0, realSrc := fRealSrc img, src := fEthSrc img, dst := fEthDst img }
  if st.sees.any (fun p => o.src == p.src && o.realSrc == p.realSrc) then
    { st := st, w := w.free X.nodeBytes, fx := [] }
  else
    { st := { st with sees := o :: st.sees, count := (st.count + 1) % u32 }, w := w, fx := [] }

def obsWire (o : Obs) : List Nat := be 2 o.typ ++ o.realSrc ++ o.src ++ o.dst

/-- the serialisation loop of parseQuery: returns (descriptor bytes, nodes consumed) -/
def queryLoop (mtu : Nat) : List Obs → Nat → Nat → List Nat × Nat
  | [], _, _ => ([], 0)
  | _ :: _, 0, _ => ([], 0)
  | o :: os, rem + 1, offset =>
    if offset + 20 > mtu then ([], 0) else
    let (bs, k) := queryLoop mtu os rem (offset + 20)
    (obsWire o ++ bs, k + 1)

def freeNodes (w : World) : Nat → World
  | 0 => w
  | k + 1 => freeNodes (w.free X.nodeBytes) k

/-- how many descriptors one QueryResp can carry -/
def queryMaxDescs (mtu : Nat) : Nat :=
  if mtu > X.sizeofDemux + X.sizeofQryRespHdr then (mtu - (X.sizeofDemux + X.sizeofQryRespHdr)) / 20 else 0

/-- `num_descs` (uint16_t) -/
def queryNum (count mtu : Nat) : Nat := (if count > queryMaxDescs mtu then queryMaxDescs mtu else count) % u16

/-- the QueryResp frame -/
def queryFrame (c : Cfg) (img : List Nat) (seq num : Nat) (more : Bool) (descs : List Nat) : List Nat :=
  lltdHeader 0 (respDest img) c.ourMac (respDest img) c.ourMac seq X.opQueryResp X.tosDiscovery
    ++ be 2 (num ||| (if more then 0x8000 else 0)) ++ descs

/-- parseQuery -/
def parseQuery (c : Cfg) (w : World) (st : St) (img : List Nat) : Out :=
  let st := { st with seq := fSeq img, mapperReal := fRealSrc img, mapperApparent := fEthSrc img, known := true }
  let mtu := c.mtuEff
  let (w, ok) := w.malloc mtu
  if !ok then { st := st, w := w, fx := [] } else
  let hdrLen := X.sizeofDemux + X.sizeofQryRespHdr
  let num := queryNum st.count mtu
  let r := queryLoop mtu st.sees num hdrLen
  let frame := queryFrame c img st.seq num (decide (st.count > num)) r.1
  if hdrLen > mtu then { st := st, w := w, fx := [], fault := some (.oobWrite "parseQuery.header") } else
  let (w, f, _) := sendFx c w frame
  let w := freeNodes (w.free mtu) r.2
  let rest := st.sees.drop r.2
  { st := { st with sees := rest, count := if rest.isEmpty then 0 else st.count - r.2 }, w := w, fx := [f] }

/-- `dataSize` of a (pointer, size) pair; NULL has size 0 -/
def optLen : Option (List Nat) → Nat
  | some d => d.length
  | none => 0

/-- (bytes to write, length field) of sendLargeTlvResponse at per-frame payload `p`; `data = none` is the NULL pointer -/
def respFields (p : Nat) (data : Option (List Nat)) (off : Nat) : Nat × Nat :=
  let dataSize := optLen data
  if data.isNone ∨ dataSize = 0 then (0, 0)
  else if dataSize > off + p then (p, (p ||| 0x8000) % u16)
  else if dataSize > off then ((dataSize - off) % u16, (dataSize - off) % u16)
  else (0, 0)

/-- the QueryLargeTlvResp frame -/
def largeFrame (c : Cfg) (dest : Mac) (seq lenField : Nat) (payload : List Nat) : List Nat :=
  lltdHeader 0 dest c.ourMac dest c.ourMac seq X.opQltlvResp X.tosDiscovery ++ be 2 lenField ++ payload

/-- sendLargeTlvResponse -/
def sendLargeTlvResponse (c : Cfg) (w : World) (st : St) (img : List Nat) (data : Option (List Nat)) (dataOffset : Nat) : Out :=
  let mtu := c.mtuEff
  let hdrLen := X.sizeofDemux + X.sizeofQltlvResp
  let maxPayload := if mtu > hdrLen then (mtu - hdrLen) % u16 else 0
  let bufferSize := hdrLen + maxPayload
  let (w, ok) := w.malloc bufferSize
  if !ok then { st := st, w := w, fx := [] } else
  let dataSize := optLen data
  let (btw, lenField) := respFields maxPayload data dataOffset
  let src := match data with | some d => d | none => []
  if btw > 0 ∧ dataOffset + btw > dataSize then { st := st, w := w, fx := [], fault := some (.oobRead "sendLargeTlvResponse.data") } else
  if hdrLen + btw > bufferSize then { st := st, w := w, fx := [], fault := some (.oobWrite "sendLargeTlvResponse.buffer") } else
  let frame := largeFrame c (respDest img) st.seq lenField (slice src dataOffset btw)
  let (w, f, _) := sendFx c w frame
  { st := st, w := w.free bufferSize, fx := [f] }

/-- the length the core measures in the zero-initialised 64-byte hardware-id buffer -/
def hwidScan (buf : List Nat) : Nat → Nat → Nat
  | 0, _ => 64
  | fuel + 1, i =>
    if i + 1 < 64 then
      if byteAt buf i = 0 ∧ byteAt buf (i + 1) = 0 then i else hwidScan buf fuel (i + 2)
    else 64

def hwidData (g : Glob) : List Nat :=
  let buf := g.hwid.take 64 ++ zeros (64 - (g.hwid.take 64).length)
  buf.take (hwidScan buf 32 0)

/-- icon request: fetch into the per-session cache on first use, serve from the cache -/
def qltlvIcon (c : Cfg) (g : Glob) (w : World) (st : St) (img : List Nat) (offset : Nat) : Out :=
  let (w, st) : World × St :=
    match st.icon with
    | some _ => (w, st)
    | none =>
      match g.icon with
      | some (b :: bs) => (w.rawAlloc (b :: bs).length, { st with icon := some (b :: bs) })
      | some [] => if g.emptyBlock then (w.rawAlloc 0, { st with icon := some [] }) else (w, st)    -- `!small_icon && size == 0`: a non-NULL empty block is kept (and released by the Reset), not asked for again
      | none => (w, st)
  sendLargeTlvResponse c w st img st.icon offset

/-- friendly name: fetched per call, released after the response -/
def qltlvFname (c : Cfg) (g : Glob) (w : World) (st : St) (img : List Nat) (offset : Nat) : Out :=
  match g.fname with
  | some (b :: bs) =>
    let o := sendLargeTlvResponse c (w.rawAlloc (b :: bs).length) st img (some (b :: bs)) offset
    { o with w := o.w.free (b :: bs).length }
  | _ => sendLargeTlvResponse c w st img none offset

/-- hardware id: 64-byte scratch buffer, released after the response -/
def qltlvHwid (c : Cfg) (g : Glob) (w : World) (st : St) (img : List Nat) (offset : Nat) : Out :=
  let (w, ok) := w.malloc 64
  if !ok then sendLargeTlvResponse c w st img none offset else
  let o := sendLargeTlvResponse c w st img (some (hwidData g)) offset
  { o with w := o.w.free 64 }

/-- parseQueryLargeTlv -/
def parseQueryLargeTlv (c : Cfg) (g : Glob) (w : World) (st : St) (img : List Nat) : Out :=
  if fSeq img = 0 then { st := st, w := w, fx := [] } else
  let st := setActiveMapper { st with seq := fSeq img } (fRealSrc img) (fEthSrc img)
  let ty := byteAt img (X.sizeofDemux + X.offQltlvType)
  let offset := unbe (slice img (X.sizeofDemux + X.offQltlvOffset) 2)
  if ty = X.tlvIconImage then qltlvIcon c g w st img offset
  else if ty = X.tlvFriendlyName then qltlvFname c g w st img offset
  else if ty = X.tlvHwId then qltlvHwid c g w st img offset
  else sendLargeTlvResponse c w st img none offset

/-- the generation slot value answerHello puts into the Hello (after its own "store if empty" step) -/
def helloGen (st : St) (img : List Nat) : Nat :=
  let s := setActiveMapper st (fRealSrc img) (fEthSrc img)
  let slot := if fTos img = X.tosQuick then s.genQuick else s.genTopo
  if slot = 0 ∧ fDiscGen img ≠ 0 then fDiscGen img else slot

def helloFrame (c : Cfg) (g : Glob) (gen tos : Nat) (cur app : Mac) : List Nat :=
  lltdHeader 0 bcast c.ourMac bcast c.ourMac 0 X.opHello tos ++ helloHeader gen cur app ++ helloTlvs c g

/-- answerHello -/
def answerHello (c : Cfg) (g : Glob) (w : World) (st : St) (img : List Nat) : Out :=
  let mtu := c.mtuEff
  let (w, ok) := w.malloc mtu
  if !ok then { st := st, w := w, fx := [] } else
  let gen := helloGen st img
  let st := setActiveMapper st (fRealSrc img) (fEthSrc img)
  let st := { st with seq := fSeq img }
  let st := if fTos img = X.tosQuick then { st with genQuick := gen } else { st with genTopo := gen }
  let frame := helloFrame c g gen (fTos img) (fRealSrc img) (fEthSrc img)
  if frame.length > mtu then { st := st, w := w, fx := [], fault := some (.oobWrite "answerHello.buffer") } else
  let (w, f, _) := sendFx c w frame
  { st := st, w := w.free mtu, fx := [f] }

/-- the ToS-0 Reset arm: what is freed ... -/
def resetWorld (w : World) (st : St) : World :=
  let w := freeNodes w st.sees.length
  match st.icon with | some ic => w.free ic.length | none => w

/-- ... and the state it leaves (the mapper addresses are not cleared, only marked unknown) -/
def resetSt (st : St) : St :=
  { st with sees := [], count := 0, icon := none, known := false, seq := 0, genTopo := 0, genQuick := 0 }

/-- the Discover pre-step of parseFrame for an accepted Discover (literal transcription of the C `if / else if`) -/
def preStepRaw (st : St) (img : List Nat) : St :=
  let st := setActiveMapper st (fRealSrc img) (fEthSrc img)
  let gen := fDiscGen img
  let quick := fTos img = X.tosQuick
  let slot := if quick then st.genQuick else st.genTopo
  let slot' := if slot = 0 ∧ gen ≠ 0 then gen else if slot ≠ gen then gen else slot
  if quick then { st with genQuick := slot' } else { st with genTopo := slot' }

/-- parseFrame after lltd_state_for_iface has produced the record -/
def parseFrameSt (c : Cfg) (g : Glob) (w : World) (st : St) (img : List Nat) : Out :=
  let tos := fTos img
  let op := fOpcode img
  let discovery := tos = X.tosDiscovery ∨ tos = X.tosQuick
  -- Discover pre-step
  let pre : Option St :=
    if discovery ∧ op = X.opDiscover then
      if !mapperMatches st (fRealSrc img) then none else some (preStepRaw st img)
    else some st
  match pre with
  | none => { st := st, w := w, fx := [] }
  | some st =>
    if tos = X.tosDiscovery then
      if op = X.opDiscover then
        if mapperMatches st (fRealSrc img) then
          let o := answerHello c g w st img
          { o with fx := Fx.sleep 10 :: o.fx }
        else { st := st, w := w, fx := [] }
      else if op = X.opEmit then parseEmit c w st img
      else if op = X.opTrain ∨ op = X.opProbe then parseProbe c w st img
      else if op = X.opQuery then parseQuery c w st img
      else if op = X.opQltlv then parseQueryLargeTlv c g w st img
      else if op = X.opReset then { st := resetSt st, w := resetWorld w st, fx := [] }
      else { st := st, w := w, fx := [] }
    else if tos = X.tosQuick then
      if op = X.opDiscover then
        if mapperMatches st (fRealSrc img) then answerHello c g w st img
        else { st := st, w := w, fx := [] }
      else if op = X.opQltlv then parseQueryLargeTlv c g w st img
      else if op = X.opReset then { st := { st with known := false, genQuick := 0 }, w := w, fx := [] }
      else { st := st, w := w, fx := [] }
    else { st := st, w := w, fx := [] }

/-- parseFrame: `st = none` means no record exists yet for this interface context -/
def parseFrame (c : Cfg) (g : Glob) (w : World) (st : Option St) (img : List Nat) : Option St × World × List Fx × Option Fault :=
  if !rdOk img 0 (X.sizeofDemux + 4) then (st, w, [], some (.oobRead "parseFrame.header")) else
  match st with
  | some s =>
    let o := parseFrameSt c g w s img
    (some o.st, o.w, o.fx, o.fault)
  | none =>
    let (w, ok) := w.malloc X.stateRecBytes
    if !ok then (none, w, [], none) else
    let o := parseFrameSt c g w {} img
    (some o.st, o.w, o.fx, o.fault)

/-- what `recvfrom(sock, recvBuffer, MTU)` leaves in the buffer -/
def recvInto (img frame : List Nat) (zeroTail : Bool) : List Nat :=
  frame ++ (if zeroTail then zeros (img.length - frame.length) else img.drop frame.length)

end LLTD
