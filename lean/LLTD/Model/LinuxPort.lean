/-
  Model of the getters of os/linux/lltd_port.c that answer from the interface record (network_interface_t):
  hardware address, MTU and interface type are copied; link speed is converted from bit/s to units of 100 bit/s;
  duplex (IFM_FDX 0x10) and loopback (IFF_LOOPBACK 0x8) are mapped to their characteristics bits.
  The getifaddrs-based IPv4/IPv6 lookups are OS state and are not modelled.
-/
namespace LLTD.LinuxPort

structure Rec where
  mac : List Nat
  mtu : Nat
  ifType : Nat
  linkSpeed : Nat       -- bit/s (uint32_t)
  mediumType : Nat
  flags : Nat
deriving Repr, DecidableEq

structure Supplied where
  mac : List Nat
  mtu : Nat
  ifType : Nat
  speed100 : Nat
  flags : Nat
deriving Repr, DecidableEq

def supplied (r : Rec) : Supplied :=
  { mac := r.mac, mtu := r.mtu, ifType := r.ifType, speed100 := r.linkSpeed / 100,
    flags := (if r.mediumType / 16 % 2 = 1 then 0x2000 else 0) + (if r.flags / 8 % 2 = 1 then 0x800 else 0) }

end LLTD.LinuxPort
