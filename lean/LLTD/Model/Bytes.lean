/-
  Byte-level conventions of the model: a buffer is a `List Nat` (each < 256),
  a fixed-width field is a `Nat` encoded big-endian by `be` and decoded by `unbe`.
-/
namespace LLTD

/-- `n` bytes, big-endian, of `v % 256^n` -/
def be : Nat → Nat → List Nat
  | 0, _ => []
  | n + 1, v => be n (v / 256) ++ [v % 256]

def unbe (bs : List Nat) : Nat := bs.foldl (fun acc b => acc * 256 + b) 0

def slice (img : List Nat) (off n : Nat) : List Nat := (img.drop off).take n

/-- may the C code read `n` bytes at `off` of a buffer of this size? -/
def rdOk (img : List Nat) (off n : Nat) : Bool := off + n ≤ img.length

def byteAt (img : List Nat) (off : Nat) : Nat := img.getD off 0

def zeros (n : Nat) : List Nat := List.replicate n 0

def bcast : List Nat := [255, 255, 255, 255, 255, 255]
def zeroMac : List Nat := [0, 0, 0, 0, 0, 0]

def isBytes (bs : List Nat) : Prop := ∀ b ∈ bs, b < 256

/-- two's complement of an `int8_t` widened to `int32_t` and reinterpreted as `uint32_t` -/
def i8ToU32 (r : Int) : Nat := if r < 0 then (4294967296 - r.natAbs) else r.natAbs

end LLTD
