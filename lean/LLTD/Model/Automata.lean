/-
  Model of lltdAutomata.c: the generic table interpreter shared by the three
  automata, the per-state timeout pre-emption of switch_state_mapping /
  switch_state_session, the session table, the RepeatBand statistics, the
  mapping charge/inactivity bookkeeping and automata_tick.

  Everything that is *data* (tables, timeouts, constants) comes from
  `LLTD.X` (Generated/Extracted.lean, regenerated from the C code on every run);
  the control flow below is a hand transcription validated differentially.
  No Mathlib.
-/
import LLTD.Generated.Extracted

namespace LLTD

abbrev Mac := List Nat            -- six bytes
abbrev TransTable := List (Nat × Nat × Int)

def u8  : Nat := 256
def u16 : Nat := 65536
def u32 : Nat := 4294967296
def u64 : Nat := 18446744073709551616

/-! ## Generic interpreter -/

/-- `for i in 0..transitions_no: if cur == t[i].from && t[i].with == input then new = t[i].to, find = i`:
    the last matching row wins.  Returns (new state, found). -/
def lookup (tbl : TransTable) (cur : Nat) (input : Int) : Nat × Bool :=
  tbl.foldl (fun acc r => if cur = r.1 ∧ r.2.2 = input then (r.2.1, true) else acc) (cur, false)

structure Fsm where
  state  : Nat
  lastTs : Nat          -- seconds
deriving Repr, DecidableEq

def timeoutOf (tos : List Nat) (s : Nat) : Nat := tos.getD s 0

/-- `now - last_ts` in uint64_t. -/
def diff64 (now last : Nat) : Nat := (now + u64 - last % u64) % u64

/-- switch_state_mapping / switch_state_session.  The C functions call
    themselves once more when the state's timeout has elapsed (with input -1 and
    `last_ts` already refreshed); `fuel` makes that recursion structural and
    `stepTimed_fuel` (Lemmas) shows that two levels are all it ever uses. -/
def stepTimedAux (tbl : TransTable) (tos : List Nat) : Nat → Fsm → Int → Nat → Fsm
  | 0, a, _, _ => a
  | fuel + 1, a, input, now =>
    let t := timeoutOf tos a.state
    let expired := t ≠ 0 ∧ diff64 now a.lastTs > t
    let input' : Int := if expired then -1 else input
    let a' : Fsm := { state := (lookup tbl a.state input').1, lastTs := now }
    if expired then stepTimedAux tbl tos fuel a' input' now else a'

def stepTimed (tbl : TransTable) (tos : List Nat) (a : Fsm) (input : Int) (now : Nat) : Fsm :=
  stepTimedAux tbl tos 2 a input now

/-- the same with a clock that moves WHILE the call runs: the function reads the clock once at entry (`now1`) and — only
    when the state had expired and it calls itself again — a second time (`now2`).  The decision and, unless expired, the
    stamp use the reading at entry. -/
def stepTimedR (tbl : TransTable) (tos : List Nat) (a : Fsm) (input : Int) (now1 now2 : Nat) : Fsm :=
  let t := timeoutOf tos a.state
  let expired := t ≠ 0 ∧ diff64 now1 a.lastTs > t
  let input' : Int := if expired then -1 else input
  let a' : Fsm := { state := (lookup tbl a.state input').1, lastTs := now1 }
  if expired then stepTimedAux tbl tos 1 a' input' now2 else a'

/-- switch_state_enumeration: no timeout handling. -/
def stepPlain (tbl : TransTable) (a : Fsm) (input : Int) (now : Nat) : Fsm :=
  { state := (lookup tbl a.state input).1, lastTs := now }

def stepMapping (a : Fsm) (input : Int) (now : Nat) : Fsm := stepTimed X.mappingTable X.mappingTimeouts a input now
def stepSession (a : Fsm) (input : Int) (now : Nat) : Fsm := stepTimed X.sessionTable X.sessionTimeouts a input now
def stepEnumeration (a : Fsm) (input : Int) (now : Nat) : Fsm := stepPlain X.enumerationTable a input now
def stepMappingR (a : Fsm) (input : Int) (now1 now2 : Nat) : Fsm := stepTimedR X.mappingTable X.mappingTimeouts a input now1 now2
def stepSessionR (a : Fsm) (input : Int) (now1 now2 : Nat) : Fsm := stepTimedR X.sessionTable X.sessionTimeouts a input now1 now2

/-! ## Mapping extra state -/

structure MapState where
  ctc      : Nat     -- uint8_t
  chargeTs : Nat
  inactTs  : Nat
deriving Repr, DecidableEq

def MapState.init : MapState := { ctc := 0, chargeTs := 0, inactTs := 0 }
def mapResetCharge (m : MapState) : MapState := { m with ctc := 0, chargeTs := 0 }
def mapOnCharge (m : MapState) (nowS : Nat) : MapState := { m with ctc := (m.ctc + 1) % u8, chargeTs := nowS + 1 }
def mapCheckCharge (m : MapState) (nowS : Nat) : MapState × Bool :=
  if m.chargeTs = 0 then (m, false)
  else if nowS ≥ m.chargeTs then ({ m with ctc := 0, chargeTs := 0 }, true) else (m, false)
def mapCheckInactive (m : MapState) (nowS : Nat) : Bool := m.inactTs ≠ 0 ∧ nowS ≥ m.inactTs
def mapResetInactive (m : MapState) (nowS : Nat) : MapState := { m with inactTs := nowS + 30 }

/-! ## RepeatBand -/

structure Band where
  ni      : Nat     -- uint32_t
  r       : Nat     -- uint32_t
  begun   : Bool
  helloTs : Nat     -- ms
  blockTs : Nat     -- ms
deriving Repr, DecidableEq

def Band.init : Band :=
  { ni := X.bandInitNi, r := X.bandInitR, begun := X.bandInitBegun ≠ 0, helloTs := X.bandInitHello, blockTs := X.bandInitBlock }

def bandInitStats (_b : Band) (nowMs : Nat) : Band :=
  { ni := X.bandAlpha, r := 0, begun := false, helloTs := 0, blockTs := nowMs + X.bandBlockTime }

/-- the `for (i = 1; i < BETA; i++) { p *= r; if (p > NMAX) p = NMAX; }` loop, in uint64_t -/
def satPowLoop (r : Nat) : Nat → Nat → Nat
  | 0, p => p
  | k + 1, p =>
    let p' := (p * r) % u64
    satPowLoop r k (if p' > X.bandNmax then X.bandNmax else p')

def bandNewNi (r : Nat) : Nat :=
  let p := satPowLoop r (X.bandBeta - 1) r
  let n := (X.bandAlpha * p) % u64
  if n > X.bandNmax then X.bandNmax else n % u32

def bandUpdateStats (b : Band) (nowMs : Nat) : Band :=
  let ni := if b.r > 0 ∧ b.begun then bandNewNi b.r else b.ni
  { b with ni := ni, r := 0, blockTs := nowMs + X.bandBlockTime }

def bandInterval (ni : Nat) : Nat :=
  let num := X.bandTxc * ni * 20
  let den := X.bandGamma * 3
  let q := num / den + (if num % den ≠ 0 then 1 else 0)
  if q < X.bandMulFrame1 then X.bandMulFrame1 else q

def bandChooseHelloTime (b : Band) (nowMs : Nat) : Band :=
  { b with helloTs := nowMs + bandInterval b.ni }

def bandDoHello (b : Band) (nowMs : Nat) : Band :=
  { bandChooseHelloTime b nowMs with begun := true }

def bandOnHelloReceived (b : Band) : Band :=
  let r := (b.r + 1) % u32
  { b with r := r, begun := if r ≥ X.bandGamma ∧ ¬ b.begun then true else b.begun }

/-! ## Session table -/

structure Entry where
  mac      : Mac
  gen      : Nat
  seq      : Nat
  state    : Nat
  complete : Bool
  valid    : Bool
  last     : Nat
  created  : Nat
deriving Repr, DecidableEq

def Entry.zero : Entry :=
  { mac := [0,0,0,0,0,0], gen := 0, seq := 0, state := 0, complete := false, valid := false, last := 0, created := 0 }

structure Table where
  entries     : List Entry
  count       : Nat        -- uint8_t
  allComplete : Bool
deriving Repr, DecidableEq

def Table.create : Table :=
  { entries := List.replicate X.maxEntries Entry.zero, count := 0, allComplete := true }

def Entry.matches (e : Entry) (mac : Mac) (gen : Nat) : Bool := e.valid && e.mac == mac && e.gen == gen

/-- session_table_find: index of the first valid slot with this (mac, generation) -/
def Table.find (t : Table) (mac : Mac) (gen : Nat) : Option Nat :=
  let i := t.entries.findIdx (fun e => e.matches mac gen)
  if i < t.entries.length then some i else none

def Table.firstFree (t : Table) : Option Nat :=
  let i := t.entries.findIdx (fun e => !e.valid)
  if i < t.entries.length then some i else none

/-- session_table_update_complete_status -/
def Table.updateStatus (t : Table) : Table :=
  { t with allComplete := t.entries.all (fun e => !e.valid || e.complete) }

/-- rewrite the first slot satisfying `p` (what the C loops with `break` / early `return` do) -/
def updateFirst (p : Entry → Bool) (f : Entry → Entry) : List Entry → List Entry
  | [] => []
  | e :: es => if p e then f e :: es else e :: updateFirst p f es

def newEntry (mac : Mac) (gen seq nowS : Nat) : Entry :=
  { mac := mac, gen := gen, seq := seq, state := X.sessNoack, complete := false, valid := true, last := nowS, created := nowS }

/-- session_table_add; returns the slot or none -/
def Table.add (t : Table) (mac : Mac) (gen seq nowS : Nat) : Table × Option Nat :=
  if t.entries.any (fun e => e.matches mac gen) then
    ({ t with entries := updateFirst (fun e => e.matches mac gen) (fun e => { e with seq := seq, last := nowS }) t.entries },
     t.find mac gen)
  else if t.entries.any (fun e => !e.valid) then
    ({ entries := updateFirst (fun e => !e.valid) (fun _ => newEntry mac gen seq nowS) t.entries,
       count := (t.count + 1) % u8, allComplete := false }, t.firstFree)
  else (t, none)

def Table.remove (t : Table) (mac : Mac) (gen : Nat) : Table :=
  let t' := if t.entries.any (fun e => e.matches mac gen) then
      { t with entries := updateFirst (fun e => e.matches mac gen) (fun e => { e with valid := false }) t.entries,
               count := if t.count > 0 then t.count - 1 else t.count }
    else t
  t'.updateStatus

def Table.clear (_t : Table) : Table := Table.create

def Table.isEmpty (t : Table) : Bool := t.count == 0

/-- what the Darwin glue does on an acknowledging Discover: `entry->complete = true` then update status -/
def Table.markComplete (t : Table) (mac : Mac) (gen : Nat) : Table :=
  ({ t with entries := updateFirst (fun e => e.matches mac gen) (fun e => { e with complete := true }) t.entries } : Table).updateStatus

/-- glue: `entry->state = ev; entry->last_activity_ts = now` -/
def Table.touch (t : Table) (mac : Mac) (gen st nowS : Nat) : Table :=
  { t with entries := updateFirst (fun e => e.matches mac gen) (fun e => { e with state := st, last := nowS }) t.entries }

/-- the expiry sweep of automata_tick -/
def expireLoop (nowS : Nat) : List Entry → Nat → List Entry × Nat
  | [], c => ([], c)
  | e :: es, c =>
    if e.valid ∧ nowS > e.last + 60 then
      let (es', c') := expireLoop nowS es (if c > 0 then c - 1 else c)
      ({ e with valid := false } :: es', c')
    else
      let (es', c') := expireLoop nowS es c
      (e :: es', c')

def Table.expire (t : Table) (nowS : Nat) : Table :=
  let (es, c) := expireLoop nowS t.entries t.count
  ({ t with entries := es, count := c } : Table).updateStatus

/-! ## automata_tick -/

inductive PortMode where
  | wired | nolast | none
deriving Repr, DecidableEq

structure TickState where
  mapping : Option (Fsm × Option MapState)
  enum    : Option (Fsm × Option Band)
  table   : Option Table
  lastTx  : Nat
deriving Repr, DecidableEq

/-- the mapping block of automata_tick (inactivity deadline, charge deadline) -/
def tickMapStage (mp : Option (Fsm × Option MapState)) (tb : Option Table) (nowS : Nat) :
    Option (Fsm × Option MapState) × Option Table :=
  match mp with
  | some (f, some m) =>
    let (f1, m1, tb1) :=
      if mapCheckInactive m nowS then
        (stepMapping f (-1) nowS, mapResetCharge { m with inactTs := 0 }, tb.map Table.clear)
      else (f, m, tb)
    (some (f1, some (mapCheckCharge m1 nowS).1), tb1)
  | other => (other, tb)

def tableEmptyOf (table : Option Table) : Bool := match table with | some t => t.isEmpty | none => true
def allCompleteOf (table : Option Table) : Bool := match table with | some t => t.allComplete | none => true

/-- the table-driven state update that precedes any transmit -/
def enumUpdate (e : Fsm) (b : Band) (tableEmpty allComplete : Bool) (nowS : Nat) : Fsm × Band :=
  if e.state ≠ 0 then
    if tableEmpty then ({ e with state := 0 }, { b with helloTs := 0, blockTs := 0, begun := false })
    else if allComplete then (stepEnumeration e X.enumSessComplete nowS, b)
    else (stepEnumeration e X.enumSessNotComplete nowS, b)
  else (e, b)

/-- the Hello-timeout branch (state Pausing): (automaton, band, last-transmit time stamp, Hellos sent) -/
def enumHello (e : Fsm) (b : Band) (lastTx0 : Nat) (port : PortMode) (nowMs : Nat) : Fsm × Band × Nat × List Nat :=
  if b.helloTs > 0 ∧ nowMs ≥ b.helloTs then
    let lastTx := match port with | .wired => lastTx0 | _ => 0
    if lastTx > 0 ∧ diff64 nowMs lastTx < X.helloMinIntervalMs then
      (e, { b with helloTs := lastTx + X.helloMinIntervalMs }, lastTx0, [])
    else
      let sent := match port with | .none => false | _ => true
      let lastTx' := match port with | .wired => nowMs | _ => lastTx0
      let b' := bandDoHello b nowMs
      let b'' := if b'.helloTs < nowMs + X.helloMinIntervalMs then { b' with helloTs := nowMs + X.helloMinIntervalMs } else b'
      (stepEnumeration e X.enumHello (nowMs / 1000), b'', lastTx', if sent then [nowMs] else [])
  else (e, b, lastTx0, [])

/-- the block-timeout branch -/
def enumBlock (b : Band) (nowMs : Nat) : Band :=
  if b.blockTs > 0 ∧ nowMs ≥ b.blockTs then bandChooseHelloTime (bandUpdateStats b nowMs) nowMs else b

/-- the enumeration block of automata_tick; returns the automaton, the last-transmit
    time stamp and the periodic Hellos sent (times in ms) -/
def tickEnumStage (en : Option (Fsm × Option Band)) (table : Option Table) (lastTx0 : Nat) (port : PortMode) (nowMs : Nat) :
    Option (Fsm × Option Band) × Nat × List Nat :=
  match en with
  | some (e, some b) =>
    let u := enumUpdate e b (tableEmptyOf table) (allCompleteOf table) (nowMs / 1000)
    if u.1.state = 1 then
      let r := enumHello u.1 u.2 lastTx0 port nowMs
      (some (r.1, some (enumBlock r.2.1 nowMs)), r.2.2.1, r.2.2.2)
    else (some (u.1, some u.2), lastTx0, [])
  | other => (other, lastTx0, [])

/-- one call of automata_tick; second component: the periodic Hellos sent (times in ms) -/
def tick (s : TickState) (port : PortMode) (nowMs : Nat) : TickState × List Nat :=
  let nowS := nowMs / 1000
  let (mapping, table) := tickMapStage s.mapping s.table nowS
  let table := table.map (fun t => t.expire nowS)
  let (en, lastTx, hellos) := tickEnumStage s.enum table s.lastTx port nowMs
  ({ mapping := mapping, enum := en, table := table, lastTx := lastTx }, hellos)

/-! ## automata_tick with a clock that moves while the tick runs

The function reads the millisecond clock once at entry (`nowMs`), then the seconds clock (`nowS`: only the session expiry uses
this reading); every deadline helper, automaton step and RepeatBand routine it calls reads the clock AGAIN (`nowL`, ms; their
seconds reading is `nowL / 1000`).  With all three equal this is `tick` (`tickR_same`). -/

def enumHelloR (e : Fsm) (b : Band) (lastTx0 : Nat) (port : PortMode) (nowMs nowL : Nat) : Fsm × Band × Nat × List Nat :=
  if b.helloTs > 0 ∧ nowMs ≥ b.helloTs then
    let lastTx := match port with | .wired => lastTx0 | _ => 0
    if lastTx > 0 ∧ diff64 nowMs lastTx < X.helloMinIntervalMs then
      (e, { b with helloTs := lastTx + X.helloMinIntervalMs }, lastTx0, [])
    else
      let sent := match port with | .none => false | _ => true
      let lastTx' := match port with | .wired => nowMs | _ => lastTx0
      let b' := bandDoHello b nowL
      let b'' := if b'.helloTs < nowMs + X.helloMinIntervalMs then { b' with helloTs := nowMs + X.helloMinIntervalMs } else b'
      (stepEnumeration e X.enumHello (nowL / 1000), b'', lastTx', if sent then [nowMs] else [])
  else (e, b, lastTx0, [])

def enumBlockR (b : Band) (nowMs nowL : Nat) : Band :=
  if b.blockTs > 0 ∧ nowMs ≥ b.blockTs then bandChooseHelloTime (bandUpdateStats b nowL) nowL else b

def tickEnumStageR (en : Option (Fsm × Option Band)) (table : Option Table) (lastTx0 : Nat) (port : PortMode) (nowMs nowL : Nat) :
    Option (Fsm × Option Band) × Nat × List Nat :=
  match en with
  | some (e, some b) =>
    let u := enumUpdate e b (tableEmptyOf table) (allCompleteOf table) (nowL / 1000)
    if u.1.state = 1 then
      let r := enumHelloR u.1 u.2 lastTx0 port nowMs nowL
      (some (r.1, some (enumBlockR r.2.1 nowMs nowL)), r.2.2.1, r.2.2.2)
    else (some (u.1, some u.2), lastTx0, [])
  | other => (other, lastTx0, [])

def tickR (s : TickState) (port : PortMode) (nowMs nowS nowL : Nat) : TickState × List Nat :=
  let (mapping, table) := tickMapStage s.mapping s.table (nowL / 1000)
  let table := table.map (fun t => t.expire nowS)
  let (en, lastTx, hellos) := tickEnumStageR s.enum table s.lastTx port nowMs nowL
  ({ mapping := mapping, enum := en, table := table, lastTx := lastTx }, hellos)

end LLTD
