/- No handler ever faults (reads outside the image, writes outside its allocation), whatever the allocator and the
   transmit path do. -/
import LLTD.Lemmas.Inv
import LLTD.Lemmas.Ledger

namespace LLTD

theorem mtuEff_le (c : Cfg) (hc : CfgOk c) : c.mtuEff ≤ 9216 := by
  unfold Cfg.mtuEff
  split
  · omega
  · exact hc.mtuHi

theorem sendProbeMsg_fault_free : True := trivial

/-- the descriptor loop never reads past the image when the count was clamped to what an MTU-sized buffer holds -/
theorem emitLoop_safe (c : Cfg) (st : St) (img : List Nat) (n L : Nat) (hL : L ≤ img.length) (hL2 : L ≤ 65535) (hn : 34 + n * 14 ≤ L) :
    ∀ (k i : Nat) (w : World) (fx : List Fx), i + k = n → (emitLoop c st img n k i w fx).2.2 = none := by
  intro k
  induction k with
  | zero => intro i w fx _; rfl
  | succ k ih =>
    intro i w fx hik
    have hlt : i * X.sizeofEmitee % u16 = i * 14 := by
      simp only [X.sizeofEmitee_val]; apply Nat.mod_eq_of_lt; unfold u16; omega
    have hrd : rdOk img (X.sizeofDemux + X.sizeofEmitHdr + i * X.sizeofEmitee % u16) X.sizeofEmitee = true := by
      rw [hlt]; apply rdOk_of_le; simp only [X.sizeofDemux_val, X.sizeofEmitHdr_val, X.sizeofEmitee_val]; omega
    rw [emitLoop]
    simp only [hrd, Bool.not_true, Bool.false_eq_true, if_false]
    exact ih (i + 1) _ _ (by omega)

theorem parseEmit_safe (c : Cfg) (w : World) (st : St) (img : List Nat) (hc : CfgOk c) (hlen : c.mtu ≤ img.length) :
    (parseEmit c w st img).fault = none := by
  unfold parseEmit
  by_cases hg : c.failMtu = true ∨ c.mtu < X.sizeofDemux + X.sizeofEmitHdr
  · simp only [if_pos hg]
  · simp only [if_neg hg]
    have hrd : rdOk img X.sizeofDemux 2 = true := by
      apply rdOk_of_le; simp only [X.sizeofDemux_val]; have := hc.mtuLo; omega
    simp only [hrd, Bool.not_true, Bool.false_eq_true, if_false]
    apply emitLoop_safe c _ img _ c.mtu hlen (by have := hc.mtuHi; omega) ?_ _ 0 w [] (by omega)
    have hlo := hc.mtuLo
    have hdm := Nat.div_mul_le_self (c.mtu - X.sizeofDemux - X.sizeofEmitHdr) X.sizeofEmitee
    by_cases hd : unbe (slice img X.sizeofDemux 2) > (c.mtu - X.sizeofDemux - X.sizeofEmitHdr) / X.sizeofEmitee
    · rw [if_pos hd]; simp only [X.sizeofDemux_val, X.sizeofEmitHdr_val, X.sizeofEmitee_val] at hdm ⊢; omega
    · rw [if_neg hd]; simp only [X.sizeofDemux_val, X.sizeofEmitHdr_val, X.sizeofEmitee_val] at hdm hd ⊢; omega

theorem parseProbe_safe (c : Cfg) (w : World) (st : St) (img : List Nat) : (parseProbe c w st img).fault = none := by
  unfold parseProbe
  simp only []
  repeat' split
  all_goals rfl

theorem parseQuery_safe (c : Cfg) (w : World) (st : St) (img : List Nat) (hc : CfgOk c) : (parseQuery c w st img).fault = none := by
  have hge := mtuEff_ge c hc
  unfold parseQuery
  simp only []
  by_cases hm : (w.malloc c.mtuEff).2 = true
  · simp only [hm, Bool.not_true, Bool.false_eq_true, if_false]
    have hh : ¬ (X.sizeofDemux + X.sizeofQryRespHdr > c.mtuEff) := by simp only [X.sizeofDemux_val, X.sizeofQryRespHdr_val]; omega
    simp only [if_neg hh]
  · simp only [Bool.not_eq_true] at hm
    simp only [hm, Bool.not_false, if_true]

theorem sendLarge_safe (c : Cfg) (w : World) (st : St) (img : List Nat) (data : Option (List Nat)) (off : Nat) :
    (sendLargeTlvResponse c w st img data off).fault = none := by
  unfold sendLargeTlvResponse
  simp only []
  generalize hp : (if c.mtuEff > X.sizeofDemux + X.sizeofQltlvResp then (c.mtuEff - (X.sizeofDemux + X.sizeofQltlvResp)) % u16 else 0) = p
  have hb := respFields_bounds p data off
  by_cases hm : (w.malloc (X.sizeofDemux + X.sizeofQltlvResp + p)).2 = true
  · simp only [hm, Bool.not_true, Bool.false_eq_true, if_false]
    have h1 : ¬((respFields p data off).1 > 0 ∧ off + (respFields p data off).1 > optLen data) := by
      intro h; have := hb.2 h.1; omega
    have h2 : ¬(X.sizeofDemux + X.sizeofQltlvResp + (respFields p data off).1 > X.sizeofDemux + X.sizeofQltlvResp + p) := by
      have := hb.1; omega
    simp only [if_neg h1, if_neg h2]
  · simp only [Bool.not_eq_true] at hm
    simp only [hm, Bool.not_false, if_true]

theorem parseQueryLargeTlv_safe (c : Cfg) (g : Glob) (w : World) (st : St) (img : List Nat) :
    (parseQueryLargeTlv c g w st img).fault = none := by
  unfold parseQueryLargeTlv qltlvIcon qltlvFname qltlvHwid
  simp only []
  repeat' split
  all_goals first | rfl | exact sendLarge_safe _ _ _ _ _ _ | (simp only []; exact sendLarge_safe _ _ _ _ _ _)

/-- parseFrameSt never faults: for every buffer image of the interface's MTU size, every state, every allocator /
    transmit behaviour -/
theorem parseFrameSt_safe (c : Cfg) (g : Glob) (w : World) (st : St) (img : List Nat) (hc : CfgOk c)
    (hlen : c.mtu ≤ img.length) (hl : 36 ≤ img.length) : (parseFrameSt c g w st img).fault = none := by
  unfold parseFrameSt
  simp only []
  split
  · rfl
  · next st' _ =>
    repeat' split
    all_goals first
      | rfl
      | exact answerHello_safe c g w st' img hc hl
      | exact parseEmit_safe c w st' img hc hlen
      | exact parseProbe_safe c w st' img
      | exact parseQuery_safe c w st' img hc
      | exact parseQueryLargeTlv_safe c g w st' img

end LLTD
