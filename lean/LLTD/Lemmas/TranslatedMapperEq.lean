/-
  `mapper_matches` and `set_active_mapper` of lltdBlock.c - the two functions every "one mapper at a time" decision of C05 goes through -
  AS TRANSLATED FROM THE C TEXT on every run (Generated/TranslatedWire.lean; the per-interface record is a region of bytes, the offsets
  of `mapper_real` / `mapper_apparent` / `mapper_known` come out of a probe that includes lltdBlock.c itself) are the model's
  `mapperMatches` / `setActiveMapper` under the encoding `Enc` of the model's record in those bytes.  No Mathlib.
-/
import LLTD.Lemmas.TranslatedWireEq
import LLTD.Model.Block

namespace LLTD.TMapEq
open LLTD LLTD.CSem LLTD.TWEq

/-- `compareEthernetAddress` as translated compares the first six bytes -/
theorem compare_eq (env : TW.Env) (a b : List Nat) (ha : 6 ≤ a.length) (hb : 6 ≤ b.length) :
    (TW.compareEthernetAddress env a b).ret = (a.take 6 == b.take 6) := by
  match a, ha, b, hb with
  | a0 :: a1 :: a2 :: a3 :: a4 :: a5 :: ra, _, b0 :: b1 :: b2 :: b3 :: b4 :: b5 :: rb, _ =>
    simp only [TW.compareEthernetAddress]
    have k : ∀ x y : Nat, (x == y) = decide (x = y) := fun x y => by by_cases h : x = y <;> simp [h]
    simp [rd, unle, int_beq, Bool.and_assoc, k]

/-- the bytes of a `lltd_iface_state` hold the mapper part of the model's record -/
structure Enc (b : List Nat) (st : St) : Prop where
  len   : 41 ≤ b.length
  real  : slice b 28 6 = st.mapperReal
  app   : slice b 34 6 = st.mapperApparent
  known : (byteAt b 40 != 0) = st.known

theorem mapper_matches_eq (env : TW.Env) (b : List Nat) (st : St) (rs : Mac) (h : Enc b st) (hrs : rs.length = 6) :
    (TW.mapper_matches env b rs).ret = mapperMatches st rs := by
  have h40 : unle (rd b (0 + 40) 1) = byteAt b 40 := by rw [Nat.zero_add]; exact unle_rd1 b 40 (by have := h.len; omega)
  have hd : 6 ≤ (List.drop 28 b).length := by rw [List.length_drop]; have := h.len; omega
  have hc := compare_eq env (List.drop 28 b) rs hd (by simp [hrs])
  have ht : List.take 6 (List.drop 28 b) = st.mapperReal := h.real
  have ht2 : List.take 6 rs = rs := List.take_of_length_le (Nat.le_of_eq hrs)
  rw [ht, ht2] at hc
  have hk := h.known
  cases hkn : st.known
  · rw [hkn] at hk
    have : byteAt b 40 = 0 := by simpa using hk
    simp [TW.mapper_matches, h40, this, mapperMatches, hkn]
  · rw [hkn] at hk
    have : byteAt b 40 ≠ 0 := by simpa using hk
    simp [TW.mapper_matches, h40, this, mapperMatches, hkn, hc]

/-- the record as the concatenation of what lies before the mapper fields (28 bytes: context pointer, list link, sees-list head and
    count), the real and the apparent address, the `known` byte and the rest -/
def recBytes (p r a : List Nat) (k : Nat) (rest : List Nat) : List Nat := p ++ (r ++ (a ++ (k :: rest)))

theorem enc_rec (p r a rest : List Nat) (k : Nat) (st : St) (hp : p.length = 28) (hr : r.length = 6) (ha : a.length = 6)
    (h1 : r = st.mapperReal) (h2 : a = st.mapperApparent) (h3 : (k != 0) = st.known) : Enc (recBytes p r a k rest) st := by
  refine ⟨by simp [recBytes, hp, hr, ha]; omega, ?_, ?_, ?_⟩
  · rw [← h1]; simp [recBytes, slice, List.drop_append, hp, List.take_append, hr]
  · rw [← h2]
    have : List.drop 34 (p ++ (r ++ (a ++ k :: rest))) = a ++ k :: rest := by
      rw [← List.append_assoc, List.drop_append_of_le_length (by simp [hp, hr])]
      simp [hp, hr]
    simp [recBytes, slice, this, List.take_append, ha]
  · rw [← h3]
    have : (p ++ (r ++ (a ++ k :: rest)))[40]? = some k := by
      rw [← List.append_assoc, ← List.append_assoc]
      rw [List.getElem?_append_right (by simp [hp, hr, ha])]
      simp [hp, hr, ha]
    simp [recBytes, byteAt, List.getD, this]

/-- **`set_active_mapper` as translated**: with a mapper already known the record is untouched; otherwise exactly the two addresses and the
    `known` byte are stored - the model's `setActiveMapper` in bytes -/
theorem set_active_mapper_eq (env : TW.Env) (p r a rest : List Nat) (k : Nat) (st : St) (rs es : Mac)
    (hp : p.length = 28) (hr : r.length = 6) (ha : a.length = 6) (hrs : rs.length = 6) (hes : es.length = 6)
    (h1 : r = st.mapperReal) (h2 : a = st.mapperApparent) (h3 : (k != 0) = st.known) :
    (TW.set_active_mapper env (recBytes p r a k rest) rs es).st =
      (if st.known then recBytes p r a k rest else recBytes p rs es 1 rest)
    ∧ Enc (TW.set_active_mapper env (recBytes p r a k rest) rs es).st (setActiveMapper st rs es) := by
  have henc := enc_rec p r a rest k st hp hr ha h1 h2 h3
  have h40 : unle (rd (recBytes p r a k rest) (0 + 40) 1) = k := by
    rw [Nat.zero_add, unle_rd1 _ 40 (by have := henc.len; omega)]
    have : (p ++ (r ++ (a ++ k :: rest)))[40]? = some k := by
      rw [← List.append_assoc, ← List.append_assoc]
      rw [List.getElem?_append_right (by simp [hp, hr, ha])]
      simp [hp, hr, ha]
    simp [recBytes, byteAt, List.getD, this]
  cases hkn : st.known
  · rw [hkn] at h3
    have hk0 : k = 0 := by simpa using h3
    subst hk0
    have h40' := h40
    simp only [recBytes, Nat.zero_add] at h40'
    have hst : (TW.set_active_mapper env (recBytes p r a 0 rest) rs es).st = recBytes p rs es 1 rest := by
      simp only [TW.set_active_mapper, h40, rd_zero_all _ 6 hrs, rd_zero_all _ 6 hes, le_one]
      simp (disch := (first | omega | simp [*])) only [recBytes, wr_skip, wr_skip_cons, wr_zero_one, wr_here, hp, hr, ha, hrs, hes,
        Nat.sub_self, Nat.reduceSub, Nat.reduceAdd, Nat.zero_add, List.length_cons, List.append_assoc, bne_self_eq_false, Bool.not_false, if_true,
        Nat.reduceMod]
    refine ⟨by simp [hst], ?_⟩
    rw [hst]
    exact enc_rec p rs es rest 1 _ hp hrs hes (by simp [setActiveMapper, hkn]) (by simp [setActiveMapper, hkn]) (by simp [setActiveMapper, hkn])
  · rw [hkn] at h3
    have hk0 : (k != 0) = true := h3
    have hst : (TW.set_active_mapper env (recBytes p r a k rest) rs es).st = recBytes p r a k rest := by
      simp [TW.set_active_mapper, h40, hk0]
    refine ⟨by simp [hst], ?_⟩
    rw [hst]
    have : setActiveMapper st rs es = st := by simp [setActiveMapper, hkn]
    rw [this]; exact henc

end LLTD.TMapEq
