/- The Hello property list of the model parses, with the independent decoder, to the list it was built from. -/
import LLTD.Model.Block
import LLTD.Spec.Decode
import LLTD.Lemmas.Bytes

namespace LLTD
open LLTD.Spec

def encodeTlvs (ps : List (Nat × List Nat)) : List Nat := ps.flatMap (fun p => tlv p.1 p.2) ++ [0]

theorem encodeTlvs_cons (p : Nat × List Nat) (ps : List (Nat × List Nat)) :
    encodeTlvs (p :: ps) = p.1 :: p.2.length :: (p.2 ++ encodeTlvs ps) := by
  simp [encodeTlvs, tlv, List.flatMap_cons]

theorem encodeTlvs_length_pos (ps : List (Nat × List Nat)) : 0 < (encodeTlvs ps).length := by
  simp [encodeTlvs]

/-- decoding an encoded property list returns it (types non-zero, enough fuel) -/
theorem parse_encode (ps : List (Nat × List Nat)) (h0 : ∀ p ∈ ps, p.1 ≠ 0) (fuel : Nat) (hf : ps.length < fuel) :
    parseTlvs fuel (encodeTlvs ps) = some ps := by
  induction ps generalizing fuel with
  | nil =>
    match fuel, hf with
    | k + 1, _ => simp [encodeTlvs, parseTlvs]
  | cons p ps ih =>
    match fuel, hf with
    | k + 1, hf =>
      have hp : p.1 ≠ 0 := h0 p (by simp)
      rw [encodeTlvs_cons]
      obtain ⟨t, v⟩ := p
      match t, hp with
      | t' + 1, _ =>
        simp only [parseTlvs]
        have hlen : ¬ (v ++ encodeTlvs ps).length < v.length := by simp
        rw [if_neg hlen]
        have hd : (v ++ encodeTlvs ps).drop v.length = encodeTlvs ps := List.drop_left
        have ht : (v ++ encodeTlvs ps).take v.length = v := List.take_left
        rw [hd, ht, ih (fun q hq => h0 q (by simp [hq])) k (by simp at hf; omega)]

/-- the (type, value) list answerHello emits -/
def wifiProps (c : Cfg) : List (Nat × List Nat) :=
  if c.wifi then
    [(X.tlvWifiMode, [c.mode])] ++ (if c.failBssid then [] else [(X.tlvBssid, c.bssid)]) ++
    [(X.tlvSsid, c.ssid.take 32), (X.tlvWifiMaxRate, be 2 (if c.failRate then 0 else c.rate)),
     (X.tlvWifiRssi, be 4 (i8ToU32 (if c.failRssi then 0 else c.rssi)))]
  else []

def helloProps (c : Cfg) (g : Glob) : List (Nat × List Nat) :=
  [(X.tlvHostId, c.ourMac), (X.tlvCharacteristics, be 4 ((c.flags * 65536) % u32)),
   (X.tlvIfType, be 4 (if c.failIfType then 0 else c.iftype)), (X.tlvIpv4, if c.failIpv4 then zeros 4 else c.ipv4),
   (X.tlvIpv6, if c.failIpv6 then zeros 16 else c.ipv6), (X.tlvPerfCounter, be 8 1000000),
   (X.tlvLinkSpeed, be 4 (if c.failSpeed then 0 else c.speed)), (X.tlvHostname, g.host.take 32)] ++
  wifiProps c ++
  [(X.tlvQos, be 4 (((X.qosL2Fwd ||| X.qosPrioTag ||| X.qosVlan) * 65536) % u32)), (X.tlvIconImage, []), (X.tlvFriendlyName, [])]

theorem helloTlvs_eq (c : Cfg) (g : Glob) : helloTlvs c g = encodeTlvs (helloProps c g) := by
  unfold helloTlvs helloProps wifiTlvs wifiProps encodeTlvs
  unfold tlvHostId tlvCharacteristics tlvIfType tlvIpv4 tlvIpv6 tlvPerf tlvSpeed tlvHostname tlvQos tlvIcon tlvFriendly
  by_cases hw : c.wifi = true
  · by_cases hb : c.failBssid = true
    · simp [hw, hb, tlvWifiMode, tlvBssid, tlvSsid, tlvRate, tlvRssi, List.flatMap_cons, List.flatMap_append, X.eop]
    · simp [hw, hb, tlvWifiMode, tlvBssid, tlvSsid, tlvRate, tlvRssi, List.flatMap_cons, List.flatMap_append, X.eop]
  · simp [hw, List.flatMap_cons, List.flatMap_append, X.eop]

/-- the types of the emitted properties, in order: four shapes (wired / Wi-Fi, BSSID available or not) -/
def helloTypes (c : Cfg) : List Nat :=
  [X.tlvHostId, X.tlvCharacteristics, X.tlvIfType, X.tlvIpv4, X.tlvIpv6, X.tlvPerfCounter, X.tlvLinkSpeed, X.tlvHostname] ++
  (if c.wifi then [X.tlvWifiMode] ++ (if c.failBssid then [] else [X.tlvBssid]) ++ [X.tlvSsid, X.tlvWifiMaxRate, X.tlvWifiRssi] else []) ++
  [X.tlvQos, X.tlvIconImage, X.tlvFriendlyName]

theorem helloProps_types (c : Cfg) (g : Glob) : (helloProps c g).map (·.1) = helloTypes c := by
  unfold helloProps wifiProps helloTypes
  by_cases hw : c.wifi = true <;> by_cases hb : c.failBssid = true <;> simp [hw, hb]

theorem helloTypes_cases (c : Cfg) :
    helloTypes c = [1, 2, 3, 7, 8, 10, 12, 15, 20, 14, 17] ∨
    helloTypes c = [1, 2, 3, 7, 8, 10, 12, 15, 4, 6, 9, 13, 20, 14, 17] ∨
    helloTypes c = [1, 2, 3, 7, 8, 10, 12, 15, 4, 5, 6, 9, 13, 20, 14, 17] := by
  unfold helloTypes
  by_cases hw : c.wifi = true <;> by_cases hb : c.failBssid = true <;> simp [hw, hb] <;> decide

theorem helloProps_length_le (c : Cfg) (g : Glob) : (helloProps c g).length ≤ 16 := by
  have h := congrArg List.length (helloProps_types c g)
  rw [List.length_map] at h
  rw [h]
  rcases helloTypes_cases c with e | e | e <;> rw [e] <;> decide

theorem helloProps_types_nonzero (c : Cfg) (g : Glob) : ∀ p ∈ helloProps c g, p.1 ≠ 0 := by
  intro p hp
  have hm : p.1 ∈ (helloProps c g).map (·.1) := List.mem_map.mpr ⟨p, hp, rfl⟩
  rw [helloProps_types] at hm
  rcases helloTypes_cases c with e | e | e <;> rw [e] at hm <;> intro h0 <;> rw [h0] at hm <;> revert hm <;> decide

/-- the model's Hello property list decodes to `helloProps` -/
theorem parse_helloTlvs (c : Cfg) (g : Glob) (fuel : Nat) (hf : 16 < fuel) :
    parseTlvs fuel (helloTlvs c g) = some (helloProps c g) := by
  rw [helloTlvs_eq]
  exact parse_encode _ (helloProps_types_nonzero c g) fuel (by have := helloProps_length_le c g; omega)

end LLTD
