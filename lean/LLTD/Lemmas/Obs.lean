/- From model effects to the observations the predicates are stated over. -/
import LLTD.Lemmas.Frame
import LLTD.Spec.Block

namespace LLTD
open LLTD.Spec

/-- what the harness prints for a port call -/
def toObs : Fx → FxObs
  | .sleep ms => .sleep ms
  | .send ok _ f => .tx ok f

/-- the observation of one received buffer image on interface `c` -/
def obsOf (c : Cfg) (g : Glob) (img : List Nat) (fx : List Fx) : RxObs :=
  { cfg := c, glob := g, frame := img, fx := fx.map toObs }

theorem sends_map_single (ok : Bool) (i : Nat) (f : List Nat) : sends ([Fx.send ok i f].map toObs) = [f] := rfl
theorem sends_map_sleep_single (ms : Nat) (ok : Bool) (i : Nat) (f : List Nat) :
    sends ([Fx.sleep ms, Fx.send ok i f].map toObs) = [f] := rfl

/-- the documented field positions are the ones the model reads -/
theorem spec_fTos (img : List Nat) : Spec.fTos img = LLTD.fTos img := by simp [Spec.fTos, LLTD.fTos]
theorem spec_fOp (img : List Nat) : Spec.fOp img = LLTD.fOpcode img := by simp [Spec.fOp, LLTD.fOpcode]
theorem spec_fRealSrc (img : List Nat) : Spec.fRealSrc img = LLTD.fRealSrc img := by simp [Spec.fRealSrc, LLTD.fRealSrc]
theorem spec_fEthSrc (img : List Nat) : Spec.fEthSrc img = LLTD.fEthSrc img := by simp [Spec.fEthSrc, LLTD.fEthSrc]
theorem spec_fEthDst (img : List Nat) : Spec.fEthDst img = LLTD.fEthDst img := by simp [Spec.fEthDst, LLTD.fEthDst]
theorem spec_fRealDst (img : List Nat) : Spec.fRealDst img = LLTD.fRealDst img := by simp [Spec.fRealDst, LLTD.fRealDst]
theorem spec_fSeq (img : List Nat) : Spec.fSeq img = LLTD.fSeq img := by simp [Spec.fSeq, LLTD.fSeq]
theorem spec_gen (img : List Nat) : unbe (slice img 32 2) = LLTD.fDiscGen img := by simp [LLTD.fDiscGen]

theorem isDiscover_iff (img : List Nat) :
    isDiscover img = true ↔ 36 ≤ img.length ∧ (LLTD.fTos img = 0 ∨ LLTD.fTos img = 1) ∧ LLTD.fOpcode img = 0 := by
  simp only [isDiscover, spec_fTos, spec_fOp, Bool.and_eq_true, decide_eq_true_eq, beq_iff_eq]
  constructor
  · rintro ⟨⟨h1, h2⟩, h3⟩; exact ⟨h1, by omega, h3⟩
  · rintro ⟨h1, h2, h3⟩; exact ⟨⟨h1, by omega⟩, h3⟩

end LLTD
