/- A world without scheduled faults stays one through every handler. -/
import LLTD.Lemmas.Frame

namespace LLTD

/-- no platform fault is scheduled -/
structure NoFault (w : World) : Prop where
  m  : w.failMalloc = []
  s  : w.failSend = []
  ma : w.failMallocAll = false
  sa : w.failSendAll = false

/-- no ALLOCATION fault is scheduled; transmits may be refused in any pattern -/
structure NoMFault (w : World) : Prop where
  m  : w.failMalloc = []
  ma : w.failMallocAll = false

theorem NoFault.noM {w : World} (h : NoFault w) : NoMFault w := ⟨h.m, h.ma⟩

/-- same fault schedule -/
def World.sameSched (a b : World) : Prop :=
  b.failMalloc = a.failMalloc ∧ b.failSend = a.failSend ∧ b.failMallocAll = a.failMallocAll ∧ b.failSendAll = a.failSendAll

theorem sched_refl (w : World) : w.sameSched w := ⟨rfl, rfl, rfl, rfl⟩
theorem sched_trans {a b c : World} (h1 : a.sameSched b) (h2 : b.sameSched c) : a.sameSched c :=
  ⟨h2.1.trans h1.1, h2.2.1.trans h1.2.1, h2.2.2.1.trans h1.2.2.1, h2.2.2.2.trans h1.2.2.2⟩

theorem nf_of_sched {a b : World} (h : NoFault a) (hs : a.sameSched b) : NoFault b :=
  ⟨hs.1.trans h.m, hs.2.1.trans h.s, hs.2.2.1.trans h.ma, hs.2.2.2.trans h.sa⟩

theorem malloc_sched (w : World) (n : Nat) : w.sameSched (w.malloc n).1 := by
  unfold World.malloc; simp only []; split <;> exact ⟨rfl, rfl, rfl, rfl⟩
theorem free_sched (w : World) (n : Nat) : w.sameSched (w.free n) := ⟨rfl, rfl, rfl, rfl⟩
theorem send_sched (w : World) : w.sameSched w.send.1 := ⟨rfl, rfl, rfl, rfl⟩
theorem raw_sched (w : World) (n : Nat) : w.sameSched (w.rawAlloc n) := ⟨rfl, rfl, rfl, rfl⟩
theorem sendFx_sched (c : Cfg) (w : World) (f : List Nat) : w.sameSched (sendFx c w f).1 := ⟨rfl, rfl, rfl, rfl⟩

theorem nmf_of_sched {a b : World} (h : NoMFault a) (hs : a.sameSched b) : NoMFault b :=
  ⟨hs.1.trans h.m, hs.2.2.1.trans h.ma⟩

theorem malloc_nmf (w : World) (n : Nat) (h : NoMFault w) : (w.malloc n).2 = true := by
  unfold World.malloc
  simp [h.ma, h.m]

theorem malloc_nf (w : World) (n : Nat) (h : NoFault w) : (w.malloc n).2 = true := by
  unfold World.malloc
  simp [h.ma, h.m]

theorem send_nf (w : World) (h : NoFault w) : w.send.2 = true := by
  unfold World.send
  simp [h.sa, h.s]

theorem freeNodes_sched (w : World) (k : Nat) : w.sameSched (freeNodes w k) := by
  induction k generalizing w with
  | zero => exact sched_refl w
  | succ k ih => simp only [freeNodes]; exact sched_trans (free_sched w _) (ih _)

theorem sendProbeMsg_sched (c : Cfg) (st : St) (w : World) (fx : List Fx) (src dst : Mac) (pause ty : Nat) (ack : Bool) :
    w.sameSched (sendProbeMsg c st w fx src dst pause ty ack).1 := by
  unfold sendProbeMsg
  simp only []
  have h1 := malloc_sched w X.sizeofDemux
  repeat' split
  all_goals first
    | exact h1
    | exact sched_trans h1 (sched_trans (sendFx_sched c _ _) (free_sched _ _))
    | exact sched_trans h1 (sched_trans (sendFx_sched c _ _) (sched_trans (sendFx_sched c _ _) (free_sched _ _)))

theorem emitLoop_sched (c : Cfg) (st : St) (img : List Nat) (n : Nat) :
    ∀ (k i : Nat) (w : World) (fx : List Fx), w.sameSched (emitLoop c st img n k i w fx).1 := by
  intro k
  induction k with
  | zero => intro i w fx; exact sched_refl w
  | succ k ih =>
    intro i w fx
    rw [emitLoop]
    simp only []
    split
    · exact sched_refl w
    · split
      · exact sched_trans (sendProbeMsg_sched c st w fx _ _ _ _ _) (ih _ _ _)
      · exact ih _ _ _

theorem parseEmit_sched (c : Cfg) (w : World) (st : St) (img : List Nat) : w.sameSched (parseEmit c w st img).w := by
  unfold parseEmit
  simp only []
  split
  · exact sched_refl w
  · split
    · exact sched_refl w
    · exact emitLoop_sched c _ img _ _ _ _ _

theorem answerHello_sched (c : Cfg) (g : Glob) (w : World) (st : St) (img : List Nat) : w.sameSched (answerHello c g w st img).w := by
  unfold answerHello
  simp only []
  have h1 := malloc_sched w c.mtuEff
  repeat' split
  all_goals first
    | exact h1
    | exact sched_trans h1 (sched_trans (sendFx_sched c _ _) (free_sched _ _))

theorem parseProbe_sched (c : Cfg) (w : World) (st : St) (img : List Nat) : w.sameSched (parseProbe c w st img).w := by
  unfold parseProbe
  simp only []
  have h1 := malloc_sched w X.nodeBytes
  repeat' split
  all_goals first
    | exact sched_refl w
    | exact h1
    | exact sched_trans h1 (free_sched _ _)

theorem parseQuery_sched (c : Cfg) (w : World) (st : St) (img : List Nat) : w.sameSched (parseQuery c w st img).w := by
  unfold parseQuery
  simp only []
  have h1 := malloc_sched w c.mtuEff
  repeat' split
  all_goals first
    | exact h1
    | exact sched_trans h1 (sched_trans (sendFx_sched c _ _) (sched_trans (free_sched _ _) (freeNodes_sched _ _)))

theorem sendLarge_sched (c : Cfg) (w : World) (st : St) (img : List Nat) (d : Option (List Nat)) (off : Nat) :
    w.sameSched (sendLargeTlvResponse c w st img d off).w := by
  unfold sendLargeTlvResponse
  simp only []
  generalize hp : (if c.mtuEff > X.sizeofDemux + X.sizeofQltlvResp then (c.mtuEff - (X.sizeofDemux + X.sizeofQltlvResp)) % u16 else 0) = p
  have h1 := malloc_sched w (X.sizeofDemux + X.sizeofQltlvResp + p)
  repeat' split
  all_goals first
    | exact h1
    | exact sched_trans h1 (sched_trans (sendFx_sched c _ _) (free_sched _ _))

theorem parseQueryLargeTlv_sched (c : Cfg) (g : Glob) (w : World) (st : St) (img : List Nat) :
    w.sameSched (parseQueryLargeTlv c g w st img).w := by
  unfold parseQueryLargeTlv qltlvIcon qltlvFname qltlvHwid
  simp only []
  repeat' split
  all_goals first
    | exact sched_refl w
    | exact sendLarge_sched _ _ _ _ _ _
    | exact sched_trans (raw_sched w _) (sendLarge_sched _ _ _ _ _ _)
    | exact sched_trans (raw_sched w _) (sched_trans (sendLarge_sched _ _ _ _ _ _) (free_sched _ _))
    | exact sched_trans (malloc_sched w 64) (sendLarge_sched _ _ _ _ _ _)
    | exact sched_trans (malloc_sched w 64) (sched_trans (sendLarge_sched _ _ _ _ _ _) (free_sched _ _))

theorem resetWorld_sched (w : World) (st : St) : w.sameSched (resetWorld w st) := by
  unfold resetWorld
  simp only []
  split
  · exact sched_trans (freeNodes_sched w _) (free_sched _ _)
  · exact freeNodes_sched w _

/-- no handler changes which faults are scheduled -/
theorem parseFrameSt_sched (c : Cfg) (g : Glob) (w : World) (st : St) (img : List Nat) : w.sameSched (parseFrameSt c g w st img).w := by
  unfold parseFrameSt
  simp only []
  split
  · exact sched_refl w
  · next st' _ =>
    repeat' split
    all_goals first
      | exact sched_refl w
      | exact answerHello_sched c g w st' img
      | exact parseEmit_sched c w st' img
      | exact parseProbe_sched c w st' img
      | exact parseQuery_sched c w st' img
      | exact parseQueryLargeTlv_sched c g w st' img
      | exact resetWorld_sched w st'

end LLTD
