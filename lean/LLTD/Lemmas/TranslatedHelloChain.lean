/-
  The TLV writers of lltdTlvOps.c as translated from the C text, COMPOSED the way `answerHello` (lltdBlock.c) composes them -
  `offset += setXTLV(buffer, offset, …)` one after the other on the zeroed transmit buffer - write exactly the model's `helloTlvs`.
  The writers are the translated ones (Generated/TranslatedWire.lean); the composition (`helloChain` below: the order of the calls, the
  wireless block guarded by the mode getter, the offset bookkeeping) is transcribed by hand from answerHello and stays tied to the C text
  by the correspondence runs only.  No Mathlib.
-/
import LLTD.Lemmas.TranslatedWireEq

namespace LLTD.TChain
open LLTD LLTD.CSem LLTD.TWEq

/-- a writer: buffer and offset in, buffer and number of bytes the caller advances by out -/
abbrev Writer := List Nat → Nat → List Nat × Nat

/-- `f` writes exactly `tl` at the offset of a zeroed tail with room and reports its length -/
def Writes (f : Writer) (tl : List Nat) : Prop :=
  ∀ (pre : List Nat) (k : Nat), tl.length ≤ k →
    f (pre ++ List.replicate k 0) pre.length = (pre ++ (tl ++ List.replicate (k - tl.length) 0), tl.length)

/-- `offset += f(buffer, offset); offset += g(buffer, offset);` -/
def seq (f g : Writer) : Writer := fun buf off =>
  let r1 := f buf off
  let r2 := g r1.1 (off + r1.2)
  (r2.1, r1.2 + r2.2)

theorem writes_seq (f g : Writer) (a b : List Nat) (hf : Writes f a) (hg : Writes g b) : Writes (seq f g) (a ++ b) := by
  intro pre k hk
  simp only [List.length_append] at hk
  simp only [seq]
  rw [hf pre k (by omega)]
  simp only
  have := hg (pre ++ a) (k - a.length) (by omega)
  rw [List.length_append] at this
  rw [← List.append_assoc, this]
  have e : k - a.length - b.length = k - (a.length + b.length) := by omega
  simp only [List.append_assoc, List.length_append, e]

theorem writes_of_eq (f : Writer) (tl : List Nat) (n : Nat) (htl : tl.length = n + 2)
    (h : ∀ pre rest w0 w1, f (pre ++ w0 :: w1 :: rest) pre.length = (pre ++ (tl ++ rest.drop n), n + 2)) : Writes f tl := by
  intro pre k hk
  obtain ⟨m, rfl⟩ : ∃ m, k = m + 2 := ⟨k - 2, by omega⟩
  have hr : List.replicate (m + 2) 0 = 0 :: 0 :: List.replicate m 0 := by simp [List.replicate_succ]
  rw [hr, h pre (List.replicate m 0) 0 0, htl]
  have : m + 2 - (n + 2) = m - n := by omega
  simp [List.drop_replicate, this]

def skip : Writer := fun buf _ => (buf, 0)
theorem writes_skip : Writes skip [] := by intro pre k _; simp [skip]

/-! ## The writers as `Writer`s -/

def wHostId (env : TW.Env) : Writer := fun b o => ((TW.setHostIdTLV env b o).buffer, (TW.setHostIdTLV env b o).ret)
def wChar (env : TW.Env) : Writer := fun b o => ((TW.setCharacteristicsTLV env b o).buffer, (TW.setCharacteristicsTLV env b o).ret)
def wMedium (env : TW.Env) : Writer := fun b o => ((TW.setPhysicalMediumTLV env b o).buffer, (TW.setPhysicalMediumTLV env b o).ret)
def wIpv4 (env : TW.Env) : Writer := fun b o => ((TW.setIPv4TLV env b o).buffer, (TW.setIPv4TLV env b o).ret)
def wIpv6 (env : TW.Env) : Writer := fun b o => ((TW.setIPv6TLV env b o).buffer, (TW.setIPv6TLV env b o).ret)
def wPerf (env : TW.Env) : Writer := fun b o => ((TW.setPerfCounterTLV env b o).buffer, (TW.setPerfCounterTLV env b o).ret)
def wSpeed (env : TW.Env) : Writer := fun b o => ((TW.setLinkSpeedTLV env b o).buffer, (TW.setLinkSpeedTLV env b o).ret)
def wHost (env : TW.Env) : Writer := fun b o => ((TW.setHostnameTLV env b o).buffer, (TW.setHostnameTLV env b o).ret)
def wMode (env : TW.Env) : Writer := fun b o => ((TW.setWirelessTLV env b o).buffer, (TW.setWirelessTLV env b o).ret)
def wBssid (env : TW.Env) : Writer := fun b o => ((TW.setBSSIDTLV env b o).buffer, (TW.setBSSIDTLV env b o).ret)
def wSsid (env : TW.Env) : Writer := fun b o => ((TW.setSSIDTLV env b o).buffer, (TW.setSSIDTLV env b o).ret)
def wRate (env : TW.Env) : Writer := fun b o => ((TW.setWifiMaxRateTLV env b o).buffer, (TW.setWifiMaxRateTLV env b o).ret)
def wRssi (env : TW.Env) : Writer := fun b o => ((TW.setWifiRssiTLV env b o).buffer, (TW.setWifiRssiTLV env b o).ret)
def wQos (env : TW.Env) : Writer := fun b o => ((TW.setQosCharacteristicsTLV env b o).buffer, (TW.setQosCharacteristicsTLV env b o).ret)
def wIcon (env : TW.Env) : Writer := fun b o => ((TW.setIconImageTLV env b o).buffer, (TW.setIconImageTLV env b o).ret)
def wFriendly (env : TW.Env) : Writer := fun b o => ((TW.setFriendlyNameTLV env b o).buffer, (TW.setFriendlyNameTLV env b o).ret)
def wEop (env : TW.Env) : Writer := fun b o => ((TW.setEndOfPropertyTLV env b o).buffer, (TW.setEndOfPropertyTLV env b o).ret)

/-- the wireless block of answerHello: entered when the mode getter succeeds -/
def wifiChain (env : TW.Env) (wifi : Bool) : Writer :=
  if wifi then seq (wMode env) (seq (wBssid env) (seq (wSsid env) (seq (wRate env) (wRssi env)))) else skip

/-- the property list as answerHello writes it -/
def helloChain (env : TW.Env) (wifi : Bool) : Writer :=
  seq (wHostId env) (seq (wChar env) (seq (wMedium env) (seq (wIpv4 env) (seq (wIpv6 env) (seq (wPerf env) (seq (wSpeed env)
    (seq (wHost env) (seq (wifiChain env wifi) (seq (wQos env) (seq (wIcon env) (seq (wFriendly env) (wEop env))))))))))))

section
variable (base : TW.Env) (c : Cfg) (g : Glob)

theorem w_hostId (hc : CfgOk c) : Writes (wHostId (envOf c g base)) (tlvHostId c) :=
  writes_of_eq _ _ 6 (by simp [tlvHostId, tlv, ourMac_length c hc]) (fun pre rest w0 w1 => by
    have h := setHostIdTLV_eq base c g pre rest w0 w1 hc
    simp [wHostId, h.1, h.2])

theorem w_char : Writes (wChar (envOf c g base)) (tlvCharacteristics c) :=
  writes_of_eq _ _ 4 (by simp [tlvCharacteristics, tlv]) (fun pre rest w0 w1 => by
    have h := setCharacteristicsTLV_eq base c g pre rest w0 w1
    simp [wChar, h.1, h.2])

theorem w_medium (hr : c.iftype < u32) : Writes (wMedium (envOf c g base)) (tlvIfType c) :=
  writes_of_eq _ _ 4 (by simp [tlvIfType, tlv]) (fun pre rest w0 w1 => by
    have h := setPhysicalMediumTLV_eq base c g pre rest w0 w1 hr
    simp [wMedium, h.1, h.2])

theorem w_ipv4 (hc : CfgOk c) (hb : isBytes c.ipv4) : Writes (wIpv4 (envOf c g base)) (tlvIpv4 c) :=
  writes_of_eq _ _ 4 (by have h4 := hc.ipv4; cases hf : c.failIpv4 <;> simp [tlvIpv4, tlv, hf, zeros, h4]) (fun pre rest w0 w1 => by
    have h := setIPv4TLV_eq base c g pre rest w0 w1 hc hb
    simp [wIpv4, h.1, h.2])

theorem w_ipv6 (hc : CfgOk c) : Writes (wIpv6 (envOf c g base)) (tlvIpv6 c) :=
  writes_of_eq _ _ 16 (by have h6 := hc.ipv6; cases hf : c.failIpv6 <;> simp [tlvIpv6, tlv, hf, zeros, h6]) (fun pre rest w0 w1 => by
    have h := setIPv6TLV_eq base c g pre rest w0 w1 hc
    simp [wIpv6, h.1, h.2])

theorem w_perf (hun : 8 ≤ (base.uninit 8).length) : Writes (wPerf (envOf c g base)) tlvPerf :=
  writes_of_eq _ _ 8 (by decide) (fun pre rest w0 w1 => by
    have h := setPerfCounterTLV_eq (envOf c g base) pre rest w0 w1 (by simpa [envOf] using hun)
    simp [wPerf, h.1, h.2])

theorem w_speed (hr : c.speed < u32) : Writes (wSpeed (envOf c g base)) (tlvSpeed c) :=
  writes_of_eq _ _ 4 (by simp [tlvSpeed, tlv]) (fun pre rest w0 w1 => by
    have h := setLinkSpeedTLV_eq base c g pre rest w0 w1 hr
    simp [wSpeed, h.1, h.2])

theorem w_host (hl : g.host.length < 18446744073709551616) : Writes (wHost (envOf c g base)) (tlvHostname g) :=
  writes_of_eq _ _ (g.host.take 32).length (by simp [tlvHostname, tlv]) (fun pre rest w0 w1 => by
    have h := setHostnameTLV_eq base c g pre rest w0 w1 hl
    simp [wHost, h.1, h.2, Nat.add_comm])

theorem w_qos : Writes (wQos (envOf c g base)) tlvQos :=
  writes_of_eq _ _ 4 (by decide) (fun pre rest w0 w1 => by
    have h := setQosCharacteristicsTLV_eq (envOf c g base) pre rest w0 w1
    simp [wQos, h.1, h.2])

theorem w_icon : Writes (wIcon (envOf c g base)) tlvIcon :=
  writes_of_eq _ _ 0 (by decide) (fun pre rest w0 w1 => by
    have h := setIconImageTLV_eq (envOf c g base) pre rest w0 w1
    simp [wIcon, h.1, h.2])

theorem w_friendly : Writes (wFriendly (envOf c g base)) tlvFriendly :=
  writes_of_eq _ _ 0 (by decide) (fun pre rest w0 w1 => by
    have h := setFriendlyNameTLV_eq (envOf c g base) pre rest w0 w1
    simp [wFriendly, h.1, h.2])

theorem w_eop : Writes (wEop (envOf c g base)) [X.eop] := by
  intro pre k hk
  obtain ⟨m, rfl⟩ : ∃ m, k = m + 1 := ⟨k - 1, by simp at hk; omega⟩
  have hr : List.replicate (m + 1) 0 = 0 :: List.replicate m 0 := by simp [List.replicate_succ]
  have h := setEndOfPropertyTLV_eq (envOf c g base) pre (List.replicate m 0) 0
  rw [hr]
  simp [wEop, h.1, h.2]

theorem w_mode (hw : c.wifi = true) (hm : c.mode < 256) : Writes (wMode (envOf c g base)) (tlvWifiMode c) :=
  writes_of_eq _ _ 1 (by simp [tlvWifiMode, tlv]) (fun pre rest w0 w1 => by
    have h := setWirelessTLV_eq base c g pre rest w0 w1 hw hm
    simp [wMode, h.1, h.2])

theorem w_bssid (hc : CfgOk c) (hun : 6 ≤ (base.uninit 6).length) : Writes (wBssid (envOf c g base)) (tlvBssid c) := by
  cases hf : c.failBssid
  · have e : tlvBssid c = tlv X.tlvBssid c.bssid := by simp [tlvBssid, hf]
    rw [e]
    exact writes_of_eq _ _ 6 (by simp [tlv, hc.bssid6]) (fun pre rest w0 w1 => by
      have h := setBSSIDTLV_eq base c g pre rest w0 w1 hc hun
      simp [wBssid, h.1, h.2, hf])
  · have e : tlvBssid c = [] := by simp [tlvBssid, hf]
    rw [e]
    intro pre k _
    have h2 : (toSI 32 (-1 : Int) != (0 : Int)) = true := by decide
    simp [wBssid, TW.setBSSIDTLV, envOf, hf, h2]

theorem w_ssid (hl : c.ssid.length < 18446744073709551616) : Writes (wSsid (envOf c g base)) (tlvSsid c) :=
  writes_of_eq _ _ (c.ssid.take 32).length (by simp [tlvSsid, tlv]) (fun pre rest w0 w1 => by
    have h := setSSIDTLV_eq base c g pre rest w0 w1 hl
    simp [wSsid, h.1, h.2, Nat.add_comm])

theorem w_rate (hr : c.rate < 65536) : Writes (wRate (envOf c g base)) (tlvRate c) :=
  writes_of_eq _ _ 2 (by simp [tlvRate, tlv]) (fun pre rest w0 w1 => by
    have h := setWifiMaxRateTLV_eq base c g pre rest w0 w1 hr
    simp [wRate, h.1, h.2])

theorem w_rssi (hlo : -128 ≤ c.rssi) (hhi : c.rssi ≤ 127) : Writes (wRssi (envOf c g base)) (tlvRssi c) :=
  writes_of_eq _ _ 4 (by simp [tlvRssi, tlv]) (fun pre rest w0 w1 => by
    have h := setWifiRssiTLV_eq base c g pre rest w0 w1 hlo hhi
    simp [wRssi, h.1, h.2])

/-- what the environment is assumed to hand out for uninitialised local arrays: as many bytes as the array has -/
structure EnvOk (base : TW.Env) : Prop where
  un6 : 6 ≤ (base.uninit 6).length
  un8 : 8 ≤ (base.uninit 8).length

theorem wifiChain_writes (hc : CfgOk c) (hm : c.mode < 256) (hr : c.rate < 65536) (hlo : -128 ≤ c.rssi) (hhi : c.rssi ≤ 127)
    (hl : c.ssid.length < 18446744073709551616) (he : EnvOk base) :
    Writes (wifiChain (envOf c g base) c.wifi) (wifiTlvs c) := by
  cases hw : c.wifi
  · simp only [wifiChain, wifiTlvs, hw, Bool.false_eq_true, if_false]; exact writes_skip
  · simp only [wifiChain, wifiTlvs, hw, if_true]
    have := writes_seq _ _ _ _ (w_mode base c g hw hm) (writes_seq _ _ _ _ (w_bssid base c g hc he.un6)
      (writes_seq _ _ _ _ (w_ssid base c g hl) (writes_seq _ _ _ _ (w_rate base c g hr) (w_rssi base c g hlo hhi))))
    simpa [List.append_assoc] using this

/-- **the property list of a Hello, written by the translated writers in answerHello's order into a zeroed buffer with room, is the
    model's `helloTlvs c g`, and the offsets add up to its length** -/
theorem helloChain_writes (hc : CfgOk c) (hif : c.iftype < u32) (hsp : c.speed < u32) (hm : c.mode < 256) (hr : c.rate < 65536)
    (hlo : -128 ≤ c.rssi) (hhi : c.rssi ≤ 127) (hb4 : isBytes c.ipv4) (hh : g.host.length < 18446744073709551616)
    (hl : c.ssid.length < 18446744073709551616) (he : EnvOk base) :
    Writes (helloChain (envOf c g base) c.wifi) (helloTlvs c g) := by
  have := writes_seq _ _ _ _ (w_hostId base c g hc) (writes_seq _ _ _ _ (w_char base c g) (writes_seq _ _ _ _ (w_medium base c g hif)
    (writes_seq _ _ _ _ (w_ipv4 base c g hc hb4) (writes_seq _ _ _ _ (w_ipv6 base c g hc) (writes_seq _ _ _ _ (w_perf base c g he.un8)
    (writes_seq _ _ _ _ (w_speed base c g hsp) (writes_seq _ _ _ _ (w_host base c g hh)
    (writes_seq _ _ _ _ (wifiChain_writes base c g hc hm hr hlo hhi hl he) (writes_seq _ _ _ _ (w_qos base c g)
    (writes_seq _ _ _ _ (w_icon base c g) (writes_seq _ _ _ _ (w_friendly base c g) (w_eop base c g))))))))))))
  simpa [helloChain, helloTlvs, List.append_assoc] using this

end

end LLTD.TChain
