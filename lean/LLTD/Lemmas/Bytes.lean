/- Byte-level lemmas: `be`/`unbe` round trip, slices of concatenations. -/
import LLTD.Model.Bytes

namespace LLTD

@[simp] theorem be_length (n v : Nat) : (be n v).length = n := by
  induction n generalizing v with
  | zero => rfl
  | succ k ih => simp [be, ih]

theorem unbe_append_single (bs : List Nat) (b : Nat) : unbe (bs ++ [b]) = unbe bs * 256 + b := by
  unfold unbe
  rw [List.foldl_append]
  rfl

/-- decoding what `be` produced gives the value back, reduced to the field width -/
theorem unbe_be (n v : Nat) : unbe (be n v) = v % 256 ^ n := by
  induction n generalizing v with
  | zero => simp [be, unbe, Nat.mod_one]
  | succ k ih =>
    simp only [be]
    rw [unbe_append_single, ih]
    have h256 : (256 : Nat) ^ (k + 1) = 256 ^ k * 256 := Nat.pow_succ 256 k
    rw [h256]
    have key : v % (256 ^ k * 256) = v % 256 + 256 * (v / 256 % 256 ^ k) := by
      rw [Nat.mul_comm (256 ^ k) 256, Nat.mod_mul]
    rw [key, Nat.mul_comm]
    omega

theorem unbe_be_of_lt (n v : Nat) (h : v < 256 ^ n) : unbe (be n v) = v := by
  rw [unbe_be, Nat.mod_eq_of_lt h]

theorem be_isBytes (n v : Nat) : isBytes (be n v) := by
  induction n generalizing v with
  | zero => intro b hb; simp [be] at hb
  | succ k ih =>
    intro b hb
    simp only [be, List.mem_append, List.mem_singleton] at hb
    rcases hb with hb | hb
    · exact ih _ b hb
    · rw [hb]; exact Nat.mod_lt _ (by decide)

/-- two bytes decode to a 16-bit value -/
theorem unbe_two_lt (a b : Nat) (ha : a < 256) (hb : b < 256) : unbe [a, b] < 65536 := by
  simp only [unbe, List.foldl]
  omega

theorem slice_length_le (img : List Nat) (off n : Nat) : (slice img off n).length ≤ n := by
  unfold slice; simp [List.length_take]; omega

theorem slice_length (img : List Nat) (off n : Nat) (h : off + n ≤ img.length) : (slice img off n).length = n := by
  unfold slice; simp [List.length_take, List.length_drop]; omega

theorem slice_isBytes (img : List Nat) (off n : Nat) (h : isBytes img) : isBytes (slice img off n) := by
  intro b hb
  unfold slice at hb
  exact h b (List.mem_of_mem_drop (List.mem_of_mem_take hb))

/-- a slice that lies inside the first part of a concatenation -/
theorem slice_append_left (a b : List Nat) (off n : Nat) (h : off + n ≤ a.length) : slice (a ++ b) off n = slice a off n := by
  unfold slice
  rw [List.drop_append_of_le_length (by omega)]
  rw [List.take_append_of_le_length (by simp [List.length_drop]; omega)]

/-- a slice that starts exactly where the second part begins -/
theorem slice_append_right (a b : List Nat) (n : Nat) : slice (a ++ b) a.length n = b.take n := by
  unfold slice
  rw [List.drop_left]

theorem slice_append_right' (a b : List Nat) (off n : Nat) (h : off = a.length) : slice (a ++ b) off n = b.take n := by
  rw [h]; exact slice_append_right a b n

theorem slice_append_skip (a b : List Nat) (off n : Nat) (h : a.length ≤ off) : slice (a ++ b) off n = slice b (off - a.length) n := by
  unfold slice
  rw [List.drop_append]
  have : a.drop off = [] := List.drop_eq_nil_of_le h
  rw [this, List.nil_append]

theorem byteAt_append_left (a b : List Nat) (i : Nat) (h : i < a.length) : byteAt (a ++ b) i = byteAt a i := by
  unfold byteAt
  simp [List.getD_eq_getElem?_getD, List.getElem?_append_left h]

theorem unbe_slice_two_lt (img : List Nat) (off : Nat) (h : isBytes img) : unbe (slice img off 2) < 65536 := by
  have hb := slice_isBytes img off 2 h
  have hl := slice_length_le img off 2
  match hs : slice img off 2 with
  | [] => simp [unbe]
  | [a] =>
    have : a < 256 := hb a (by rw [hs]; simp)
    simp [unbe]; omega
  | [a, b] =>
    have ha : a < 256 := hb a (by rw [hs]; simp)
    have hb' : b < 256 := hb b (by rw [hs]; simp)
    exact unbe_two_lt a b ha hb'
  | a :: b :: c :: rest => rw [hs] at hl; simp at hl

theorem rdOk_of_le (img : List Nat) (off n : Nat) (h : off + n ≤ img.length) : rdOk img off n = true := by
  unfold rdOk; exact decide_eq_true h

end LLTD
