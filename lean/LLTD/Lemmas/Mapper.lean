/- The record's mapper fields refine the specification's mapper state over every frame. -/
import LLTD.Lemmas.Obs
import LLTD.Lemmas.Inv
import LLTD.Lemmas.NoFault

namespace LLTD
open LLTD.Spec

/-- the specification's view of the record's mapper fields -/
def absS (st : St) : Mapper := if st.known then .active st.mapperReal st.mapperApparent else .none

/-- the record refines the specification state (which may have given up: `unknown`) -/
def Rel (st : St) (m : Mapper) : Prop := m = .unknown ∨ m = absS st

theorem rel_abs (st : St) (m : Mapper) (h : absS st = m) : Rel st m := Or.inr h.symm

theorem absS_setActive (st : St) (r e : Mac) :
    absS (setActiveMapper st r e) = (match absS st with | .none => .active r e | m => m) := by
  unfold setActiveMapper absS
  by_cases hk : st.known = true <;> simp [hk]

theorem absS_preStep (st : St) (img : List Nat) : absS (preStep st img) = absS (setActiveMapper st (fRealSrc img) (fEthSrc img)) := by
  unfold preStep; split <;> rfl

theorem absS_answerHello (c : Cfg) (g : Glob) (w : World) (st : St) (img : List Nat) (hk : st.known = true) :
    absS (answerHello c g w st img).st = absS st := by
  have hs : setActiveMapper st (fRealSrc img) (fEthSrc img) = st := by unfold setActiveMapper; simp [hk]
  unfold answerHello
  simp only [hs]
  repeat' split
  all_goals rfl

theorem absS_seq_setActive (st : St) (v : Nat) (r e : Mac) :
    absS (setActiveMapper { st with seq := v } r e) = absS (setActiveMapper st r e) := by
  rw [absS_setActive, absS_setActive]; rfl

theorem absS_parseEmit (c : Cfg) (w : World) (st : St) (img : List Nat) (hm : c.failMtu = false) (hc : CfgOk c) :
    absS (parseEmit c w st img).st = absS (setActiveMapper st (fRealSrc img) (fEthSrc img)) := by
  have hg : ¬ (c.failMtu = true ∨ c.mtu < X.sizeofDemux + X.sizeofEmitHdr) := by
    have := hc.mtuLo
    simp only [hm, X.sizeofDemux_val, X.sizeofEmitHdr_val]; intro h; rcases h with h | h
    · exact Bool.noConfusion h
    · omega
  unfold parseEmit
  simp only [if_neg hg]
  split <;> exact absS_seq_setActive st _ _ _

theorem absS_parseProbe (c : Cfg) (w : World) (st : St) (img : List Nat) : absS (parseProbe c w st img).st = absS st := by
  rcases parseProbe_shape c w st img with h | ⟨o, h⟩ <;> rw [h] <;> rfl

theorem absS_parseQuery (c : Cfg) (w : World) (st : St) (img : List Nat) :
    absS (parseQuery c w st img).st = .active (fRealSrc img) (fEthSrc img) := by
  unfold parseQuery
  simp only []
  repeat' split
  all_goals rfl

theorem absS_qltlv (c : Cfg) (g : Glob) (w : World) (st : St) (img : List Nat) :
    absS (parseQueryLargeTlv c g w st img).st =
      if fSeq img = 0 then absS st else absS (setActiveMapper st (fRealSrc img) (fEthSrc img)) := by
  have e := absS_seq_setActive st (fSeq img) (fRealSrc img) (fEthSrc img)
  unfold parseQueryLargeTlv
  by_cases hs : fSeq img = 0
  · simp only [hs, if_true]
  · simp only [hs, if_false]
    split
    · rcases qltlvIcon_st c g w (setActiveMapper { st with seq := fSeq img } (fRealSrc img) (fEthSrc img)) img
          (unbe (slice img (X.sizeofDemux + X.offQltlvOffset) 2)) with h | ⟨ic, h⟩
      · rw [h]; exact e
      · rw [h]; exact e
    · split
      · rw [qltlvFname_st]; exact e
      · split
        · rw [qltlvHwid_st]; exact e
        · rw [sendLarge_st]; exact e

/-- the specification's mapper evolution as a function of (type of service, opcode) — for frames that hold their headers -/
def mapperStep (m : Mapper) (img : List Nat) : Mapper :=
  let tos := fTos img
  let op := fOpcode img
  if (tos = 0 ∨ tos = 1) ∧ op = 8 then .none
  else if (tos = 0 ∨ tos = 1) ∧ op = 0 then (match m with | .none => .active (fRealSrc img) (fEthSrc img) | m => m)
  else if tos = 0 ∧ op = 2 then m.onCommand (fRealSrc img) (fEthSrc img) false
  else if tos = 0 ∧ op = 6 then m.onCommand (fRealSrc img) (fEthSrc img) true
  else if (tos = 0 ∨ tos = 1) ∧ op = 11 then (if fSeq img = 0 then m else m.onCommand (fRealSrc img) (fEthSrc img) false)
  else m

theorem tos_le_one (img : List Nat) : (Spec.fTos img ≤ 1) ↔ (LLTD.fTos img = 0 ∨ LLTD.fTos img = 1) := by
  rw [spec_fTos]; omega

/-- the specification state's mapper component follows `mapperStep` -/
theorem spec_mapper (own : List Nat) (dom : Nat) (g : Glob) (s : SpecSt) (img : List Nat) (rep : List ObsDesc) (hl : 36 ≤ img.length) :
    (specStep own dom g s img rep).mapper = mapperStep s.mapper img := by
  have h32 : ¬ img.length < 32 := by omega
  have l32 : decide (img.length ≥ 32) = true := decide_eq_true (by omega)
  have l34 : decide (img.length ≥ 34) = true := decide_eq_true (by omega)
  have l36 : decide (img.length ≥ 36) = true := decide_eq_true (by omega)
  unfold specStep mapperStep
  simp only [h32, if_false, isReset0, isReset, isDiscover, isEmit, isQuery, isLarge, isProbe, l32, l34, l36, Bool.true_and,
    spec_fOp, spec_fRealSrc, spec_fEthSrc, spec_fSeq, spec_fRealDst, spec_fEthDst]
  by_cases t0 : LLTD.fTos img = 0
  · have ts : Spec.fTos img = 0 := by rw [spec_fTos]; exact t0
    simp only [ts, t0]
    by_cases o8 : fOpcode img = 8
    · simp [o8]
    · by_cases o0 : fOpcode img = 0
      · simp [o0]; cases s.mapper <;> rfl
      · by_cases o2 : fOpcode img = 2
        · simp [o2]
        · by_cases o6 : fOpcode img = 6
          · simp [o6]
          · by_cases o11 : fOpcode img = 11
            · simp only [o11]
              by_cases hs : LLTD.fSeq img = 0
              · simp [hs]
              · simp only [hs]
                simp
                (repeat' split) <;> rfl
            · by_cases o34 : fOpcode img = 3 ∨ fOpcode img = 4
              · rcases o34 with h | h
                · simp only [h]; simp
                  repeat' split
                  all_goals rfl
                · simp only [h]; simp
                  repeat' split
                  all_goals rfl
              · have o3 : fOpcode img ≠ 3 := fun e => o34 (Or.inl e)
                have o4 : fOpcode img ≠ 4 := fun e => o34 (Or.inr e)
                simp [o8, o0, o2, o6, o11, o3, o4]
  · by_cases t1 : LLTD.fTos img = 1
    · have ts : Spec.fTos img = 1 := by rw [spec_fTos]; exact t1
      simp only [ts, t1]
      by_cases o8 : fOpcode img = 8
      · simp [o8]
      · by_cases o0 : fOpcode img = 0
        · simp [o0]; cases s.mapper <;> rfl
        · by_cases o11 : fOpcode img = 11
          · simp only [o11]
            by_cases hs : LLTD.fSeq img = 0
            · simp [hs]
            · simp only [hs]
              simp
              (repeat' split) <;> rfl
          · simp [o8, o0, o11]
    · have ts0 : ¬ Spec.fTos img = 0 := by rw [spec_fTos]; exact t0
      have ts1 : ¬ Spec.fTos img ≤ 1 := by rw [spec_fTos]; omega
      simp [ts0, ts1, t0, t1]

end LLTD

namespace LLTD
open LLTD.Spec

theorem rel_unknown (st : St) : Rel st .unknown := Or.inl rfl

theorem onCommand_unknown (r e : Mac) (b : Bool) : Mapper.unknown.onCommand r e b = .unknown := rfl

/-- set_active_mapper refines `onCommand … false` -/
theorem rel_setActive (st st' : St) (m : Mapper) (r e : Mac) (hr : Rel st m) (hst : absS st' = absS (setActiveMapper st r e)) :
    Rel st' (m.onCommand r e false) := by
  rcases hr with h | h
  · rw [h]; exact rel_unknown _
  · rw [h]
    unfold Rel
    rw [hst, absS_setActive]
    unfold absS Mapper.onCommand
    by_cases hk : st.known = true
    · simp only [hk, if_true]
      by_cases hq : (st.mapperReal == r) = true
      · simp [hq]
      · simp [hq]
    · simp [hk]

/-- one frame: the record keeps refining the specification's mapper state (commands: MTU getter working) -/
theorem rel_step (c : Cfg) (g : Glob) (w : World) (st : St) (img : List Nat) (m : Mapper)
    (hc : CfgOk c) (hm : c.failMtu = false) (hr : Rel st m) :
    Rel (parseFrameSt c g w st img).st (mapperStep m img) := by
  unfold mapperStep
  simp only []
  by_cases o0 : fOpcode img = 0
  · by_cases t01 : fTos img = 0 ∨ fTos img = 1
    · have h8 : ¬ ((fTos img = 0 ∨ fTos img = 1) ∧ fOpcode img = 8) := by omega
      simp only [h8, if_false, t01, o0, and_self, if_true]
      rw [parseFrameSt_discover c g w st img t01 o0]
      rcases hr with h | h
      · rw [h]; exact rel_unknown _
      · by_cases hmm : mapperMatches st (fRealSrc img) = true
        · rw [if_pos hmm]
          have hk := preStep_known st img
          have hst : absS (if fTos img = 0 then { answerHello c g w (preStep st img) img with fx := Fx.sleep 10 :: (answerHello c g w (preStep st img) img).fx }
              else answerHello c g w (preStep st img) img).st = absS (preStep st img) := by
            split <;> exact absS_answerHello c g w _ img hk
          apply rel_abs
          rw [hst, absS_preStep, absS_setActive, h]
          cases absS st <;> simp
        · rw [if_neg hmm]
          apply rel_abs
          simp only []
          rw [h]
          unfold mapperMatches at hmm
          unfold absS
          by_cases hkk : st.known = true
          · simp [hkk]
          · simp [hkk] at hmm
    · have h0 : fTos img ≠ 0 := fun e => t01 (Or.inl e)
      have h1 : fTos img ≠ 1 := fun e => t01 (Or.inr e)
      rw [dispatch_other c g w st img h0 h1]
      simp [h0, h1]
      exact hr
  · by_cases t0 : fTos img = 0
    · rw [dispatch_tos0 c g w st img t0 o0]
      by_cases o8 : fOpcode img = 8
      · have h2 : ¬ fOpcode img = 2 := by omega
        have h34 : ¬ (fOpcode img = 3 ∨ fOpcode img = 4) := by omega
        have h6 : ¬ fOpcode img = 6 := by omega
        have h11 : ¬ fOpcode img = 11 := by omega
        simp only [t0, o8, true_or, and_self, if_true, h2, h34, h6, h11, if_false]
        exact rel_abs _ _ (by simp [absS, resetSt])
      · simp only [t0, o8, o0, true_or, true_and, and_false, if_false]
        by_cases o2 : fOpcode img = 2
        · simp only [o2, if_true]
          exact rel_setActive st _ m _ _ hr (absS_parseEmit c w st img hm hc)
        · simp only [o2, if_false]
          by_cases o6 : fOpcode img = 6
          · have h34 : ¬ ((6 : Nat) = 3 ∨ (6 : Nat) = 4) := by omega
            simp only [o6, h34, if_false, if_true]
            rcases hr with h | h
            · rw [h]; exact rel_unknown _
            · rw [h]
              unfold Rel
              rw [absS_parseQuery]
              unfold absS Mapper.onCommand
              by_cases hk : st.known = true
              · simp only [hk, if_true]
                by_cases hq : (st.mapperReal == fRealSrc img) = true
                · simp only [hq, if_true]; right; rw [eq_of_beq hq]
                · simp [hq]
              · simp [hk]
          · simp only [o6, if_false]
            by_cases o11 : fOpcode img = 11
            · have h34 : ¬ ((11 : Nat) = 3 ∨ (11 : Nat) = 4) := by omega
              simp only [o11, h34, if_false, if_true]
              by_cases hs : fSeq img = 0
              · simp only [hs, if_true]
                rcases hr with h | h
                · exact Or.inl h
                · right; rw [h, absS_qltlv]; simp [hs]
              · simp only [hs, if_false]
                exact rel_setActive st _ m _ _ hr (by rw [absS_qltlv]; simp [hs])
            · simp only [o11, if_false]
              by_cases o34 : fOpcode img = 3 ∨ fOpcode img = 4
              · simp only [o34, if_true]
                rcases hr with h | h
                · exact Or.inl h
                · right; rw [h, absS_parseProbe]
              · simp only [o34, if_false]
                exact hr
    · by_cases t1 : fTos img = 1
      · rw [dispatch_tos1 c g w st img t1 o0]
        by_cases o8 : fOpcode img = 8
        · have h11 : ¬ fOpcode img = 11 := by omega
          simp only [t1, o8, or_true, and_self, if_true, h11, if_false]
          exact rel_abs _ _ (by simp [absS])
        · have t0' : ¬ ((1 : Nat) = 0) := by omega
          simp only [t1, t0', o8, o0, or_true, true_and, and_false, false_and, if_false]
          by_cases o11 : fOpcode img = 11
          · simp only [o11, if_true]
            by_cases hs : fSeq img = 0
            · simp only [hs, if_true]
              rcases hr with h | h
              · exact Or.inl h
              · right; rw [h, absS_qltlv]; simp [hs]
            · simp only [hs, if_false]
              exact rel_setActive st _ m _ _ hr (by rw [absS_qltlv]; simp [hs])
          · simp only [o11, if_false]
            exact hr
      · rw [dispatch_other c g w st img t0 t1]
        simp only [t0, t1, or_self, false_and, if_false]
        exact hr

end LLTD
