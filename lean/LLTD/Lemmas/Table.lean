/- Facts about the session-table model. -/
import LLTD.Model.Automata

namespace LLTD

def Table.live (t : Table) : List Entry := t.entries.filter (·.valid)

theorem expireLoop_invalid (now : Nat) (es : List Entry) (c : Nat) (h : ∀ e ∈ es, e.valid = false) :
    expireLoop now es c = (es, c) := by
  induction es generalizing c with
  | nil => rfl
  | cons e es ih =>
    have he : e.valid = false := h e (by simp)
    have : ¬(e.valid = true ∧ now > e.last + 60) := by simp [he]
    simp only [expireLoop, if_neg this, ih c (fun e' he' => h e' (by simp [he']))]

theorem create_all_invalid : ∀ e ∈ Table.create.entries, e.valid = false := by
  intro e he
  unfold Table.create at he
  simp only [List.mem_replicate] at he
  rw [he.2]; rfl

theorem create_live : Table.create.live = [] := by
  unfold Table.live
  rw [List.filter_eq_nil_iff]
  intro e he
  simp [create_all_invalid e he]

theorem expire_create (now : Nat) : (Table.create.expire now).live = [] := by
  unfold Table.expire
  rw [expireLoop_invalid now _ _ create_all_invalid]
  unfold Table.updateStatus Table.live
  exact create_live

end LLTD
