/-
  The per-interface record refines the WHOLE specification state (active mapper, observations not yet reported,
  icon cached since the last Reset) over every frame, with what the mapper reads in the model's QueryResp
  (independent decoder) as the specification's `reported` input.  The history theorems of C06, C07 and C08 are
  corollaries (Props/C06H, C07H, C08H).
-/
import LLTD.Lemmas.Mapper
import LLTD.Lemmas.Decode
import LLTD.Props.C07

namespace LLTD
open LLTD.Spec

structure Ref (st : St) (s : SpecSt) : Prop where
  mapper : Rel st s.mapper
  icon   : s.iconCache = st.icon
  pend   : s.overflow = false → s.pending = st.sees.map toDesc

theorem ref_init : Ref {} {} := ⟨rel_abs _ _ rfl, rfl, fun _ => rfl⟩

/-- the observation the specification records for a Probe/Train frame -/
def probeDesc (img : List Nat) : ObsDesc :=
  { typ := if fOpcode img = 4 then 1 else 0, realSrc := fRealSrc img, src := fEthSrc img, dst := fEthDst img }

/-- what an icon request leaves in an empty cache: the platform's icon; an EMPTY icon only when the platform hands it over
    as a (zero-length) block; nothing when the getter fails -/
def iconFill (g : Glob) (cur : Option (List Nat)) : Option (List Nat) :=
  match g.icon with
  | some (b :: bs) => some (b :: bs)
  | some [] => if g.emptyBlock then some [] else cur
  | none => cur

/-- the (pending, overflow, icon cache) components of the specification step as a function of (ToS, opcode) -/
def restStep (own : List Nat) (dom : Nat) (g : Glob) (s : SpecSt) (img : List Nat) (rep : List ObsDesc) :
    List ObsDesc × Bool × Option (List Nat) :=
  let tos := fTos img
  let op := fOpcode img
  if tos = 0 ∧ op = 8 then ([], false, none)
  else if tos = 0 ∧ op = 6 then (rep.foldl (fun p d => removeFirst d p) s.pending, s.overflow, s.iconCache)
  else if (tos = 0 ∨ tos = 1) ∧ op = 11 then
    (s.pending, s.overflow,
      if fSeq img ≠ 0 ∧ byteAt img 32 = 0x0E ∧ s.iconCache.isNone = true then
        iconFill g s.iconCache
      else s.iconCache)
  else if tos = 0 ∧ (op = 3 ∨ op = 4) then
    if (fRealDst img != own) = true then (s.pending, s.overflow, s.iconCache)
    else if s.pending.any (fun p => obsKey p == obsKey (probeDesc img)) = true then (s.pending, s.overflow, s.iconCache)
    else if s.pending.length ≥ dom then (s.pending, true, s.iconCache)
    else (probeDesc img :: s.pending, s.overflow, s.iconCache)
  else (s.pending, s.overflow, s.iconCache)

theorem spec_rest (own : List Nat) (dom : Nat) (g : Glob) (s : SpecSt) (img : List Nat) (rep : List ObsDesc) (hl : 36 ≤ img.length) :
    ((specStep own dom g s img rep).pending, (specStep own dom g s img rep).overflow, (specStep own dom g s img rep).iconCache) =
      restStep own dom g s img rep := by
  have h32 : ¬ img.length < 32 := by omega
  have l32 : decide (img.length ≥ 32) = true := decide_eq_true (by omega)
  have l34 : decide (img.length ≥ 34) = true := decide_eq_true (by omega)
  have l36 : decide (img.length ≥ 36) = true := decide_eq_true (by omega)
  unfold specStep restStep probeDesc iconFill
  simp only [h32, if_false, isReset0, isReset, isDiscover, isEmit, isQuery, isLarge, isProbe, l32, l34, l36, Bool.true_and,
    spec_fOp, spec_fRealSrc, spec_fEthSrc, spec_fSeq, spec_fRealDst, spec_fEthDst]
  by_cases t0 : LLTD.fTos img = 0
  · have ts : Spec.fTos img = 0 := by rw [spec_fTos]; exact t0
    simp only [ts, t0]
    by_cases o8 : fOpcode img = 8
    · simp [o8]
    · by_cases o0 : fOpcode img = 0
      · simp [o0]
      · by_cases o2 : fOpcode img = 2
        · simp [o2]
        · by_cases o6 : fOpcode img = 6
          · simp [o6]
          · by_cases o11 : fOpcode img = 11
            · simp only [o11]
              by_cases hs : LLTD.fSeq img = 0
              · simp [hs]
              · simp only [hs]
                simp
                repeat' split
                all_goals first | rfl | simp_all
            · by_cases o34 : fOpcode img = 3 ∨ fOpcode img = 4
              · rcases o34 with h | h
                · simp only [h]; simp
                  repeat' split
                  all_goals first | rfl | simp_all
                · simp only [h]; simp
                  repeat' split
                  all_goals first | rfl | simp_all
              · have o3 : fOpcode img ≠ 3 := fun e => o34 (Or.inl e)
                have o4 : fOpcode img ≠ 4 := fun e => o34 (Or.inr e)
                simp [o8, o0, o2, o6, o11, o3, o4]
  · by_cases t1 : LLTD.fTos img = 1
    · have ts : Spec.fTos img = 1 := by rw [spec_fTos]; exact t1
      simp only [ts, t1]
      by_cases o8 : fOpcode img = 8
      · simp [o8]
      · by_cases o0 : fOpcode img = 0
        · simp [o0]
        · by_cases o11 : fOpcode img = 11
          · simp only [o11]
            by_cases hs : LLTD.fSeq img = 0
            · simp [hs]
            · simp only [hs]
              simp
              repeat' split
              all_goals first | rfl | simp_all
          · simp [o8, o0, o11]
    · have ts0 : ¬ Spec.fTos img = 0 := by rw [spec_fTos]; exact t0
      have ts1 : ¬ Spec.fTos img ≤ 1 := by rw [spec_fTos]; omega
      simp [ts0, ts1, t0, t1]


/-! ## Model side: what each handler does to the pending list and the icon cache -/

theorem setActive_sees (st : St) (r e : Mac) : (setActiveMapper st r e).sees = st.sees := by unfold setActiveMapper; split <;> rfl
theorem setActive_icon (st : St) (r e : Mac) : (setActiveMapper st r e).icon = st.icon := by unfold setActiveMapper; split <;> rfl

theorem preStep_sees (st : St) (img : List Nat) : (preStep st img).sees = st.sees ∧ (preStep st img).icon = st.icon := by
  unfold preStep
  split <;> exact ⟨setActive_sees _ _ _, setActive_icon _ _ _⟩

theorem answerHello_sees (c : Cfg) (g : Glob) (w : World) (st : St) (img : List Nat) :
    (answerHello c g w st img).st.sees = st.sees ∧ (answerHello c g w st img).st.icon = st.icon := by
  unfold answerHello
  simp only []
  repeat' split
  all_goals first | exact ⟨rfl, rfl⟩ | exact ⟨setActive_sees _ _ _, setActive_icon _ _ _⟩

theorem parseEmit_sees (c : Cfg) (w : World) (st : St) (img : List Nat) :
    (parseEmit c w st img).st.sees = st.sees ∧ (parseEmit c w st img).st.icon = st.icon := by
  unfold parseEmit
  simp only []
  repeat' split
  all_goals first | exact ⟨rfl, rfl⟩ | exact ⟨setActive_sees _ _ _, setActive_icon _ _ _⟩

theorem parseQuery_icon (c : Cfg) (w : World) (st : St) (img : List Nat) : (parseQuery c w st img).st.icon = st.icon := by
  unfold parseQuery
  simp only []
  repeat' split
  all_goals rfl

theorem parseProbe_rest (c : Cfg) (w : World) (st : St) (img : List Nat) (hw : NoFault w) (hi : St.Inv st) :
    (parseProbe c w st img).st.icon = st.icon ∧
    (parseProbe c w st img).st.sees =
      if (fRealDst img != c.ourMac) = true then st.sees
      else if st.sees.length ≥ 1024 then st.sees
      else if st.sees.any (fun p => fEthSrc img == p.src && fRealSrc img == p.realSrc) = true then st.sees
      else C07.obsOfFrame img :: st.sees := by
  have hm := malloc_nf w X.nodeBytes hw
  unfold parseProbe
  by_cases h1 : (fRealDst img != c.ourMac) = true
  · simp only [h1, if_true]; first | exact ⟨rfl, rfl⟩ | trivial | simp
  · simp only [h1]
    have hfull : seesFull st.count = decide (st.sees.length ≥ 1024) := by simp [seesFull, hi.count]
    by_cases h2 : st.sees.length ≥ 1024
    · simp only [hfull, h2, decide_true, if_true]; first | exact ⟨rfl, rfl⟩ | trivial | simp
    · simp only [hfull, h2, decide_false, hm, Bool.not_true, Bool.false_eq_true, if_false]
      by_cases h4 : st.sees.any (fun p => fEthSrc img == p.src && fRealSrc img == p.realSrc) = true
      · simp only [h4, if_true]; first | exact ⟨rfl, rfl⟩ | trivial | simp
      · simp only [h4]; first | exact ⟨rfl, rfl⟩ | trivial | simp [C07.obsOfFrame]

theorem qltlv_rest (c : Cfg) (g : Glob) (w : World) (st : St) (img : List Nat) :
    (parseQueryLargeTlv c g w st img).st.sees = st.sees ∧
    (parseQueryLargeTlv c g w st img).st.icon =
      (if fSeq img ≠ 0 ∧ byteAt img 32 = 0x0E ∧ st.icon.isNone = true then
        iconFill g st.icon
       else st.icon) := by
  unfold parseQueryLargeTlv
  by_cases hs : fSeq img = 0
  · simp [hs]
  · simp only [hs, if_false, X.sizeofDemux_val, X.offQltlvType_val, Nat.add_zero, X.tlvIconImage_val, X.tlvFriendlyName_val, X.tlvHwId_val]
    by_cases ht : byteAt img 32 = 14
    · simp only [ht, if_true]
      unfold qltlvIcon
      simp only [sendLarge_st, setActive_icon, setActive_sees]
      cases hic : st.icon with
      | some ic => simp; exact ⟨by rw [setActive_sees], by rw [setActive_icon]⟩
      | none =>
        unfold iconFill
        cases hg : g.icon with
        | none => simp [setActive_sees, setActive_icon, hic]
        | some d =>
          cases d with
          | nil =>
            by_cases he : g.emptyBlock = true
            · simp [setActive_sees, setActive_icon, hic, he, hs]
            · simp [setActive_sees, setActive_icon, hic, he]
          | cons b bs => simp [setActive_sees, hs]
    · simp only [ht, if_false]
      have hno : ¬ (¬ fSeq img = 0 ∧ False ∧ st.icon.isNone = true) := by simp
      split
      · rw [qltlvFname_st]; simp [setActive_sees, setActive_icon]
      · split
        · rw [qltlvHwid_st]; simp [setActive_sees, setActive_icon]
        · rw [sendLarge_st]; simp [setActive_sees, setActive_icon]

/-- the pending list and the icon cache after one frame, as a function of (ToS, opcode) -/
theorem model_rest (c : Cfg) (g : Glob) (w : World) (st : St) (img : List Nat) :
    ((parseFrameSt c g w st img).st.sees, (parseFrameSt c g w st img).st.icon) =
      (if fTos img = 0 ∧ fOpcode img = 8 then ([], none)
       else if fTos img = 0 ∧ fOpcode img = 6 then ((parseQuery c w st img).st.sees, st.icon)
       else if (fTos img = 0 ∨ fTos img = 1) ∧ fOpcode img = 11 then (st.sees, (parseQueryLargeTlv c g w st img).st.icon)
       else if fTos img = 0 ∧ (fOpcode img = 3 ∨ fOpcode img = 4) then ((parseProbe c w st img).st.sees, (parseProbe c w st img).st.icon)
       else (st.sees, st.icon)) := by
  by_cases o0 : fOpcode img = 0
  · have e8 : ¬ fOpcode img = 8 := by omega
    have e6 : ¬ fOpcode img = 6 := by omega
    have e11 : ¬ fOpcode img = 11 := by omega
    have e34 : ¬ (fOpcode img = 3 ∨ fOpcode img = 4) := by omega
    simp only [e8, e6, e11, e34, and_false, if_false]
    by_cases t01 : fTos img = 0 ∨ fTos img = 1
    · rw [parseFrameSt_discover c g w st img t01 o0]
      split
      · split
        · simp only [(answerHello_sees c g w _ img).1, (answerHello_sees c g w _ img).2, (preStep_sees st img).1, (preStep_sees st img).2]
        · simp only [(answerHello_sees c g w _ img).1, (answerHello_sees c g w _ img).2, (preStep_sees st img).1, (preStep_sees st img).2]
      · rfl
    · have h0 : fTos img ≠ 0 := fun e => t01 (Or.inl e)
      have h1 : fTos img ≠ 1 := fun e => t01 (Or.inr e)
      rw [dispatch_other c g w st img h0 h1]
  · by_cases t0 : fTos img = 0
    · rw [dispatch_tos0 c g w st img t0 o0]
      simp only [t0, true_and, true_or]
      by_cases o8 : fOpcode img = 8
      · have e2 : ¬ fOpcode img = 2 := by omega
        have e6 : ¬ fOpcode img = 6 := by omega
        have e11 : ¬ fOpcode img = 11 := by omega
        have e34 : ¬ (fOpcode img = 3 ∨ fOpcode img = 4) := by omega
        simp only [o8, e2, e6, e11, e34, if_true, if_false]
        rfl
      · simp only [o8, if_false]
        by_cases o2 : fOpcode img = 2
        · have e6 : ¬ fOpcode img = 6 := by omega
          have e11 : ¬ fOpcode img = 11 := by omega
          have e34 : ¬ (fOpcode img = 3 ∨ fOpcode img = 4) := by omega
          simp only [o2, e6, e11, e34, if_true, if_false]
          rw [o2] at e6 e11 e34
          simp only [e6, e11, e34, if_false, (parseEmit_sees c w st img).1, (parseEmit_sees c w st img).2]
        · simp only [o2, if_false]
          by_cases o34 : fOpcode img = 3 ∨ fOpcode img = 4
          · have e6 : ¬ fOpcode img = 6 := by omega
            have e11 : ¬ fOpcode img = 11 := by omega
            simp only [o34, e6, e11, if_true, if_false]
          · simp only [o34, if_false]
            by_cases o6 : fOpcode img = 6
            · simp only [o6, if_true, parseQuery_icon]
            · simp only [o6, if_false]
              by_cases o11 : fOpcode img = 11
              · simp only [o11, if_true, (qltlv_rest c g w st img).1]
              · simp only [o11, if_false, o8]
    · by_cases t1 : fTos img = 1
      · rw [dispatch_tos1 c g w st img t1 o0]
        have n0 : ¬ ((1 : Nat) = 0) := by omega
        simp only [t1, n0, false_and, or_true, true_and, if_false]
        by_cases o11 : fOpcode img = 11
        · simp only [o11, if_true, (qltlv_rest c g w st img).1]
        · simp only [o11, if_false]
          split <;> rfl
      · rw [dispatch_other c g w st img t0 t1]
        simp [t0, t1]


/-! ## What the mapper reads from the model's answer to a Query -/

theorem fold_remove_take (l : List ObsDesc) : ∀ n, (l.take n).foldl (fun p d => removeFirst d p) l = l.drop n := by
  induction l with
  | nil => intro n; simp
  | cons x xs ih =>
    intro n
    cases n with
    | zero => rfl
    | succ k =>
      simp only [List.take_succ_cons, List.foldl_cons, List.drop_succ_cons]
      have : removeFirst x (x :: xs) = xs := by simp [removeFirst]
      rw [this]
      exact ih k

theorem query_reported (c : Cfg) (w : World) (st : St) (img : List Nat) (hc : CfgOk c) (hi : St.Inv st) (him : ImgOk img) (hw : NoFault w) :
    reportedOf ((parseQuery c w st img).fx.map toObs) =
      (st.sees.take (min st.sees.length (queryMaxDescs c.mtuEff))).map toDesc := by
  have hq := (C07.query c w st img hc hi (malloc_nf w c.mtuEff hw)).1
  rw [hq]
  generalize hn : min st.sees.length (queryMaxDescs c.mtuEff) = n
  have hlen : (st.sees.take n).length = n := by rw [List.length_take]; omega
  have hd := decodeQueryResp_queryFrame c img (fSeq img) (decide (st.sees.length > n)) (st.sees.take n) hc him
    (fun o ho => hi.obs o (List.mem_of_mem_take ho)) (by rw [hlen]; have := hi.cap; omega)
  rw [hlen] at hd
  unfold reportedOf
  rw [sends_map_single]
  simp only [List.filterMap_cons, List.filterMap_nil, hd]

theorem any_key (sees : List Obs) (img : List Nat) :
    (sees.map toDesc).any (fun p => obsKey p == obsKey (probeDesc img)) =
      sees.any (fun p => fEthSrc img == p.src && fRealSrc img == p.realSrc) := by
  rw [List.any_map]
  congr 1
  funext p
  apply Bool.eq_iff_iff.mpr
  simp only [Function.comp, obsKey, toDesc, probeDesc, beq_iff_eq, Bool.and_eq_true, Prod.mk.injEq]
  constructor <;> (rintro ⟨a, b⟩; exact ⟨a.symm, b.symm⟩)

theorem toDesc_obsOfFrame (img : List Nat) : toDesc (C07.obsOfFrame img) = probeDesc img := by
  simp [toDesc, C07.obsOfFrame, probeDesc]

/-- the transmit effects of a Query frame are parseQuery's -/
theorem fx_query (c : Cfg) (g : Glob) (w : World) (st : St) (img : List Nat) (t0 : fTos img = 0) (o6 : fOpcode img = 6) :
    (parseFrameSt c g w st img).fx = (parseQuery c w st img).fx := by
  rw [dispatch_tos0 c g w st img t0 (by omega)]
  simp [o6]

/-- ONE FRAME: the record keeps refining the specification state -/
theorem ref_step (c : Cfg) (g : Glob) (w : World) (st : St) (img : List Nat) (s : SpecSt) (dom : Nat)
    (hc : CfgOk c) (hm : c.failMtu = false) (hmac : c.failMac = false) (hw : NoFault w) (hi : St.Inv st) (him : ImgOk img)
    (hdom : dom ≤ 1024) (hr : Ref st s) :
    Ref (parseFrameSt c g w st img).st
      (specStep c.mac dom g s img (reportedOf (obsOf c g img (parseFrameSt c g w st img).fx).fx)) := by
  generalize hrep : reportedOf (obsOf c g img (parseFrameSt c g w st img).fx).fx = rep
  have hown : c.ourMac = c.mac := by simp [Cfg.ourMac, hmac]
  have hS := spec_rest c.mac dom g s img rep him.len
  have hp := congrArg (fun x => x.1) hS
  have ho := congrArg (fun x => x.2.1) hS
  have hic := congrArg (fun x => x.2.2) hS
  simp only [] at hp ho hic
  have hM := model_rest c g w st img
  have hms := congrArg (fun x => x.1) hM
  have hmi := congrArg (fun x => x.2) hM
  simp only [] at hms hmi
  refine ⟨?_, ?_, ?_⟩
  · rw [spec_mapper c.mac dom g s img rep him.len]
    exact rel_step c g w st img s.mapper hc hm hr.mapper
  · -- icon cache
    rw [hic, hmi]
    unfold restStep
    simp only []
    by_cases hA : fTos img = 0 ∧ fOpcode img = 8
    · simp only [hA, and_self, if_true]
    · simp only [hA, if_false]
      by_cases hB : fTos img = 0 ∧ fOpcode img = 6
      · simp only [hB, and_self, if_true]; exact hr.icon
      · simp only [hB, if_false]
        by_cases hC : (fTos img = 0 ∨ fTos img = 1) ∧ fOpcode img = 11
        · simp only [hC, and_self, if_true, (qltlv_rest c g w st img).2, hr.icon]
        · simp only [hC, if_false]
          by_cases hD : fTos img = 0 ∧ (fOpcode img = 3 ∨ fOpcode img = 4)
          · simp only [hD, and_self, if_true, (parseProbe_rest c w st img hw hi).1]
            repeat' split
            all_goals exact hr.icon
          · simp only [hD, if_false]; exact hr.icon
  · -- pending observations
    rw [ho, hp, hms]
    unfold restStep
    simp only []
    by_cases hA : fTos img = 0 ∧ fOpcode img = 8
    · simp only [hA, and_self, if_true]; intro _; rfl
    · simp only [hA, if_false]
      by_cases hB : fTos img = 0 ∧ fOpcode img = 6
      · simp only [hB, and_self, if_true]
        intro hov
        have hpend := hr.pend hov
        have hq := (C07.query c w st img hc hi (malloc_nf w c.mtuEff hw)).2
        have hrp : rep = (st.sees.take (min st.sees.length (queryMaxDescs c.mtuEff))).map toDesc := by
          rw [← hrep]
          have : (obsOf c g img (parseFrameSt c g w st img).fx).fx = (parseQuery c w st img).fx.map toObs := by
            unfold obsOf; simp only [fx_query c g w st img hB.1 hB.2]
          rw [this]
          exact query_reported c w st img hc hi him hw
        rw [hq, hrp, hpend, List.map_take, fold_remove_take, List.map_drop]
      · simp only [hB, if_false]
        by_cases hC : (fTos img = 0 ∨ fTos img = 1) ∧ fOpcode img = 11
        · simp only [hC, and_self, if_true]; exact hr.pend
        · simp only [hC, if_false]
          by_cases hD : fTos img = 0 ∧ (fOpcode img = 3 ∨ fOpcode img = 4)
          · simp only [hD, and_self, if_true, (parseProbe_rest c w st img hw hi).2, hown]
            by_cases h1 : (fRealDst img != c.mac) = true
            · simp only [h1, if_true]; exact hr.pend
            · simp only [h1, if_false]
              by_cases h2 : s.pending.any (fun p => obsKey p == obsKey (probeDesc img)) = true
              · simp only [h2, if_true]
                intro hov
                have hpend := hr.pend hov
                rw [hpend, any_key] at h2
                rw [hpend]
                by_cases hfull : st.sees.length ≥ 1024
                · simp [hfull]
                · simp [hfull, h2]
              · simp only [h2, if_false]
                by_cases h3 : s.pending.length ≥ dom
                · simp only [h3, if_true]; intro hc; exact Bool.noConfusion hc
                · simp only [h3, if_false]
                  intro hov
                  have hpend := hr.pend hov
                  rw [hpend, any_key] at h2
                  rw [hpend, List.length_map] at h3
                  have hfull : ¬ st.sees.length ≥ 1024 := by omega
                  simp [hfull, h2, toDesc_obsOfFrame, hpend]
          · simp only [hD, if_false]; exact hr.pend

end LLTD
