/- The model's header writers against the independent decoder. -/
import LLTD.Model.Block
import LLTD.Spec.Decode
import LLTD.Lemmas.Bytes

namespace LLTD
open LLTD.Spec

theorem len6 (l : List Nat) (h : l.length = 6) : ∃ a b c d e f, l = [a, b, c, d, e, f] := by
  match l, h with
  | [a, b, c, d, e, f], _ => exact ⟨a, b, c, d, e, f, rfl⟩

theorem be2 (v : Nat) : be 2 v = [v / 256 % 256, v % 256] := by
  simp [be]

theorem unbe2 (a b : Nat) : unbe [a, b] = a * 256 + b := by
  simp [unbe]

theorem lltdHeader_length (resv : Nat) (ed es rd rs : Mac) (seq op tos : Nat)
    (h1 : ed.length = 6) (h2 : es.length = 6) (h3 : rd.length = 6) (h4 : rs.length = 6) :
    (lltdHeader resv ed es rd rs seq op tos).length = 32 := by
  simp [lltdHeader, h1, h2, h3, h4]

/-- the independent decoder reads back exactly what setLltdHeaderEx wrote (any payload after it) -/
theorem decodeBase_lltdHeader (resv : Nat) (ed es rd rs : Mac) (seq op tos : Nat) (rest : List Nat)
    (h1 : ed.length = 6) (h2 : es.length = 6) (h3 : rd.length = 6) (h4 : rs.length = 6) :
    decodeBase (lltdHeader resv ed es rd rs seq op tos ++ rest) =
      some { ethDst := ed, ethSrc := es, etherType := 0x88D9, version := 1, tos := tos, reserved := resv, opcode := op,
             realDst := rd, realSrc := rs, seq := seq % 65536 } := by
  obtain ⟨a1, a2, a3, a4, a5, a6, rfl⟩ := len6 ed h1
  obtain ⟨b1, b2, b3, b4, b5, b6, rfl⟩ := len6 es h2
  obtain ⟨c1, c2, c3, c4, c5, c6, rfl⟩ := len6 rd h3
  obtain ⟨d1, d2, d3, d4, d5, d6, rfl⟩ := len6 rs h4
  have hx : X.etherType = 0x88D9 := by decide
  simp only [lltdHeader, be2, hx]
  simp only [decodeBase, List.cons_append, List.nil_append, List.length_cons]
  have hlen : ¬ (rest.length + 1 + 1 + 1 + 1 + 1 + 1 + 1 + 1 + 1 + 1 + 1 + 1 + 1 + 1 + 1 + 1 + 1 + 1 + 1 + 1 + 1 + 1 + 1 + 1 + 1 + 1 + 1 + 1 + 1 + 1 + 1 + 1 < 32) := by omega
  rw [if_neg hlen]
  simp [slice, byteAt, unbe2]
  omega

end LLTD
