/- The session-table model against its dictionary specification. -/
import LLTD.Spec.Table
import LLTD.Lemmas.Table
import LLTD.Lemmas.XVals

namespace LLTD
open LLTD.Spec

def liveS (es : List Entry) : List Sess := (es.filter (·.valid)).map sessOf

theorem liveS_cons_valid (e : Entry) (es : List Entry) (h : e.valid = true) : liveS (e :: es) = sessOf e :: liveS es := by
  simp [liveS, h]
theorem liveS_cons_invalid (e : Entry) (es : List Entry) (h : e.valid = false) : liveS (e :: es) = liveS es := by
  simp [liveS, h]

theorem map_self_of_forall {α} (l : List α) (f : α → α) (h : ∀ x ∈ l, f x = x) : l.map f = l := by
  induction l with
  | nil => rfl
  | cons a l ih => simp [h a (by simp), ih (fun x hx => h x (by simp [hx]))]

theorem matches_iff (e : Entry) (mac : Mac) (gen : Nat) :
    e.matches mac gen = true ↔ e.valid = true ∧ (sessOf e).key = (mac, gen) := by
  simp [Entry.matches, sessOf, Sess.key, Bool.and_eq_true, and_assoc]

theorem any_matches_iff (es : List Entry) (mac : Mac) (gen : Nat) :
    es.any (fun e => e.matches mac gen) = (liveS es).any (fun s => s.key == (mac, gen)) := by
  induction es with
  | nil => rfl
  | cons e es ih =>
    by_cases hv : e.valid = true
    · rw [liveS_cons_valid e es hv, List.any_cons, List.any_cons, ih]
      congr 1
      simp only [Entry.matches, sessOf, Sess.key, hv, Bool.true_and]
      rfl
    · simp only [Bool.not_eq_true] at hv
      rw [liveS_cons_invalid e es hv, List.any_cons, ih]
      simp [Entry.matches, hv]

theorem noDupKeys_cons (s : Sess) (l : List Sess) : noDupKeys (s :: l) = (!(l.any (fun x => x.key == s.key)) && noDupKeys l) := rfl

/-- refreshing / completing the unique session of a key: a pointwise update of the live view -/
theorem live_updateFirst_keep (es : List Entry) (mac : Mac) (gen : Nat) (f : Entry → Entry) (g : Sess → Sess)
    (hf : ∀ e, (f e).valid = e.valid ∧ (sessOf (f e)).key = (sessOf e).key ∧ sessOf (f e) = g (sessOf e))
    (hnd : noDupKeys (liveS es) = true) :
    liveS (updateFirst (fun e => e.matches mac gen) f es) = (liveS es).map (fun s => if s.key == (mac, gen) then g s else s) := by
  induction es with
  | nil => rfl
  | cons e es ih =>
    simp only [updateFirst]
    by_cases hm : e.matches mac gen = true
    · obtain ⟨hv, hk⟩ := (matches_iff e mac gen).mp hm
      rw [if_pos hm, liveS_cons_valid e es hv, liveS_cons_valid (f e) es (by rw [(hf e).1]; exact hv), List.map_cons]
      have hkk : ((sessOf e).key == (mac, gen)) = true := by rw [hk]; exact beq_self_eq_true _
      rw [if_pos hkk, (hf e).2.2]
      congr 1
      -- no other live session has this key
      rw [liveS_cons_valid e es hv, noDupKeys_cons] at hnd
      simp only [Bool.and_eq_true, Bool.not_eq_true'] at hnd
      have hnone := hnd.1
      rw [hk] at hnone
      symm
      apply map_self_of_forall
      intro s hs
      have : (s.key == (mac, gen)) = false := by
        rw [List.any_eq_false] at hnone
        have := hnone s hs
        simpa using this
      rw [this]; rfl
    · rw [if_neg hm]
      by_cases hv : e.valid = true
      · rw [liveS_cons_valid e es hv, liveS_cons_valid e _ hv, List.map_cons]
        have hkk : ((sessOf e).key == (mac, gen)) = false := by
          cases hq : ((sessOf e).key == (mac, gen)) with
          | false => rfl
          | true => exact absurd ((matches_iff e mac gen).mpr ⟨hv, eq_of_beq hq⟩) hm
        rw [hkk]
        simp only [Bool.false_eq_true, if_false]
        congr 1
        rw [liveS_cons_valid e es hv, noDupKeys_cons] at hnd
        simp only [Bool.and_eq_true] at hnd
        exact ih hnd.2
      · simp only [Bool.not_eq_true] at hv
        rw [liveS_cons_invalid e es hv, liveS_cons_invalid e _ hv]
        rw [liveS_cons_invalid e es hv] at hnd
        exact ih hnd

/-- invalidating the unique session of a key removes exactly it from the live view -/
theorem live_updateFirst_remove (es : List Entry) (mac : Mac) (gen : Nat) (hnd : noDupKeys (liveS es) = true) :
    liveS (updateFirst (fun e => e.matches mac gen) (fun e => { e with valid := false }) es) =
      (liveS es).filter (fun s => s.key != (mac, gen)) := by
  induction es with
  | nil => rfl
  | cons e es ih =>
    simp only [updateFirst]
    by_cases hm : e.matches mac gen = true
    · obtain ⟨hv, hk⟩ := (matches_iff e mac gen).mp hm
      rw [if_pos hm, liveS_cons_valid e es hv, liveS_cons_invalid _ es rfl, List.filter_cons]
      have hkk : ((sessOf e).key != (mac, gen)) = false := by rw [hk]; simp
      rw [hkk]
      simp only [Bool.false_eq_true, if_false]
      rw [liveS_cons_valid e es hv, noDupKeys_cons] at hnd
      simp only [Bool.and_eq_true, Bool.not_eq_true'] at hnd
      have hnone := hnd.1
      rw [hk] at hnone
      symm
      apply List.filter_eq_self.mpr
      intro s hs
      rw [List.any_eq_false] at hnone
      have := hnone s hs
      simpa using this
    · rw [if_neg hm]
      by_cases hv : e.valid = true
      · rw [liveS_cons_valid e es hv, liveS_cons_valid e _ hv, List.filter_cons]
        have hkk : ((sessOf e).key != (mac, gen)) = true := by
          cases hq : ((sessOf e).key == (mac, gen)) with
          | false => simp [bne, hq]
          | true => exact absurd ((matches_iff e mac gen).mpr ⟨hv, eq_of_beq hq⟩) hm
        rw [hkk]
        simp only [if_true]
        congr 1
        rw [liveS_cons_valid e es hv, noDupKeys_cons] at hnd
        simp only [Bool.and_eq_true] at hnd
        exact ih hnd.2
      · simp only [Bool.not_eq_true] at hv
        rw [liveS_cons_invalid e es hv, liveS_cons_invalid e _ hv]
        rw [liveS_cons_invalid e es hv] at hnd
        exact ih hnd

/-- filling the first free slot inserts the new session somewhere into the live view -/
theorem live_updateFirst_insert (es : List Entry) (n : Entry) (hn : n.valid = true) (hfree : es.any (fun e => !e.valid) = true) :
    ∃ a b, liveS es = a ++ b ∧ liveS (updateFirst (fun e => !e.valid) (fun _ => n) es) = a ++ sessOf n :: b := by
  induction es with
  | nil => simp at hfree
  | cons e es ih =>
    simp only [updateFirst]
    by_cases hv : e.valid = true
    · have hnv : ¬ ((!e.valid) = true) := by simp [hv]
      rw [if_neg hnv]
      have hfree' : es.any (fun e => !e.valid) = true := by
        simp only [List.any_cons, hv, Bool.not_true, Bool.false_or] at hfree; exact hfree
      obtain ⟨a, b, h1, h2⟩ := ih hfree'
      refine ⟨sessOf e :: a, b, ?_, ?_⟩
      · rw [liveS_cons_valid e es hv, h1]; rfl
      · rw [liveS_cons_valid e _ hv, h2]; rfl
    · simp only [Bool.not_eq_true] at hv
      have hnv : (!e.valid) = true := by simp [hv]
      rw [if_pos hnv]
      refine ⟨[], liveS es, ?_, ?_⟩
      · rw [liveS_cons_invalid e es hv]; rfl
      · rw [liveS_cons_valid n es hn]; rfl

theorem updateFirst_length (p : Entry → Bool) (f : Entry → Entry) (es : List Entry) : (updateFirst p f es).length = es.length := by
  induction es with
  | nil => rfl
  | cons e es ih => simp only [updateFirst]; split <;> simp [ih]

theorem liveS_length_le (es : List Entry) : (liveS es).length ≤ es.length := by
  simp only [liveS, List.length_map]; exact List.length_filter_le _ _

/-- a free slot exists iff fewer than all slots are live -/
theorem any_free_iff (es : List Entry) : es.any (fun e => !e.valid) = true ↔ (liveS es).length < es.length := by
  induction es with
  | nil => simp [liveS]
  | cons e es ih =>
    by_cases hv : e.valid = true
    · rw [liveS_cons_valid e es hv]
      simp only [List.any_cons, hv, Bool.not_true, Bool.false_or, List.length_cons]
      rw [ih]; omega
    · simp only [Bool.not_eq_true] at hv
      rw [liveS_cons_invalid e es hv]
      simp only [List.any_cons, hv, Bool.not_false, Bool.true_or, List.length_cons, true_iff]
      have := liveS_length_le es; omega

theorem all_complete_iff (es : List Entry) : es.all (fun e => !e.valid || e.complete) = (liveS es).all (·.complete) := by
  induction es with
  | nil => rfl
  | cons e es ih =>
    by_cases hv : e.valid = true
    · rw [liveS_cons_valid e es hv]; simp [hv, ih, sessOf]
    · simp only [Bool.not_eq_true] at hv
      rw [liveS_cons_invalid e es hv]; simp [hv, ih]

end LLTD

namespace LLTD
open LLTD.Spec

theorem sameSet_refl (l : List Sess) : sameSet l l = true := by
  simp [sameSet, List.all_eq_true]

theorem sameSet_of_mem_iff (a b : List Sess) (h : ∀ x, x ∈ a ↔ x ∈ b) : sameSet a b = true := by
  simp only [sameSet, Bool.and_eq_true, List.all_eq_true, List.contains_iff_mem]
  exact ⟨fun x hx => (h x).mp hx, fun x hx => (h x).mpr hx⟩

theorem sameSet_insert (a b : List Sess) (n : Sess) : sameSet (a ++ n :: b) (n :: (a ++ b)) = true := by
  apply sameSet_of_mem_iff
  intro x
  simp only [List.mem_append, List.mem_cons]
  constructor
  · rintro (h | h | h)
    · exact Or.inr (Or.inl h)
    · exact Or.inl h
    · exact Or.inr (Or.inr h)
  · rintro (h | h | h)
    · exact Or.inr (Or.inl h)
    · exact Or.inl h
    · exact Or.inr (Or.inr h)

/-- keys of a list -/
def keysOf (l : List Sess) : List (Mac × Nat) := l.map (·.key)

theorem noDupKeys_iff (l : List Sess) : noDupKeys l = true ↔ (keysOf l).Nodup := by
  induction l with
  | nil => simp [noDupKeys, keysOf]
  | cons s l ih =>
    rw [noDupKeys_cons, Bool.and_eq_true, ih]
    simp only [keysOf, List.map_cons, List.nodup_cons, List.mem_map, Bool.not_eq_true', List.any_eq_false, beq_iff_eq]
    constructor
    · rintro ⟨h1, h2⟩; exact ⟨fun ⟨x, hx, hk⟩ => h1 x hx hk, h2⟩
    · rintro ⟨h1, h2⟩; exact ⟨fun x hx hk => h1 ⟨x, hx, hk⟩, h2⟩

theorem noDupKeys_map_keep (l : List Sess) (g : Sess → Sess) (hg : ∀ s, (g s).key = s.key) (h : noDupKeys l = true) :
    noDupKeys (l.map g) = true := by
  rw [noDupKeys_iff] at *
  have : keysOf (l.map g) = keysOf l := by simp [keysOf, List.map_map, Function.comp_def, hg]
  rw [this]; exact h

theorem noDupKeys_filter (l : List Sess) (p : Sess → Bool) (h : noDupKeys l = true) : noDupKeys (l.filter p) = true := by
  rw [noDupKeys_iff] at *
  have : (keysOf (l.filter p)).Sublist (keysOf l) := by
    unfold keysOf; exact List.Sublist.map _ List.filter_sublist
  exact List.Nodup.sublist this h

theorem noDupKeys_insert (a b : List Sess) (n : Sess) (h : noDupKeys (a ++ b) = true) (hn : (a ++ b).any (fun s => s.key == n.key) = false) :
    noDupKeys (a ++ n :: b) = true := by
  rw [noDupKeys_iff] at *
  have hperm : (keysOf (a ++ n :: b)).Perm (keysOf (n :: (a ++ b))) := by
    unfold keysOf; exact List.Perm.map _ List.perm_middle
  rw [hperm.nodup_iff]
  simp only [keysOf, List.map_cons, List.nodup_cons]
  refine ⟨?_, h⟩
  rw [List.any_eq_false] at hn
  intro hm
  simp only [List.mem_map] at hm
  obtain ⟨x, hx, hk⟩ := hm
  have := hn x hx
  simp [hk] at this

/-- removing the (unique) session of a key that is present shortens the live view by one -/
theorem filter_key_length (l : List Sess) (k : Mac × Nat) (hnd : noDupKeys l = true) (hin : l.any (fun s => s.key == k) = true) :
    (l.filter (fun s => s.key != k)).length + 1 = l.length := by
  induction l with
  | nil => simp at hin
  | cons s l ih =>
    rw [noDupKeys_cons, Bool.and_eq_true, Bool.not_eq_true'] at hnd
    by_cases hs : s.key = k
    · have hb : (s.key != k) = false := by simp [hs]
      rw [List.filter_cons, hb]
      simp only [Bool.false_eq_true, if_false, List.length_cons]
      have hnone := hnd.1
      rw [hs] at hnone
      have : l.filter (fun s => s.key != k) = l := by
        apply List.filter_eq_self.mpr
        intro x hx
        rw [List.any_eq_false] at hnone
        have := hnone x hx
        simpa using this
      rw [this]
    · have hb : (s.key != k) = true := by simp [hs]
      rw [List.filter_cons, hb]
      simp only [if_true, List.length_cons]
      have hin' : l.any (fun s => s.key == k) = true := by
        simp only [List.any_cons, Bool.or_eq_true] at hin
        rcases hin with h | h
        · exact absurd (eq_of_beq h) hs
        · exact h
      have := ih hnd.2 hin'
      omega

theorem filter_key_absent (l : List Sess) (k : Mac × Nat) (hin : l.any (fun s => s.key == k) = false) :
    l.filter (fun s => s.key != k) = l := by
  apply List.filter_eq_self.mpr
  intro x hx
  rw [List.any_eq_false] at hin
  have := hin x hx
  simpa using this

end LLTD

namespace LLTD
open LLTD.Spec

theorem fresh_false (now : Nat) (e : Entry) (h : now > e.last + 60) : fresh now (sessOf e) = false := by
  unfold fresh sessOf; exact decide_eq_false (by simp only []; omega)
theorem fresh_true (now : Nat) (e : Entry) (h : ¬ now > e.last + 60) : fresh now (sessOf e) = true := by
  unfold fresh sessOf; exact decide_eq_true (by simp only []; omega)

/-- the expiry sweep: what stays live, and how the counter moves -/
theorem expireLoop_spec (now : Nat) (es : List Entry) (c : Nat) :
    liveS (expireLoop now es c).1 = (liveS es).filter (fresh now) ∧
    (expireLoop now es c).1.length = es.length ∧
    (expireLoop now es c).2 = c - ((liveS es).length - ((liveS es).filter (fresh now)).length) := by
  induction es generalizing c with
  | nil => simp [expireLoop, liveS]
  | cons e es ih =>
    simp only [expireLoop]
    have hfl := List.length_filter_le (fresh now) (liveS es)
    by_cases hx : e.valid = true ∧ now > e.last + 60
    · rw [if_pos hx]
      have := ih (if c > 0 then c - 1 else c)
      obtain ⟨h1, h2, h3⟩ := this
      have hkeep : fresh now (sessOf e) = false := fresh_false now e hx.2
      refine ⟨?_, ?_, ?_⟩
      · simp only []
        rw [liveS_cons_invalid _ _ rfl, h1, liveS_cons_valid e es hx.1, List.filter_cons, hkeep]
        simp
      · simp only [List.length_cons, h2]
      · simp only []
        rw [h3, liveS_cons_valid e es hx.1, List.filter_cons, hkeep]
        simp only [Bool.false_eq_true, if_false, List.length_cons]
        split <;> omega
    · rw [if_neg hx]
      have := ih c
      obtain ⟨h1, h2, h3⟩ := this
      by_cases hv : e.valid = true
      · have hkeep : fresh now (sessOf e) = true := fresh_true now e (fun hg => hx ⟨hv, hg⟩)
        refine ⟨?_, ?_, ?_⟩
        · simp only []
          rw [liveS_cons_valid e _ hv, h1, liveS_cons_valid e es hv, List.filter_cons, hkeep]
          simp
        · simp only [List.length_cons, h2]
        · simp only []
          rw [h3, liveS_cons_valid e es hv, List.filter_cons, hkeep]
          simp only [if_true, List.length_cons]
          omega
      · simp only [Bool.not_eq_true] at hv
        refine ⟨?_, ?_, ?_⟩
        · simp only []
          rw [liveS_cons_invalid e _ hv, h1, liveS_cons_invalid e es hv]
        · simp only [List.length_cons, h2]
        · simp only []
          rw [h3, liveS_cons_invalid e es hv]

end LLTD
