/- Characterisation of parseFrameSt on the individual request types. -/
import LLTD.Lemmas.Hello
import LLTD.Lemmas.XVals

namespace LLTD
open LLTD.Spec

theorem mtuEff_ge (c : Cfg) (hc : CfgOk c) : 576 ≤ c.mtuEff := by
  unfold Cfg.mtuEff
  split
  · omega
  · exact hc.mtuLo

theorem mapperMatches_setActive (st : St) (r e : Mac) (h : mapperMatches st r = true) :
    mapperMatches (setActiveMapper st r e) r = true := by
  unfold setActiveMapper
  split
  · exact h
  · simp [mapperMatches]

theorem setActive_known (st : St) (r e : Mac) : (setActiveMapper st r e).known = true := by
  unfold setActiveMapper; split <;> simp_all

theorem setActive_real_of_matches (st : St) (r e : Mac) (h : mapperMatches st r = true) :
    (setActiveMapper st r e).mapperReal = r := by
  unfold setActiveMapper mapperMatches at *
  split
  · next hk => simp [hk] at h; exact h
  · rfl

theorem helloFrame_fits (c : Cfg) (g : Glob) (gen tos : Nat) (img : List Nat) (hc : CfgOk c) (hl : 36 ≤ img.length) :
    ¬ (helloFrame c g gen tos (fRealSrc img) (fEthSrc img)).length > c.mtuEff := by
  have h1 : (fRealSrc img).length = 6 := slice_length _ _ _ (by simp; omega)
  have h2 : (fEthSrc img).length = 6 := slice_length _ _ _ (by simp; omega)
  rw [helloFrame_length c g _ _ _ _ hc h1 h2]
  have := helloTlvs_length_le c g hc
  have := mtuEff_ge c hc
  omega

/-- answerHello with its allocation granted: exactly one transmit, the Hello frame, no fault -/
theorem answerHello_fx (c : Cfg) (g : Glob) (w : World) (st : St) (img : List Nat) (hc : CfgOk c)
    (hl : 36 ≤ img.length) (hm : (w.malloc c.mtuEff).2 = true) :
    (answerHello c g w st img).fx =
        [Fx.send ((w.malloc c.mtuEff).1.send).2 c.idx (helloFrame c g (helloGen st img) (fTos img) (fRealSrc img) (fEthSrc img))] ∧
      (answerHello c g w st img).fault = none := by
  have hfit := helloFrame_fits c g (helloGen st img) (fTos img) img hc hl
  unfold answerHello
  simp only [hm, Bool.not_true, Bool.false_eq_true, if_false, if_neg hfit, sendFx]
  trivial

/-- no buffer, no Hello: nothing is sent -/
theorem answerHello_fx_fail (c : Cfg) (g : Glob) (w : World) (st : St) (img : List Nat) (hm : (w.malloc c.mtuEff).2 = false) :
    (answerHello c g w st img).fx = [] := by
  unfold answerHello
  simp only [hm, Bool.not_false, if_true]

/-- answerHello never faults, whatever the allocator does -/
theorem answerHello_safe (c : Cfg) (g : Glob) (w : World) (st : St) (img : List Nat) (hc : CfgOk c) (hl : 36 ≤ img.length) :
    (answerHello c g w st img).fault = none := by
  have hfit := helloFrame_fits c g (helloGen st img) (fTos img) img hc hl
  unfold answerHello
  by_cases hm : (w.malloc c.mtuEff).2 = true
  · simp only [hm, Bool.not_true, Bool.false_eq_true, if_false, if_neg hfit]
  · simp only [Bool.not_eq_true] at hm
    simp only [hm, Bool.not_false, if_true]

theorem prestep_gen (slot gen : Nat) :
    (if slot = 0 ∧ gen ≠ 0 then gen else if slot ≠ gen then gen else slot) = gen := by
  split
  · rfl
  · split
    · rfl
    · next h => simp at h; exact h

theorem prestep_gen' (slot gen : Nat) :
    (if slot = 0 ∧ ¬gen = 0 then gen else if slot = gen then slot else gen) = gen := by
  split
  · rfl
  · split
    · next h => exact h
    · rfl

/-- the per-interface state after the Discover pre-step of parseFrame (accepted Discover) -/
def preStep (st : St) (img : List Nat) : St :=
  let s := setActiveMapper st (fRealSrc img) (fEthSrc img)
  if fTos img = 1 then { s with genQuick := fDiscGen img } else { s with genTopo := fDiscGen img }

theorem preStepRaw_eq (st : St) (img : List Nat) : preStepRaw st img = preStep st img := by
  unfold preStepRaw preStep
  simp only [X.tosQuick_val]
  by_cases hq : fTos img = 1
  · simp only [hq, if_true, prestep_gen]
  · simp only [hq, if_false, prestep_gen]

theorem preStep_matches (st : St) (img : List Nat) (h : mapperMatches st (fRealSrc img) = true) :
    mapperMatches (preStep st img) (fRealSrc img) = true := by
  have := mapperMatches_setActive st (fRealSrc img) (fEthSrc img) h
  unfold preStep
  split <;> simpa [mapperMatches] using this

theorem preStep_known (st : St) (img : List Nat) : (preStep st img).known = true := by
  have := setActive_known st (fRealSrc img) (fEthSrc img)
  unfold preStep
  split <;> simpa using this

theorem helloGen_preStep (st : St) (img : List Nat) : helloGen (preStep st img) img = fDiscGen img := by
  have hk := preStep_known st img
  unfold helloGen
  have hs : setActiveMapper (preStep st img) (fRealSrc img) (fEthSrc img) = preStep st img := by
    unfold setActiveMapper; simp [hk]
  simp only [hs, X.tosQuick_val]
  unfold preStep
  by_cases hq : fTos img = 1
  · simp [hq]
  · simp [hq]

/-- parseFrameSt on a Discover of a discovery service -/
theorem parseFrameSt_discover (c : Cfg) (g : Glob) (w : World) (st : St) (img : List Nat)
    (htos : fTos img = 0 ∨ fTos img = 1) (hop : fOpcode img = 0) :
    parseFrameSt c g w st img =
      if mapperMatches st (fRealSrc img) = true then
        (if fTos img = 0 then
           { answerHello c g w (preStep st img) img with fx := Fx.sleep 10 :: (answerHello c g w (preStep st img) img).fx }
         else answerHello c g w (preStep st img) img)
      else { st := st, w := w, fx := [] } := by
  by_cases hm : mapperMatches st (fRealSrc img) = true
  · have hm' := preStep_matches st img hm
    rcases htos with h0 | h1
    · simp [parseFrameSt, h0, hop, hm, preStepRaw_eq, hm']
    · simp [parseFrameSt, h1, hop, hm, preStepRaw_eq, hm']
  · rcases htos with h0 | h1
    · simp [parseFrameSt, h0, hop, hm]
    · simp [parseFrameSt, h1, hop, hm]

/-! ## Dispatch: parseFrameSt as a function of (type of service, opcode) -/

theorem dispatch_tos0 (c : Cfg) (g : Glob) (w : World) (st : St) (img : List Nat) (ht : fTos img = 0) (hop : fOpcode img ≠ 0) :
    parseFrameSt c g w st img =
      if fOpcode img = 2 then parseEmit c w st img
      else if fOpcode img = 3 ∨ fOpcode img = 4 then parseProbe c w st img
      else if fOpcode img = 6 then parseQuery c w st img
      else if fOpcode img = 11 then parseQueryLargeTlv c g w st img
      else if fOpcode img = 8 then { st := resetSt st, w := resetWorld w st, fx := [] }
      else { st := st, w := w, fx := [] } := by
  simp [parseFrameSt, ht, hop]

theorem dispatch_tos1 (c : Cfg) (g : Glob) (w : World) (st : St) (img : List Nat) (ht : fTos img = 1) (hop : fOpcode img ≠ 0) :
    parseFrameSt c g w st img =
      if fOpcode img = 11 then parseQueryLargeTlv c g w st img
      else if fOpcode img = 8 then { st := { st with known := false, genQuick := 0 }, w := w, fx := [] }
      else { st := st, w := w, fx := [] } := by
  simp [parseFrameSt, ht, hop]

theorem dispatch_other (c : Cfg) (g : Glob) (w : World) (st : St) (img : List Nat) (h0 : fTos img ≠ 0) (h1 : fTos img ≠ 1) :
    parseFrameSt c g w st img = { st := st, w := w, fx := [] } := by
  simp [parseFrameSt, h0, h1]

end LLTD
