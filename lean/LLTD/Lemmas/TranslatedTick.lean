/-
  automata_tick AS TRANSLATED from lltdAutomata.c (tools/c2lean.py; all four objects present, the port wired: send_hello and
  last_hello_tx_ms set - the configuration of the daemons) equals the model's `tick`, stage by stage: the translator emits the
  large function as named blocks `automata_tick.stK`, each of which is related to the corresponding piece of the hand-written model.
  No Mathlib.
-/
import LLTD.Props.C13T

namespace LLTD.TEq
open LLTD LLTD.X


/-! ## automata_tick, stage by stage -/

/-- the expiry sweep of the tick on the translated record type -/
def texpire (now : Nat) : List T.session_entry → Nat → List T.session_entry × Nat
  | [], c => ([], c)
  | x :: xs, c =>
    if x.valid = true ∧ now > (x.last_activity_ts + 60) % 18446744073709551616 then
      ({ x with valid := false } :: (texpire now xs (if c > 0 then (c + 255) % 256 else c)).1,
       (texpire now xs (if c > 0 then (c + 255) % 256 else c)).2)
    else (x :: (texpire now xs c).1, (texpire now xs c).2)

theorem texpire_append (now : Nat) (l1 l2 : List T.session_entry) (c : Nat) :
    texpire now (l1 ++ l2) c =
      ((texpire now l1 c).1 ++ (texpire now l2 (texpire now l1 c).2).1, (texpire now l2 (texpire now l1 c).2).2) := by
  induction l1 generalizing c with
  | nil => simp [texpire]
  | cons x xs ih =>
    simp only [List.cons_append, texpire]
    split <;> simp [ih]

theorem texpire_length (now : Nat) (l : List T.session_entry) (c : Nat) : (texpire now l c).1.length = l.length := by
  induction l generalizing c with
  | nil => rfl
  | cons x xs ih => simp only [texpire]; split <;> simp [ih]

theorem texpire_count (now : Nat) (l : List T.session_entry) (c : Nat) (hc : c < 256) : (texpire now l c).2 < 256 := by
  induction l generalizing c with
  | nil => exact hc
  | cons x xs ih =>
    simp only [texpire]; split
    · apply ih; split <;> omega
    · exact ih c hc

theorem texpire_map (now : Nat) (l : List T.session_entry) (c : Nat) (hc : c < 256)
    (hts : ∀ x ∈ l, x.last_activity_ts + 60 < u64) :
    (texpire now l c).1.map entryOfC = (expireLoop now (l.map entryOfC) c).1 ∧ (texpire now l c).2 = (expireLoop now (l.map entryOfC) c).2 := by
  induction l generalizing c with
  | nil => exact ⟨rfl, rfl⟩
  | cons x xs ih =>
    have hx := hts x (List.mem_cons_self ..)
    have hxs : ∀ y ∈ xs, y.last_activity_ts + 60 < u64 := fun y hy => hts y (List.mem_cons_of_mem _ hy)
    have hmod : (x.last_activity_ts + 60) % 18446744073709551616 = x.last_activity_ts + 60 := Nat.mod_eq_of_lt (by unfold u64 at hx; exact hx)
    simp only [texpire, List.map_cons, expireLoop, hmod]
    have hcond : (x.valid = true ∧ now > x.last_activity_ts + 60) ↔ ((entryOfC x).valid = true ∧ now > (entryOfC x).last + 60) := by simp [entryOfC]
    by_cases hq : x.valid = true ∧ now > x.last_activity_ts + 60
    · have hq' := hcond.mp hq
      simp only [hq, hq', and_self, if_true]
      by_cases hc0 : c > 0
      · have hdec : (c + 255) % 256 = c - 1 := by omega
        simp only [hc0, if_true, hdec]
        obtain ⟨i1, i2⟩ := ih (c - 1) (by omega) hxs
        exact ⟨by simp [i1, entryOfC], i2⟩
      · simp only [hc0, if_false]
        obtain ⟨i1, i2⟩ := ih c hc hxs
        exact ⟨by simp [i1, entryOfC], i2⟩
    · have hq' : ¬((entryOfC x).valid = true ∧ now > (entryOfC x).last + 60) := fun h => hq (hcond.mpr h)
      simp only [hq, hq', if_false]
      obtain ⟨i1, i2⟩ := ih c hc hxs
      exact ⟨by simp [i1], i2⟩

/-- every slot's activity stamp is far from the end of the 64-bit range, the count is a `uint8_t` -/
structure TickTblOk (t : T.session_table) : Prop where
  hlen : t.entries.length = 16
  hts : ∀ x ∈ t.entries, x.last_activity_ts + 60 < u64
  hcount : t.count < 256

/-- fields of the tick's state record the table stages leave alone -/
def sameRest (a b : T.automata_tick.S) : Prop :=
  b.mapping = a.mapping ∧ b.mapping_extra = a.mapping_extra ∧ b.enumeration = a.enumeration ∧
  b.enumeration_extra = a.enumeration_extra ∧ b.port_last_hello_tx_ms = a.port_last_hello_tx_ms ∧
  b.port_send_hello_calls = a.port_send_hello_calls ∧ b.now_ms = a.now_ms ∧ b.now_s = a.now_s ∧
  b.diverged = a.diverged ∧ b.done = a.done ∧ b.brk = a.brk

theorem set_append_mid (A B : List T.session_entry) (x y : T.session_entry) :
    (A ++ x :: B).set A.length y = A ++ y :: B := by
  induction A with
  | nil => rfl
  | cons a as ih => simp [ih]

theorem getD_append_mid (A B : List T.session_entry) (x d : T.session_entry) : (A ++ x :: B).getD A.length d = x := by
  induction A with
  | nil => rfl
  | cons a as ih => simpa using ih

theorem tick_loop1_step (e : T.Env) (i : Nat) (s : T.automata_tick.S) (A B : List T.session_entry) (x : T.session_entry)
    (hA : A.length = i) (hent : s.sessions.entries = A ++ x :: B) (hd : s.done = false) (hb : s.brk = false) (hn : s.now_s = e.nowS) :
    (T.automata_tick.loop1 e i s).sessions.entries = A ++ (texpire e.nowS [x] s.sessions.count).1 ++ B ∧
    (T.automata_tick.loop1 e i s).sessions.count = (texpire e.nowS [x] s.sessions.count).2 ∧
    (T.automata_tick.loop1 e i s).sessions.all_complete = s.sessions.all_complete ∧
    sameRest s (T.automata_tick.loop1 e i s) := by
  subst hA
  unfold T.automata_tick.loop1
  simp only [hd, hb, Bool.or_self, Bool.false_eq_true, if_false, hent, getD_append_mid, set_append_mid, hn, texpire]
  by_cases hv : x.valid = true
  · by_cases hex : e.nowS > (x.last_activity_ts + 60) % 18446744073709551616
    · simp only [hv, hex, and_self, if_true, decide_true]
      by_cases hc : s.sessions.count > 0
      · have hc' : ((s.sessions.count : Int) > 0) := by exact_mod_cast hc
        simp [hc, hc', sameRest, hd, hb, hn]
      · have hc' : ¬ ((s.sessions.count : Int) > 0) := by exact_mod_cast hc
        simp [hc, hc', sameRest, hd, hb, hn]
    · simp [hv, hex, sameRest, hd, hb, hent, hn]
  · have hv' : x.valid = false := by simpa using hv
    simp [hv', sameRest, hd, hb, hent, hn]

theorem sameRest_refl (a : T.automata_tick.S) : sameRest a a := ⟨rfl, rfl, rfl, rfl, rfl, rfl, rfl, rfl, rfl, rfl, rfl⟩
theorem sameRest_trans {a b c : T.automata_tick.S} (h1 : sameRest a b) (h2 : sameRest b c) : sameRest a c := by
  obtain ⟨a1, a2, a3, a4, a5, a6, a7, a8, a9, a10, a11⟩ := h1
  obtain ⟨b1, b2, b3, b4, b5, b6, b7, b8, b9, b10, b11⟩ := h2
  exact ⟨b1.trans a1, b2.trans a2, b3.trans a3, b4.trans a4, b5.trans a5, b6.trans a6, b7.trans a7, b8.trans a8, b9.trans a9, b10.trans a10, b11.trans a11⟩

/-- the whole expiry sweep -/
theorem tick_loop_expire (e : T.Env) (t : T.session_table) (ht : TickTblOk t) (s0 : T.automata_tick.S)
    (h0 : s0.sessions = t) (hd : s0.done = false) (hb : s0.brk = false) (hn : s0.now_s = e.nowS) :
    (CSem.loopRange 0 16 (T.automata_tick.loop1 e) s0).sessions.entries = (texpire e.nowS t.entries t.count).1 ∧
    (CSem.loopRange 0 16 (T.automata_tick.loop1 e) s0).sessions.count = (texpire e.nowS t.entries t.count).2 ∧
    (CSem.loopRange 0 16 (T.automata_tick.loop1 e) s0).sessions.all_complete = t.all_complete ∧
    sameRest s0 (CSem.loopRange 0 16 (T.automata_tick.loop1 e) s0) := by
  have hinv := loopRange_inv (fun i (s : T.automata_tick.S) =>
      s.sessions.entries = (texpire e.nowS (t.entries.take i) t.count).1 ++ t.entries.drop i ∧
      s.sessions.count = (texpire e.nowS (t.entries.take i) t.count).2 ∧
      s.sessions.all_complete = t.all_complete ∧ sameRest s0 s)
    16 (T.automata_tick.loop1 e) 16 0 s0 (by omega)
    ⟨by simp [texpire, h0], by simp [texpire, h0], by rw [h0], sameRest_refl s0⟩
    (by
      intro i s _ hi ⟨q1, q2, q3, q4⟩
      have hil : i < t.entries.length := by rw [ht.hlen]; exact hi
      have hdrop : t.entries.drop i = t.entries[i] :: t.entries.drop (i + 1) := (List.drop_eq_getElem_cons hil)
      have hAlen : (texpire e.nowS (t.entries.take i) t.count).1.length = i := by rw [texpire_length]; simp; omega
      rw [hdrop] at q1
      obtain ⟨a1, a2, a3, a4⟩ := tick_loop1_step e i s _ _ _ hAlen q1 (by rw [q4.2.2.2.2.2.2.2.2.2.1, hd]) (by rw [q4.2.2.2.2.2.2.2.2.2.2, hb])
        (by rw [q4.2.2.2.2.2.2.2.1, hn])
      have htake : t.entries.take (i + 1) = t.entries.take i ++ [t.entries[i]] := by
        rw [List.take_add_one, List.getElem?_eq_getElem hil]; rfl
      rw [htake, texpire_append]
      refine ⟨?_, ?_, a3.trans q3, sameRest_trans q4 a4⟩
      · rw [a1, q2]
      · rw [a2, q2])
  obtain ⟨l1, l2, l3, l4⟩ := hinv
  have h16 : t.entries.take 16 = t.entries := by rw [List.take_of_length_le]; rw [ht.hlen]; exact Nat.le_refl _
  have hd16 : t.entries.drop 16 = [] := by rw [List.drop_eq_nil_iff]; rw [ht.hlen]; exact Nat.le_refl _
  rw [h16, hd16, List.append_nil] at l1
  rw [h16] at l2
  exact ⟨l1, l2, l3, l4⟩

/-- stage 3 of the tick (the `if (sessions)` block): the expiry sweep followed by the status update is the model's `Table.expire` -/
theorem tick_st3 (e : T.Env) (s : T.automata_tick.S) (ht : TickTblOk s.sessions) (hd : s.done = false) (hb : s.brk = false) (hn : s.now_s = e.nowS) :
    tableOfC (T.automata_tick.st3 e s).sessions = (tableOfC s.sessions).expire e.nowS ∧ sameRest s (T.automata_tick.st3 e s) ∧
    (T.automata_tick.st3 e s).sessions.entries.length = 16 ∧ (T.automata_tick.st3 e s).sessions.count < 256 := by
  obtain ⟨l1, l2, l3, l4⟩ := tick_loop_expire e s.sessions ht s rfl hd hb hn
  unfold T.automata_tick.st3
  simp only []
  generalize CSem.loopRange 0 16 (T.automata_tick.loop1 e) s = L at l1 l2 l3 l4 ⊢
  obtain ⟨m1, m2⟩ := texpire_map e.nowS s.sessions.entries s.sessions.count ht.hcount ht.hts
  have hlen : L.sessions.entries.length = 16 := by rw [l1, texpire_length]; exact ht.hlen
  have hup := session_table_update_complete_status_eq e L.sessions hlen
  refine ⟨?_, ?_, ?_, ?_⟩
  · rw [hup]
    unfold Table.expire
    congr 1
    simp only [tableOfC, Table.mk.injEq]
    exact ⟨by rw [l1, m1], by rw [l2, m2], l3⟩
  · obtain ⟨a1, a2, a3, a4, a5, a6, a7, a8, a9, a10, a11⟩ := l4
    exact ⟨a1, a2, a3, a4, a5, a6, a7, a8, a9, a10, by simp [hb]⟩
  · have : (tableOfC (T.session_table_update_complete_status e L.sessions).table).entries.length = 16 := by
      rw [hup]; simp [Table.updateStatus, tableOfC, hlen]
    simpa [tableOfC] using this
  · have : (tableOfC (T.session_table_update_complete_status e L.sessions).table).count = L.sessions.count := by
      rw [hup]; rfl
    have h2 : (T.session_table_update_complete_status e L.sessions).table.count = L.sessions.count := by simpa [tableOfC] using this
    rw [h2, l2]; exact texpire_count _ _ _ ht.hcount

/-- fields the mapping stage leaves alone -/
def sameEnum (a b : T.automata_tick.S) : Prop :=
  b.enumeration = a.enumeration ∧ b.enumeration_extra = a.enumeration_extra ∧ b.port_last_hello_tx_ms = a.port_last_hello_tx_ms ∧
  b.port_send_hello_calls = a.port_send_hello_calls ∧ b.now_ms = a.now_ms ∧ b.now_s = a.now_s ∧ b.done = a.done ∧ b.brk = a.brk

theorem tickTblOk_clear (e : T.Env) (t : T.session_table) : TickTblOk (T.session_table_clear e t).table := by
  refine ⟨by simp [T.session_table_clear], ?_, by simp [T.session_table_clear]⟩
  intro x hx
  simp only [T.session_table_clear, List.mem_replicate] at hx
  rw [hx.2]; decide

/-- stage 2 of the tick (the `if (mapping && mapping->extra)` block) is the model's `tickMapStage` -/
theorem tick_st2 (e : T.Env) (hnow : e.nowS < u64) (s : T.automata_tick.S) (hok : AutOk s.mapping) (hm : IsMapping s.mapping)
    (ht : TickTblOk s.sessions) :
    (tickMapStage (some (fsmOfC s.mapping, some (mapOfC s.mapping_extra))) (some (tableOfC s.sessions)) e.nowS) =
      (some (fsmOfC (T.automata_tick.st2 e s).mapping, some (mapOfC (T.automata_tick.st2 e s).mapping_extra)),
       some (tableOfC (T.automata_tick.st2 e s).sessions)) ∧
    sameEnum s (T.automata_tick.st2 e s) ∧ (T.automata_tick.st2 e s).diverged = s.diverged ∧
    sameTables s.mapping (T.automata_tick.st2 e s).mapping ∧ TickTblOk (T.automata_tick.st2 e s).sessions := by
  obtain ⟨i1, i2⟩ := mapping_check_inactive_timeout_eq e s.mapping_extra
  unfold T.automata_tick.st2 tickMapStage
  simp only [i1, i2]
  by_cases hin : mapCheckInactive (mapOfC s.mapping_extra) e.nowS = true
  · simp only [hin, if_true]
    unfold T.automata_tick.st1
    simp only [ite_self]
    have hok' : AutOk s.mapping := hok
    obtain ⟨w1, w2, w3⟩ := switch_state_mapping_eq e hnow s.mapping (-1) hok hm
    obtain ⟨c1, c2⟩ := mapping_check_charge_timeout_eq e (T.mapping_reset_charge e { s.mapping_extra with inactive_timeout_ts := 0 }).mstate
    have r1 := mapping_reset_charge_eq e { s.mapping_extra with inactive_timeout_ts := 0 }
    refine ⟨?_, ⟨rfl, rfl, rfl, rfl, rfl, rfl, rfl, rfl⟩, by simp [w2], w3, tickTblOk_clear e s.sessions⟩
    simp only [w1, c1, r1, session_table_clear_eq, Option.map_some]
    rfl
  · have hin' : mapCheckInactive (mapOfC s.mapping_extra) e.nowS = false := by simpa using hin
    simp only [hin', Bool.false_eq_true, if_false, ite_self]
    obtain ⟨c1, c2⟩ := mapping_check_charge_timeout_eq e s.mapping_extra
    refine ⟨?_, ?_, ?_, ?_, ?_⟩
    · simp only [c1]
    · first | exact ⟨rfl, rfl, rfl, rfl, rfl, rfl, rfl, rfl⟩ | simp [sameEnum]
    · first | rfl | trivial
    · first | exact ⟨rfl, rfl, rfl⟩ | simp [sameTables]
    · first | exact ht | simpa using ht



/-- what the enumeration stages may change: the enumeration automaton, the RepeatBand record, the port's time stamp and the
    callback count, and two scratch locals - nothing else -/
def onlyEnum (a b : T.automata_tick.S) : Prop :=
  b.mapping = a.mapping ∧ b.mapping_extra = a.mapping_extra ∧ b.sessions = a.sessions ∧ b.now_ms = a.now_ms ∧ b.now_s = a.now_s ∧
  b.diverged = a.diverged ∧ b.done = a.done ∧ b.brk = a.brk

theorem onlyEnum_refl (a : T.automata_tick.S) : onlyEnum a a := ⟨rfl, rfl, rfl, rfl, rfl, rfl, rfl, rfl⟩
theorem onlyEnum_trans {a b c : T.automata_tick.S} (h1 : onlyEnum a b) (h2 : onlyEnum b c) : onlyEnum a c := by
  obtain ⟨a1, a2, a3, a4, a5, a6, a7, a8⟩ := h1
  obtain ⟨b1, b2, b3, b4, b5, b6, b7, b8⟩ := h2
  exact ⟨b1.trans a1, b2.trans a2, b3.trans a3, b4.trans a4, b5.trans a5, b6.trans a6, b7.trans a7, b8.trans a8⟩

/-- the environment's two clocks agree (seconds = ms / 1000) and are far from wrapping -/
structure EnvOk (e : T.Env) : Prop where
  hs : e.nowS = e.nowMs / 1000
  hc : ClockOk e

structure EnumOk (a : T.automata) : Prop where
  hno : a.transitions_no ≤ a.transitions_table.length
  his : IsEnumeration a

theorem enumOk_same (a b : T.automata) (h : sameTables a b) (ha : EnumOk a) : EnumOk b := by
  obtain ⟨h1, h2, h3⟩ := h
  refine ⟨by rw [h1, h2]; exact ha.hno, ?_⟩
  unfold IsEnumeration; rw [(rowsOfC_same a b ⟨h1, h2, h3⟩).1]; exact ha.his

/-- block end: band_update_stats then band_choose_hello_time -/
theorem tick_st9 (e : T.Env) (he : EnvOk e) (s : T.automata_tick.S) (hb : BandOk s.enumeration_extra) :
    bandOfC (T.automata_tick.st9 e s).enumeration_extra = bandChooseHelloTime (bandUpdateStats (bandOfC s.enumeration_extra) e.nowMs) e.nowMs ∧
    BandOk (T.automata_tick.st9 e s).enumeration_extra ∧ onlyEnum s (T.automata_tick.st9 e s) ∧
    (T.automata_tick.st9 e s).enumeration = s.enumeration ∧ (T.automata_tick.st9 e s).port_last_hello_tx_ms = s.port_last_hello_tx_ms ∧
    (T.automata_tick.st9 e s).port_send_hello_calls = s.port_send_hello_calls := by
  have hok := C13T.bandOk_update e s.enumeration_extra he.hc hb
  have h1 := C13T.block_end_translated e s.enumeration_extra he.hc hb hok
  unfold T.automata_tick.st9
  refine ⟨h1, ?_, ⟨rfl, rfl, rfl, rfl, rfl, rfl, rfl, rfl⟩, rfl, rfl, rfl⟩
  have h2 := (band_choose_hello_time_eq e _ he.hc hok).1
  have : (T.band_choose_hello_time e (T.band_update_stats e s.enumeration_extra).band).band.Ni = (T.band_update_stats e s.enumeration_extra).band.Ni ∧
      (T.band_choose_hello_time e (T.band_update_stats e s.enumeration_extra).band).band.r = (T.band_update_stats e s.enumeration_extra).band.r := by
    have a := congrArg Band.ni h2; have b := congrArg Band.r h2
    simp only [bandOfC, bandChooseHelloTime] at a b
    exact ⟨a, b⟩
  exact ⟨by rw [this.1]; exact hok.1, by rw [this.2]; exact hok.2⟩

/-- the Hello-timeout branch (st8, with st5 = suppressed and st7 = send) is the model's `enumHello` with a wired port -/
theorem tick_st8 (e : T.Env) (he : EnvOk e) (s : T.automata_tick.S) (hb : BandOk s.enumeration_extra) (hen : EnumOk s.enumeration)
    (hnm : s.now_ms = e.nowMs) (hltx : s.port_last_hello_tx_ms ≤ e.nowMs)
    (hdue : s.enumeration_extra.hello_timeout_ts > 0 ∧ e.nowMs ≥ s.enumeration_extra.hello_timeout_ts) :
    let r := enumHello (fsmOfC s.enumeration) (bandOfC s.enumeration_extra) s.port_last_hello_tx_ms .wired e.nowMs
    fsmOfC (T.automata_tick.st8 e s).enumeration = r.1 ∧ bandOfC (T.automata_tick.st8 e s).enumeration_extra = r.2.1 ∧
    (T.automata_tick.st8 e s).port_last_hello_tx_ms = r.2.2.1 ∧
    (T.automata_tick.st8 e s).port_send_hello_calls = s.port_send_hello_calls + r.2.2.2.length ∧
    BandOk (T.automata_tick.st8 e s).enumeration_extra ∧ EnumOk (T.automata_tick.st8 e s).enumeration ∧
    onlyEnum s (T.automata_tick.st8 e s) ∧ (T.automata_tick.st8 e s).port_last_hello_tx_ms ≤ e.nowMs := by
  intro r
  obtain ⟨hc1, hc2⟩ := he.hc
  unfold u64 at hc1 hc2
  have hdue' : (bandOfC s.enumeration_extra).helloTs > 0 ∧ e.nowMs ≥ (bandOfC s.enumeration_extra).helloTs := hdue
  have hd64 : (e.nowMs + 18446744073709551616 - s.port_last_hello_tx_ms) % 18446744073709551616 = diff64 e.nowMs s.port_last_hello_tx_ms :=
    diff64_eq _ _ (by unfold u64; omega)
  by_cases hsup : s.port_last_hello_tx_ms > 0 ∧ diff64 e.nowMs s.port_last_hello_tx_ms < 1000
  · -- suppressed: the deadline moves to one second after the last transmit
    have hr : r = (fsmOfC s.enumeration, { bandOfC s.enumeration_extra with helloTs := s.port_last_hello_tx_ms + 1000 }, s.port_last_hello_tx_ms, []) := by
      show enumHello _ _ _ _ _ = _
      unfold enumHello
      simp only [hdue', and_self, if_true, helloMinIntervalMs_val, hsup]
    have hmod : (s.port_last_hello_tx_ms + 1000) % 18446744073709551616 = s.port_last_hello_tx_ms + 1000 := Nat.mod_eq_of_lt (by omega)
    unfold T.automata_tick.st8 T.automata_tick.st5
    simp only [hnm, hd64, hsup, and_self, decide_true, Bool.and_self, if_true, hmod]
    rw [hr]
    refine ⟨?_, ?_, ?_, ?_, ⟨hb.1, hb.2⟩, hen, ⟨?_, ?_, ?_, ?_, ?_, ?_, ?_, ?_⟩, hltx⟩
    all_goals (first | exact hnm.symm | (simp only []; done) | (simp only [hnm]; done) | (simp [bandOfC]; done))
  · -- sent
    have hn1000 : (e.nowMs + 1000) % 18446744073709551616 = e.nowMs + 1000 := Nat.mod_eq_of_lt (by omega)
    have hcond : (decide (s.port_last_hello_tx_ms > 0) && decide (diff64 e.nowMs s.port_last_hello_tx_ms < 1000)) = false := by
      rw [Bool.and_eq_false_iff]
      by_cases h0 : s.port_last_hello_tx_ms > 0
      · right; simp only [decide_eq_false_iff_not]; exact fun h => hsup ⟨h0, h⟩
      · left; simp only [decide_eq_false_iff_not]; exact h0
    have hdo := band_do_hello_eq e s.enumeration_extra he.hc hb
    obtain ⟨se1, se2⟩ := switch_state_enumeration_eq e s.enumeration 2 hen.hno
    have hr : r = (stepEnumeration (fsmOfC s.enumeration) X.enumHello (e.nowMs / 1000),
        (if (bandDoHello (bandOfC s.enumeration_extra) e.nowMs).helloTs < e.nowMs + 1000
          then { bandDoHello (bandOfC s.enumeration_extra) e.nowMs with helloTs := e.nowMs + 1000 } else bandDoHello (bandOfC s.enumeration_extra) e.nowMs),
        e.nowMs, [e.nowMs]) := by
      show enumHello _ _ _ _ _ = _
      unfold enumHello
      simp only [hdue', and_self, if_true, helloMinIntervalMs_val, hsup, if_false]
    unfold T.automata_tick.st8 T.automata_tick.st7 T.automata_tick.st6
    simp only [hnm, hd64, hcond, Bool.false_eq_true, if_false, hn1000]
    rw [hr]
    have hband : bandOfC (T.band_do_hello e s.enumeration_extra).band = bandDoHello (bandOfC s.enumeration_extra) e.nowMs := hdo
    have hts : (T.band_do_hello e s.enumeration_extra).band.hello_timeout_ts = (bandDoHello (bandOfC s.enumeration_extra) e.nowMs).helloTs := by
      have := congrArg Band.helloTs hband; simpa [bandOfC] using this
    have hni : (T.band_do_hello e s.enumeration_extra).band.Ni = s.enumeration_extra.Ni ∧ (T.band_do_hello e s.enumeration_extra).band.r = s.enumeration_extra.r := by
      have a := congrArg Band.ni hband; have b := congrArg Band.r hband
      simp only [bandOfC, bandDoHello, bandChooseHelloTime] at a b
      exact ⟨a, b⟩
    have hen2 : EnumOk (T.switch_state_enumeration e s.enumeration 2).autom := enumOk_same _ _ se2 hen
    have hstep : fsmOfC (T.switch_state_enumeration e s.enumeration 2).autom = stepEnumeration (fsmOfC s.enumeration) X.enumHello (e.nowMs / 1000) := by
      rw [se1, hen.his, ← he.hs]; rfl
    by_cases hfl : (bandDoHello (bandOfC s.enumeration_extra) e.nowMs).helloTs < e.nowMs + 1000
    · have hfl' : (T.band_do_hello e s.enumeration_extra).band.hello_timeout_ts < e.nowMs + 1000 := by rw [hts]; exact hfl
      simp only [hfl, hfl', decide_true, if_true]
      refine ⟨hstep, ?_, ?_, ?_, ⟨by rw [hni.1]; exact hb.1, by rw [hni.2]; exact hb.2⟩, hen2, ⟨?_, ?_, ?_, ?_, ?_, ?_, ?_, ?_⟩, Nat.le_refl _⟩
      · rw [← hband]; rfl
      all_goals (first | exact hnm.symm | (simp only []; done) | (simp only [hnm]; done) | (simp [bandOfC]; done))
    · have hfl' : ¬ (T.band_do_hello e s.enumeration_extra).band.hello_timeout_ts < e.nowMs + 1000 := by rw [hts]; exact hfl
      simp only [hfl, hfl', decide_false, Bool.false_eq_true, if_false]
      refine ⟨hstep, hband, ?_, ?_, ⟨by rw [hni.1]; exact hb.1, by rw [hni.2]; exact hb.2⟩, hen2, ⟨?_, ?_, ?_, ?_, ?_, ?_, ?_, ?_⟩, Nat.le_refl _⟩
      all_goals (first | exact hnm.symm | (simp only []; done) | (simp only [hnm]; done) | (simp [bandOfC]; done))

/-- state Pausing: the Hello branch, then the block branch -/
theorem tick_st10 (e : T.Env) (he : EnvOk e) (s : T.automata_tick.S) (hb : BandOk s.enumeration_extra) (hen : EnumOk s.enumeration)
    (hnm : s.now_ms = e.nowMs) (hltx : s.port_last_hello_tx_ms ≤ e.nowMs) :
    let r := enumHello (fsmOfC s.enumeration) (bandOfC s.enumeration_extra) s.port_last_hello_tx_ms .wired e.nowMs
    fsmOfC (T.automata_tick.st10 e s).enumeration = r.1 ∧ bandOfC (T.automata_tick.st10 e s).enumeration_extra = enumBlock r.2.1 e.nowMs ∧
    (T.automata_tick.st10 e s).port_last_hello_tx_ms = r.2.2.1 ∧
    (T.automata_tick.st10 e s).port_send_hello_calls = s.port_send_hello_calls + r.2.2.2.length ∧
    EnumOk (T.automata_tick.st10 e s).enumeration ∧ onlyEnum s (T.automata_tick.st10 e s) := by
  intro r
  -- first branch
  have hA : ∃ s1 : T.automata_tick.S,
      s1 = (if (decide (s.enumeration_extra.hello_timeout_ts > 0) && decide (s.now_ms ≥ s.enumeration_extra.hello_timeout_ts)) = true
              then T.automata_tick.st8 e s else s) ∧
      fsmOfC s1.enumeration = r.1 ∧ bandOfC s1.enumeration_extra = r.2.1 ∧ s1.port_last_hello_tx_ms = r.2.2.1 ∧
      s1.port_send_hello_calls = s.port_send_hello_calls + r.2.2.2.length ∧ BandOk s1.enumeration_extra ∧ EnumOk s1.enumeration ∧
      onlyEnum s s1 := by
    by_cases hdue : s.enumeration_extra.hello_timeout_ts > 0 ∧ e.nowMs ≥ s.enumeration_extra.hello_timeout_ts
    · obtain ⟨a1, a2, a3, a4, a5, a6, a7, _⟩ := tick_st8 e he s hb hen hnm hltx hdue
      refine ⟨T.automata_tick.st8 e s, ?_, a1, a2, a3, a4, a5, a6, a7⟩
      simp only [hnm, hdue, and_self, decide_true, Bool.and_self, if_true]
    · have hr : r = (fsmOfC s.enumeration, bandOfC s.enumeration_extra, s.port_last_hello_tx_ms, []) := by
        show enumHello _ _ _ _ _ = _
        unfold enumHello
        have hdue' : ¬((bandOfC s.enumeration_extra).helloTs > 0 ∧ e.nowMs ≥ (bandOfC s.enumeration_extra).helloTs) := hdue
        simp only [hdue', if_false]
      have hc : (decide (s.enumeration_extra.hello_timeout_ts > 0) && decide (s.now_ms ≥ s.enumeration_extra.hello_timeout_ts)) = false := by
        rw [Bool.and_eq_false_iff, hnm]
        by_cases h0 : s.enumeration_extra.hello_timeout_ts > 0
        · right; simp only [decide_eq_false_iff_not]; exact fun h => hdue ⟨h0, h⟩
        · left; simp only [decide_eq_false_iff_not]; exact h0
      refine ⟨s, by simp only [hc, Bool.false_eq_true, if_false], ?_, ?_, ?_, ?_, hb, hen, onlyEnum_refl s⟩
      all_goals (rw [hr]; try simp)
  obtain ⟨s1, hs1, b1, b2, b3, b4, b5, b6, b7⟩ := hA
  unfold T.automata_tick.st10
  simp only [← hs1]
  have hnm1 : s1.now_ms = e.nowMs := by rw [b7.2.2.2.1, hnm]
  by_cases hblk : s1.enumeration_extra.block_timeout_ts > 0 ∧ e.nowMs ≥ s1.enumeration_extra.block_timeout_ts
  · obtain ⟨c1, c2, c3, c4, c5, c6⟩ := tick_st9 e he s1 b5
    simp only [hnm1, hblk, and_self, decide_true, Bool.and_self, if_true]
    have hblk' : r.2.1.blockTs > 0 ∧ e.nowMs ≥ r.2.1.blockTs := by rw [← b2]; exact hblk
    refine ⟨by rw [c4]; exact b1, ?_, by rw [c5]; exact b3, by rw [c6]; exact b4, by rw [c4]; exact b6, onlyEnum_trans b7 c3⟩
    rw [c1, b2]; unfold enumBlock; simp only [hblk', and_self, if_true]
  · have hc : (decide (s1.enumeration_extra.block_timeout_ts > 0) && decide (s1.now_ms ≥ s1.enumeration_extra.block_timeout_ts)) = false := by
      rw [Bool.and_eq_false_iff, hnm1]
      by_cases h0 : s1.enumeration_extra.block_timeout_ts > 0
      · right; simp only [decide_eq_false_iff_not]; exact fun h => hblk ⟨h0, h⟩
      · left; simp only [decide_eq_false_iff_not]; exact h0
    simp only [hc, Bool.false_eq_true, if_false]
    have hblk' : ¬(r.2.1.blockTs > 0 ∧ e.nowMs ≥ r.2.1.blockTs) := by rw [← b2]; exact hblk
    refine ⟨b1, ?_, b3, b4, b6, b7⟩
    rw [b2]; unfold enumBlock; simp only [hblk', if_false]

/-- stage 11 of the tick (the `if (enumeration && enumeration->extra)` block) is the model's `tickEnumStage` with a wired port -/
theorem tick_st11 (e : T.Env) (he : EnvOk e) (s : T.automata_tick.S) (hb : BandOk s.enumeration_extra) (hen : EnumOk s.enumeration)
    (hnm : s.now_ms = e.nowMs) (hltx : s.port_last_hello_tx_ms ≤ e.nowMs) :
    let R := tickEnumStage (some (fsmOfC s.enumeration, some (bandOfC s.enumeration_extra))) (some (tableOfC s.sessions))
      s.port_last_hello_tx_ms .wired e.nowMs
    R.1 = some (fsmOfC (T.automata_tick.st11 e s).enumeration, some (bandOfC (T.automata_tick.st11 e s).enumeration_extra)) ∧
    R.2.1 = (T.automata_tick.st11 e s).port_last_hello_tx_ms ∧
    (T.automata_tick.st11 e s).port_send_hello_calls = s.port_send_hello_calls + R.2.2.length ∧
    onlyEnum s (T.automata_tick.st11 e s) := by
  intro R
  obtain ⟨ie1, ie2⟩ := session_table_is_empty_eq e s.sessions
  obtain ⟨ac1, ac2⟩ := session_table_all_complete_eq e s.sessions
  -- the state after the table-driven update
  have hU : ∃ s1 : T.automata_tick.S,
      s1 = (let s0 : T.automata_tick.S := { s with table_empty := (tableOfC s.sessions).isEmpty, all_complete := (tableOfC s.sessions).allComplete }
            if ((s0.enumeration.current_state : Int) != 0) = true then
              (if s0.table_empty = true then T.automata_tick.st4 e s0
               else if s0.all_complete = true then { s0 with enumeration := (T.switch_state_enumeration e s0.enumeration 0).autom }
               else { s0 with enumeration := (T.switch_state_enumeration e s0.enumeration 1).autom })
            else s0) ∧
      (fsmOfC s1.enumeration, bandOfC s1.enumeration_extra) =
        enumUpdate (fsmOfC s.enumeration) (bandOfC s.enumeration_extra) (tableOfC s.sessions).isEmpty (tableOfC s.sessions).allComplete (e.nowMs / 1000) ∧
      BandOk s1.enumeration_extra ∧ EnumOk s1.enumeration ∧ onlyEnum s s1 ∧ s1.port_last_hello_tx_ms = s.port_last_hello_tx_ms ∧
      s1.port_send_hello_calls = s.port_send_hello_calls := by
    refine ⟨_, rfl, ?_⟩
    simp only []
    unfold enumUpdate
    by_cases h0 : s.enumeration.current_state = 0
    · have hc : (((s.enumeration.current_state : Int)) != 0) = false := by simp [h0]
      have hm : ¬ (fsmOfC s.enumeration).state ≠ 0 := by simp [fsmOfC, h0]
      simp only [hc, Bool.false_eq_true, if_false, hm]
      refine ⟨?_, hb, hen, ⟨?_, ?_, ?_, ?_, ?_, ?_, ?_, ?_⟩, ?_, ?_⟩
      all_goals (first | exact True.intro | rfl | assumption)
    · have hc : (((s.enumeration.current_state : Int)) != 0) = true := by
        simp only [bne_iff_ne, ne_eq]; exact_mod_cast h0
      have hm : (fsmOfC s.enumeration).state ≠ 0 := h0
      simp only [hc, if_true, hm, ne_eq, not_false_eq_true]
      by_cases hte : (tableOfC s.sessions).isEmpty = true
      · simp only [hte, if_true]
        unfold T.automata_tick.st4
        refine ⟨?_, ⟨hb.1, hb.2⟩, ⟨hen.hno, hen.his⟩, ⟨?_, ?_, ?_, ?_, ?_, ?_, ?_, ?_⟩, ?_, ?_⟩
        all_goals (first | exact True.intro | rfl | assumption)
      · have hte' : (tableOfC s.sessions).isEmpty = false := by simpa using hte
        simp only [hte', Bool.false_eq_true, if_false]
        by_cases hac : (tableOfC s.sessions).allComplete = true
        · simp only [hac, if_true]
          obtain ⟨se1, se2⟩ := switch_state_enumeration_eq e s.enumeration 0 hen.hno
          refine ⟨?_, hb, enumOk_same _ _ se2 hen, ⟨?_, ?_, ?_, ?_, ?_, ?_, ?_, ?_⟩, ?_, ?_⟩
          · rw [se1, hen.his, ← he.hs]; rfl
          all_goals (first | exact True.intro | rfl | assumption)
        · have hac' : (tableOfC s.sessions).allComplete = false := by simpa using hac
          simp only [hac', Bool.false_eq_true, if_false]
          obtain ⟨se1, se2⟩ := switch_state_enumeration_eq e s.enumeration 1 hen.hno
          refine ⟨?_, hb, enumOk_same _ _ se2 hen, ⟨?_, ?_, ?_, ?_, ?_, ?_, ?_, ?_⟩, ?_, ?_⟩
          · rw [se1, hen.his, ← he.hs]; rfl
          all_goals (first | exact True.intro | rfl | assumption)
  obtain ⟨s1, hs1, u1, u2, u3, u4, u5, u6⟩ := hU
  have hst : T.automata_tick.st11 e s =
      (if ((s1.enumeration.current_state : Int) == 1) = true then T.automata_tick.st10 e s1 else s1) := by
    unfold T.automata_tick.st11
    simp only [ie1, ie2, ac1, ac2]
    rw [hs1]
  rw [hst]
  have hnm1 : s1.now_ms = e.nowMs := by rw [u4.2.2.2.1, hnm]
  have hltx1 : s1.port_last_hello_tx_ms ≤ e.nowMs := by rw [u5]; exact hltx
  have hRdef : R = (let u := enumUpdate (fsmOfC s.enumeration) (bandOfC s.enumeration_extra) (tableOfC s.sessions).isEmpty (tableOfC s.sessions).allComplete (e.nowMs / 1000)
      if u.1.state = 1 then
        let r := enumHello u.1 u.2 s.port_last_hello_tx_ms .wired e.nowMs
        (some (r.1, some (enumBlock r.2.1 e.nowMs)), r.2.2.1, r.2.2.2)
      else (some (u.1, some u.2), s.port_last_hello_tx_ms, [])) := rfl
  rw [hRdef, ← u1]
  simp only []
  by_cases h1 : s1.enumeration.current_state = 1
  · have hc : (((s1.enumeration.current_state : Int)) == 1) = true := by simp [h1]
    have hm : (fsmOfC s1.enumeration).state = 1 := h1
    simp only [hc, if_true, hm]
    obtain ⟨t1, t2, t3, t4, t5, t6⟩ := tick_st10 e he s1 u2 u3 hnm1 hltx1
    rw [u5] at t1 t2 t3 t4
    exact ⟨by rw [t1, t2], t3.symm, by rw [t4, u6], onlyEnum_trans u4 t6⟩
  · have hc : (((s1.enumeration.current_state : Int)) == 1) = false := by
      rw [beq_eq_false_iff_ne]; exact_mod_cast h1
    have hm : ¬ (fsmOfC s1.enumeration).state = 1 := h1
    simp only [hc, Bool.false_eq_true, if_false, hm]
    refine ⟨?_, u5.symm, by simp [u6], u4⟩
    first | exact True.intro | rfl

/-- AUTOMATA_TICK AS TRANSLATED FROM THE C TEXT IS THE MODEL'S `tick` (all four objects present, port wired): the mapping engine, its
    extra state, the session table, the enumeration automaton, the RepeatBand record and the port's last-transmit stamp after the
    call are the model's, the callback was invoked once per Hello the model sends, and the recursion inside never runs out of fuel -/
theorem automata_tick_eq (e : T.Env) (he : EnvOk e) (m en : T.automata) (t : T.session_table) (p : T.lltd_automata_tick_port)
    (mx : T.mapping_state) (bx : T.band_state) (ltx : Nat)
    (hm : AutOk m) (him : IsMapping m) (hen : EnumOk en) (ht : TickTblOk t) (hb : BandOk bx) (hltx : ltx ≤ e.nowMs) :
    let r := T.automata_tick e m en t p mx bx ltx
    let M := tick { mapping := some (fsmOfC m, some (mapOfC mx)), enum := some (fsmOfC en, some (bandOfC bx)),
                    table := some (tableOfC t), lastTx := ltx } .wired e.nowMs
    M.1 = { mapping := some (fsmOfC r.mapping, some (mapOfC r.mapping_extra)),
            enum := some (fsmOfC r.enumeration, some (bandOfC r.enumeration_extra)),
            table := some (tableOfC r.sessions), lastTx := r.port_last_hello_tx_ms } ∧
    r.port_send_hello_calls = M.2.length ∧ r.diverged = false := by
  intro r M
  have hnow : e.nowS < u64 := by have := he.hc.2; omega
  -- the three stages on the initial state
  let s0 : T.automata_tick.S := { mapping := m, enumeration := en, sessions := t, port := p, mapping_extra := mx, enumeration_extra := bx,
                                  port_last_hello_tx_ms := ltx, now_ms := e.nowMs, now_s := e.nowS }
  have hr : r = T.automata_tick.st11 e (T.automata_tick.st3 e (T.automata_tick.st2 e s0)) := rfl
  obtain ⟨a1, a2, a3, a4, a5⟩ := tick_st2 e hnow s0 hm him ht
  have hd2 : (T.automata_tick.st2 e s0).done = false := by rw [a2.2.2.2.2.2.2.1]
  have hb2 : (T.automata_tick.st2 e s0).brk = false := by rw [a2.2.2.2.2.2.2.2]
  have hn2 : (T.automata_tick.st2 e s0).now_s = e.nowS := by rw [a2.2.2.2.2.2.1]
  obtain ⟨b1, b2, b3, b4⟩ := tick_st3 e (T.automata_tick.st2 e s0) a5 hd2 hb2 hn2
  generalize hs2 : T.automata_tick.st2 e s0 = s2 at *
  generalize hs3 : T.automata_tick.st3 e s2 = s3 at *
  have hbx : s3.enumeration_extra = bx := by rw [b2.2.2.2.1, a2.2.1]
  have hex : s3.enumeration = en := by rw [b2.2.2.1, a2.1]
  have hnm3 : s3.now_ms = e.nowMs := by rw [b2.2.2.2.2.2.2.1, a2.2.2.2.2.1]
  have hl3 : s3.port_last_hello_tx_ms = ltx := by rw [b2.2.2.2.2.1, a2.2.2.1]
  have hc3 : s3.port_send_hello_calls = 0 := by rw [b2.2.2.2.2.2.1, a2.2.2.2.1]
  obtain ⟨c1, c2, c3, c4⟩ := tick_st11 e he s3 (by rw [hbx]; exact hb) (by rw [hex]; exact hen) hnm3 (by rw [hl3]; exact hltx)
  rw [hbx, hex, hl3] at c1 c2 c3
  rw [hr]
  have hM : M = (let nowS := e.nowMs / 1000
      let mt := tickMapStage (some (fsmOfC m, some (mapOfC mx))) (some (tableOfC t)) nowS
      let table := mt.2.map (fun t => t.expire nowS)
      let en3 := tickEnumStage (some (fsmOfC en, some (bandOfC bx))) table ltx .wired e.nowMs
      ({ mapping := mt.1, enum := en3.1, table := table, lastTx := en3.2.1 }, en3.2.2)) := rfl
  rw [hM]
  simp only [← he.hs]
  have a1' : tickMapStage (some (fsmOfC m, some (mapOfC mx))) (some (tableOfC t)) e.nowS =
      (some (fsmOfC s2.mapping, some (mapOfC s2.mapping_extra)), some (tableOfC s2.sessions)) := a1
  rw [a1']
  simp only [Option.map_some, ← b1]
  rw [← c1, ← c2]
  refine ⟨?_, ?_, ?_⟩
  · have e1 : (T.automata_tick.st11 e s3).mapping = s2.mapping := by rw [c4.1, b2.1]
    have e2 : (T.automata_tick.st11 e s3).mapping_extra = s2.mapping_extra := by rw [c4.2.1, b2.2.1]
    have e3 : (T.automata_tick.st11 e s3).sessions = s3.sessions := c4.2.2.1
    rw [e1, e2, e3]
  · rw [c3, hc3]; simp
  · rw [c4.2.2.2.2.2.1, b2.2.2.2.2.2.2.2.2.1, a3]


end LLTD.TEq
