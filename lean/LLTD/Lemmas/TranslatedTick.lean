/-
  automata_tick AS TRANSLATED from lltdAutomata.c (tools/c2lean.py; all four objects present, the port wired: send_hello and
  last_hello_tx_ms set - the configuration of the daemons) equals the model's `tick`, stage by stage: the translator emits the
  large function as named blocks `automata_tick.stK`, each of which is related to the corresponding piece of the hand-written model.
  No Mathlib.
-/
import LLTD.Props.C13T

namespace LLTD.TEq
open LLTD LLTD.X


/-! ## automata_tick, stage by stage -/

/-- the expiry sweep of the tick on the translated record type -/
def texpire (now : Nat) : List T.session_entry → Nat → List T.session_entry × Nat
  | [], c => ([], c)
  | x :: xs, c =>
    if x.valid = true ∧ now > (x.last_activity_ts + 60) % 18446744073709551616 then
      ({ x with valid := false } :: (texpire now xs (if c > 0 then (c + 255) % 256 else c)).1,
       (texpire now xs (if c > 0 then (c + 255) % 256 else c)).2)
    else (x :: (texpire now xs c).1, (texpire now xs c).2)

theorem texpire_append (now : Nat) (l1 l2 : List T.session_entry) (c : Nat) :
    texpire now (l1 ++ l2) c =
      ((texpire now l1 c).1 ++ (texpire now l2 (texpire now l1 c).2).1, (texpire now l2 (texpire now l1 c).2).2) := by
  induction l1 generalizing c with
  | nil => simp [texpire]
  | cons x xs ih =>
    simp only [List.cons_append, texpire]
    split <;> simp [ih]

theorem texpire_length (now : Nat) (l : List T.session_entry) (c : Nat) : (texpire now l c).1.length = l.length := by
  induction l generalizing c with
  | nil => rfl
  | cons x xs ih => simp only [texpire]; split <;> simp [ih]

theorem texpire_count (now : Nat) (l : List T.session_entry) (c : Nat) (hc : c < 256) : (texpire now l c).2 < 256 := by
  induction l generalizing c with
  | nil => exact hc
  | cons x xs ih =>
    simp only [texpire]; split
    · apply ih; split <;> omega
    · exact ih c hc

theorem texpire_map (now : Nat) (l : List T.session_entry) (c : Nat) (hc : c < 256)
    (hts : ∀ x ∈ l, x.last_activity_ts + 60 < u64) :
    (texpire now l c).1.map entryOfC = (expireLoop now (l.map entryOfC) c).1 ∧ (texpire now l c).2 = (expireLoop now (l.map entryOfC) c).2 := by
  induction l generalizing c with
  | nil => exact ⟨rfl, rfl⟩
  | cons x xs ih =>
    have hx := hts x (List.mem_cons_self ..)
    have hxs : ∀ y ∈ xs, y.last_activity_ts + 60 < u64 := fun y hy => hts y (List.mem_cons_of_mem _ hy)
    have hmod : (x.last_activity_ts + 60) % 18446744073709551616 = x.last_activity_ts + 60 := Nat.mod_eq_of_lt (by unfold u64 at hx; exact hx)
    simp only [texpire, List.map_cons, expireLoop, hmod]
    have hcond : (x.valid = true ∧ now > x.last_activity_ts + 60) ↔ ((entryOfC x).valid = true ∧ now > (entryOfC x).last + 60) := by simp [entryOfC]
    by_cases hq : x.valid = true ∧ now > x.last_activity_ts + 60
    · have hq' := hcond.mp hq
      simp only [hq, hq', and_self, if_true]
      by_cases hc0 : c > 0
      · have hdec : (c + 255) % 256 = c - 1 := by omega
        simp only [hc0, if_true, hdec]
        obtain ⟨i1, i2⟩ := ih (c - 1) (by omega) hxs
        exact ⟨by simp [i1, entryOfC], i2⟩
      · simp only [hc0, if_false]
        obtain ⟨i1, i2⟩ := ih c hc hxs
        exact ⟨by simp [i1, entryOfC], i2⟩
    · have hq' : ¬((entryOfC x).valid = true ∧ now > (entryOfC x).last + 60) := fun h => hq (hcond.mpr h)
      simp only [hq, hq', if_false]
      obtain ⟨i1, i2⟩ := ih c hc hxs
      exact ⟨by simp [i1], i2⟩

/-- every slot's activity stamp is far from the end of the 64-bit range, the count is a `uint8_t` -/
structure TickTblOk (t : T.session_table) : Prop where
  hlen : t.entries.length = 16
  hts : ∀ x ∈ t.entries, x.last_activity_ts + 60 < u64
  hcount : t.count < 256

/-- fields of the tick's state record the table stages leave alone -/
def sameRest (a b : T.automata_tick.S) : Prop :=
  b.mapping = a.mapping ∧ b.mapping_extra = a.mapping_extra ∧ b.enumeration = a.enumeration ∧
  b.enumeration_extra = a.enumeration_extra ∧ b.port_last_hello_tx_ms = a.port_last_hello_tx_ms ∧
  b.port_send_hello_calls = a.port_send_hello_calls ∧ b.now_ms = a.now_ms ∧ b.now_s = a.now_s ∧
  b.diverged = a.diverged ∧ b.done = a.done ∧ b.brk = a.brk

theorem set_append_mid (A B : List T.session_entry) (x y : T.session_entry) :
    (A ++ x :: B).set A.length y = A ++ y :: B := by
  induction A with
  | nil => rfl
  | cons a as ih => simp [ih]

theorem getD_append_mid (A B : List T.session_entry) (x d : T.session_entry) : (A ++ x :: B).getD A.length d = x := by
  induction A with
  | nil => rfl
  | cons a as ih => simpa using ih

theorem tick_loop1_step (e : T.Env) (i : Nat) (s : T.automata_tick.S) (A B : List T.session_entry) (x : T.session_entry)
    (hA : A.length = i) (hent : s.sessions.entries = A ++ x :: B) (hd : s.done = false) (hb : s.brk = false) (hn : s.now_s = e.nowS) :
    (T.automata_tick.loop1 e i s).sessions.entries = A ++ (texpire e.nowS [x] s.sessions.count).1 ++ B ∧
    (T.automata_tick.loop1 e i s).sessions.count = (texpire e.nowS [x] s.sessions.count).2 ∧
    (T.automata_tick.loop1 e i s).sessions.all_complete = s.sessions.all_complete ∧
    sameRest s (T.automata_tick.loop1 e i s) := by
  subst hA
  unfold T.automata_tick.loop1
  simp only [hd, hb, Bool.or_self, Bool.false_eq_true, if_false, hent, getD_append_mid, set_append_mid, hn, texpire]
  by_cases hv : x.valid = true
  · by_cases hex : e.nowS > (x.last_activity_ts + 60) % 18446744073709551616
    · simp only [hv, hex, and_self, if_true, decide_true]
      by_cases hc : s.sessions.count > 0
      · have hc' : ((s.sessions.count : Int) > 0) := by exact_mod_cast hc
        simp [hc, hc', sameRest, hd, hb, hn]
      · have hc' : ¬ ((s.sessions.count : Int) > 0) := by exact_mod_cast hc
        simp [hc, hc', sameRest, hd, hb, hn]
    · simp [hv, hex, sameRest, hd, hb, hent, hn]
  · have hv' : x.valid = false := by simpa using hv
    simp [hv', sameRest, hd, hb, hent, hn]

theorem sameRest_refl (a : T.automata_tick.S) : sameRest a a := ⟨rfl, rfl, rfl, rfl, rfl, rfl, rfl, rfl, rfl, rfl, rfl⟩
theorem sameRest_trans {a b c : T.automata_tick.S} (h1 : sameRest a b) (h2 : sameRest b c) : sameRest a c := by
  obtain ⟨a1, a2, a3, a4, a5, a6, a7, a8, a9, a10, a11⟩ := h1
  obtain ⟨b1, b2, b3, b4, b5, b6, b7, b8, b9, b10, b11⟩ := h2
  exact ⟨b1.trans a1, b2.trans a2, b3.trans a3, b4.trans a4, b5.trans a5, b6.trans a6, b7.trans a7, b8.trans a8, b9.trans a9, b10.trans a10, b11.trans a11⟩

/-- the whole expiry sweep -/
theorem tick_loop_expire (e : T.Env) (t : T.session_table) (ht : TickTblOk t) (s0 : T.automata_tick.S)
    (h0 : s0.sessions = t) (hd : s0.done = false) (hb : s0.brk = false) (hn : s0.now_s = e.nowS) :
    (CSem.loopRange 0 16 (T.automata_tick.loop1 e) s0).sessions.entries = (texpire e.nowS t.entries t.count).1 ∧
    (CSem.loopRange 0 16 (T.automata_tick.loop1 e) s0).sessions.count = (texpire e.nowS t.entries t.count).2 ∧
    (CSem.loopRange 0 16 (T.automata_tick.loop1 e) s0).sessions.all_complete = t.all_complete ∧
    sameRest s0 (CSem.loopRange 0 16 (T.automata_tick.loop1 e) s0) := by
  have hinv := loopRange_inv (fun i (s : T.automata_tick.S) =>
      s.sessions.entries = (texpire e.nowS (t.entries.take i) t.count).1 ++ t.entries.drop i ∧
      s.sessions.count = (texpire e.nowS (t.entries.take i) t.count).2 ∧
      s.sessions.all_complete = t.all_complete ∧ sameRest s0 s)
    16 (T.automata_tick.loop1 e) 16 0 s0 (by omega)
    ⟨by simp [texpire, h0], by simp [texpire, h0], by rw [h0], sameRest_refl s0⟩
    (by
      intro i s _ hi ⟨q1, q2, q3, q4⟩
      have hil : i < t.entries.length := by rw [ht.hlen]; exact hi
      have hdrop : t.entries.drop i = t.entries[i] :: t.entries.drop (i + 1) := (List.drop_eq_getElem_cons hil)
      have hAlen : (texpire e.nowS (t.entries.take i) t.count).1.length = i := by rw [texpire_length]; simp; omega
      rw [hdrop] at q1
      obtain ⟨a1, a2, a3, a4⟩ := tick_loop1_step e i s _ _ _ hAlen q1 (by rw [q4.2.2.2.2.2.2.2.2.2.1, hd]) (by rw [q4.2.2.2.2.2.2.2.2.2.2, hb])
        (by rw [q4.2.2.2.2.2.2.2.1, hn])
      have htake : t.entries.take (i + 1) = t.entries.take i ++ [t.entries[i]] := by
        rw [List.take_add_one, List.getElem?_eq_getElem hil]; rfl
      rw [htake, texpire_append]
      refine ⟨?_, ?_, a3.trans q3, sameRest_trans q4 a4⟩
      · rw [a1, q2]
      · rw [a2, q2])
  obtain ⟨l1, l2, l3, l4⟩ := hinv
  have h16 : t.entries.take 16 = t.entries := by rw [List.take_of_length_le]; rw [ht.hlen]; exact Nat.le_refl _
  have hd16 : t.entries.drop 16 = [] := by rw [List.drop_eq_nil_iff]; rw [ht.hlen]; exact Nat.le_refl _
  rw [h16, hd16, List.append_nil] at l1
  rw [h16] at l2
  exact ⟨l1, l2, l3, l4⟩

/-- stage 3 of the tick (the `if (sessions)` block): the expiry sweep followed by the status update is the model's `Table.expire` -/
theorem tick_st3 (e : T.Env) (s : T.automata_tick.S) (ht : TickTblOk s.sessions) (hd : s.done = false) (hb : s.brk = false) (hn : s.now_s = e.nowS) :
    tableOfC (T.automata_tick.st3 e s).sessions = (tableOfC s.sessions).expire e.nowS ∧ sameRest s (T.automata_tick.st3 e s) ∧
    (T.automata_tick.st3 e s).sessions.entries.length = 16 ∧ (T.automata_tick.st3 e s).sessions.count < 256 := by
  obtain ⟨l1, l2, l3, l4⟩ := tick_loop_expire e s.sessions ht s rfl hd hb hn
  unfold T.automata_tick.st3
  simp only []
  generalize CSem.loopRange 0 16 (T.automata_tick.loop1 e) s = L at l1 l2 l3 l4 ⊢
  obtain ⟨m1, m2⟩ := texpire_map e.nowS s.sessions.entries s.sessions.count ht.hcount ht.hts
  have hlen : L.sessions.entries.length = 16 := by rw [l1, texpire_length]; exact ht.hlen
  have hup := session_table_update_complete_status_eq e L.sessions hlen
  refine ⟨?_, ?_, ?_, ?_⟩
  · rw [hup]
    unfold Table.expire
    congr 1
    simp only [tableOfC, Table.mk.injEq]
    exact ⟨by rw [l1, m1], by rw [l2, m2], l3⟩
  · obtain ⟨a1, a2, a3, a4, a5, a6, a7, a8, a9, a10, a11⟩ := l4
    exact ⟨a1, a2, a3, a4, a5, a6, a7, a8, a9, a10, by simp [hb]⟩
  · have : (tableOfC (T.session_table_update_complete_status e L.sessions).table).entries.length = 16 := by
      rw [hup]; simp [Table.updateStatus, tableOfC, hlen]
    simpa [tableOfC] using this
  · have : (tableOfC (T.session_table_update_complete_status e L.sessions).table).count = L.sessions.count := by
      rw [hup]; rfl
    have h2 : (T.session_table_update_complete_status e L.sessions).table.count = L.sessions.count := by simpa [tableOfC] using this
    rw [h2, l2]; exact texpire_count _ _ _ ht.hcount

/-- fields the mapping stage leaves alone -/
def sameEnum (a b : T.automata_tick.S) : Prop :=
  b.enumeration = a.enumeration ∧ b.enumeration_extra = a.enumeration_extra ∧ b.port_last_hello_tx_ms = a.port_last_hello_tx_ms ∧
  b.port_send_hello_calls = a.port_send_hello_calls ∧ b.now_ms = a.now_ms ∧ b.now_s = a.now_s ∧ b.done = a.done ∧ b.brk = a.brk

theorem tickTblOk_clear (e : T.Env) (t : T.session_table) : TickTblOk (T.session_table_clear e t).table := by
  refine ⟨by simp [T.session_table_clear], ?_, by simp [T.session_table_clear]⟩
  intro x hx
  simp only [T.session_table_clear, List.mem_replicate] at hx
  rw [hx.2]; decide

/-- stage 2 of the tick (the `if (mapping && mapping->extra)` block) is the model's `tickMapStage` -/
theorem tick_st2 (e : T.Env) (hnow : e.nowS < u64) (s : T.automata_tick.S) (hok : AutOk s.mapping) (hm : IsMapping s.mapping)
    (ht : TickTblOk s.sessions) :
    (tickMapStage (some (fsmOfC s.mapping, some (mapOfC s.mapping_extra))) (some (tableOfC s.sessions)) e.nowS) =
      (some (fsmOfC (T.automata_tick.st2 e s).mapping, some (mapOfC (T.automata_tick.st2 e s).mapping_extra)),
       some (tableOfC (T.automata_tick.st2 e s).sessions)) ∧
    sameEnum s (T.automata_tick.st2 e s) ∧ (T.automata_tick.st2 e s).diverged = s.diverged ∧
    sameTables s.mapping (T.automata_tick.st2 e s).mapping ∧ TickTblOk (T.automata_tick.st2 e s).sessions := by
  obtain ⟨i1, i2⟩ := mapping_check_inactive_timeout_eq e s.mapping_extra
  unfold T.automata_tick.st2 tickMapStage
  simp only [i1, i2]
  by_cases hin : mapCheckInactive (mapOfC s.mapping_extra) e.nowS = true
  · simp only [hin, if_true]
    unfold T.automata_tick.st1
    simp only [ite_self]
    have hok' : AutOk s.mapping := hok
    obtain ⟨w1, w2, w3⟩ := switch_state_mapping_eq e hnow s.mapping (-1) hok hm
    obtain ⟨c1, c2⟩ := mapping_check_charge_timeout_eq e (T.mapping_reset_charge e { s.mapping_extra with inactive_timeout_ts := 0 }).mstate
    have r1 := mapping_reset_charge_eq e { s.mapping_extra with inactive_timeout_ts := 0 }
    refine ⟨?_, ⟨rfl, rfl, rfl, rfl, rfl, rfl, rfl, rfl⟩, by simp [w2], w3, tickTblOk_clear e s.sessions⟩
    simp only [w1, c1, r1, session_table_clear_eq, Option.map_some]
    rfl
  · have hin' : mapCheckInactive (mapOfC s.mapping_extra) e.nowS = false := by simpa using hin
    simp only [hin', Bool.false_eq_true, if_false, ite_self]
    obtain ⟨c1, c2⟩ := mapping_check_charge_timeout_eq e s.mapping_extra
    refine ⟨?_, ?_, ?_, ?_, ?_⟩
    · simp only [c1]
    · first | exact ⟨rfl, rfl, rfl, rfl, rfl, rfl, rfl, rfl⟩ | simp [sameEnum]
    · first | rfl | trivial
    · first | exact ⟨rfl, rfl, rfl⟩ | simp [sameTables]
    · first | exact ht | simpa using ht


end LLTD.TEq
