/- Generic facts about the table interpreter shared by the three automata. -/
import LLTD.Model.Automata

namespace LLTD

def inputsOf (tbl : TransTable) : List Int := tbl.map (fun r => r.2.2)

theorem foldl_nomatch (tbl : TransTable) (cur : Nat) (i : Int) (acc : Nat × Bool)
    (h : ∀ r ∈ tbl, ¬(cur = r.1 ∧ r.2.2 = i)) :
    tbl.foldl (fun acc r => if cur = r.1 ∧ r.2.2 = i then (r.2.1, true) else acc) acc = acc := by
  induction tbl generalizing acc with
  | nil => rfl
  | cons r rs ih =>
    simp only [List.foldl_cons]
    have hr : ¬(cur = r.1 ∧ r.2.2 = i) := h r (by simp)
    rw [if_neg hr]
    exact ih acc (fun r' hr' => h r' (by simp [hr']))

/-- no row of the table mentions this input: the state does not change -/
theorem lookup_nomatch (tbl : TransTable) (cur : Nat) (i : Int) (h : i ∉ inputsOf tbl) :
    lookup tbl cur i = (cur, false) := by
  unfold lookup
  apply foldl_nomatch
  intro r hr hc
  apply h
  unfold inputsOf
  exact List.mem_map.mpr ⟨r, hr, hc.2⟩

/-- the result of a lookup is the current state or the `to` column of some row -/
theorem lookup_range (tbl : TransTable) (cur : Nat) (i : Int) (n : Nat) (hc : cur < n)
    (h : ∀ r ∈ tbl, r.2.1 < n) : (lookup tbl cur i).1 < n := by
  unfold lookup
  suffices ∀ acc : Nat × Bool, acc.1 < n →
      (tbl.foldl (fun acc r => if cur = r.1 ∧ r.2.2 = i then (r.2.1, true) else acc) acc).1 < n from this _ hc
  induction tbl with
  | nil => intro acc ha; exact ha
  | cons r rs ih =>
    intro acc ha
    simp only [List.foldl_cons]
    apply ih (fun r' hr' => h r' (by simp [hr']))
    split
    · exact h r (by simp)
    · exact ha

theorem stepTimedAux_range (tbl : TransTable) (tos : List Nat) (n : Nat) (h : ∀ r ∈ tbl, r.2.1 < n) :
    ∀ (fuel : Nat) (a : Fsm) (i : Int) (now : Nat), a.state < n → (stepTimedAux tbl tos fuel a i now).state < n := by
  intro fuel
  induction fuel with
  | zero => intro a i now ha; exact ha
  | succ k ih =>
    intro a i now ha
    simp only [stepTimedAux]
    split
    · exact ih _ _ _ (lookup_range _ _ _ n ha h)
    · exact lookup_range _ _ _ n ha h

theorem stepTimedAux_lastTs (tbl : TransTable) (tos : List Nat) :
    ∀ (fuel : Nat) (a : Fsm) (i : Int) (now : Nat), (stepTimedAux tbl tos (fuel + 1) a i now).lastTs = now := by
  intro fuel
  induction fuel with
  | zero =>
    intro a i now
    simp only [stepTimedAux]
    split <;> rfl
  | succ k ih =>
    intro a i now
    rw [stepTimedAux]
    split
    · exact ih _ _ _
    · rfl

theorem diff64_of_le (now last : Nat) (h : last ≤ now) (hn : now < u64) : diff64 now last = now - last := by
  unfold diff64
  have hl : last < u64 := by omega
  rw [Nat.mod_eq_of_lt hl]
  have : now + u64 - last = (now - last) + u64 := by omega
  rw [this, Nat.add_mod_right, Nat.mod_eq_of_lt (by omega)]

theorem diff64_self (now : Nat) (hn : now < u64) : diff64 now now = 0 := by
  rw [diff64_of_le now now (Nat.le_refl _) hn]; omega

/-- within the timeout the timed interpreter is one table lookup -/
theorem stepTimed_within (tbl : TransTable) (tos : List Nat) (a : Fsm) (i : Int) (now : Nat)
    (h : timeoutOf tos a.state = 0 ∨ diff64 now a.lastTs ≤ timeoutOf tos a.state) :
    stepTimed tbl tos a i now = { state := (lookup tbl a.state i).1, lastTs := now } := by
  have hne : ¬(timeoutOf tos a.state ≠ 0 ∧ diff64 now a.lastTs > timeoutOf tos a.state) := by
    intro ⟨h1, h2⟩; rcases h with h | h
    · exact h1 h
    · omega
  simp only [stepTimed, stepTimedAux, if_neg hne]

theorem stepTimedAux_succ_expired (tbl : TransTable) (tos : List Nat) (k : Nat) (a : Fsm) (i : Int) (now : Nat)
    (h : timeoutOf tos a.state ≠ 0 ∧ diff64 now a.lastTs > timeoutOf tos a.state) :
    stepTimedAux tbl tos (k + 1) a i now =
      stepTimedAux tbl tos k { state := (lookup tbl a.state (-1)).1, lastTs := now } (-1) now := by
  simp only [stepTimedAux, if_pos h]

theorem stepTimedAux_succ_fresh (tbl : TransTable) (tos : List Nat) (k : Nat) (s : Nat) (i : Int) (now : Nat) (hn : now < u64) :
    stepTimedAux tbl tos (k + 1) { state := s, lastTs := now } i now = { state := (lookup tbl s i).1, lastTs := now } := by
  have hne : ¬(timeoutOf tos s ≠ 0 ∧ diff64 now now > timeoutOf tos s) := by
    rw [diff64_self now hn]; intro ⟨_, h2⟩; omega
  simp only [stepTimedAux, if_neg hne]

/-- after the timeout: input replaced by -1, then (with the refreshed time stamp) -1 once more -/
theorem stepTimed_expired (tbl : TransTable) (tos : List Nat) (a : Fsm) (i : Int) (now : Nat) (hn : now < u64)
    (h : timeoutOf tos a.state ≠ 0 ∧ diff64 now a.lastTs > timeoutOf tos a.state) :
    stepTimed tbl tos a i now =
      { state := (lookup tbl (lookup tbl a.state (-1)).1 (-1)).1, lastTs := now } := by
  unfold stepTimed
  rw [stepTimedAux_succ_expired tbl tos 1 a i now h, stepTimedAux_succ_fresh tbl tos 0 _ _ now hn]

/-- the recursion of switch_state_* never goes deeper than two levels (termination argument) -/
theorem stepTimedAux_fuel (tbl : TransTable) (tos : List Nat) (k : Nat) (a : Fsm) (i : Int) (now : Nat) (hn : now < u64) :
    stepTimedAux tbl tos (k + 2) a i now = stepTimedAux tbl tos 2 a i now := by
  by_cases h : timeoutOf tos a.state ≠ 0 ∧ diff64 now a.lastTs > timeoutOf tos a.state
  · rw [stepTimedAux_succ_expired tbl tos (k + 1) a i now h, stepTimedAux_succ_fresh tbl tos k _ _ now hn,
        stepTimedAux_succ_expired tbl tos 1 a i now h, stepTimedAux_succ_fresh tbl tos 0 _ _ now hn]
  · simp only [stepTimedAux, if_neg h]

/-! ## a clock that moves while the call runs (`stepTimedR`: first reading `now1`, second — only after an expiry — `now2`) -/

theorem stepTimedR_same (tbl : TransTable) (tos : List Nat) (a : Fsm) (i : Int) (now : Nat) :
    stepTimedR tbl tos a i now now = stepTimed tbl tos a i now := by
  simp only [stepTimedR, stepTimed, stepTimedAux]

/-- within the timeout — judged at the reading taken on entry — one table lookup, stamped with that reading -/
theorem stepTimedR_within (tbl : TransTable) (tos : List Nat) (a : Fsm) (i : Int) (now1 now2 : Nat)
    (h : timeoutOf tos a.state = 0 ∨ diff64 now1 a.lastTs ≤ timeoutOf tos a.state) :
    stepTimedR tbl tos a i now1 now2 = { state := (lookup tbl a.state i).1, lastTs := now1 } := by
  have hne : ¬(timeoutOf tos a.state ≠ 0 ∧ diff64 now1 a.lastTs > timeoutOf tos a.state) := by
    intro ⟨h1, h2⟩; rcases h with h | h
    · exact h1 h
    · omega
  simp only [stepTimedR, if_neg hne]

theorem stepTimedR_expired (tbl : TransTable) (tos : List Nat) (a : Fsm) (i : Int) (now1 now2 : Nat)
    (h : timeoutOf tos a.state ≠ 0 ∧ diff64 now1 a.lastTs > timeoutOf tos a.state) :
    stepTimedR tbl tos a i now1 now2 =
      stepTimedAux tbl tos 1 { state := (lookup tbl a.state (-1)).1, lastTs := now1 } (-1) now2 := by
  simp only [stepTimedR, if_pos h]

/-- the second level acts on -1 whatever the second reading is -/
theorem stepTimedAux_one_state (tbl : TransTable) (tos : List Nat) (a : Fsm) (now : Nat) :
    (stepTimedAux tbl tos 1 a (-1) now).state = (lookup tbl a.state (-1)).1 := by
  simp only [stepTimedAux]
  split <;> simp

end LLTD
