/-
  Which frames a handler can transmit at all (whatever the allocator and the transmit path do), and what the
  independent decoders make of each shape: a QueryResp is only ever sent in answer to a Query, a
  QueryLargeTlvResp only in answer to a QueryLargeTlv.
-/
import LLTD.Lemmas.Decode
import LLTD.Lemmas.Obs
import LLTD.Lemmas.Safe

namespace LLTD
open LLTD.Spec

def sentFrames (fx : List Fx) : List (List Nat) := fx.filterMap (fun x => match x with | .send _ _ f => some f | _ => none)

theorem sends_toObs (fx : List Fx) : sends (fx.map toObs) = sentFrames fx := by
  induction fx with
  | nil => rfl
  | cons x xs ih =>
    cases x with
    | sleep ms => simpa [sends, sentFrames, toObs] using ih
    | send ok i f => simpa [sends, sentFrames, toObs] using ih

theorem sentFrames_append (a b : List Fx) : sentFrames (a ++ b) = sentFrames a ++ sentFrames b := by
  simp [sentFrames, List.filterMap_append]

@[simp] theorem sentFrames_sleep (p : Nat) : sentFrames [Fx.sleep p] = [] := rfl
@[simp] theorem sentFrames_send (ok : Bool) (i : Nat) (f : List Nat) : sentFrames [Fx.send ok i f] = [f] := rfl
@[simp] theorem sentFrames_nil : sentFrames [] = [] := rfl

theorem lltdHeader_short (ed es rd rs : Mac) (seq op tos : Nat)
    (h1 : ed.length ≤ 6) (h2 : es.length ≤ 6) (h3 : rd.length ≤ 6) (h4 : rs.length ≤ 6) :
    (lltdHeader 0 ed es rd rs seq op tos).length ≤ 32 := by
  simp [lltdHeader, be_length]; omega

/-! ## Decoders on frames that are not theirs -/

theorem short_none (f : List Nat) (h : f.length ≤ 32) : decodeQueryResp f = none ∧ decodeLargeResp f = none := by
  have h34 : f.length < 34 := by omega
  unfold decodeQueryResp decodeLargeResp
  cases decodeBase f with
  | none => exact ⟨rfl, rfl⟩
  | some b => simp [h34]

theorem hello_none (c : Cfg) (g : Glob) (gen tos : Nat) (cur app : Mac) (hc : CfgOk c) :
    decodeQueryResp (helloFrame c g gen tos cur app) = none ∧ decodeLargeResp (helloFrame c g gen tos cur app) = none := by
  have hm := ourMac_length c hc
  have hb : decodeBase (helloFrame c g gen tos cur app) =
      some { ethDst := bcast, ethSrc := c.ourMac, etherType := 0x88D9, version := 1, tos := tos, reserved := 0, opcode := X.opHello,
             realDst := bcast, realSrc := c.ourMac, seq := 0 % 65536 } := by
    unfold helloFrame
    rw [List.append_assoc]
    exact decodeBase_lltdHeader 0 bcast c.ourMac bcast c.ourMac 0 X.opHello tos _ rfl hm rfl hm
  unfold decodeQueryResp decodeLargeResp
  rw [hb]
  simp

theorem query_noLarge (c : Cfg) (img : List Nat) (seq n : Nat) (more : Bool) (descs : List Nat) (hc : CfgOk c) (him : ImgOk img) :
    decodeLargeResp (queryFrame c img seq n more descs) = none := by
  have hm := ourMac_length c hc
  have hd : (respDest img).length = 6 := by
    unfold respDest; split
    · exact fRealSrc_len img him
    · rfl
  have hb := decodeBase_lltdHeader 0 (respDest img) c.ourMac (respDest img) c.ourMac seq X.opQueryResp X.tosDiscovery
    (be 2 (n ||| (if more then 0x8000 else 0)) ++ descs) hd hm hd hm
  have hq : queryFrame c img seq n more descs =
      lltdHeader 0 (respDest img) c.ourMac (respDest img) c.ourMac seq X.opQueryResp X.tosDiscovery ++
        (be 2 (n ||| (if more then 0x8000 else 0)) ++ descs) := by
    unfold queryFrame; rw [List.append_assoc]
  unfold decodeLargeResp
  rw [hq, hb]
  simp

theorem large_noQuery (c : Cfg) (dest : Mac) (seq lf : Nat) (payload : List Nat) (hc : CfgOk c) (hd : dest.length = 6) :
    decodeQueryResp (largeFrame c dest seq lf payload) = none := by
  have hm := ourMac_length c hc
  have hb := decodeBase_lltdHeader 0 dest c.ourMac dest c.ourMac seq X.opQltlvResp X.tosDiscovery (be 2 lf ++ payload) hd hm hd hm
  have hq : largeFrame c dest seq lf payload =
      lltdHeader 0 dest c.ourMac dest c.ourMac seq X.opQltlvResp X.tosDiscovery ++ (be 2 lf ++ payload) := by
    unfold largeFrame; rw [List.append_assoc]
  unfold decodeQueryResp
  rw [hq, hb]
  simp

/-! ## What each handler can send -/

theorem sendProbeMsg_short (c : Cfg) (st : St) (w : World) (fx : List Fx) (src dst : Mac) (pause ty : Nat) (ack : Bool)
    (hs : src.length ≤ 6) (hd : dst.length ≤ 6) (hm : c.ourMac.length = 6) (ha : st.mapperApparent.length = 6)
    (hr : st.mapperReal.length = 6) (h : ∀ f ∈ sentFrames fx, f.length ≤ 32) :
    ∀ f ∈ sentFrames (sendProbeMsg c st w fx src dst pause ty ack).2, f.length ≤ 32 := by
  have hp := lltdHeader_short dst src dst c.ourMac 0 (if ty = 1 then X.opProbe else X.opTrain) X.tosDiscovery hd hs hd (by omega)
  have hk := lltdHeader_short st.mapperApparent c.ourMac st.mapperReal c.ourMac st.seq X.opAck X.tosDiscovery (by omega) (by omega) (by omega) (by omega)
  have fin2 : ∀ f, f ∈ sentFrames (fx ++ [Fx.sleep pause] ++
      [Fx.send (w.malloc X.sizeofDemux).1.send.2 c.idx (lltdHeader 0 dst src dst c.ourMac 0 (if ty = 1 then X.opProbe else X.opTrain) X.tosDiscovery)]) →
      f.length ≤ 32 := by
    intro f hf
    simp only [sentFrames_append, sentFrames_sleep, sentFrames_send, List.mem_append, List.mem_singleton, List.append_nil] at hf
    rcases hf with hf | hf
    · exact h f hf
    · rw [hf]; exact hp
  unfold sendProbeMsg
  simp only [sendFx]
  by_cases hmal : (w.malloc X.sizeofDemux).2 = true
  · simp only [hmal, Bool.not_true, Bool.false_eq_true, if_false]
    by_cases hs1 : (w.malloc X.sizeofDemux).1.send.2 = true
    · simp only [hs1, Bool.not_true, Bool.false_eq_true, if_false]
      cases ack with
      | false => simp only [Bool.false_eq_true, if_false]; rw [← hs1]; exact fin2
      | true =>
        simp only [if_true]
        intro f hf
        rw [sentFrames_append] at hf
        simp only [sentFrames_send, List.mem_append, List.mem_singleton] at hf
        rcases hf with hf | hf
        · rw [← hs1] at hf; exact fin2 f hf
        · rw [hf]; exact hk
    · simp only [Bool.not_eq_true] at hs1
      simp only [hs1, Bool.not_false, if_true]
      rw [← hs1]; exact fin2
  · simp only [Bool.not_eq_true] at hmal
    simp only [hmal, Bool.not_false, if_true]
    exact h

theorem emitLoop_short (c : Cfg) (st : St) (img : List Nat) (n : Nat) (hm : c.ourMac.length = 6) (ha : st.mapperApparent.length = 6)
    (hr : st.mapperReal.length = 6) :
    ∀ (k i : Nat) (w : World) (fx : List Fx), (∀ f ∈ sentFrames fx, f.length ≤ 32) →
      ∀ f ∈ sentFrames (emitLoop c st img n k i w fx).2.1, f.length ≤ 32 := by
  intro k
  induction k with
  | zero => intro i w fx h; simpa [emitLoop] using h
  | succ k ih =>
    intro i w fx h
    rw [emitLoop]
    simp only []
    split
    · exact h
    · split
      · exact ih _ _ _ (sendProbeMsg_short c st w fx _ _ _ _ _ (slice_length_le _ _ _) (slice_length_le _ _ _) hm ha hr h)
      · exact ih _ _ _ h

theorem parseEmit_short (c : Cfg) (w : World) (st : St) (img : List Nat) (hc : CfgOk c) (hi : St.Inv st) (him : ImgOk img) :
    ∀ f ∈ sentFrames (parseEmit c w st img).fx, f.length ≤ 32 := by
  have h1 := setActive_inv { st with seq := fSeq img } img (seq_inv st _ hi (fSeq_lt img him)) him
  unfold parseEmit
  simp only []
  split
  · intro f hf; simp [sentFrames] at hf
  · split
    · intro f hf; simp [sentFrames] at hf
    · exact emitLoop_short c _ img _ (ourMac_length c hc) h1.app h1.real _ 0 w [] (by intro f hf; simp [sentFrames] at hf)

theorem answerHello_class (c : Cfg) (g : Glob) (w : World) (st : St) (img : List Nat) :
    ∀ f ∈ sentFrames (answerHello c g w st img).fx, f = helloFrame c g (helloGen st img) (fTos img) (fRealSrc img) (fEthSrc img) := by
  unfold answerHello
  simp only [sendFx]
  repeat' split
  all_goals (intro f hf; simp [sentFrames] at hf; try exact hf)

theorem parseQuery_class (c : Cfg) (w : World) (st : St) (img : List Nat) :
    ∀ f ∈ sentFrames (parseQuery c w st img).fx, ∃ seq n more descs, f = queryFrame c img seq n more descs := by
  unfold parseQuery
  simp only [sendFx]
  repeat' split
  all_goals (intro f hf; simp [sentFrames] at hf; try exact ⟨_, _, _, _, hf⟩)

theorem sendLarge_class (c : Cfg) (w : World) (st : St) (img : List Nat) (d : Option (List Nat)) (off : Nat) :
    ∀ f ∈ sentFrames (sendLargeTlvResponse c w st img d off).fx, ∃ seq lf payload, f = largeFrame c (respDest img) seq lf payload := by
  unfold sendLargeTlvResponse
  simp only [sendFx]
  repeat' split
  all_goals (intro f hf; simp [sentFrames] at hf; try exact ⟨_, _, _, hf⟩)

theorem qltlv_class (c : Cfg) (g : Glob) (w : World) (st : St) (img : List Nat) :
    ∀ f ∈ sentFrames (parseQueryLargeTlv c g w st img).fx, ∃ seq lf payload, f = largeFrame c (respDest img) seq lf payload := by
  unfold parseQueryLargeTlv qltlvIcon qltlvFname qltlvHwid
  simp only []
  repeat' split
  all_goals first
    | (intro f hf; simp [sentFrames] at hf; done)
    | exact sendLarge_class _ _ _ _ _ _
    | (simp only []; exact sendLarge_class _ _ _ _ _ _)

theorem parseProbe_nofx (c : Cfg) (w : World) (st : St) (img : List Nat) : (parseProbe c w st img).fx = [] := by
  unfold parseProbe; simp only []
  repeat' split
  all_goals rfl

/-- every frame that is no Query is answered without any QueryResp -/
theorem no_queryResp (c : Cfg) (g : Glob) (w : World) (st : St) (img : List Nat) (hc : CfgOk c) (hi : St.Inv st) (him : ImgOk img)
    (hq : ¬ (fTos img = 0 ∧ fOpcode img = 6)) :
    ∀ f ∈ sentFrames (parseFrameSt c g w st img).fx, decodeQueryResp f = none := by
  have hd : (respDest img).length = 6 := by
    unfold respDest; split
    · exact fRealSrc_len img him
    · rfl
  by_cases o0 : fOpcode img = 0
  · by_cases t01 : fTos img = 0 ∨ fTos img = 1
    · rw [parseFrameSt_discover c g w st img t01 o0]
      split
      · split
        · intro f hf
          have : f ∈ sentFrames (answerHello c g w (preStep st img) img).fx := by simpa [sentFrames] using hf
          rw [answerHello_class c g w _ img f this]; exact (hello_none c g _ _ _ _ hc).1
        · intro f hf; rw [answerHello_class c g w _ img f hf]; exact (hello_none c g _ _ _ _ hc).1
      · intro f hf; simp [sentFrames] at hf
    · have h0 : fTos img ≠ 0 := fun e => t01 (Or.inl e)
      have h1 : fTos img ≠ 1 := fun e => t01 (Or.inr e)
      rw [dispatch_other c g w st img h0 h1]
      intro f hf; simp [sentFrames] at hf
  · by_cases t0 : fTos img = 0
    · rw [dispatch_tos0 c g w st img t0 o0]
      have o6 : ¬ fOpcode img = 6 := fun e => hq ⟨t0, e⟩
      simp only [o6, if_false]
      split
      · intro f hf; exact (short_none f (parseEmit_short c w st img hc hi him f hf)).1
      · split
        · rw [parseProbe_nofx]; intro f hf; simp [sentFrames] at hf
        · split
          · intro f hf
            obtain ⟨seq, lf, payload, e⟩ := qltlv_class c g w st img f hf
            rw [e]; exact large_noQuery c _ _ _ _ hc hd
          · split <;> (intro f hf; simp [sentFrames] at hf)
    · by_cases t1 : fTos img = 1
      · rw [dispatch_tos1 c g w st img t1 o0]
        split
        · intro f hf
          obtain ⟨seq, lf, payload, e⟩ := qltlv_class c g w st img f hf
          rw [e]; exact large_noQuery c _ _ _ _ hc hd
        · split <;> (intro f hf; simp [sentFrames] at hf)
      · rw [dispatch_other c g w st img t0 t1]
        intro f hf; simp [sentFrames] at hf

/-- every frame that is no QueryLargeTlv is answered without any QueryLargeTlvResp -/
theorem no_largeResp (c : Cfg) (g : Glob) (w : World) (st : St) (img : List Nat) (hc : CfgOk c) (hi : St.Inv st) (him : ImgOk img)
    (hq : ¬ ((fTos img = 0 ∨ fTos img = 1) ∧ fOpcode img = 11)) :
    ∀ f ∈ sentFrames (parseFrameSt c g w st img).fx, decodeLargeResp f = none := by
  by_cases o0 : fOpcode img = 0
  · by_cases t01 : fTos img = 0 ∨ fTos img = 1
    · rw [parseFrameSt_discover c g w st img t01 o0]
      split
      · split
        · intro f hf
          have : f ∈ sentFrames (answerHello c g w (preStep st img) img).fx := by simpa [sentFrames] using hf
          rw [answerHello_class c g w _ img f this]; exact (hello_none c g _ _ _ _ hc).2
        · intro f hf; rw [answerHello_class c g w _ img f hf]; exact (hello_none c g _ _ _ _ hc).2
      · intro f hf; simp [sentFrames] at hf
    · have h0 : fTos img ≠ 0 := fun e => t01 (Or.inl e)
      have h1 : fTos img ≠ 1 := fun e => t01 (Or.inr e)
      rw [dispatch_other c g w st img h0 h1]
      intro f hf; simp [sentFrames] at hf
  · by_cases t0 : fTos img = 0
    · rw [dispatch_tos0 c g w st img t0 o0]
      have o11 : ¬ fOpcode img = 11 := fun e => hq ⟨Or.inl t0, e⟩
      simp only [o11, if_false]
      split
      · intro f hf; exact (short_none f (parseEmit_short c w st img hc hi him f hf)).2
      · split
        · rw [parseProbe_nofx]; intro f hf; simp [sentFrames] at hf
        · split
          · intro f hf
            obtain ⟨seq, n, more, descs, e⟩ := parseQuery_class c w st img f hf
            rw [e]; exact query_noLarge c img _ _ _ _ hc him
          · split <;> (intro f hf; simp [sentFrames] at hf)
    · by_cases t1 : fTos img = 1
      · rw [dispatch_tos1 c g w st img t1 o0]
        have o11 : ¬ fOpcode img = 11 := fun e => hq ⟨Or.inr t1, e⟩
        simp only [o11, if_false]
        split <;> (intro f hf; simp [sentFrames] at hf)
      · rw [dispatch_other c g w st img t0 t1]
        intro f hf; simp [sentFrames] at hf


/-! ## Only a Discover is ever answered with a Hello -/

theorem short_noHello (f : List Nat) (h : f.length ≤ 32) : decodeHello f = none := by
  have h47 : f.length < 47 := by omega
  unfold decodeHello
  cases decodeBase f with
  | none => rfl
  | some b => simp [h47]

theorem query_noHello (c : Cfg) (img : List Nat) (seq n : Nat) (more : Bool) (descs : List Nat) (hc : CfgOk c) (him : ImgOk img) :
    decodeHello (queryFrame c img seq n more descs) = none := by
  have hm := ourMac_length c hc
  have hd : (respDest img).length = 6 := by
    unfold respDest; split
    · exact fRealSrc_len img him
    · rfl
  have hb := decodeBase_lltdHeader 0 (respDest img) c.ourMac (respDest img) c.ourMac seq X.opQueryResp X.tosDiscovery
    (be 2 (n ||| (if more then 0x8000 else 0)) ++ descs) hd hm hd hm
  have hq : queryFrame c img seq n more descs =
      lltdHeader 0 (respDest img) c.ourMac (respDest img) c.ourMac seq X.opQueryResp X.tosDiscovery ++
        (be 2 (n ||| (if more then 0x8000 else 0)) ++ descs) := by
    unfold queryFrame; rw [List.append_assoc]
  unfold decodeHello
  rw [hq, hb]
  simp

theorem large_noHello (c : Cfg) (dest : Mac) (seq lf : Nat) (payload : List Nat) (hc : CfgOk c) (hd : dest.length = 6) :
    decodeHello (largeFrame c dest seq lf payload) = none := by
  have hm := ourMac_length c hc
  have hb := decodeBase_lltdHeader 0 dest c.ourMac dest c.ourMac seq X.opQltlvResp X.tosDiscovery (be 2 lf ++ payload) hd hm hd hm
  have hq : largeFrame c dest seq lf payload =
      lltdHeader 0 dest c.ourMac dest c.ourMac seq X.opQltlvResp X.tosDiscovery ++ (be 2 lf ++ payload) := by
    unfold largeFrame; rw [List.append_assoc]
  unfold decodeHello
  rw [hq, hb]
  simp

/-- every frame that is no Discover of a discovery service is answered without any Hello -/
theorem no_hello (c : Cfg) (g : Glob) (w : World) (st : St) (img : List Nat) (hc : CfgOk c) (hi : St.Inv st) (him : ImgOk img)
    (hq : ¬ ((fTos img = 0 ∨ fTos img = 1) ∧ fOpcode img = 0)) :
    ∀ f ∈ sentFrames (parseFrameSt c g w st img).fx, decodeHello f = none := by
  have hd : (respDest img).length = 6 := by
    unfold respDest; split
    · exact fRealSrc_len img him
    · rfl
  by_cases o0 : fOpcode img = 0
  · have h0 : fTos img ≠ 0 := fun e => hq ⟨Or.inl e, o0⟩
    have h1 : fTos img ≠ 1 := fun e => hq ⟨Or.inr e, o0⟩
    rw [dispatch_other c g w st img h0 h1]
    intro f hf; simp at hf
  · by_cases t0 : fTos img = 0
    · rw [dispatch_tos0 c g w st img t0 o0]
      split
      · intro f hf; exact short_noHello f (parseEmit_short c w st img hc hi him f hf)
      · split
        · rw [parseProbe_nofx]; intro f hf; simp at hf
        · split
          · intro f hf
            obtain ⟨seq, n, more, descs, e⟩ := parseQuery_class c w st img f hf
            rw [e]; exact query_noHello c img _ _ _ _ hc him
          · split
            · intro f hf
              obtain ⟨seq, lf, payload, e⟩ := qltlv_class c g w st img f hf
              rw [e]; exact large_noHello c _ _ _ _ hc hd
            · split <;> (intro f hf; simp at hf)
    · by_cases t1 : fTos img = 1
      · rw [dispatch_tos1 c g w st img t1 o0]
        split
        · intro f hf
          obtain ⟨seq, lf, payload, e⟩ := qltlv_class c g w st img f hf
          rw [e]; exact large_noHello c _ _ _ _ hc hd
        · split <;> (intro f hf; simp at hf)
      · rw [dispatch_other c g w st img t0 t1]
        intro f hf; simp at hf

theorem answerHello_nomem (c : Cfg) (g : Glob) (w : World) (st : St) (img : List Nat) (h : (w.malloc c.mtuEff).2 = false) :
    (answerHello c g w st img).fx = [] := by
  unfold answerHello; simp [h]

end LLTD
