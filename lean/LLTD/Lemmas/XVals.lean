/-
  The layout tie: the model builds and reads frames with the documented MS-LLTD
  layout; these lemmas state that the values the extractor read from the working
  tree's compiled headers (sizeof / offsetof / #define) are exactly those.  A
  changed struct field, packing or constant makes one of them false, and every
  theorem that uses it then fails to check.  They are simp lemmas so that proofs
  about the model see literals.
-/
import LLTD.Generated.Extracted

namespace LLTD.X

@[simp] theorem sizeofDemux_val : sizeofDemux = 32 := by decide
@[simp] theorem offEthDst_val : offEthDst = 0 := by decide
@[simp] theorem offEthSrc_val : offEthSrc = 6 := by decide
@[simp] theorem offEtherType_val : offEtherType = 12 := by decide
@[simp] theorem offVersion_val : offVersion = 14 := by decide
@[simp] theorem offTos_val : offTos = 15 := by decide
@[simp] theorem offReserved_val : offReserved = 16 := by decide
@[simp] theorem offOpcode_val : offOpcode = 17 := by decide
@[simp] theorem offRealDst_val : offRealDst = 18 := by decide
@[simp] theorem offRealSrc_val : offRealSrc = 24 := by decide
@[simp] theorem offSeq_val : offSeq = 30 := by decide
@[simp] theorem sizeofMac_val : sizeofMac = 6 := by decide
@[simp] theorem offDiscGen_val : offDiscGen = 0 := by decide
@[simp] theorem offDiscCount_val : offDiscCount = 2 := by decide
@[simp] theorem offDiscList_val : offDiscList = 4 := by decide
@[simp] theorem strideStation_val : strideStation = 6 := by decide
@[simp] theorem sizeofEmitHdr_val : sizeofEmitHdr = 2 := by decide
@[simp] theorem sizeofEmitee_val : sizeofEmitee = 14 := by decide
@[simp] theorem offEmiteeType_val : offEmiteeType = 0 := by decide
@[simp] theorem offEmiteePause_val : offEmiteePause = 1 := by decide
@[simp] theorem offEmiteeSrc_val : offEmiteeSrc = 2 := by decide
@[simp] theorem offEmiteeDst_val : offEmiteeDst = 8 := by decide
@[simp] theorem sizeofHelloHdr_val : sizeofHelloHdr = 14 := by decide
@[simp] theorem offHelloGen_val : offHelloGen = 0 := by decide
@[simp] theorem offHelloCur_val : offHelloCur = 2 := by decide
@[simp] theorem offHelloApp_val : offHelloApp = 8 := by decide
@[simp] theorem sizeofQryRespHdr_val : sizeofQryRespHdr = 2 := by decide
@[simp] theorem sizeofQltlv_val : sizeofQltlv = 4 := by decide
@[simp] theorem offQltlvType_val : offQltlvType = 0 := by decide
@[simp] theorem offQltlvOffset_val : offQltlvOffset = 2 := by decide
@[simp] theorem sizeofQltlvResp_val : sizeofQltlvResp = 2 := by decide
@[simp] theorem sizeofTlvHdr_val : sizeofTlvHdr = 2 := by decide
@[simp] theorem nodeBytes_val : nodeBytes = 28 := by decide
@[simp] theorem nodePayloadBytes_val : nodePayloadBytes = 28 := by decide
@[simp] theorem etherType_val : etherType = 35033 := by decide
@[simp] theorem tosDiscovery_val : tosDiscovery = 0 := by decide
@[simp] theorem tosQuick_val : tosQuick = 1 := by decide
@[simp] theorem tosQos_val : tosQos = 2 := by decide
@[simp] theorem opDiscover_val : opDiscover = 0 := by decide
@[simp] theorem opHello_val : opHello = 1 := by decide
@[simp] theorem opEmit_val : opEmit = 2 := by decide
@[simp] theorem opTrain_val : opTrain = 3 := by decide
@[simp] theorem opProbe_val : opProbe = 4 := by decide
@[simp] theorem opAck_val : opAck = 5 := by decide
@[simp] theorem opQuery_val : opQuery = 6 := by decide
@[simp] theorem opQueryResp_val : opQueryResp = 7 := by decide
@[simp] theorem opReset_val : opReset = 8 := by decide
@[simp] theorem opCharge_val : opCharge = 9 := by decide
@[simp] theorem opFlat_val : opFlat = 10 := by decide
@[simp] theorem opQltlv_val : opQltlv = 11 := by decide
@[simp] theorem opQltlvResp_val : opQltlvResp = 12 := by decide
@[simp] theorem tlvHostId_val : tlvHostId = 1 := by decide
@[simp] theorem tlvCharacteristics_val : tlvCharacteristics = 2 := by decide
@[simp] theorem tlvIfType_val : tlvIfType = 3 := by decide
@[simp] theorem tlvWifiMode_val : tlvWifiMode = 4 := by decide
@[simp] theorem tlvBssid_val : tlvBssid = 5 := by decide
@[simp] theorem tlvSsid_val : tlvSsid = 6 := by decide
@[simp] theorem tlvIpv4_val : tlvIpv4 = 7 := by decide
@[simp] theorem tlvIpv6_val : tlvIpv6 = 8 := by decide
@[simp] theorem tlvWifiMaxRate_val : tlvWifiMaxRate = 9 := by decide
@[simp] theorem tlvPerfCounter_val : tlvPerfCounter = 10 := by decide
@[simp] theorem tlvLinkSpeed_val : tlvLinkSpeed = 12 := by decide
@[simp] theorem tlvWifiRssi_val : tlvWifiRssi = 13 := by decide
@[simp] theorem tlvIconImage_val : tlvIconImage = 14 := by decide
@[simp] theorem tlvHostname_val : tlvHostname = 15 := by decide
@[simp] theorem tlvFriendlyName_val : tlvFriendlyName = 17 := by decide
@[simp] theorem tlvHwId_val : tlvHwId = 19 := by decide
@[simp] theorem tlvQos_val : tlvQos = 20 := by decide
@[simp] theorem eop_val : eop = 0 := by decide
@[simp] theorem qosL2Fwd_val : qosL2Fwd = 32768 := by decide
@[simp] theorem qosVlan_val : qosVlan = 16384 := by decide
@[simp] theorem qosPrioTag_val : qosPrioTag = 8192 := by decide
@[simp] theorem littleEndianHost_val : littleEndianHost = 1 := by decide
@[simp] theorem htons0102_val : htons0102 = 513 := by decide
@[simp] theorem htonl01020304_val : htonl01020304 = 67305985 := by decide

@[simp] theorem sessConflicting_val : sessConflicting = 0 := by decide
@[simp] theorem sessReset_val : sessReset = 1 := by decide
@[simp] theorem sessNoack_val : sessNoack = 2 := by decide
@[simp] theorem sessAcking_val : sessAcking = 3 := by decide
@[simp] theorem sessNoackChgd_val : sessNoackChgd = 4 := by decide
@[simp] theorem sessAckingChgd_val : sessAckingChgd = 5 := by decide
@[simp] theorem sessTopoReset_val : sessTopoReset = 6 := by decide
@[simp] theorem sessHello_val : sessHello = 7 := by decide
@[simp] theorem enumSessComplete_val : enumSessComplete = 0 := by decide
@[simp] theorem enumSessNotComplete_val : enumSessNotComplete = 1 := by decide
@[simp] theorem enumHello_val : enumHello = 2 := by decide
@[simp] theorem enumNewSession_val : enumNewSession = 3 := by decide
@[simp] theorem maxEntries_val : maxEntries = 16 := by decide
@[simp] theorem helloMinIntervalMs_val : helloMinIntervalMs = 1000 := by decide
@[simp] theorem bandNmax_val : bandNmax = 10000 := by decide
@[simp] theorem bandAlpha_val : bandAlpha = 45 := by decide
@[simp] theorem bandBeta_val : bandBeta = 2 := by decide
@[simp] theorem bandGamma_val : bandGamma = 10 := by decide
@[simp] theorem bandTxc_val : bandTxc = 4 := by decide
@[simp] theorem bandBlockTime_val : bandBlockTime = 300 := by decide
@[simp] theorem bandMulFrame1_val : bandMulFrame1 = 6 := by decide

/-- the observation node has no padding: its size is the sum of its fields (so field-wise assignment initialises every byte) -/
theorem node_no_padding : nodeBytes = nodePayloadBytes := rfl
theorem node_observed : observedNodeBytes = nodeBytes := rfl
/-- the byte-order helpers produce network order on this host -/
theorem endian_ok : htons0102 = 513 ∧ htonl01020304 = 67305985 := ⟨rfl, rfl⟩

end LLTD.X
@[simp] theorem LLTD.X.seesCap_val : LLTD.X.seesCap = some 1024 := rfl
@[simp] theorem LLTD.X.stateRecBytes_pos : 0 < LLTD.X.stateRecBytes := by decide
