/-
  The layout tie: the model builds and reads frames with the documented MS-LLTD
  layout; these lemmas state that the values the extractor read from the working
  tree's compiled headers (sizeof / offsetof / #define) are exactly those.  A
  changed struct field, packing or constant makes one of them false, and every
  theorem that uses it then fails to check.  They are simp lemmas so that proofs
  about the model see literals.
-/
import LLTD.Generated.Extracted

namespace LLTD.X

@[simp] theorem sizeofDemux_val : sizeofDemux = 32 := rfl
@[simp] theorem offEthDst_val : offEthDst = 0 := rfl
@[simp] theorem offEthSrc_val : offEthSrc = 6 := rfl
@[simp] theorem offEtherType_val : offEtherType = 12 := rfl
@[simp] theorem offVersion_val : offVersion = 14 := rfl
@[simp] theorem offTos_val : offTos = 15 := rfl
@[simp] theorem offReserved_val : offReserved = 16 := rfl
@[simp] theorem offOpcode_val : offOpcode = 17 := rfl
@[simp] theorem offRealDst_val : offRealDst = 18 := rfl
@[simp] theorem offRealSrc_val : offRealSrc = 24 := rfl
@[simp] theorem offSeq_val : offSeq = 30 := rfl
@[simp] theorem sizeofMac_val : sizeofMac = 6 := rfl
@[simp] theorem offDiscGen_val : offDiscGen = 0 := rfl
@[simp] theorem offDiscCount_val : offDiscCount = 2 := rfl
@[simp] theorem offDiscList_val : offDiscList = 4 := rfl
@[simp] theorem strideStation_val : strideStation = 6 := rfl
@[simp] theorem sizeofEmitHdr_val : sizeofEmitHdr = 2 := rfl
@[simp] theorem sizeofEmitee_val : sizeofEmitee = 14 := rfl
@[simp] theorem offEmiteeType_val : offEmiteeType = 0 := rfl
@[simp] theorem offEmiteePause_val : offEmiteePause = 1 := rfl
@[simp] theorem offEmiteeSrc_val : offEmiteeSrc = 2 := rfl
@[simp] theorem offEmiteeDst_val : offEmiteeDst = 8 := rfl
@[simp] theorem sizeofHelloHdr_val : sizeofHelloHdr = 14 := rfl
@[simp] theorem offHelloGen_val : offHelloGen = 0 := rfl
@[simp] theorem offHelloCur_val : offHelloCur = 2 := rfl
@[simp] theorem offHelloApp_val : offHelloApp = 8 := rfl
@[simp] theorem sizeofQryRespHdr_val : sizeofQryRespHdr = 2 := rfl
@[simp] theorem sizeofQltlv_val : sizeofQltlv = 4 := rfl
@[simp] theorem offQltlvType_val : offQltlvType = 0 := rfl
@[simp] theorem offQltlvOffset_val : offQltlvOffset = 2 := rfl
@[simp] theorem sizeofQltlvResp_val : sizeofQltlvResp = 2 := rfl
@[simp] theorem sizeofTlvHdr_val : sizeofTlvHdr = 2 := rfl
@[simp] theorem nodeBytes_val : nodeBytes = 28 := rfl
@[simp] theorem nodePayloadBytes_val : nodePayloadBytes = 28 := rfl
@[simp] theorem etherType_val : etherType = 35033 := rfl
@[simp] theorem tosDiscovery_val : tosDiscovery = 0 := rfl
@[simp] theorem tosQuick_val : tosQuick = 1 := rfl
@[simp] theorem tosQos_val : tosQos = 2 := rfl
@[simp] theorem opDiscover_val : opDiscover = 0 := rfl
@[simp] theorem opHello_val : opHello = 1 := rfl
@[simp] theorem opEmit_val : opEmit = 2 := rfl
@[simp] theorem opTrain_val : opTrain = 3 := rfl
@[simp] theorem opProbe_val : opProbe = 4 := rfl
@[simp] theorem opAck_val : opAck = 5 := rfl
@[simp] theorem opQuery_val : opQuery = 6 := rfl
@[simp] theorem opQueryResp_val : opQueryResp = 7 := rfl
@[simp] theorem opReset_val : opReset = 8 := rfl
@[simp] theorem opCharge_val : opCharge = 9 := rfl
@[simp] theorem opFlat_val : opFlat = 10 := rfl
@[simp] theorem opQltlv_val : opQltlv = 11 := rfl
@[simp] theorem opQltlvResp_val : opQltlvResp = 12 := rfl
@[simp] theorem tlvHostId_val : tlvHostId = 1 := rfl
@[simp] theorem tlvCharacteristics_val : tlvCharacteristics = 2 := rfl
@[simp] theorem tlvIfType_val : tlvIfType = 3 := rfl
@[simp] theorem tlvWifiMode_val : tlvWifiMode = 4 := rfl
@[simp] theorem tlvBssid_val : tlvBssid = 5 := rfl
@[simp] theorem tlvSsid_val : tlvSsid = 6 := rfl
@[simp] theorem tlvIpv4_val : tlvIpv4 = 7 := rfl
@[simp] theorem tlvIpv6_val : tlvIpv6 = 8 := rfl
@[simp] theorem tlvWifiMaxRate_val : tlvWifiMaxRate = 9 := rfl
@[simp] theorem tlvPerfCounter_val : tlvPerfCounter = 10 := rfl
@[simp] theorem tlvLinkSpeed_val : tlvLinkSpeed = 12 := rfl
@[simp] theorem tlvWifiRssi_val : tlvWifiRssi = 13 := rfl
@[simp] theorem tlvIconImage_val : tlvIconImage = 14 := rfl
@[simp] theorem tlvHostname_val : tlvHostname = 15 := rfl
@[simp] theorem tlvFriendlyName_val : tlvFriendlyName = 17 := rfl
@[simp] theorem tlvHwId_val : tlvHwId = 19 := rfl
@[simp] theorem tlvQos_val : tlvQos = 20 := rfl
@[simp] theorem eop_val : eop = 0 := rfl
@[simp] theorem qosL2Fwd_val : qosL2Fwd = 32768 := rfl
@[simp] theorem qosVlan_val : qosVlan = 16384 := rfl
@[simp] theorem qosPrioTag_val : qosPrioTag = 8192 := rfl
@[simp] theorem littleEndianHost_val : littleEndianHost = 1 := rfl
@[simp] theorem htons0102_val : htons0102 = 513 := rfl
@[simp] theorem htonl01020304_val : htonl01020304 = 67305985 := rfl

/-- the observation node has no padding: its size is the sum of its fields (so field-wise assignment initialises every byte) -/
theorem node_no_padding : nodeBytes = nodePayloadBytes := rfl
theorem node_observed : observedNodeBytes = nodeBytes := rfl
/-- the byte-order helpers produce network order on this host -/
theorem endian_ok : htons0102 = 513 ∧ htonl01020304 = 67305985 := ⟨rfl, rfl⟩

end LLTD.X
