/-
  The getters of os/linux/lltd_port.c that answer from the interface record - MTU, hardware address, characteristics flags,
  interface type, link speed - AS TRANSLATED FROM THE C TEXT on every run (Generated/TranslatedWire.lean; `iface_ctx` is the
  `network_interface_t` as a region of bytes, the offsets of its fields come out of the layout probe, which includes
  os/linux/daemon/linux-main.h) supply exactly what the model of the Linux port (`Model/LinuxPort.lean`: `supplied`) says.  No Mathlib.
-/
import LLTD.Lemmas.TranslatedWireEq
import LLTD.Model.LinuxPort

namespace LLTD.TLinuxEq
open LLTD LLTD.CSem LLTD.TWEq LLTD.LinuxPort

theorem bitk (x m : Nat) (k : Nat) (hm : m = 2 ^ k) (hk : k < 8)
    (hfin : ∀ y, y < 256 → ((y &&& m) != 0) = decide (y / m % 2 = 1)) : ((x &&& m) != 0) = decide (x / m % 2 = 1) := by
  have hle : m &&& 255 = m := by
    subst hm
    have : k = 0 ∨ k = 1 ∨ k = 2 ∨ k = 3 ∨ k = 4 ∨ k = 5 ∨ k = 6 ∨ k = 7 := by omega
    rcases this with h | h | h | h | h | h | h | h <;> subst h <;> decide
  have hx : x &&& 255 = x % 256 := by simpa using and_mask x 0
  have e : x &&& m = (x % 256) &&& m := by
    rw [← hx, Nat.and_assoc, Nat.and_comm 255 m, hle]
  rw [e, hfin (x % 256) (Nat.mod_lt _ (by decide))]
  have : (x % 256 / m % 2 = 1) ↔ (x / m % 2 = 1) := by
    subst hm
    have : k = 0 ∨ k = 1 ∨ k = 2 ∨ k = 3 ∨ k = 4 ∨ k = 5 ∨ k = 6 ∨ k = 7 := by omega
    rcases this with h | h | h | h | h | h | h | h <;> subst h <;> simp <;> omega
  simp [this]

/-- the finite part is checked by kernel evaluation over all 256 byte values -/
theorem bit16 (x : Nat) : ((x &&& 16) != 0) = decide (x / 16 % 2 = 1) := bitk x 16 4 (by decide) (by decide) (by decide +kernel)
theorem bit8 (x : Nat) : ((x &&& 8) != 0) = decide (x / 8 % 2 = 1) := bitk x 8 3 (by decide) (by decide) (by decide +kernel)

/-- the bytes of a `network_interface_t` hold the model's record (field offsets as the layout probe printed them on this run) -/
structure EncRec (b : List Nat) (r : Rec) : Prop where
  ifType : unle (rd b 8 4) = r.ifType
  medium : unle (rd b 44 4) = r.mediumType
  mtu    : unle (rd b 48 4) = r.mtu
  speed  : unle (rd b 52 4) = r.linkSpeed
  flags  : unle (rd b 56 4) = r.flags
  mac    : rd b 60 6 = r.mac
  mac6   : r.mac.length = 6

theorem get_mtu_eq (env : TW.Env) (b out : List Nat) (r : Rec) (h : EncRec b r) (ho : out.length = 8) (hr : r.mtu < 4294967296) :
    (TW.lltd_port_get_mtu env b out).ret = 0 ∧ unle (TW.lltd_port_get_mtu env b out).out_mtu = (supplied r).mtu := by
  have e : (TW.lltd_port_get_mtu env b out).out_mtu = le 8 r.mtu := by
    have hd : List.drop 8 out = [] := List.drop_eq_nil_of_le (by omega)
    simp [TW.lltd_port_get_mtu, h.mtu, le_length, hd]
  refine ⟨by simp [TW.lltd_port_get_mtu], ?_⟩
  rw [e, unle_le 8 r.mtu (by omega)]; rfl

theorem get_mac_eq (env : TW.Env) (b out : List Nat) (r : Rec) (h : EncRec b r) (ho : out.length = 6) :
    (TW.lltd_port_get_mac_address env b out).ret = 0 ∧ (TW.lltd_port_get_mac_address env b out).out_mac = (supplied r).mac := by
  refine ⟨by simp [TW.lltd_port_get_mac_address], ?_⟩
  have hd : List.drop 6 out = [] := List.drop_eq_nil_of_le (by omega)
  simp [TW.lltd_port_get_mac_address, h.mac, h.mac6, hd, supplied]

theorem get_if_type_eq (env : TW.Env) (b out : List Nat) (r : Rec) (h : EncRec b r) (ho : out.length = 4) (hr : r.ifType < 4294967296) :
    (TW.lltd_port_get_if_type env b out).ret = 0 ∧ unle (TW.lltd_port_get_if_type env b out).out_if_type = (supplied r).ifType := by
  have e : (TW.lltd_port_get_if_type env b out).out_if_type = le 4 r.ifType := by
    have hd : List.drop 4 out = [] := List.drop_eq_nil_of_le (by omega)
    simp [TW.lltd_port_get_if_type, h.ifType, le_length, hd]
  refine ⟨by simp [TW.lltd_port_get_if_type], ?_⟩
  rw [e, unle_le 4 r.ifType (by omega)]; rfl

theorem get_link_speed_eq (env : TW.Env) (b out : List Nat) (r : Rec) (h : EncRec b r) (ho : out.length = 4) (hr : r.linkSpeed < 4294967296) :
    (TW.lltd_port_get_link_speed_100bps env b out).ret = 0
    ∧ unle (TW.lltd_port_get_link_speed_100bps env b out).out_speed_100bps = (supplied r).speed100 := by
  have e : (TW.lltd_port_get_link_speed_100bps env b out).out_speed_100bps = le 4 (r.linkSpeed / 100) := by
    have hd : List.drop 4 out = [] := List.drop_eq_nil_of_le (by omega)
    simp [TW.lltd_port_get_link_speed_100bps, h.speed, le_length, hd]
  refine ⟨by simp [TW.lltd_port_get_link_speed_100bps], ?_⟩
  rw [e, unle_le 4 _ (by omega)]; rfl

theorem get_flags_eq (env : TW.Env) (b : List Nat) (r : Rec) (h : EncRec b r) :
    (TW.lltd_port_get_characteristics_flags env b).ret = (supplied r).flags := by
  have hm := h.medium
  have hf := h.flags
  by_cases h1 : r.mediumType / 16 % 2 = 1 <;> by_cases h2 : r.flags / 8 % 2 = 1
  all_goals
    have h1' := h1
    have h2' := h2
    rw [← hm] at h1'
    rw [← hf] at h2'
    simp [TW.lltd_port_get_characteristics_flags, bit16, bit8, supplied, h1, h2, h1', h2']

end LLTD.TLinuxEq
