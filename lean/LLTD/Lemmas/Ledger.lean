/- The allocation ledger: every handler releases what it allocated unless the block became part of the
   retained per-interface state (observation nodes, cached icon). -/
import LLTD.Lemmas.Inv

namespace LLTD

/-- how many bytes sendLargeTlvResponse copies never exceeds the per-frame payload nor what the data holds -/
theorem respFields_bounds (p : Nat) (data : Option (List Nat)) (off : Nat) :
    (respFields p data off).1 ≤ p ∧
    ((respFields p data off).1 > 0 → off + (respFields p data off).1 ≤ optLen data) := by
  cases data with
  | none => simp [respFields]
  | some d =>
    simp only [respFields, optLen, Option.isNone_some, Bool.false_eq_true, false_or]
    by_cases h0 : d.length = 0
    · simp [h0]
    · simp only [h0, if_false]
      by_cases h1 : d.length > off + p
      · simp only [h1, if_true]
        exact ⟨Nat.le_refl _, fun _ => by omega⟩
      · simp only [h1, if_false]
        by_cases h2 : d.length > off
        · simp only [h2, if_true]
          have hle : (d.length - off) % u16 ≤ d.length - off := Nat.mod_le _ _
          exact ⟨by omega, fun _ => by omega⟩
        · simp [h2]


/-- same ledger (live blocks and bytes); fault schedule counters may differ -/
def World.same (w w' : World) : Prop := w'.live = w.live ∧ w'.bytes = w.bytes

theorem same_refl (w : World) : w.same w := ⟨rfl, rfl⟩
theorem same_trans {a b c : World} (h1 : a.same b) (h2 : b.same c) : a.same c := ⟨h2.1.trans h1.1, h2.2.trans h1.2⟩

theorem malloc_fail (w : World) (n : Nat) (h : (w.malloc n).2 = false) : w.same (w.malloc n).1 := by
  unfold World.malloc at *
  by_cases hc : (w.failMallocAll || w.failMalloc.contains (w.mallocCalls + 1)) = true
  · simp only [hc, if_true]; exact ⟨rfl, rfl⟩
  · simp only [hc] at h; simp at h

theorem malloc_ok (w : World) (n : Nat) (h : (w.malloc n).2 = true) :
    (w.malloc n).1.live = w.live + 1 ∧ (w.malloc n).1.bytes = w.bytes + n := by
  unfold World.malloc at *
  by_cases hc : (w.failMallocAll || w.failMalloc.contains (w.mallocCalls + 1)) = true
  · simp only [hc] at h; simp at h
  · simp only [hc]; exact ⟨rfl, rfl⟩

theorem send_same (w : World) : w.same w.send.1 := ⟨rfl, rfl⟩

theorem sendFx_same (c : Cfg) (w : World) (f : List Nat) : w.same (sendFx c w f).1 := ⟨rfl, rfl⟩

theorem free_live (w : World) (n : Nat) : (w.free n).live = w.live - 1 ∧ (w.free n).bytes = w.bytes - n := ⟨rfl, rfl⟩

/-- a block allocated and released again leaves the ledger as it was -/
theorem malloc_then_free (w w' : World) (n : Nat) (h : (w.malloc n).2 = true) (hs : (w.malloc n).1.same w') :
    w.same (w'.free n) := by
  have := malloc_ok w n h
  constructor
  · rw [(free_live w' n).1, hs.1, this.1]; omega
  · rw [(free_live w' n).2, hs.2, this.2]; omega

theorem sendProbeMsg_same (c : Cfg) (st : St) (w : World) (fx : List Fx) (src dst : Mac) (pause ty : Nat) (ack : Bool) :
    w.same (sendProbeMsg c st w fx src dst pause ty ack).1 := by
  unfold sendProbeMsg
  simp only []
  by_cases hm : (w.malloc X.sizeofDemux).2 = true
  · simp only [hm, Bool.not_true, Bool.false_eq_true, if_false]
    repeat' split
    all_goals first
      | exact malloc_then_free w _ _ hm (sendFx_same c _ _)
      | exact malloc_then_free w _ _ hm (same_trans (sendFx_same c _ _) (sendFx_same c _ _))
  · simp only [Bool.not_eq_true] at hm
    simp only [hm, Bool.not_false, if_true]
    exact malloc_fail w _ hm

theorem emitLoop_same (c : Cfg) (st : St) (img : List Nat) (n : Nat) :
    ∀ (k i : Nat) (w : World) (fx : List Fx), w.same (emitLoop c st img n k i w fx).1 := by
  intro k
  induction k with
  | zero => intro i w fx; exact same_refl w
  | succ k ih =>
    intro i w fx
    rw [emitLoop]
    simp only []
    split
    · exact same_refl w
    · split
      · exact same_trans (sendProbeMsg_same c st w fx _ _ _ _ _) (ih _ _ _)
      · exact ih _ _ _

theorem parseEmit_same (c : Cfg) (w : World) (st : St) (img : List Nat) : w.same (parseEmit c w st img).w := by
  unfold parseEmit
  simp only []
  split
  · exact same_refl w
  · split
    · exact same_refl w
    · exact emitLoop_same c _ img _ _ _ _ _

theorem answerHello_same (c : Cfg) (g : Glob) (w : World) (st : St) (img : List Nat) (hc : CfgOk c) (hl : 36 ≤ img.length) :
    w.same (answerHello c g w st img).w := by
  have hfit := helloFrame_fits c g (helloGen st img) (fTos img) img hc hl
  unfold answerHello
  by_cases hm : (w.malloc c.mtuEff).2 = true
  · simp only [hm, Bool.not_true, Bool.false_eq_true, if_false, if_neg hfit]
    exact malloc_then_free w _ _ hm (sendFx_same c _ _)
  · simp only [Bool.not_eq_true] at hm
    simp only [hm, Bool.not_false, if_true]
    exact malloc_fail w _ hm

theorem sendLarge_same (c : Cfg) (w : World) (st : St) (img : List Nat) (data : Option (List Nat)) (off : Nat) :
    w.same (sendLargeTlvResponse c w st img data off).w := by
  unfold sendLargeTlvResponse
  simp only []
  generalize hp : (if c.mtuEff > X.sizeofDemux + X.sizeofQltlvResp then (c.mtuEff - (X.sizeofDemux + X.sizeofQltlvResp)) % u16 else 0) = p
  have hb := respFields_bounds p data off
  by_cases hm : (w.malloc (X.sizeofDemux + X.sizeofQltlvResp + p)).2 = true
  · simp only [hm, Bool.not_true, Bool.false_eq_true, if_false]
    have h1 : ¬((respFields p data off).1 > 0 ∧ off + (respFields p data off).1 > optLen data) := by
      intro h; have := hb.2 h.1; omega
    have h2 : ¬(X.sizeofDemux + X.sizeofQltlvResp + (respFields p data off).1 > X.sizeofDemux + X.sizeofQltlvResp + p) := by
      have := hb.1; omega
    simp only [if_neg h1, if_neg h2]
    exact malloc_then_free w _ _ hm (sendFx_same c _ _)
  · simp only [Bool.not_eq_true] at hm
    simp only [hm, Bool.not_false, if_true]
    exact malloc_fail w _ hm

/-! ## Handlers that change what is retained -/

def iconBlocks (st : St) : Nat := match st.icon with | some _ => 1 | none => 0
def iconBytes (st : St) : Nat := match st.icon with | some ic => ic.length | none => 0

/-- blocks / bytes the per-interface record retains between frames (besides the record itself) -/
def retained (st : St) : Nat := st.sees.length + iconBlocks st
def retainedBytes (st : St) : Nat := X.nodeBytes * st.sees.length + iconBytes st

/-- the ledger accounts for exactly `base` blocks / `baseB` bytes besides what `st` retains -/
def Accounted (w : World) (st : St) (base baseB : Nat) : Prop :=
  w.live = base + retained st ∧ w.bytes = baseB + retainedBytes st

theorem accounted_same {w w' : World} {st : St} {b bb : Nat} (h : Accounted w st b bb) (hs : w.same w') : Accounted w' st b bb :=
  ⟨hs.1.trans h.1, hs.2.trans h.2⟩

theorem freeNodes_ledger (w : World) (k : Nat) : (freeNodes w k).live = w.live - k ∧ (freeNodes w k).bytes = w.bytes - X.nodeBytes * k := by
  induction k generalizing w with
  | zero => simp [freeNodes]
  | succ k ih =>
    simp only [freeNodes]
    have := ih (w.free X.nodeBytes)
    rw [this.1, this.2, (free_live w _).1, (free_live w _).2]
    constructor
    · omega
    · rw [Nat.mul_succ]; omega

theorem parseProbe_ledger (c : Cfg) (w : World) (st : St) (img : List Nat) (b bb : Nat) (h : Accounted w st b bb) :
    Accounted (parseProbe c w st img).w (parseProbe c w st img).st b bb := by
  unfold parseProbe
  simp only []
  split
  · exact h
  · split
    · exact h
    · by_cases hm : (w.malloc X.nodeBytes).2 = true
      · simp only [hm, Bool.not_true, Bool.false_eq_true, if_false]
        have hk := malloc_ok w _ hm
        split
        · exact accounted_same h (malloc_then_free w _ _ hm (same_refl _))
        · unfold Accounted retained retainedBytes iconBlocks iconBytes at *
          simp only [List.length_cons]
          rw [hk.1, hk.2, h.1, h.2, Nat.mul_succ]
          constructor <;> omega
      · simp only [Bool.not_eq_true] at hm
        simp only [hm, Bool.not_false, if_true]
        exact accounted_same h (malloc_fail w _ hm)

theorem parseQuery_ledger (c : Cfg) (w : World) (st : St) (img : List Nat) (b bb : Nat) (hc : CfgOk c) (h : Accounted w st b bb) :
    Accounted (parseQuery c w st img).w (parseQuery c w st img).st b bb := by
  have hge := mtuEff_ge c hc
  unfold parseQuery
  simp only []
  by_cases hm : (w.malloc c.mtuEff).2 = true
  · simp only [hm, Bool.not_true, Bool.false_eq_true, if_false]
    have hh : ¬ (X.sizeofDemux + X.sizeofQryRespHdr > c.mtuEff) := by simp only [X.sizeofDemux_val, X.sizeofQryRespHdr_val]; omega
    simp only [if_neg hh]
    generalize hr : queryLoop c.mtuEff st.sees (queryNum st.count c.mtuEff) (X.sizeofDemux + X.sizeofQryRespHdr) = r
    have hkl : r.2 ≤ st.sees.length := by rw [← hr]; exact (queryLoop_count _ _ _ _).1
    generalize hfr : queryFrame c img (fSeq img) (queryNum st.count c.mtuEff) (decide (st.count > queryNum st.count c.mtuEff)) r.1 = frame
    have hs : w.same ((sendFx c (w.malloc c.mtuEff).1 frame).1.free c.mtuEff) := malloc_then_free w _ _ hm (sendFx_same c _ _)
    have hf := freeNodes_ledger ((sendFx c (w.malloc c.mtuEff).1 frame).1.free c.mtuEff) r.2
    unfold Accounted retained retainedBytes iconBlocks iconBytes at *
    simp only [List.length_drop]
    rw [hf.1, hf.2, hs.1, hs.2, h.1, h.2]
    have hmul : X.nodeBytes * (st.sees.length - r.2) = X.nodeBytes * st.sees.length - X.nodeBytes * r.2 := Nat.mul_sub ..
    have hle : X.nodeBytes * r.2 ≤ X.nodeBytes * st.sees.length := Nat.mul_le_mul_left _ hkl
    constructor <;> omega
  · simp only [Bool.not_eq_true] at hm
    simp only [hm, Bool.not_false, if_true]
    exact accounted_same (st := { st with seq := fSeq img, mapperReal := fRealSrc img, mapperApparent := fEthSrc img, known := true })
      h (malloc_fail w _ hm)

/-- same retained blocks -/
def St.sameRet (a b : St) : Prop := b.sees = a.sees ∧ b.icon = a.icon

theorem accounted_ret {w : World} {a b' : St} {b bb : Nat} (h : Accounted w a b bb) (hs : a.sameRet b') : Accounted w b' b bb := by
  unfold Accounted retained retainedBytes iconBlocks iconBytes at *
  rw [hs.1, hs.2]; exact h

theorem setActive_ret (st : St) (r e : Mac) : st.sameRet (setActiveMapper st r e) := by
  unfold setActiveMapper; split <;> exact ⟨rfl, rfl⟩

theorem parseEmit_ret (c : Cfg) (w : World) (st : St) (img : List Nat) : st.sameRet (parseEmit c w st img).st := by
  have h := setActive_ret { st with seq := fSeq img } (fRealSrc img) (fEthSrc img)
  unfold parseEmit
  simp only []
  repeat' split
  all_goals first | exact ⟨rfl, rfl⟩ | exact h

theorem answerHello_ret (c : Cfg) (g : Glob) (w : World) (st : St) (img : List Nat) : st.sameRet (answerHello c g w st img).st := by
  have h := setActive_ret st (fRealSrc img) (fEthSrc img)
  unfold answerHello
  simp only []
  repeat' split
  all_goals first | exact ⟨rfl, rfl⟩ | exact h

theorem preStep_ret (st : St) (img : List Nat) : st.sameRet (preStep st img) := by
  have h := setActive_ret st (fRealSrc img) (fEthSrc img)
  unfold preStep
  split <;> exact h

theorem qltlvIcon_ledger (c : Cfg) (g : Glob) (w : World) (st : St) (img : List Nat) (off b bb : Nat) (h : Accounted w st b bb) :
    Accounted (qltlvIcon c g w st img off).w (qltlvIcon c g w st img off).st b bb := by
  unfold qltlvIcon
  simp only []
  rw [sendLarge_st]
  split
  · exact accounted_same h (sendLarge_same c w _ img _ _)
  · next hnone =>
    split
    · next b0 bs hg =>
      refine accounted_same ?_ (sendLarge_same c _ _ img _ _)
      unfold Accounted retained retainedBytes iconBlocks iconBytes World.rawAlloc at *
      simp only [hnone] at h
      simp only []
      constructor
      · rw [h.1]; omega
      · rw [h.2]; omega
    · next hg =>
      split
      · refine accounted_same ?_ (sendLarge_same c _ _ img _ _)
        unfold Accounted retained retainedBytes iconBlocks iconBytes World.rawAlloc at *
        simp only [hnone] at h
        simp only []
        constructor
        · rw [h.1]; omega
        · rw [h.2]; simp
      · exact accounted_same h (sendLarge_same c w _ img _ _)
    · exact accounted_same h (sendLarge_same c w _ img _ _)

theorem rawAlloc_then_free (w w' : World) (n : Nat) (hs : (w.rawAlloc n).same w') : w.same (w'.free n) := by
  constructor
  · rw [(free_live w' n).1, hs.1]; simp [World.rawAlloc]
  · rw [(free_live w' n).2, hs.2]; simp [World.rawAlloc]

theorem qltlvFname_ledger (c : Cfg) (g : Glob) (w : World) (st : St) (img : List Nat) (off b bb : Nat) (h : Accounted w st b bb) :
    Accounted (qltlvFname c g w st img off).w (qltlvFname c g w st img off).st b bb := by
  rw [qltlvFname_st]
  unfold qltlvFname
  split
  · exact accounted_same h (rawAlloc_then_free w _ _ (sendLarge_same c _ _ img _ _))
  · exact accounted_same h (sendLarge_same c w _ img _ _)

theorem qltlvHwid_ledger (c : Cfg) (g : Glob) (w : World) (st : St) (img : List Nat) (off b bb : Nat) (h : Accounted w st b bb) :
    Accounted (qltlvHwid c g w st img off).w (qltlvHwid c g w st img off).st b bb := by
  rw [qltlvHwid_st]
  unfold qltlvHwid
  by_cases hm : (w.malloc 64).2 = true
  · simp only [hm, Bool.not_true, Bool.false_eq_true, if_false]
    exact accounted_same h (malloc_then_free w _ _ hm (sendLarge_same c _ _ img _ _))
  · simp only [Bool.not_eq_true] at hm
    simp only [hm, Bool.not_false, if_true]
    exact accounted_same h (same_trans (malloc_fail w _ hm) (sendLarge_same c _ _ img _ _))

theorem parseQueryLargeTlv_ledger (c : Cfg) (g : Glob) (w : World) (st : St) (img : List Nat) (b bb : Nat) (h : Accounted w st b bb) :
    Accounted (parseQueryLargeTlv c g w st img).w (parseQueryLargeTlv c g w st img).st b bb := by
  have hr := setActive_ret { st with seq := fSeq img } (fRealSrc img) (fEthSrc img)
  have h' : Accounted w (setActiveMapper { st with seq := fSeq img } (fRealSrc img) (fEthSrc img)) b bb := accounted_ret h hr
  unfold parseQueryLargeTlv
  simp only []
  split
  · exact h
  · split
    · exact qltlvIcon_ledger c g w _ img _ b bb h'
    · split
      · exact qltlvFname_ledger c g w _ img _ b bb h'
      · split
        · exact qltlvHwid_ledger c g w _ img _ b bb h'
        · rw [sendLarge_st]; exact accounted_same h' (sendLarge_same c w _ img _ _)

theorem reset_ledger (w : World) (st : St) (b bb : Nat) (h : Accounted w st b bb) :
    Accounted (resetWorld w st) (resetSt st) b bb := by
  have hf := freeNodes_ledger w st.sees.length
  unfold Accounted retained retainedBytes iconBlocks iconBytes resetWorld resetSt at *
  simp only [List.length_nil, Nat.mul_zero, Nat.add_zero]
  cases hic : st.icon with
  | none =>
    simp only [hic] at h
    simp only []
    rw [hf.1, hf.2, h.1, h.2]
    constructor <;> omega
  | some ic =>
    simp only [hic] at h
    simp only []
    rw [(free_live _ _).1, (free_live _ _).2, hf.1, hf.2, h.1, h.2]
    constructor <;> omega

/-- THE LEDGER THEOREM: after any frame the ledger holds, besides what it held for others, exactly what the
    per-interface record retains — under every fault schedule -/
theorem parseFrameSt_ledger (c : Cfg) (g : Glob) (w : World) (st : St) (img : List Nat) (b bb : Nat) (hc : CfgOk c)
    (hl : 36 ≤ img.length) (h : Accounted w st b bb) :
    Accounted (parseFrameSt c g w st img).w (parseFrameSt c g w st img).st b bb := by
  have hpre : Accounted w (preStep st img) b bb := accounted_ret h (preStep_ret st img)
  unfold parseFrameSt
  simp only []
  split
  · exact h
  · next st' hst' =>
    have h' : Accounted w st' b bb := by
      split at hst'
      · split at hst'
        · simp at hst'
        · simp only [Option.some.injEq] at hst'
          rw [← hst', preStepRaw_eq]; exact hpre
      · simp only [Option.some.injEq] at hst'
        rw [← hst']; exact h
    have hhello : Accounted (answerHello c g w st' img).w (answerHello c g w st' img).st b bb :=
      accounted_ret (accounted_same h' (answerHello_same c g w st' img hc hl)) (answerHello_ret c g w st' img)
    split
    · split
      · split
        · exact hhello
        · exact h'
      · split
        · exact accounted_ret (accounted_same h' (parseEmit_same c w st' img)) (parseEmit_ret c w st' img)
        · split
          · exact parseProbe_ledger c w st' img b bb h'
          · split
            · exact parseQuery_ledger c w st' img b bb hc h'
            · split
              · exact parseQueryLargeTlv_ledger c g w st' img b bb h'
              · split
                · exact reset_ledger w st' b bb h'
                · exact h'
    · split
      · split
        · split
          · exact hhello
          · exact h'
        · split
          · exact parseQueryLargeTlv_ledger c g w st' img b bb h'
          · split
            · exact accounted_ret h' ⟨rfl, rfl⟩
            · exact h'
      · exact h'

end LLTD
