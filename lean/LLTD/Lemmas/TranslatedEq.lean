/-
  The generated translation of lltdAutomata.c (`Generated/Translated.lean`, tools/c2lean.py) EQUALS the hand-written
  model (`Model/Automata.lean`) the property theorems are about — function by function, for every argument in the
  range of its C type.  These are the proof obligations that tie the model to the source text: a change to one of the
  translated C functions changes the left-hand side and the equality is re-checked by `lake build` on every run.

  Conventions: `bandOfC` / `mapOfC` / … read a translated struct value as the model's record; range hypotheses say that
  the fields are values of their C types and that the clock is not within a minute of 2^64 (the model adds without
  wrap-around there; DESIGN.md section 10).  No Mathlib.
-/
import LLTD.Generated.Translated
import LLTD.Model.Automata
import LLTD.Lemmas.XVals
import LLTD.Lemmas.Lookup

namespace LLTD.TEq
open LLTD LLTD.X

def bandOfC (b : T.band_state) : Band :=
  { ni := b.Ni, r := b.r, begun := b.begun, helloTs := b.hello_timeout_ts, blockTs := b.block_timeout_ts }

def bandToC (b : Band) : T.band_state :=
  { Ni := b.ni, r := b.r, begun := b.begun, hello_timeout_ts := b.helloTs, block_timeout_ts := b.blockTs }

@[simp] theorem bandOfC_toC (b : Band) : bandOfC (bandToC b) = b := rfl
@[simp] theorem bandToC_ofC (b : T.band_state) : bandToC (bandOfC b) = b := rfl

def mapOfC (m : T.mapping_state) : MapState := { ctc := m.ctc, chargeTs := m.charge_timeout_ts, inactTs := m.inactive_timeout_ts }
def mapToC (m : MapState) : T.mapping_state := { ctc := m.ctc, charge_timeout_ts := m.chargeTs, inactive_timeout_ts := m.inactTs }

@[simp] theorem mapOfC_toC (m : MapState) : mapOfC (mapToC m) = m := rfl

/-- the clock is far enough from the end of the 64-bit range -/
def ClockOk (e : T.Env) : Prop := e.nowMs + 100000 < u64 ∧ e.nowS + 100000 < u64

/-! ## RepeatBand -/

theorem band_init_stats_eq (e : T.Env) (b : T.band_state) (he : ClockOk e) :
    bandOfC (T.band_init_stats e b).band = bandInitStats (bandOfC b) e.nowMs := by
  obtain ⟨h1, _⟩ := he
  have h : (e.nowMs + 300) % 18446744073709551616 = e.nowMs + 300 := Nat.mod_eq_of_lt (by unfold u64 at h1; omega)
  simp [T.band_init_stats, bandInitStats, bandOfC, h]

theorem bandNewNi_eq (r : Nat) :
    bandNewNi r = (if 10000 < 45 * (if 10000 < r * r % 18446744073709551616 then 10000 else r * r % 18446744073709551616) % 18446744073709551616
      then 10000 else 45 * (if 10000 < r * r % 18446744073709551616 then 10000 else r * r % 18446744073709551616) % 18446744073709551616 % 4294967296) := by
  simp [bandNewNi, satPowLoop, u64, u32]

theorem loop12 {σ : Type} (f : Nat → σ → σ) (s : σ) : CSem.loopRange 1 2 f s = f 1 s := by
  rw [CSem.loopRange_succ _ _ _ _ (by omega), CSem.loopRange_empty _ _ _ _ (by omega)]

theorem band_update_stats_eq (e : T.Env) (b : T.band_state) (he : ClockOk e) :
    bandOfC (T.band_update_stats e b).band = bandUpdateStats (bandOfC b) e.nowMs := by
  obtain ⟨h1, _⟩ := he
  have h : (e.nowMs + 300) % 18446744073709551616 = e.nowMs + 300 := Nat.mod_eq_of_lt (by unfold u64 at h1; omega)
  unfold T.band_update_stats bandUpdateStats
  simp only [bandBlockTime_val, loop12, bandNewNi_eq, T.band_update_stats.loop1]
  generalize hq : b.r * b.r % 18446744073709551616 = q
  by_cases hr : b.r > 0 <;> by_cases hb : b.begun = true <;> by_cases hq1 : 10000 < q <;>
    simp [bandOfC, hr, hb, h, hq, hq1]

/-- fields of a `band_state` are values of their C types; `Ni` is inside the range C13 proves invariant -/
def BandOk (b : T.band_state) : Prop := b.Ni ≤ 10000 ∧ b.r < u32
theorem band_choose_hello_time_eq (e : T.Env) (b : T.band_state) (he : ClockOk e) (hb : BandOk b) :
    bandOfC (T.band_choose_hello_time e b).band = bandChooseHelloTime (bandOfC b) e.nowMs ∧
    (T.band_choose_hello_time e b).ret = (bandChooseHelloTime (bandOfC b) e.nowMs).helloTs := by
  obtain ⟨h1, _⟩ := he
  obtain ⟨hn, _⟩ := hb
  unfold u64 at h1
  have e1 : 4 * b.Ni % 18446744073709551616 = 4 * b.Ni := Nat.mod_eq_of_lt (by omega)
  have e2 : 4 * b.Ni * 20 % 18446744073709551616 = 4 * b.Ni * 20 := Nat.mod_eq_of_lt (by omega)
  have e3 : CSem.toU 64 (Int.tdiv (1 * 20) 3) = 6 := by decide
  have hq : 4 * b.Ni * 20 / 30 < 30000 := by omega
  unfold T.band_choose_hello_time bandChooseHelloTime bandInterval
  simp only [bandTxc_val, bandGamma_val, bandMulFrame1_val, e1, e2, e3, bandOfC]
  generalize 4 * b.Ni * 20 / 30 = q at *
  have e4 : (q + 1) % 18446744073709551616 = q + 1 := Nat.mod_eq_of_lt (by omega)
  have e5 : (e.nowMs + (q + 1)) % 18446744073709551616 = e.nowMs + (q + 1) := Nat.mod_eq_of_lt (by omega)
  have e6 : (e.nowMs + q) % 18446744073709551616 = e.nowMs + q := Nat.mod_eq_of_lt (by omega)
  have e7 : (e.nowMs + 6) % 18446744073709551616 = e.nowMs + 6 := Nat.mod_eq_of_lt (by omega)
  by_cases hm : 4 * b.Ni * 20 % 30 = 0 <;> by_cases hq6 : q < 6 <;> by_cases hq5 : q + 1 < 6 <;>
    simp [hm, hq6, hq5, e4, e5, e6, e7] <;> omega

theorem band_do_hello_eq (e : T.Env) (b : T.band_state) (he : ClockOk e) (hb : BandOk b) :
    bandOfC (T.band_do_hello e b).band = bandDoHello (bandOfC b) e.nowMs := by
  have h := (band_choose_hello_time_eq e b he hb).1
  unfold T.band_do_hello bandDoHello
  simp only [Bool.not_true, Bool.false_eq_true, if_false, Bool.or_self]
  rw [← h]; simp [bandOfC]

theorem band_on_hello_received_eq (e : T.Env) (b : T.band_state) :
    bandOfC (T.band_on_hello_received e b).band = bandOnHelloReceived (bandOfC b) := by
  unfold T.band_on_hello_received bandOnHelloReceived
  by_cases hb : b.begun = true <;> by_cases hr : 10 ≤ (b.r + 1) % 4294967296 <;> simp [bandOfC, hb, hr, u32]

/-! ## Mapping charge / inactivity bookkeeping -/

theorem mapping_reset_charge_eq (e : T.Env) (m : T.mapping_state) :
    mapOfC (T.mapping_reset_charge e m).mstate = mapResetCharge (mapOfC m) := by
  simp [T.mapping_reset_charge, mapResetCharge, mapOfC]

theorem mapping_on_charge_eq (e : T.Env) (m : T.mapping_state) (he : ClockOk e) :
    mapOfC (T.mapping_on_charge e m).mstate = mapOnCharge (mapOfC m) e.nowS := by
  obtain ⟨_, h2⟩ := he
  have h : (e.nowS + 1) % 18446744073709551616 = e.nowS + 1 := Nat.mod_eq_of_lt (by unfold u64 at h2; omega)
  simp [T.mapping_on_charge, mapOnCharge, mapOfC, h, u8]

theorem mapping_check_charge_timeout_eq (e : T.Env) (m : T.mapping_state) :
    mapOfC (T.mapping_check_charge_timeout e m).mstate = (mapCheckCharge (mapOfC m) e.nowS).1 ∧
    (T.mapping_check_charge_timeout e m).ret = (mapCheckCharge (mapOfC m) e.nowS).2 := by
  unfold T.mapping_check_charge_timeout mapCheckCharge
  by_cases h0 : m.charge_timeout_ts = 0 <;> by_cases h1 : m.charge_timeout_ts ≤ e.nowS <;> simp [mapOfC, h0, h1]

theorem mapping_check_inactive_timeout_eq (e : T.Env) (m : T.mapping_state) :
    (T.mapping_check_inactive_timeout e m).mstate = m ∧
    (T.mapping_check_inactive_timeout e m).ret = mapCheckInactive (mapOfC m) e.nowS := by
  unfold T.mapping_check_inactive_timeout mapCheckInactive
  by_cases h0 : m.inactive_timeout_ts = 0 <;> by_cases h1 : m.inactive_timeout_ts ≤ e.nowS <;> simp [mapOfC, h0, h1]

theorem mapping_reset_inactive_timeout_eq (e : T.Env) (m : T.mapping_state) (he : ClockOk e) :
    mapOfC (T.mapping_reset_inactive_timeout e m).mstate = mapResetInactive (mapOfC m) e.nowS := by
  obtain ⟨_, h2⟩ := he
  have h : (e.nowS + 30) % 18446744073709551616 = e.nowS + 30 := Nat.mod_eq_of_lt (by unfold u64 at h2; omega)
  simp [T.mapping_reset_inactive_timeout, mapResetInactive, mapOfC, h]

/-! ## Session table (the parts without pointer results) -/

def entryOfC (x : T.session_entry) : Entry :=
  { mac := x.mapper_mac, gen := x.generation, seq := x.seq_number, state := x.state, complete := x.complete,
    valid := x.valid, last := x.last_activity_ts, created := x.created_ts }

def tableOfC (t : T.session_table) : Table :=
  { entries := t.entries.map entryOfC, count := t.count, allComplete := t.all_complete }

theorem session_table_is_empty_eq (e : T.Env) (t : T.session_table) :
    (T.session_table_is_empty e t).ret = (tableOfC t).isEmpty ∧ (T.session_table_is_empty e t).table = t := by
  by_cases h : t.count = 0
  · simp [T.session_table_is_empty, Table.isEmpty, tableOfC, h]
  · have h' : ((t.count : Int) == 0) = false := by simp; omega
    simp [T.session_table_is_empty, Table.isEmpty, tableOfC, h, h']

theorem session_table_all_complete_eq (e : T.Env) (t : T.session_table) :
    (T.session_table_all_complete e t).ret = (tableOfC t).allComplete ∧ (T.session_table_all_complete e t).table = t := by
  simp [T.session_table_all_complete, tableOfC]

theorem session_table_clear_eq (e : T.Env) (t : T.session_table) :
    tableOfC (T.session_table_clear e t).table = (tableOfC t).clear := by
  simp [T.session_table_clear, Table.clear, Table.create, tableOfC, entryOfC, T.session_entry.zero, Entry.zero]

/-! ## The three automata: switch_state_mapping / switch_state_session / switch_state_enumeration -/


theorem loopRange_inv {σ : Type} (P : Nat → σ → Prop) (b : Nat) (f : Nat → σ → σ) :
    ∀ (k a : Nat) (s : σ), a + k = b → P a s → (∀ i s, a ≤ i → i < b → P i s → P (i + 1) (f i s)) →
      P b (CSem.loopRange a b f s) := by
  intro k
  induction k with
  | zero => intro a s hab h0 _; have : a = b := by omega
            subst this; rw [CSem.loopRange_empty _ _ _ _ (Nat.le_refl _)]; exact h0
  | succ k ih =>
    intro a s hab h0 hstep
    rw [CSem.loopRange_succ _ _ _ _ (by omega)]
    exact ih (a + 1) (f a s) (by omega) (hstep a s (Nat.le_refl _) (by omega) h0)
      (fun i s hi hb hp => hstep i s (by omega) hb hp)

def rowOfC (t : T.transition) : Nat × Nat × Int := (t.from_, t.to_, t.with_)
def rowsOfC (a : T.automata) : TransTable := (a.transitions_table.take a.transitions_no).map rowOfC
def timeoutsOfC (a : T.automata) : List Nat := a.states_table.map (fun s => s.timeout.toNat)
def fsmOfC (a : T.automata) : Fsm := { state := a.current_state, lastTs := a.last_ts }

/-- the new state the table walk ends with -/
def walk (cur : Nat) (inp : Int) (acc : Nat) (rows : List (Nat × Nat × Int)) : Nat :=
  rows.foldl (fun acc r => if cur = r.1 ∧ r.2.2 = inp then r.2.1 else acc) acc

theorem lookup_walk (tbl : TransTable) (cur : Nat) (inp : Int) : (lookup tbl cur inp).1 = walk cur inp cur tbl := by
  unfold lookup walk
  suffices h : ∀ (acc : Nat × Bool), (tbl.foldl (fun acc r => if cur = r.1 ∧ r.2.2 = inp then (r.2.1, true) else acc) acc).1 =
      tbl.foldl (fun acc r => if cur = r.1 ∧ r.2.2 = inp then r.2.1 else acc) acc.1 from h (cur, false)
  induction tbl with
  | nil => intro acc; rfl
  | cons r rest ih =>
    intro acc; simp only [List.foldl_cons]
    rw [ih]; congr 1; split <;> rfl

theorem walk_snoc (cur : Nat) (inp : Int) (acc : Nat) (rows : List (Nat × Nat × Int)) (r : Nat × Nat × Int) :
    walk cur inp acc (rows ++ [r]) = (if cur = r.1 ∧ r.2.2 = inp then r.2.1 else walk cur inp acc rows) := by
  simp [walk, List.foldl_append]

theorem take_succ_map (l : List T.transition) (i : Nat) (h : i < l.length) :
    (l.take (i + 1)).map rowOfC = (l.take i).map rowOfC ++ [rowOfC (l.getD i T.transition.zero)] := by
  have h' : i < (l.map rowOfC).length := by simpa using h
  rw [List.map_take, List.map_take, List.take_add_one, List.getElem?_eq_getElem h']
  simp [List.getD, List.getElem?_eq_getElem h]



structure AutOk (a : T.automata) : Prop where
  hno : a.transitions_no ≤ a.transitions_table.length
  hto : ∀ s ∈ a.states_table, 0 ≤ s.timeout ∧ s.timeout < 32768
  hts : a.last_ts < u64

theorem tmo_eq (a : T.automata) (h : AutOk a) (k : Nat) :
    ((a.states_table.getD k T.state.zero).timeout ≠ 0 ↔ timeoutOf (timeoutsOfC a) k ≠ 0) ∧
    CSem.toU 64 (a.states_table.getD k T.state.zero).timeout = timeoutOf (timeoutsOfC a) k := by
  unfold timeoutOf timeoutsOfC
  by_cases hk : k < a.states_table.length
  · have hm := h.hto (a.states_table[k]) (List.getElem_mem hk)
    simp only [List.getD, List.getElem?_eq_getElem hk, Option.getD_some, List.getElem?_map, Option.map_some]
    refine ⟨by omega, ?_⟩
    unfold CSem.toU
    have : (a.states_table[k].timeout % ((2 ^ 64 : Nat) : Int)) = a.states_table[k].timeout := Int.emod_eq_of_lt hm.1 (by omega)
    rw [this]
  · have hk' : a.states_table.length ≤ k := by omega
    simp [List.getD, List.getElem?_eq_none hk', T.state.zero, CSem.toU]

/-- the table walk of switch_state_mapping: the loop leaves everything but `new_state` / `find` alone and `new_state`
    ends as the last matching row's target -/
theorem loop_mapping (e : T.Env) (a : T.automata) (inp : Int) (n : Nat) (hn : n ≤ a.transitions_table.length)
    (s : T.switch_state_mapping.S) (h1 : s.autom = a) (h2 : s.input = inp) (h3 : s.done = false) (h4 : s.brk = false) :
    let s' := CSem.loopRange 0 n (T.switch_state_mapping.loop1 e) s
    s'.autom = a ∧ s'.input = inp ∧ s'.done = false ∧ s'.brk = false ∧ s'.timeout = s.timeout ∧ s'.now = s.now ∧
    s'.diverged = s.diverged ∧
    s'.new_state = walk a.current_state inp s.new_state ((a.transitions_table.take n).map rowOfC) := by
  intro s'
  have := loopRange_inv (fun i (t : T.switch_state_mapping.S) =>
      t.autom = a ∧ t.input = inp ∧ t.done = false ∧ t.brk = false ∧ t.timeout = s.timeout ∧ t.now = s.now ∧
      t.diverged = s.diverged ∧ t.new_state = walk a.current_state inp s.new_state ((a.transitions_table.take i).map rowOfC))
    n (T.switch_state_mapping.loop1 e) n 0 s (by omega)
    ⟨h1, h2, h3, h4, rfl, rfl, rfl, by simp [walk]⟩
    (by
      intro i t _ hi ⟨p1, p2, p3, p4, p5, p6, p7, p8⟩
      have hlt : i < a.transitions_table.length := by omega
      rw [take_succ_map _ _ hlt, walk_snoc]
      unfold T.switch_state_mapping.loop1
      simp only [p3, p4, Bool.or_self, Bool.false_eq_true, if_false, p1, p2]
      generalize a.transitions_table.getD i T.transition.zero = row
      by_cases hA : a.current_state = row.from_ <;> by_cases hB : row.with_ = inp <;>
        simp [hA, hB, rowOfC, p1, p2, p3, p4, p5, p6, p7, p8, Int.natCast_inj])
  exact this



theorem diff64_eq (now last : Nat) (hl : last < u64) : (now + 18446744073709551616 - last) % 18446744073709551616 = diff64 now last := by
  unfold diff64 u64; unfold u64 at hl; rw [Nat.mod_eq_of_lt hl]

/-- tables of an automaton are not touched by a step -/
def sameTables (a b : T.automata) : Prop :=
  b.transitions_table = a.transitions_table ∧ b.transitions_no = a.transitions_no ∧ b.states_table = a.states_table

def expiredP (e : T.Env) (a : T.automata) : Prop :=
  timeoutOf (timeoutsOfC a) a.current_state ≠ 0 ∧ diff64 e.nowS a.last_ts > timeoutOf (timeoutsOfC a) a.current_state

instance (e : T.Env) (a : T.automata) : Decidable (expiredP e a) := by unfold expiredP; exact inferInstance

theorem diff64_self (n : Nat) (h : n < u64) : diff64 n n = 0 := by
  unfold diff64; rw [Nat.mod_eq_of_lt h]; unfold u64 at *; omega

theorem rowsOfC_same (a b : T.automata) (h : sameTables a b) : rowsOfC b = rowsOfC a ∧ timeoutsOfC b = timeoutsOfC a := by
  obtain ⟨h1, h2, h3⟩ := h
  simp [rowsOfC, timeoutsOfC, h1, h2, h3]

theorem switch_state_mapping_aux (e : T.Env) (hnow : e.nowS < u64) :
    ∀ (fuel : Nat) (a : T.automata) (inp : Int), AutOk a →
      fsmOfC (T.switch_state_mapping fuel e a inp).autom =
        stepTimedAux (rowsOfC a) (timeoutsOfC a) fuel (fsmOfC a) inp e.nowS ∧
      sameTables a (T.switch_state_mapping fuel e a inp).autom ∧
      ((if expiredP e a then 2 else 1) ≤ fuel → (T.switch_state_mapping fuel e a inp).diverged = false) := by
  intro fuel
  induction fuel with
  | zero => intro a inp _; exact ⟨rfl, ⟨rfl, rfl, rfl⟩, by intro h; split at h <;> omega⟩
  | succ fuel ih =>
    intro a inp hok
    obtain ⟨tm1, tm2⟩ := tmo_eq a hok a.current_state
    simp only [fsmOfC]
    unfold T.switch_state_mapping stepTimedAux
    simp only [diff64_eq _ _ hok.hts, tm2, Int.toNat_natCast]
    by_cases hexp : timeoutOf (timeoutsOfC a) a.current_state ≠ 0 ∧ diff64 e.nowS a.last_ts > timeoutOf (timeoutsOfC a) a.current_state
    · have hb : (((a.states_table.getD a.current_state T.state.zero).timeout != 0) &&
          decide (diff64 e.nowS a.last_ts > timeoutOf (timeoutsOfC a) a.current_state)) = true := by
        simp only [Bool.and_eq_true, bne_iff_ne, ne_eq, decide_eq_true_eq]; exact ⟨tm1.2 hexp.1, hexp.2⟩
      simp only [hb, if_true]
      have hloop := loop_mapping e a (-1) a.transitions_no hok.hno
        { autom := a, input := -1, new_state := a.current_state, current_state_idx2 := a.current_state, timeout := true,
          now := e.nowS, diff := diff64 e.nowS a.last_ts, find := -1 } rfl rfl rfl rfl
      simp only at hloop
      generalize CSem.loopRange 0 a.transitions_no (T.switch_state_mapping.loop1 e)
        { autom := a, input := -1, new_state := a.current_state, current_state_idx2 := a.current_state, timeout := true,
          now := e.nowS, diff := diff64 e.nowS a.last_ts, find := -1 } = L at hloop ⊢
      obtain ⟨l1, l2, l3, l4, l5, l6, l7, l8⟩ := hloop
      simp only [l1, l2, l3, l4, l5, l6, l7, Bool.or_true, if_true, Bool.or_self, Bool.false_eq_true, if_false, Bool.false_or]
      have hok2 : AutOk { a with current_state := L.new_state, last_ts := e.nowS } := ⟨hok.hno, hok.hto, hnow⟩
      obtain ⟨i1, i2, i3⟩ := ih { a with current_state := L.new_state, last_ts := e.nowS } (-1) hok2
      have hne : ¬ expiredP e { a with current_state := L.new_state, last_ts := e.nowS } := by
        unfold expiredP; simp only [diff64_self _ hnow]; omega
      have hs : sameTables a { a with current_state := L.new_state, last_ts := e.nowS } := ⟨rfl, rfl, rfl⟩
      obtain ⟨r1, r2⟩ := rowsOfC_same _ _ hs
      refine ⟨?_, ?_, ?_⟩
      · have hc : (timeoutOf (timeoutsOfC a) a.current_state ≠ 0 ∧ True) := ⟨hexp.1, trivial⟩
        simp only [if_pos hc, Bool.true_or, if_true]
        simp only [fsmOfC] at i1 ⊢
        rw [i1, r1, r2, l8, lookup_walk]
        simp only [if_pos hexp]; rfl
      · exact ⟨i2.1.trans hs.1, i2.2.1.trans hs.2.1, i2.2.2.trans hs.2.2⟩
      · intro hf
        have hE : expiredP e a := hexp
        simp only [if_pos hE] at hf
        simp only [if_neg hne] at i3
        simp only [Bool.true_or, if_true, Bool.false_or]
        exact i3 (by omega)
    · have hb : (((a.states_table.getD a.current_state T.state.zero).timeout != 0) &&
          decide (diff64 e.nowS a.last_ts > timeoutOf (timeoutsOfC a) a.current_state)) = false := by
        rw [Bool.and_eq_false_iff]
        by_cases h0 : timeoutOf (timeoutsOfC a) a.current_state = 0
        · left; simp only [bne_eq_false_iff_eq]; exact Classical.not_not.mp (fun h => (tm1.1 h) h0)
        · right; simp only [decide_eq_false_iff_not]; exact fun h => hexp ⟨h0, h⟩
      simp only [hb, Bool.false_eq_true, if_false]
      have hloop := loop_mapping e a inp a.transitions_no hok.hno
        { autom := a, input := inp, new_state := a.current_state, current_state_idx2 := a.current_state,
          now := e.nowS, diff := diff64 e.nowS a.last_ts, find := -1 } rfl rfl rfl rfl
      simp only at hloop
      generalize CSem.loopRange 0 a.transitions_no (T.switch_state_mapping.loop1 e)
        { autom := a, input := inp, new_state := a.current_state, current_state_idx2 := a.current_state,
          now := e.nowS, diff := diff64 e.nowS a.last_ts, find := -1 } = L at hloop ⊢
      obtain ⟨l1, l2, l3, l4, l5, l6, l7, l8⟩ := hloop
      simp only [l1, l2, l3, l4, l5, l6, l7, Bool.or_false, Bool.or_self, Bool.false_eq_true, if_false]
      have l8' : L.new_state = walk a.current_state inp a.current_state (rowsOfC a) := l8
      by_cases hc : (((a.current_state : Int) != (L.new_state : Int)) || decide (L.find ≥ 0)) = true
      · simp only [hc, if_true, Bool.false_eq_true, if_false, Bool.or_self]
        refine ⟨?_, ⟨rfl, rfl, rfl⟩, fun _ => trivial⟩
        simp only [fsmOfC, lookup_walk]
        split
        · rename_i h; exact absurd h hexp
        · rw [l8']
      · simp only [hc, if_false, Bool.false_eq_true, Bool.or_self]
        refine ⟨?_, ⟨rfl, rfl, rfl⟩, fun _ => trivial⟩
        have h' : a.current_state = L.new_state := by
          simp only [Bool.or_eq_true, not_or, bne_iff_ne, ne_eq, Decidable.not_not] at hc
          exact_mod_cast hc.1
        simp only [fsmOfC, lookup_walk]
        split
        · rename_i h; exact absurd h hexp
        · rw [← l8', ← h']


/-! ### the session automaton (the same proof: the two C functions differ in their names only) -/

/-- the table walk of switch_state_session: the loop leaves everything but `new_state` / `find` alone and `new_state`
    ends as the last matching row's target -/
theorem loop_session (e : T.Env) (a : T.automata) (inp : Int) (n : Nat) (hn : n ≤ a.transitions_table.length)
    (s : T.switch_state_session.S) (h1 : s.autom = a) (h2 : s.input = inp) (h3 : s.done = false) (h4 : s.brk = false) :
    let s' := CSem.loopRange 0 n (T.switch_state_session.loop1 e) s
    s'.autom = a ∧ s'.input = inp ∧ s'.done = false ∧ s'.brk = false ∧ s'.timeout = s.timeout ∧ s'.now = s.now ∧
    s'.diverged = s.diverged ∧
    s'.new_state = walk a.current_state inp s.new_state ((a.transitions_table.take n).map rowOfC) := by
  intro s'
  have := loopRange_inv (fun i (t : T.switch_state_session.S) =>
      t.autom = a ∧ t.input = inp ∧ t.done = false ∧ t.brk = false ∧ t.timeout = s.timeout ∧ t.now = s.now ∧
      t.diverged = s.diverged ∧ t.new_state = walk a.current_state inp s.new_state ((a.transitions_table.take i).map rowOfC))
    n (T.switch_state_session.loop1 e) n 0 s (by omega)
    ⟨h1, h2, h3, h4, rfl, rfl, rfl, by simp [walk]⟩
    (by
      intro i t _ hi ⟨p1, p2, p3, p4, p5, p6, p7, p8⟩
      have hlt : i < a.transitions_table.length := by omega
      rw [take_succ_map _ _ hlt, walk_snoc]
      unfold T.switch_state_session.loop1
      simp only [p3, p4, Bool.or_self, Bool.false_eq_true, if_false, p1, p2]
      generalize a.transitions_table.getD i T.transition.zero = row
      by_cases hA : a.current_state = row.from_ <;> by_cases hB : row.with_ = inp <;>
        simp [hA, hB, rowOfC, p1, p2, p3, p4, p5, p6, p7, p8, Int.natCast_inj])
  exact this



theorem switch_state_session_aux (e : T.Env) (hnow : e.nowS < u64) :
    ∀ (fuel : Nat) (a : T.automata) (inp : Int), AutOk a →
      fsmOfC (T.switch_state_session fuel e a inp).autom =
        stepTimedAux (rowsOfC a) (timeoutsOfC a) fuel (fsmOfC a) inp e.nowS ∧
      sameTables a (T.switch_state_session fuel e a inp).autom ∧
      ((if expiredP e a then 2 else 1) ≤ fuel → (T.switch_state_session fuel e a inp).diverged = false) := by
  intro fuel
  induction fuel with
  | zero => intro a inp _; exact ⟨rfl, ⟨rfl, rfl, rfl⟩, by intro h; split at h <;> omega⟩
  | succ fuel ih =>
    intro a inp hok
    obtain ⟨tm1, tm2⟩ := tmo_eq a hok a.current_state
    simp only [fsmOfC]
    unfold T.switch_state_session stepTimedAux
    simp only [diff64_eq _ _ hok.hts, tm2, Int.toNat_natCast]
    by_cases hexp : timeoutOf (timeoutsOfC a) a.current_state ≠ 0 ∧ diff64 e.nowS a.last_ts > timeoutOf (timeoutsOfC a) a.current_state
    · have hb : (((a.states_table.getD a.current_state T.state.zero).timeout != 0) &&
          decide (diff64 e.nowS a.last_ts > timeoutOf (timeoutsOfC a) a.current_state)) = true := by
        simp only [Bool.and_eq_true, bne_iff_ne, ne_eq, decide_eq_true_eq]; exact ⟨tm1.2 hexp.1, hexp.2⟩
      simp only [hb, if_true]
      have hloop := loop_session e a (-1) a.transitions_no hok.hno
        { autom := a, input := -1, new_state := a.current_state, current_state_idx2 := a.current_state, timeout := true,
          now := e.nowS, diff := diff64 e.nowS a.last_ts, find := -1 } rfl rfl rfl rfl
      simp only at hloop
      generalize CSem.loopRange 0 a.transitions_no (T.switch_state_session.loop1 e)
        { autom := a, input := -1, new_state := a.current_state, current_state_idx2 := a.current_state, timeout := true,
          now := e.nowS, diff := diff64 e.nowS a.last_ts, find := -1 } = L at hloop ⊢
      obtain ⟨l1, l2, l3, l4, l5, l6, l7, l8⟩ := hloop
      simp only [l1, l2, l3, l4, l5, l6, l7, Bool.or_true, if_true, Bool.or_self, Bool.false_eq_true, if_false, Bool.false_or]
      have hok2 : AutOk { a with current_state := L.new_state, last_ts := e.nowS } := ⟨hok.hno, hok.hto, hnow⟩
      obtain ⟨i1, i2, i3⟩ := ih { a with current_state := L.new_state, last_ts := e.nowS } (-1) hok2
      have hne : ¬ expiredP e { a with current_state := L.new_state, last_ts := e.nowS } := by
        unfold expiredP; simp only [diff64_self _ hnow]; omega
      have hs : sameTables a { a with current_state := L.new_state, last_ts := e.nowS } := ⟨rfl, rfl, rfl⟩
      obtain ⟨r1, r2⟩ := rowsOfC_same _ _ hs
      refine ⟨?_, ?_, ?_⟩
      · have hc : (timeoutOf (timeoutsOfC a) a.current_state ≠ 0 ∧ True) := ⟨hexp.1, trivial⟩
        simp only [if_pos hc, Bool.true_or, if_true]
        simp only [fsmOfC] at i1 ⊢
        rw [i1, r1, r2, l8, lookup_walk]
        simp only [if_pos hexp]; rfl
      · exact ⟨i2.1.trans hs.1, i2.2.1.trans hs.2.1, i2.2.2.trans hs.2.2⟩
      · intro hf
        have hE : expiredP e a := hexp
        simp only [if_pos hE] at hf
        simp only [if_neg hne] at i3
        simp only [Bool.true_or, if_true, Bool.false_or]
        exact i3 (by omega)
    · have hb : (((a.states_table.getD a.current_state T.state.zero).timeout != 0) &&
          decide (diff64 e.nowS a.last_ts > timeoutOf (timeoutsOfC a) a.current_state)) = false := by
        rw [Bool.and_eq_false_iff]
        by_cases h0 : timeoutOf (timeoutsOfC a) a.current_state = 0
        · left; simp only [bne_eq_false_iff_eq]; exact Classical.not_not.mp (fun h => (tm1.1 h) h0)
        · right; simp only [decide_eq_false_iff_not]; exact fun h => hexp ⟨h0, h⟩
      simp only [hb, Bool.false_eq_true, if_false]
      have hloop := loop_session e a inp a.transitions_no hok.hno
        { autom := a, input := inp, new_state := a.current_state, current_state_idx2 := a.current_state,
          now := e.nowS, diff := diff64 e.nowS a.last_ts, find := -1 } rfl rfl rfl rfl
      simp only at hloop
      generalize CSem.loopRange 0 a.transitions_no (T.switch_state_session.loop1 e)
        { autom := a, input := inp, new_state := a.current_state, current_state_idx2 := a.current_state,
          now := e.nowS, diff := diff64 e.nowS a.last_ts, find := -1 } = L at hloop ⊢
      obtain ⟨l1, l2, l3, l4, l5, l6, l7, l8⟩ := hloop
      simp only [l1, l2, l3, l4, l5, l6, l7, Bool.or_false, Bool.or_self, Bool.false_eq_true, if_false]
      have l8' : L.new_state = walk a.current_state inp a.current_state (rowsOfC a) := l8
      by_cases hc : (((a.current_state : Int) != (L.new_state : Int)) || decide (L.find ≥ 0)) = true
      · simp only [hc, if_true, Bool.false_eq_true, if_false, Bool.or_self]
        refine ⟨?_, ⟨rfl, rfl, rfl⟩, fun _ => trivial⟩
        simp only [fsmOfC, lookup_walk]
        split
        · rename_i h; exact absurd h hexp
        · rw [l8']
      · simp only [hc, if_false, Bool.false_eq_true, Bool.or_self]
        refine ⟨?_, ⟨rfl, rfl, rfl⟩, fun _ => trivial⟩
        have h' : a.current_state = L.new_state := by
          simp only [Bool.or_eq_true, not_or, bne_iff_ne, ne_eq, Decidable.not_not] at hc
          exact_mod_cast hc.1
        simp only [fsmOfC, lookup_walk]
        split
        · rename_i h; exact absurd h hexp
        · rw [← l8', ← h']


/-! ### the enumeration automaton (no time-out handling, no recursion) -/

theorem loop_enumeration (e : T.Env) (a : T.automata) (inp : Int) (n : Nat) (hn : n ≤ a.transitions_table.length)
    (s : T.switch_state_enumeration.S) (h1 : s.autom = a) (h2 : s.input = inp) (h3 : s.done = false) (h4 : s.brk = false) :
    let s' := CSem.loopRange 0 n (T.switch_state_enumeration.loop1 e) s
    s'.autom = a ∧ s'.input = inp ∧ s'.done = false ∧ s'.brk = false ∧
    s'.new_state = walk a.current_state inp s.new_state ((a.transitions_table.take n).map rowOfC) := by
  intro s'
  have := loopRange_inv (fun i (t : T.switch_state_enumeration.S) =>
      t.autom = a ∧ t.input = inp ∧ t.done = false ∧ t.brk = false ∧
      t.new_state = walk a.current_state inp s.new_state ((a.transitions_table.take i).map rowOfC))
    n (T.switch_state_enumeration.loop1 e) n 0 s (by omega)
    ⟨h1, h2, h3, h4, by simp [walk]⟩
    (by
      intro i t _ hi ⟨p1, p2, p3, p4, p8⟩
      have hlt : i < a.transitions_table.length := by omega
      rw [take_succ_map _ _ hlt, walk_snoc]
      unfold T.switch_state_enumeration.loop1
      simp only [p3, p4, Bool.or_self, Bool.false_eq_true, if_false, p1, p2]
      generalize a.transitions_table.getD i T.transition.zero = row
      by_cases hA : a.current_state = row.from_ <;> by_cases hB : row.with_ = inp <;>
        simp [hA, hB, rowOfC, p1, p2, p3, p4, p8, Int.natCast_inj])
  exact this

theorem switch_state_enumeration_eq (e : T.Env) (a : T.automata) (inp : Int) (hno : a.transitions_no ≤ a.transitions_table.length) :
    fsmOfC (T.switch_state_enumeration e a inp).autom = stepPlain (rowsOfC a) (fsmOfC a) inp e.nowS ∧
    sameTables a (T.switch_state_enumeration e a inp).autom := by
  simp only [fsmOfC]
  unfold T.switch_state_enumeration stepPlain
  simp only [Int.toNat_natCast]
  have hloop := loop_enumeration e a inp a.transitions_no hno
    { autom := a, input := inp, new_state := a.current_state, current_state_idx2 := a.current_state, find := -1 } rfl rfl rfl rfl
  simp only at hloop
  obtain ⟨l1, l2, l3, l4, l8⟩ := hloop
  have l8' : (CSem.loopRange 0 a.transitions_no (T.switch_state_enumeration.loop1 e)
    { autom := a, input := inp, new_state := a.current_state, current_state_idx2 := a.current_state, find := -1 }).new_state =
      walk a.current_state inp a.current_state (rowsOfC a) := l8
  simp only [l1, l2, l3, l4, l8']
  split
  · exact ⟨by simp only [lookup_walk], rfl, rfl, rfl⟩
  · rename_i hc
    have h' : walk a.current_state inp a.current_state (rowsOfC a) = a.current_state := by
      simp only [Bool.or_eq_true, not_or, bne_iff_ne, ne_eq, Decidable.not_not] at hc
      exact_mod_cast hc.1
    exact ⟨by simp only [lookup_walk, h'], rfl, rfl, rfl⟩

/-! ### top level: the C functions as the ports call them (the recursion needs two levels at most) -/

/-- an automaton record whose tables are the ones `init_automata_mapping` builds (the extract probe prints them) -/
def tosEq (t1 t2 : List Nat) : Prop := ∀ k, timeoutOf t1 k = timeoutOf t2 k

theorem stepTimedAux_congr (tbl : TransTable) (t1 t2 : List Nat) (h : tosEq t1 t2) :
    ∀ (fuel : Nat) (f : Fsm) (i : Int) (now : Nat), stepTimedAux tbl t1 fuel f i now = stepTimedAux tbl t2 fuel f i now := by
  intro fuel
  induction fuel with
  | zero => intros; rfl
  | succ n ih => intro f i now; unfold stepTimedAux; simp only [h f.state, ih]

/-- `states_table` has MAX_STATES slots, the unused ones zero: what matters is the time-out each state index yields -/
def IsMapping (a : T.automata) : Prop := rowsOfC a = X.mappingTable ∧ tosEq (timeoutsOfC a) X.mappingTimeouts
def IsSession (a : T.automata) : Prop := rowsOfC a = X.sessionTable ∧ tosEq (timeoutsOfC a) X.sessionTimeouts
def IsEnumeration (a : T.automata) : Prop := rowsOfC a = X.enumerationTable

theorem switch_state_mapping_eq (e : T.Env) (hnow : e.nowS < u64) (a : T.automata) (inp : Int) (hok : AutOk a) (hm : IsMapping a) :
    fsmOfC (T.switch_state_mapping 2 e a inp).autom = stepMapping (fsmOfC a) inp e.nowS ∧
    (T.switch_state_mapping 2 e a inp).diverged = false ∧ sameTables a (T.switch_state_mapping 2 e a inp).autom := by
  obtain ⟨h1, h2, h3⟩ := switch_state_mapping_aux e hnow 2 a inp hok
  refine ⟨?_, h3 (by split <;> omega), h2⟩
  rw [h1, hm.1, stepTimedAux_congr _ _ _ hm.2]; rfl

theorem switch_state_session_eq (e : T.Env) (hnow : e.nowS < u64) (a : T.automata) (inp : Int) (hok : AutOk a) (hm : IsSession a) :
    fsmOfC (T.switch_state_session 2 e a inp).autom = stepSession (fsmOfC a) inp e.nowS ∧
    (T.switch_state_session 2 e a inp).diverged = false ∧ sameTables a (T.switch_state_session 2 e a inp).autom := by
  obtain ⟨h1, h2, h3⟩ := switch_state_session_aux e hnow 2 a inp hok
  refine ⟨?_, h3 (by split <;> omega), h2⟩
  rw [h1, hm.1, stepTimedAux_congr _ _ _ hm.2]; rfl

theorem switch_state_enumeration_eq' (e : T.Env) (a : T.automata) (inp : Int) (hno : a.transitions_no ≤ a.transitions_table.length)
    (hm : IsEnumeration a) : fsmOfC (T.switch_state_enumeration e a inp).autom = stepEnumeration (fsmOfC a) inp e.nowS := by
  rw [(switch_state_enumeration_eq e a inp hno).1, hm]; rfl

/-- the record `init_automata_*` leaves behind, rebuilt from the extracted tables: it satisfies the hypotheses above -/
def autOfX (rows : TransTable) (tos : List Nat) (st ts : Nat) : T.automata :=
  { last_ts := ts, current_state := st,
    transitions_table := rows.map (fun r => { from_ := r.1, to_ := r.2.1, with_ := r.2.2 }) ++ List.replicate (128 - rows.length) T.transition.zero,
    transitions_no := rows.length,
    states_table := tos.map (fun t => { timeout := (t : Int) }) ++ List.replicate (5 - tos.length) T.state.zero,
    states_no := tos.length }

theorem tosEq_pad (tos : List Nat) (n : Nat) : tosEq (tos ++ List.replicate n 0) tos := by
  intro k; unfold timeoutOf
  by_cases hk : k < tos.length
  · simp [List.getD, List.getElem?_append_left hk]
  · have hk' : tos.length ≤ k := by omega
    simp only [List.getD, List.getElem?_append_right hk', List.getElem?_eq_none hk', Option.getD_none]
    by_cases h2 : k - tos.length < n
    · simp [List.getElem?_replicate, h2]
    · simp [List.getElem?_replicate, h2]

example : IsMapping (autOfX X.mappingTable X.mappingTimeouts 1 7) ∧ IsSession (autOfX X.sessionTable X.sessionTimeouts 2 7) ∧
    IsEnumeration (autOfX X.enumerationTable X.enumerationTimeouts 1 7) := by
  refine ⟨⟨by decide, ?_⟩, ⟨by decide, ?_⟩, by unfold IsEnumeration; decide⟩
  · have : timeoutsOfC (autOfX X.mappingTable X.mappingTimeouts 1 7) = X.mappingTimeouts ++ List.replicate 2 0 := by decide
    rw [this]; exact tosEq_pad _ _
  · have : timeoutsOfC (autOfX X.sessionTable X.sessionTimeouts 2 7) = X.sessionTimeouts ++ List.replicate 1 0 := by decide
    rw [this]; exact tosEq_pad _ _

example : AutOk (autOfX X.mappingTable X.mappingTimeouts 1 7) := ⟨by decide +kernel, by decide +kernel, by decide⟩

/-! ## The session table: find / add / remove as translated (pointer results are slot indices) -/


theorem natCast_beq (x y : Nat) : ((x : Int) == (y : Int)) = (x == y) := by
  by_cases h : x = y
  · simp [h]
  · have h1 : ((x : Int) == (y : Int)) = false := by
      rw [beq_eq_false_iff_ne]; exact_mod_cast h
    have h2 : (x == y) = false := by rw [beq_eq_false_iff_ne]; exact h
    rw [h1, h2]

theorem mac_equal_eq (e : T.Env) (a b : List Nat) (ha : a.length = 6) (hb : b.length = 6) :
    (T.mac_equal e a b).ret = (a == b) := by
  match a, ha with
  | [a0, a1, a2, a3, a4, a5], _ =>
    match b, hb with
    | [b0, b1, b2, b3, b4, b5], _ =>
      simp only [T.mac_equal, List.getD_cons_zero, List.getD_cons_succ, natCast_beq]
      rw [Bool.eq_iff_iff]
      simp [and_assoc]

theorem mac_copy_eq (e : T.Env) (d s : List Nat) (hd : d.length = 6) (hs : s.length = 6) :
    (T.mac_copy e d s).dst = s := by
  match d, hd with
  | [d0, d1, d2, d3, d4, d5], _ =>
    match s, hs with
    | [s0, s1, s2, s3, s4, s5], _ => simp [T.mac_copy]



/-- the first index below `n` at which `q` holds: what a `for` loop that leaves at its first hit computes -/
def firstBelow (q : Nat → Bool) : Nat → Option Nat
  | 0 => none
  | n + 1 => match firstBelow q n with
    | some j => some j
    | none => if q n then some n else none

theorem firstBelow_findIdx {α : Type} (p : α → Bool) (l : List α) (d : α) :
    ∀ n, n ≤ l.length → firstBelow (fun k => p (l.getD k d)) n =
      (if (l.take n).findIdx p < n then some ((l.take n).findIdx p) else none) := by
  intro n
  induction n with
  | zero => intro _; simp [firstBelow]
  | succ n ih =>
    intro hn
    have hlt : n < l.length := by omega
    have hlen : (l.take n).length = n := by simp; omega
    rw [firstBelow, ih (by omega), List.take_add_one, List.getElem?_eq_getElem hlt]
    simp only [Option.toList_some, List.findIdx_append, hlen]
    have hg : l.getD n d = l[n] := by simp [List.getD, List.getElem?_eq_getElem hlt]
    by_cases h1 : List.findIdx p (List.take n l) < n
    · have h1' : List.findIdx p (List.take n l) < (List.take n l).length := by omega
      simp only [h1, h1', if_true]
      have : List.findIdx p (List.take n l) < n + 1 := by omega
      simp only [this, if_true]
    · have h1' : ¬ List.findIdx p (List.take n l) < (List.take n l).length := by omega
      simp only [h1, h1', if_false, hg]
      by_cases h2 : p l[n] = true
      · simp [h2, List.findIdx_cons]
      · simp [h2, List.findIdx_cons]; omega

theorem firstBelow_full {α : Type} (p : α → Bool) (l : List α) (d : α) :
    firstBelow (fun k => p (l.getD k d)) l.length = (if l.findIdx p < l.length then some (l.findIdx p) else none) := by
  have := firstBelow_findIdx p l d l.length (Nat.le_refl _)
  simpa using this



structure TblOk (t : T.session_table) : Prop where
  hlen : t.entries.length = 16
  hmac : ∀ x ∈ t.entries, x.mapper_mac.length = 6

/-- the C condition `entry->valid && mac_equal(entry->mapper_mac, mac) && entry->generation == generation` -/
def cMatch (e : T.Env) (mac : List Nat) (gen : Nat) (x : T.session_entry) : Bool :=
  (x.valid && (T.mac_equal e x.mapper_mac mac).ret) && ((x.generation : Int) == (gen : Int))

theorem cMatch_eq (e : T.Env) (mac : List Nat) (gen : Nat) (x : T.session_entry) (hx : x.mapper_mac.length = 6) (hm : mac.length = 6) :
    cMatch e mac gen x = (entryOfC x).matches mac gen := by
  unfold cMatch Entry.matches
  rw [mac_equal_eq e _ _ hx hm, natCast_beq]; rfl

theorem getD_zero_mac (t : T.session_table) (h : TblOk t) (k : Nat) : (t.entries.getD k T.session_entry.zero).mapper_mac.length = 6 := by
  by_cases hk : k < t.entries.length
  · simp only [List.getD, List.getElem?_eq_getElem hk, Option.getD_some]; exact h.hmac _ (List.getElem_mem hk)
  · have hk' : t.entries.length ≤ k := by omega
    simp [List.getD, List.getElem?_eq_none hk', T.session_entry.zero]

theorem getD_map_entry (l : List T.session_entry) (k : Nat) :
    (l.map entryOfC).getD k (entryOfC T.session_entry.zero) = entryOfC (l.getD k T.session_entry.zero) := by
  by_cases hk : k < l.length
  · simp [List.getD, List.getElem?_eq_getElem hk]
  · have hk' : l.length ≤ k := by omega
    simp [List.getD, List.getElem?_eq_none hk']

def findQ (e : T.Env) (mac : List Nat) (gen : Nat) (t : T.session_table) (k : Nat) : Bool :=
  cMatch e mac gen (t.entries.getD k T.session_entry.zero)

theorem firstBelow_succ (q : Nat → Bool) (n : Nat) :
    firstBelow q (n + 1) = (match firstBelow q n with | some j => some j | none => if q n then some n else none) := rfl

theorem findQ_full (e : T.Env) (t : T.session_table) (mac : List Nat) (gen : Nat) (ht : TblOk t) (hm : mac.length = 6) :
    firstBelow (findQ e mac gen t) 16 = (tableOfC t).find mac gen := by
  have hq : findQ e mac gen t =
      (fun k => (fun x => Entry.matches x mac gen) ((t.entries.map entryOfC).getD k (entryOfC T.session_entry.zero))) := by
    funext k; unfold findQ; rw [getD_map_entry, cMatch_eq e mac gen _ (getD_zero_mac t ht k) hm]
  have hfull := firstBelow_full (fun x => Entry.matches x mac gen) (t.entries.map entryOfC) (entryOfC T.session_entry.zero)
  have h16 : (t.entries.map entryOfC).length = 16 := by simp [ht.hlen]
  rw [h16] at hfull
  rw [hq, hfull]
  simp only [Table.find, tableOfC, h16]

theorem session_table_find_eq (e : T.Env) (t : T.session_table) (mac : List Nat) (gen seq : Nat) (ht : TblOk t) (hm : mac.length = 6) :
    (T.session_table_find e t mac gen seq).ret_idx = (tableOfC t).find mac gen ∧ (T.session_table_find e t mac gen seq).table = t := by
  unfold T.session_table_find
  have hinv := loopRange_inv (fun i (s : T.session_table_find.S) =>
      s.table = t ∧ s.mapper_mac = mac ∧ s.generation = gen ∧ s.brk = false ∧
      s.ret_idx = firstBelow (findQ e mac gen t) i ∧ s.done = (firstBelow (findQ e mac gen t) i).isSome)
    16 (T.session_table_find.loop1 e) 16 0 { table := t, mapper_mac := mac, generation := gen, seq := seq } (by omega)
    ⟨rfl, rfl, rfl, rfl, rfl, rfl⟩
    (by
      intro i s _ _ ⟨p1, p2, p3, p4, p5, p6⟩
      unfold T.session_table_find.loop1
      rw [firstBelow_succ]
      cases hfb : firstBelow (findQ e mac gen t) i with
      | some j =>
        rw [hfb] at p5 p6
        simp only [Option.isSome_some] at p6
        simp only [p6, Bool.true_or, if_true]
        exact ⟨p1, p2, p3, p4, p5, by simp [p6]⟩
      | none =>
        rw [hfb] at p5 p6
        simp only [Option.isSome_none] at p6
        simp only [p6, p4, Bool.or_self, Bool.false_eq_true, if_false, p1, p2, p3]
        have hc : ((((t.entries.getD i T.session_entry.zero).valid && (T.mac_equal e (t.entries.getD i T.session_entry.zero).mapper_mac mac).ret) &&
            (((t.entries.getD i T.session_entry.zero).generation : Int) == (gen : Int)))) = findQ e mac gen t i := rfl
        rw [hc]
        by_cases hq : findQ e mac gen t i = true
        · simp [hq]
        · have hq' : findQ e mac gen t i = false := by simpa using hq
          simp [hq', p4, p5, p6])
  simp only []
  generalize CSem.loopRange 0 16 (T.session_table_find.loop1 e) { table := t, mapper_mac := mac, generation := gen, seq := seq } = L at hinv ⊢
  obtain ⟨l1, _, _, l4, l5, l6⟩ := hinv
  rw [findQ_full e t mac gen ht hm] at l5 l6
  by_cases hd : L.done = true
  · simp only [hd, Bool.true_or, if_true]; exact ⟨l5, l1⟩
  · have hd' : L.done = false := by simpa using hd
    simp only [hd', Bool.or_self, Bool.false_eq_true, if_false]
    rw [hd'] at l6
    refine ⟨?_, l1⟩
    cases hf : (tableOfC t).find mac gen with
    | none => rfl
    | some j => rw [hf] at l6; simp at l6



/-- the slot is valid and not complete -/
def incQ (t : T.session_table) (k : Nat) : Bool :=
  (t.entries.getD k T.session_entry.zero).valid && !(t.entries.getD k T.session_entry.zero).complete

theorem firstBelow_none_iff (q : Nat → Bool) (n : Nat) : firstBelow q n = none ↔ ∀ k < n, q k = false := by
  induction n with
  | zero => simp [firstBelow]
  | succ n ih =>
    rw [firstBelow_succ]
    cases hfb : firstBelow q n with
    | some j =>
      simp only [reduceCtorEq, false_iff]
      intro h
      have := ih.mpr (fun k hk => h k (by omega))
      rw [hfb] at this; cases this
    | none =>
      have hall := ih.mp hfb
      by_cases hq : q n = true
      · simp only [hq, if_true, reduceCtorEq, false_iff]
        intro h; have := h n (by omega); rw [hq] at this; cases this
      · have hq' : q n = false := by simpa using hq
        simp only [hq', Bool.false_eq_true, if_false, true_iff]
        intro k hk
        by_cases hk' : k < n
        · exact hall k hk'
        · have : k = n := by omega
          subst this; exact hq'

theorem all_iff_incQ (t : T.session_table) (ht : t.entries.length = 16) :
    (t.entries.map entryOfC).all (fun e => !e.valid || e.complete) = (firstBelow (incQ t) 16).isNone := by
  rw [Bool.eq_iff_iff, Option.isNone_iff_eq_none, firstBelow_none_iff]
  simp only [List.all_eq_true, List.mem_map, forall_exists_index, and_imp, forall_apply_eq_imp_iff₂]
  constructor
  · intro h k hk
    have hk' : k < t.entries.length := by omega
    have := h (t.entries[k]) (List.getElem_mem hk')
    unfold incQ
    simp only [List.getD, List.getElem?_eq_getElem hk', Option.getD_some]
    simp only [entryOfC, Bool.or_eq_true, Bool.not_eq_true'] at this
    rcases this with h1 | h1 <;> simp [h1]
  · intro h x hx
    obtain ⟨k, hk, rfl⟩ := List.getElem_of_mem hx
    have := h k (by omega)
    unfold incQ at this
    simp only [List.getD, List.getElem?_eq_getElem hk, Option.getD_some] at this
    simp only [entryOfC]
    cases hv : t.entries[k].valid <;> cases hc : t.entries[k].complete <;> simp_all

theorem session_table_update_complete_status_eq (e : T.Env) (t : T.session_table) (ht : t.entries.length = 16) :
    tableOfC (T.session_table_update_complete_status e t).table = (tableOfC t).updateStatus := by
  unfold T.session_table_update_complete_status
  have hinv := loopRange_inv (fun i (s : T.session_table_update_complete_status.S) =>
      s.table = t ∧ s.done = false ∧ s.brk = (firstBelow (incQ t) i).isSome ∧ s.all_complete = (firstBelow (incQ t) i).isNone ∧
      ((firstBelow (incQ t) i).isSome = true → s.any_valid = true))
    16 (T.session_table_update_complete_status.loop1 e) 16 0 { table := t, all_complete := true, any_valid := false } (by omega)
    ⟨rfl, rfl, rfl, rfl, by simp [firstBelow]⟩
    (by
      intro i s _ _ ⟨p1, p2, p3, p4, p5⟩
      unfold T.session_table_update_complete_status.loop1
      rw [firstBelow_succ]
      cases hfb : firstBelow (incQ t) i with
      | some j =>
        rw [hfb] at p3 p4 p5
        simp only [Option.isSome_some] at p3
        simp only [p3, Bool.or_true, if_true]
        exact ⟨p1, p2, by simp [p3], by simpa using p4, fun _ => p5 rfl⟩
      | none =>
        rw [hfb] at p3 p4
        simp only [Option.isSome_none] at p3
        simp only [p2, p3, Bool.or_self, Bool.false_eq_true, if_false, p1]
        have hq : incQ t i = ((t.entries.getD i T.session_entry.zero).valid && !(t.entries.getD i T.session_entry.zero).complete) := rfl
        generalize t.entries.getD i T.session_entry.zero = row at hq ⊢
        cases hv : row.valid <;> cases hc : row.complete <;> simp [hq, hv, hc, p1, p2, p3, p4])
  simp only []
  generalize CSem.loopRange 0 16 (T.session_table_update_complete_status.loop1 e) { table := t, all_complete := true, any_valid := false } = L at hinv ⊢
  obtain ⟨l1, l2, l3, l4, l5⟩ := hinv
  simp only [l2, Bool.or_self, Bool.false_eq_true, if_false, Bool.false_or]
  simp only [tableOfC, Table.updateStatus, l1, Table.mk.injEq, true_and]
  have hall : (List.map entryOfC t.entries).all (fun e => !e.valid || e.complete) = (firstBelow (incQ t) 16).isNone := all_iff_incQ t ht
  rw [hall, l4]
  cases hfb : firstBelow (incQ t) 16 with
  | none => simp
  | some j => rw [hfb] at l5; simp [l5 rfl]

/-- the table after the removal loop has stopped at slot `j` (or run through) -/
def rmT (t : T.session_table) : Option Nat → T.session_table
  | none => t
  | some j => { t with entries := t.entries.set j { (t.entries.getD j T.session_entry.zero) with valid := false },
                       count := if t.count > 0 then (t.count + 255) % 256 else t.count }

theorem updateFirst_set (p : Entry → Bool) (f : Entry → Entry) (d : Entry) (l : List Entry) (h : l.findIdx p < l.length) :
    updateFirst p f l = l.set (l.findIdx p) (f (l.getD (l.findIdx p) d)) := by
  induction l with
  | nil => simp at h
  | cons x xs ih =>
    by_cases hx : p x = true
    · simp [updateFirst, hx, List.findIdx_cons]
    · have hx' : p x = false := by simpa using hx
      have h' : xs.findIdx p < xs.length := by simpa [List.findIdx_cons, hx'] using h
      simp only [updateFirst, hx', Bool.false_eq_true, if_false, List.findIdx_cons, cond_false]
      rw [ih h']; simp

theorem find_none_any (t : Table) (mac : Mac) (gen : Nat) : t.find mac gen = none → t.entries.any (fun e => e.matches mac gen) = false := by
  unfold Table.find
  intro h
  by_cases hlt : List.findIdx (fun e => e.matches mac gen) t.entries < t.entries.length
  · simp [hlt] at h
  · rw [Bool.eq_false_iff]; intro hany
    rw [List.any_eq_true] at hany
    obtain ⟨x, hx, hpx⟩ := hany
    exact hlt (List.findIdx_lt_length_of_exists ⟨x, hx, hpx⟩)

theorem find_some_any (t : Table) (mac : Mac) (gen : Nat) (j : Nat) : t.find mac gen = some j →
    t.entries.any (fun e => e.matches mac gen) = true ∧ j = List.findIdx (fun e => e.matches mac gen) t.entries ∧ j < t.entries.length := by
  unfold Table.find
  intro h
  by_cases hlt : List.findIdx (fun e => e.matches mac gen) t.entries < t.entries.length
  · simp only [hlt, if_true, Option.some.injEq] at h
    refine ⟨?_, h.symm, by omega⟩
    rw [List.any_eq_true]
    exact ⟨_, List.getElem_mem hlt, List.findIdx_getElem (w := hlt)⟩
  · simp [hlt] at h

theorem session_table_remove_eq (e : T.Env) (t : T.session_table) (mac : List Nat) (gen : Nat) (ht : TblOk t) (hm : mac.length = 6)
    (hc : t.count < 256) :
    tableOfC (T.session_table_remove e t mac gen).table = (tableOfC t).remove mac gen := by
  unfold T.session_table_remove
  have hinv := loopRange_inv (fun i (s : T.session_table_remove.S) =>
      s.done = false ∧ s.mapper_mac = mac ∧ s.generation = gen ∧ s.brk = (firstBelow (findQ e mac gen t) i).isSome ∧
      s.table = rmT t (firstBelow (findQ e mac gen t) i))
    16 (T.session_table_remove.loop1 e) 16 0 { table := t, mapper_mac := mac, generation := gen } (by omega)
    ⟨rfl, rfl, rfl, rfl, rfl⟩
    (by
      intro i s _ _ ⟨p1, p2, p3, p4, p5⟩
      unfold T.session_table_remove.loop1
      rw [firstBelow_succ]
      cases hfb : firstBelow (findQ e mac gen t) i with
      | some j =>
        rw [hfb] at p4 p5
        simp only [Option.isSome_some] at p4
        simp only [p4, Bool.or_true, if_true]
        exact ⟨p1, p2, p3, by simp [p4], p5⟩
      | none =>
        rw [hfb] at p4 p5
        simp only [Option.isSome_none] at p4
        have p5' : s.table = t := p5
        simp only [p1, p4, Bool.or_self, Bool.false_eq_true, if_false, p2, p3, p5']
        have hcq : ((((t.entries.getD i T.session_entry.zero).valid && (T.mac_equal e (t.entries.getD i T.session_entry.zero).mapper_mac mac).ret) &&
            (((t.entries.getD i T.session_entry.zero).generation : Int) == (gen : Int)))) = findQ e mac gen t i := rfl
        rw [hcq]
        by_cases hq : findQ e mac gen t i = true
        · simp only [hq, if_true]
          by_cases hcz : t.count > 0
          · have : ((t.count : Int) > 0) := by exact_mod_cast hcz
            simp [this, hcz, rmT, p1, p2, p3]
          · have : ¬ ((t.count : Int) > 0) := by exact_mod_cast hcz
            simp [this, hcz, rmT, p1, p2, p3]
        · have hq' : findQ e mac gen t i = false := by simpa using hq
          simp [hq', p1, p2, p3, p4, rmT, p5'])
  simp only []
  generalize CSem.loopRange 0 16 (T.session_table_remove.loop1 e) { table := t, mapper_mac := mac, generation := gen } = L at hinv ⊢
  obtain ⟨l1, _, _, _, l5⟩ := hinv
  simp only [l1, Bool.or_self, Bool.false_eq_true, if_false]
  rw [findQ_full e t mac gen ht hm] at l5
  have hlen : L.table.entries.length = 16 := by
    rw [l5]; cases (tableOfC t).find mac gen <;> simp [rmT, ht.hlen]
  rw [session_table_update_complete_status_eq e L.table hlen, l5]
  unfold Table.remove
  congr 1
  cases hf : (tableOfC t).find mac gen with
  | none =>
    have := find_none_any _ _ _ hf
    simp [this, rmT]
  | some j =>
    obtain ⟨hany, hj, hjl⟩ := find_some_any _ _ _ _ hf
    simp only [hany, if_true, rmT]
    have hjl' : j < t.entries.length := by simpa [tableOfC] using hjl
    have hlt : List.findIdx (fun e => e.matches mac gen) (tableOfC t).entries < (tableOfC t).entries.length := by rw [← hj]; exact hjl
    rw [updateFirst_set _ _ (entryOfC T.session_entry.zero) _ hlt, ← hj]
    simp only [tableOfC, Table.mk.injEq, List.map_set, true_and, getD_map_entry]
    refine ⟨?_, ?_⟩
    · congr 1
    · by_cases hcz : t.count > 0
      · simp only [hcz, if_true]; exact ⟨by omega, trivial⟩
      · simp [hcz]

/-- the slot is free -/
def freeQ (t : T.session_table) (k : Nat) : Bool := !(t.entries.getD k T.session_entry.zero).valid

def newC (e : T.Env) (mac : List Nat) (gen seq : Nat) : T.session_entry :=
  { mapper_mac := mac, generation := gen, seq_number := seq, state := 2, complete := false, valid := true,
    last_activity_ts := e.nowS, created_ts := e.nowS }

/-- the table after the insertion loop has stopped at the free slot `j` (or run through a full table) -/
def addT (e : T.Env) (mac : List Nat) (gen seq : Nat) (t : T.session_table) : Option Nat → T.session_table
  | none => t
  | some j => { entries := t.entries.set j (newC e mac gen seq), count := (t.count + 1) % 256, all_complete := false }

theorem freeQ_full (t : T.session_table) (ht : TblOk t) :
    firstBelow (freeQ t) 16 = (tableOfC t).firstFree := by
  have hq : freeQ t = (fun k => (fun x : Entry => !x.valid) ((t.entries.map entryOfC).getD k (entryOfC T.session_entry.zero))) := by
    funext k; unfold freeQ; rw [getD_map_entry]; rfl
  have hfull := firstBelow_full (fun x : Entry => !x.valid) (t.entries.map entryOfC) (entryOfC T.session_entry.zero)
  have h16 : (t.entries.map entryOfC).length = 16 := by simp [ht.hlen]
  rw [h16] at hfull
  rw [hq, hfull]
  simp only [Table.firstFree, tableOfC, h16]

theorem firstFree_none_any (t : Table) : t.firstFree = none → t.entries.any (fun e => !e.valid) = false := by
  unfold Table.firstFree
  intro h
  by_cases hlt : List.findIdx (fun e : Entry => !e.valid) t.entries < t.entries.length
  · simp [hlt] at h
  · rw [Bool.eq_false_iff]; intro hany
    rw [List.any_eq_true] at hany
    obtain ⟨x, hx, hpx⟩ := hany
    exact hlt (List.findIdx_lt_length_of_exists ⟨x, hx, hpx⟩)

theorem firstFree_some_any (t : Table) (j : Nat) : t.firstFree = some j →
    t.entries.any (fun e => !e.valid) = true ∧ j = List.findIdx (fun e : Entry => !e.valid) t.entries ∧ j < t.entries.length := by
  unfold Table.firstFree
  intro h
  by_cases hlt : List.findIdx (fun e : Entry => !e.valid) t.entries < t.entries.length
  · simp only [hlt, if_true, Option.some.injEq] at h
    refine ⟨?_, h.symm, by omega⟩
    rw [List.any_eq_true]
    exact ⟨_, List.getElem_mem hlt, List.findIdx_getElem (w := hlt)⟩
  · simp [hlt] at h

theorem getD_set_self (l : List T.session_entry) (i : Nat) (a d : T.session_entry) (h : i < l.length) : (l.set i a).getD i d = a := by
  simp [List.getD, List.getElem?_set_self h]

theorem getD_set_self' (l : List T.session_entry) (i : Nat) (a d : T.session_entry) :
    (l.set i a).getD i d = if i < l.length then a else d := by
  by_cases h : i < l.length
  · simp [List.getD, List.getElem?_set_self h, h]
  · have h' : l.length ≤ i := by omega
    simp [List.getD, h, List.getElem?_eq_none, h']

theorem add_loop1_hit (e : T.Env) (i : Nat) (s : T.session_table_add.S) (hd : s.done = false) (hb : s.brk = false)
    (hfree : (s.table.entries.getD i T.session_entry.zero).valid = false) (hi : i < s.table.entries.length)
    (hcopy : (T.mac_copy e (s.table.entries.getD i T.session_entry.zero).mapper_mac s.mapper_mac).dst = s.mapper_mac) :
    T.session_table_add.loop1 e i s =
      { s with entry_idx2 := i,
               table := { entries := s.table.entries.set i (newC e s.mapper_mac s.generation s.seq), count := (s.table.count + 1) % 256, all_complete := false },
               ret_idx := some i, done := true } := by
  unfold T.session_table_add.loop1
  simp only [hd, hb, Bool.or_self, Bool.false_eq_true, if_false, hfree, Bool.not_false, if_true, hcopy]
  simp only [getD_set_self', List.set_set, List.length_set, hi, if_true, newC]

theorem add_loop1_miss (e : T.Env) (i : Nat) (s : T.session_table_add.S) (hd : s.done = false) (hb : s.brk = false)
    (hfree : (s.table.entries.getD i T.session_entry.zero).valid = true) :
    T.session_table_add.loop1 e i s = { s with entry_idx2 := i } := by
  unfold T.session_table_add.loop1
  simp only [hd, hb, Bool.or_self, Bool.false_eq_true, if_false, hfree, Bool.not_true]

theorem add_loop1_skip (e : T.Env) (i : Nat) (s : T.session_table_add.S) (hd : s.done = true) :
    T.session_table_add.loop1 e i s = s := by
  unfold T.session_table_add.loop1
  simp only [hd, Bool.true_or, if_true]

theorem session_table_add_eq (e : T.Env) (t : T.session_table) (mac : List Nat) (gen seq : Nat) (ht : TblOk t) (hm : mac.length = 6) :
    tableOfC (T.session_table_add e t mac gen seq).table = ((tableOfC t).add mac gen seq e.nowS).1 ∧
    (T.session_table_add e t mac gen seq).ret_idx = ((tableOfC t).add mac gen seq e.nowS).2 := by
  obtain ⟨f1, f2⟩ := session_table_find_eq e t mac gen seq ht hm
  unfold T.session_table_add
  simp only [f1, f2]
  cases hf : (tableOfC t).find mac gen with
  | some j =>
    obtain ⟨hany, hj, hjl⟩ := find_some_any _ _ _ _ hf
    have hjl' : j < t.entries.length := by simpa [tableOfC] using hjl
    have hlt : List.findIdx (fun e => e.matches mac gen) (tableOfC t).entries < (tableOfC t).entries.length := by rw [← hj]; exact hjl
    simp only [Option.isSome_some, if_true, Bool.true_or, Option.getD_some, getD_set_self _ _ _ _ hjl', List.set_set]
    unfold Table.add
    simp only [hany, if_true, hf]
    refine ⟨?_, trivial⟩
    rw [updateFirst_set _ _ (entryOfC T.session_entry.zero) _ hlt, ← hj]
    simp only [tableOfC, Table.mk.injEq, List.map_set, getD_map_entry, and_self, and_true]
    congr 1
  | none =>
    have hnany := find_none_any _ _ _ hf
    simp only [Option.isSome_none, Bool.false_eq_true, if_false, Bool.or_self]
    have hinv := loopRange_inv (fun i (s : T.session_table_add.S) =>
        s.brk = false ∧ s.mapper_mac = mac ∧ s.generation = gen ∧ s.seq = seq ∧ s.done = (firstBelow (freeQ t) i).isSome ∧
        s.ret_idx = firstBelow (freeQ t) i ∧ s.table = addT e mac gen seq t (firstBelow (freeQ t) i))
      16 (T.session_table_add.loop1 e) 16 0 { table := t, mapper_mac := mac, generation := gen, seq := seq } (by omega)
      ⟨rfl, rfl, rfl, rfl, rfl, rfl, rfl⟩
      (by
        intro i s _ hi ⟨p1, p2, p3, p4, p5, p6, p7⟩
        rw [firstBelow_succ]
        cases hfb : firstBelow (freeQ t) i with
        | some j =>
          rw [hfb] at p5 p6 p7
          simp only [Option.isSome_some] at p5
          rw [add_loop1_skip e i s p5]
          exact ⟨p1, p2, p3, p4, by simp [p5], p6, p7⟩
        | none =>
          rw [hfb] at p5 p6 p7
          simp only [Option.isSome_none] at p5
          have p7' : s.table = t := p7
          have hil : i < s.table.entries.length := by rw [p7', ht.hlen]; exact hi
          by_cases hq : freeQ t i = true
          · have hv : (s.table.entries.getD i T.session_entry.zero).valid = false := by
              rw [p7']; unfold freeQ at hq; simpa using hq
            have hcopy : (T.mac_copy e (s.table.entries.getD i T.session_entry.zero).mapper_mac s.mapper_mac).dst = s.mapper_mac := by
              rw [p7', p2]; exact mac_copy_eq e _ mac (getD_zero_mac t ht i) hm
            rw [add_loop1_hit e i s p5 p1 hv hil hcopy]
            simp only [hq, if_true, Option.isSome_some, addT, p1, p2, p3, p4, p7', and_self]
          · have hq' : freeQ t i = false := by simpa using hq
            have hv : (s.table.entries.getD i T.session_entry.zero).valid = true := by
              rw [p7']; unfold freeQ at hq'; simpa using hq'
            rw [add_loop1_miss e i s p5 p1 hv]
            simp only [hq', Bool.false_eq_true, if_false, Option.isSome_none, addT, p1, p2, p3, p4, p5, p6, p7', and_self])
    generalize CSem.loopRange 0 16 (T.session_table_add.loop1 e) { table := t, mapper_mac := mac, generation := gen, seq := seq } = L at hinv ⊢
    obtain ⟨l1, _, _, _, l5, l6, l7⟩ := hinv
    rw [freeQ_full t ht] at l5 l6 l7
    unfold Table.add
    simp only [hnany, Bool.false_eq_true, if_false]
    cases hff : (tableOfC t).firstFree with
    | none =>
      have := firstFree_none_any _ hff
      rw [hff] at l5 l6 l7
      simp only [Option.isSome_none] at l5
      simp only [l5, l1, Bool.or_self, Bool.false_eq_true, if_false, this]
      exact ⟨by rw [l7]; rfl, trivial⟩
    | some j =>
      obtain ⟨hany, hj, hjl⟩ := firstFree_some_any _ _ hff
      rw [hff] at l5 l6 l7
      simp only [Option.isSome_some] at l5
      simp only [l5, Bool.true_or, if_true, hany]
      refine ⟨?_, l6⟩
      rw [l7]
      have hlt : List.findIdx (fun e : Entry => !e.valid) (tableOfC t).entries < (tableOfC t).entries.length := by rw [← hj]; exact hjl
      rw [updateFirst_set _ _ (entryOfC T.session_entry.zero) _ hlt, ← hj]
      simp only [addT, tableOfC, Table.mk.injEq, List.map_set, u8, and_self, and_true]
      congr 1


end LLTD.TEq
