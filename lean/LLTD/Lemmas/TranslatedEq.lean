/-
  The generated translation of lltdAutomata.c (`Generated/Translated.lean`, tools/c2lean.py) EQUALS the hand-written
  model (`Model/Automata.lean`) the property theorems are about — function by function, for every argument in the
  range of its C type.  These are the proof obligations that tie the model to the source text: a change to one of the
  translated C functions changes the left-hand side and the equality is re-checked by `lake build` on every run.

  Conventions: `bandOfC` / `mapOfC` / … read a translated struct value as the model's record; range hypotheses say that
  the fields are values of their C types and that the clock is not within a minute of 2^64 (the model adds without
  wrap-around there; DESIGN.md section 10).  No Mathlib.
-/
import LLTD.Generated.Translated
import LLTD.Model.Automata
import LLTD.Lemmas.XVals

namespace LLTD.TEq
open LLTD LLTD.X

def bandOfC (b : T.band_state) : Band :=
  { ni := b.Ni, r := b.r, begun := b.begun, helloTs := b.hello_timeout_ts, blockTs := b.block_timeout_ts }

def bandToC (b : Band) : T.band_state :=
  { Ni := b.ni, r := b.r, begun := b.begun, hello_timeout_ts := b.helloTs, block_timeout_ts := b.blockTs }

@[simp] theorem bandOfC_toC (b : Band) : bandOfC (bandToC b) = b := rfl
@[simp] theorem bandToC_ofC (b : T.band_state) : bandToC (bandOfC b) = b := rfl

def mapOfC (m : T.mapping_state) : MapState := { ctc := m.ctc, chargeTs := m.charge_timeout_ts, inactTs := m.inactive_timeout_ts }
def mapToC (m : MapState) : T.mapping_state := { ctc := m.ctc, charge_timeout_ts := m.chargeTs, inactive_timeout_ts := m.inactTs }

@[simp] theorem mapOfC_toC (m : MapState) : mapOfC (mapToC m) = m := rfl

/-- the clock is far enough from the end of the 64-bit range -/
def ClockOk (e : T.Env) : Prop := e.nowMs + 100000 < u64 ∧ e.nowS + 100000 < u64

/-! ## RepeatBand -/

theorem band_init_stats_eq (e : T.Env) (b : T.band_state) (he : ClockOk e) :
    bandOfC (T.band_init_stats e b).band = bandInitStats (bandOfC b) e.nowMs := by
  obtain ⟨h1, _⟩ := he
  have h : (e.nowMs + 300) % 18446744073709551616 = e.nowMs + 300 := Nat.mod_eq_of_lt (by unfold u64 at h1; omega)
  simp [T.band_init_stats, bandInitStats, bandOfC, h]

theorem bandNewNi_eq (r : Nat) :
    bandNewNi r = (if 10000 < 45 * (if 10000 < r * r % 18446744073709551616 then 10000 else r * r % 18446744073709551616) % 18446744073709551616
      then 10000 else 45 * (if 10000 < r * r % 18446744073709551616 then 10000 else r * r % 18446744073709551616) % 18446744073709551616 % 4294967296) := by
  simp [bandNewNi, satPowLoop, u64, u32]

theorem loop12 {σ : Type} (f : Nat → σ → σ) (s : σ) : CSem.loopRange 1 2 f s = f 1 s := by
  rw [CSem.loopRange_succ _ _ _ _ (by omega), CSem.loopRange_empty _ _ _ _ (by omega)]

theorem band_update_stats_eq (e : T.Env) (b : T.band_state) (he : ClockOk e) :
    bandOfC (T.band_update_stats e b).band = bandUpdateStats (bandOfC b) e.nowMs := by
  obtain ⟨h1, _⟩ := he
  have h : (e.nowMs + 300) % 18446744073709551616 = e.nowMs + 300 := Nat.mod_eq_of_lt (by unfold u64 at h1; omega)
  unfold T.band_update_stats bandUpdateStats
  simp only [bandBlockTime_val, loop12, bandNewNi_eq]
  generalize hq : b.r * b.r % 18446744073709551616 = q
  by_cases hr : b.r > 0 <;> by_cases hb : b.begun = true <;> by_cases hq1 : 10000 < q <;>
    simp [bandOfC, hr, hb, h, hq, hq1]

/-- fields of a `band_state` are values of their C types; `Ni` is inside the range C13 proves invariant -/
def BandOk (b : T.band_state) : Prop := b.Ni ≤ 10000 ∧ b.r < u32
theorem band_choose_hello_time_eq (e : T.Env) (b : T.band_state) (he : ClockOk e) (hb : BandOk b) :
    bandOfC (T.band_choose_hello_time e b).band = bandChooseHelloTime (bandOfC b) e.nowMs ∧
    (T.band_choose_hello_time e b).ret = (bandChooseHelloTime (bandOfC b) e.nowMs).helloTs := by
  obtain ⟨h1, _⟩ := he
  obtain ⟨hn, _⟩ := hb
  unfold u64 at h1
  have e1 : 4 * b.Ni % 18446744073709551616 = 4 * b.Ni := Nat.mod_eq_of_lt (by omega)
  have e2 : 4 * b.Ni * 20 % 18446744073709551616 = 4 * b.Ni * 20 := Nat.mod_eq_of_lt (by omega)
  have e3 : CSem.toU 64 (Int.tdiv (1 * 20) 3) = 6 := by decide
  have hq : 4 * b.Ni * 20 / 30 < 30000 := by omega
  unfold T.band_choose_hello_time bandChooseHelloTime bandInterval
  simp only [bandTxc_val, bandGamma_val, bandMulFrame1_val, e1, e2, e3, bandOfC]
  generalize 4 * b.Ni * 20 / 30 = q at *
  have e4 : (q + 1) % 18446744073709551616 = q + 1 := Nat.mod_eq_of_lt (by omega)
  have e5 : (e.nowMs + (q + 1)) % 18446744073709551616 = e.nowMs + (q + 1) := Nat.mod_eq_of_lt (by omega)
  have e6 : (e.nowMs + q) % 18446744073709551616 = e.nowMs + q := Nat.mod_eq_of_lt (by omega)
  have e7 : (e.nowMs + 6) % 18446744073709551616 = e.nowMs + 6 := Nat.mod_eq_of_lt (by omega)
  by_cases hm : 4 * b.Ni * 20 % 30 = 0 <;> by_cases hq6 : q < 6 <;> by_cases hq5 : q + 1 < 6 <;>
    simp [hm, hq6, hq5, e4, e5, e6, e7] <;> omega

theorem band_do_hello_eq (e : T.Env) (b : T.band_state) (he : ClockOk e) (hb : BandOk b) :
    bandOfC (T.band_do_hello e b).band = bandDoHello (bandOfC b) e.nowMs := by
  have h := (band_choose_hello_time_eq e b he hb).1
  unfold T.band_do_hello bandDoHello
  simp only [Bool.not_true, Bool.false_eq_true, if_false, Bool.or_self]
  rw [← h]; simp [bandOfC]

theorem band_on_hello_received_eq (e : T.Env) (b : T.band_state) :
    bandOfC (T.band_on_hello_received e b).band = bandOnHelloReceived (bandOfC b) := by
  unfold T.band_on_hello_received bandOnHelloReceived
  by_cases hb : b.begun = true <;> by_cases hr : 10 ≤ (b.r + 1) % 4294967296 <;> simp [bandOfC, hb, hr, u32]

/-! ## Mapping charge / inactivity bookkeeping -/

theorem mapping_reset_charge_eq (e : T.Env) (m : T.mapping_state) :
    mapOfC (T.mapping_reset_charge e m).mstate = mapResetCharge (mapOfC m) := by
  simp [T.mapping_reset_charge, mapResetCharge, mapOfC]

theorem mapping_on_charge_eq (e : T.Env) (m : T.mapping_state) (he : ClockOk e) :
    mapOfC (T.mapping_on_charge e m).mstate = mapOnCharge (mapOfC m) e.nowS := by
  obtain ⟨_, h2⟩ := he
  have h : (e.nowS + 1) % 18446744073709551616 = e.nowS + 1 := Nat.mod_eq_of_lt (by unfold u64 at h2; omega)
  simp [T.mapping_on_charge, mapOnCharge, mapOfC, h, u8]

theorem mapping_check_charge_timeout_eq (e : T.Env) (m : T.mapping_state) :
    mapOfC (T.mapping_check_charge_timeout e m).mstate = (mapCheckCharge (mapOfC m) e.nowS).1 ∧
    (T.mapping_check_charge_timeout e m).ret = (mapCheckCharge (mapOfC m) e.nowS).2 := by
  unfold T.mapping_check_charge_timeout mapCheckCharge
  by_cases h0 : m.charge_timeout_ts = 0 <;> by_cases h1 : m.charge_timeout_ts ≤ e.nowS <;> simp [mapOfC, h0, h1]

theorem mapping_check_inactive_timeout_eq (e : T.Env) (m : T.mapping_state) :
    (T.mapping_check_inactive_timeout e m).mstate = m ∧
    (T.mapping_check_inactive_timeout e m).ret = mapCheckInactive (mapOfC m) e.nowS := by
  unfold T.mapping_check_inactive_timeout mapCheckInactive
  by_cases h0 : m.inactive_timeout_ts = 0 <;> by_cases h1 : m.inactive_timeout_ts ≤ e.nowS <;> simp [mapOfC, h0, h1]

theorem mapping_reset_inactive_timeout_eq (e : T.Env) (m : T.mapping_state) (he : ClockOk e) :
    mapOfC (T.mapping_reset_inactive_timeout e m).mstate = mapResetInactive (mapOfC m) e.nowS := by
  obtain ⟨_, h2⟩ := he
  have h : (e.nowS + 30) % 18446744073709551616 = e.nowS + 30 := Nat.mod_eq_of_lt (by unfold u64 at h2; omega)
  simp [T.mapping_reset_inactive_timeout, mapResetInactive, mapOfC, h]

/-! ## Session table (the parts without pointer results) -/

def entryOfC (x : T.session_entry) : Entry :=
  { mac := x.mapper_mac, gen := x.generation, seq := x.seq_number, state := x.state, complete := x.complete,
    valid := x.valid, last := x.last_activity_ts, created := x.created_ts }

def tableOfC (t : T.session_table) : Table :=
  { entries := t.entries.map entryOfC, count := t.count, allComplete := t.all_complete }

theorem session_table_is_empty_eq (e : T.Env) (t : T.session_table) :
    (T.session_table_is_empty e t).ret = (tableOfC t).isEmpty ∧ (T.session_table_is_empty e t).table = t := by
  by_cases h : t.count = 0
  · simp [T.session_table_is_empty, Table.isEmpty, tableOfC, h]
  · have h' : ((t.count : Int) == 0) = false := by simp; omega
    simp [T.session_table_is_empty, Table.isEmpty, tableOfC, h, h']

theorem session_table_all_complete_eq (e : T.Env) (t : T.session_table) :
    (T.session_table_all_complete e t).ret = (tableOfC t).allComplete ∧ (T.session_table_all_complete e t).table = t := by
  simp [T.session_table_all_complete, tableOfC]

theorem session_table_clear_eq (e : T.Env) (t : T.session_table) :
    tableOfC (T.session_table_clear e t).table = (tableOfC t).clear := by
  simp [T.session_table_clear, Table.clear, Table.create, tableOfC, entryOfC, T.session_entry.zero, Entry.zero]

end LLTD.TEq
