/- The invariant of the per-interface state record and its preservation by every handler. -/
import LLTD.Lemmas.Frame

namespace LLTD

structure ObsOk (o : Obs) : Prop where
  r : o.realSrc.length = 6
  s : o.src.length = 6
  d : o.dst.length = 6
  t : o.typ ≤ 1

def sameKey (a b : Obs) : Prop := a.src = b.src ∧ a.realSrc = b.realSrc

structure St.Inv (st : St) : Prop where
  count : st.count = st.sees.length
  cap   : st.sees.length ≤ 1024
  nodup : st.sees.Pairwise (fun a b => ¬ sameKey a b)
  obs   : ∀ o ∈ st.sees, ObsOk o
  real  : st.mapperReal.length = 6
  app   : st.mapperApparent.length = 6
  seq   : st.seq < 65536
  gt    : st.genTopo < 65536
  gq    : st.genQuick < 65536

theorem init_inv : St.Inv {} :=
  { count := rfl, cap := by decide, nodup := List.Pairwise.nil, obs := by intro o h; simp at h, real := rfl, app := rfl,
    seq := by decide, gt := by decide, gq := by decide }

/-- what the handlers need to know about the received buffer image -/
structure ImgOk (img : List Nat) : Prop where
  len   : 36 ≤ img.length
  bytes : isBytes img

theorem fRealSrc_len (img : List Nat) (h : ImgOk img) : (fRealSrc img).length = 6 := slice_length _ _ _ (by have := h.len; simp; omega)
theorem fEthSrc_len (img : List Nat) (h : ImgOk img) : (fEthSrc img).length = 6 := slice_length _ _ _ (by have := h.len; simp; omega)
theorem fEthDst_len (img : List Nat) (h : ImgOk img) : (fEthDst img).length = 6 := slice_length _ _ _ (by have := h.len; simp; omega)
theorem fRealDst_len (img : List Nat) (h : ImgOk img) : (fRealDst img).length = 6 := slice_length _ _ _ (by have := h.len; simp; omega)
theorem fSeq_lt (img : List Nat) (h : ImgOk img) : fSeq img < 65536 := unbe_slice_two_lt img _ h.bytes
theorem fDiscGen_lt (img : List Nat) (h : ImgOk img) : fDiscGen img < 65536 := unbe_slice_two_lt img _ h.bytes

theorem setActive_inv (st : St) (img : List Nat) (hi : St.Inv st) (him : ImgOk img) :
    St.Inv (setActiveMapper st (fRealSrc img) (fEthSrc img)) := by
  unfold setActiveMapper
  split
  · exact hi
  · exact { hi with real := fRealSrc_len img him, app := fEthSrc_len img him }

theorem seq_inv (st : St) (v : Nat) (hi : St.Inv st) (hv : v < 65536) : St.Inv { st with seq := v } := { hi with seq := hv }
theorem gt_inv (st : St) (v : Nat) (hi : St.Inv st) (hv : v < 65536) : St.Inv { st with genTopo := v } := { hi with gt := hv }
theorem gq_inv (st : St) (v : Nat) (hi : St.Inv st) (hv : v < 65536) : St.Inv { st with genQuick := v } := { hi with gq := hv }

theorem preStep_inv (st : St) (img : List Nat) (hi : St.Inv st) (him : ImgOk img) : St.Inv (preStep st img) := by
  unfold preStep
  have h := setActive_inv st img hi him
  split
  · exact gq_inv _ _ h (fDiscGen_lt img him)
  · exact gt_inv _ _ h (fDiscGen_lt img him)

theorem helloGen_lt (st : St) (img : List Nat) (hi : St.Inv st) (him : ImgOk img) : helloGen st img < 65536 := by
  unfold helloGen
  have h := setActive_inv st img hi him
  simp only []
  split
  · split
    · exact fDiscGen_lt img him
    · exact h.gq
  · split
    · exact fDiscGen_lt img him
    · exact h.gt

theorem answerHello_inv (c : Cfg) (g : Glob) (w : World) (st : St) (img : List Nat) (hi : St.Inv st) (him : ImgOk img) :
    St.Inv (answerHello c g w st img).st := by
  have hg := helloGen_lt st img hi him
  have h1 := seq_inv _ (fSeq img) (setActive_inv st img hi him) (fSeq_lt img him)
  unfold answerHello
  simp only []
  split
  · exact hi
  · split
    · split
      · exact gq_inv _ _ h1 hg
      · exact gt_inv _ _ h1 hg
    · split
      · exact gq_inv _ _ h1 hg
      · exact gt_inv _ _ h1 hg

theorem parseEmit_inv (c : Cfg) (w : World) (st : St) (img : List Nat) (hi : St.Inv st) (him : ImgOk img) :
    St.Inv (parseEmit c w st img).st := by
  have h1 := setActive_inv { st with seq := fSeq img } img (seq_inv st _ hi (fSeq_lt img him)) him
  unfold parseEmit
  simp only []
  split
  · exact hi
  · split
    · exact h1
    · exact h1

theorem parseProbe_inv (c : Cfg) (w : World) (st : St) (img : List Nat) (hi : St.Inv st) (him : ImgOk img) :
    St.Inv (parseProbe c w st img).st := by
  unfold parseProbe
  simp only []
  split
  · exact hi
  · split
    · exact hi
    · split
      · exact hi
      · split
        · exact hi
        · next hne hfull hok hany =>
          have hlt : st.sees.length < 1024 := by
            simp only [seesFull, X.seesCap_val, decide_eq_true_eq, Bool.not_eq_true, decide_eq_false_iff_not] at hfull
            have := hi.count; omega
          refine { count := ?_, cap := ?_, nodup := ?_, obs := ?_, real := hi.real, app := hi.app, seq := hi.seq, gt := hi.gt, gq := hi.gq }
          · simp only [List.length_cons]
            have := hi.count
            have hu : st.count + 1 < u32 := by unfold u32; omega
            rw [Nat.mod_eq_of_lt hu]; omega
          · simp only [List.length_cons]; omega
          · refine List.Pairwise.cons ?_ hi.nodup
            intro p hp hk
            apply hany
            simp only [List.any_eq_true, Bool.and_eq_true, beq_iff_eq]
            exact ⟨p, hp, hk.1, hk.2⟩
          · intro o ho
            simp only [List.mem_cons] at ho
            rcases ho with rfl | ho
            · exact ⟨fRealSrc_len img him, fEthSrc_len img him, fEthDst_len img him, by simp only []; split <;> decide⟩
            · exact hi.obs o ho

/-- parseProbe leaves the record as it is or puts one observation in front (and bumps the count) -/
theorem parseProbe_shape (b : Cfg) (w : World) (st : St) (img : List Nat) :
    (parseProbe b w st img).st = st ∨ ∃ o, (parseProbe b w st img).st = { st with sees := o :: st.sees, count := (st.count + 1) % u32 } := by
  unfold parseProbe
  by_cases h1 : (fRealDst img != b.ourMac) = true
  · simp only [h1, if_true]; first | exact Or.inl rfl | simp
  · simp only [h1]
    by_cases h2 : seesFull st.count = true
    · simp only [h2, if_true]; first | exact Or.inl rfl | simp
    · simp only [h2]
      by_cases h3 : (w.malloc X.nodeBytes).2 = true
      · simp only [h3, Bool.not_true, Bool.false_eq_true, if_false]
        by_cases h4 : st.sees.any (fun p => fEthSrc img == p.src && fRealSrc img == p.realSrc) = true
        · simp only [h4, if_true]; first | exact Or.inl rfl | simp
        · simp only [h4]; first | exact Or.inr ⟨_, rfl⟩ | simp
      · simp only [Bool.not_eq_true] at h3
        simp only [h3, Bool.not_false, if_true]; first | exact Or.inl rfl | simp

theorem queryLoop_count (mtu : Nat) (sees : List Obs) (rem off : Nat) : (queryLoop mtu sees rem off).2 ≤ sees.length ∧ (queryLoop mtu sees rem off).2 ≤ rem := by
  induction sees generalizing rem off with
  | nil => simp [queryLoop]
  | cons o os ih =>
    cases rem with
    | zero => simp [queryLoop]
    | succ r =>
      simp only [queryLoop]
      split
      · simp
      · have := ih r (off + 20)
        simp only [List.length_cons]
        omega

theorem pairwise_drop {α} (R : α → α → Prop) (l : List α) (k : Nat) (h : l.Pairwise R) : (l.drop k).Pairwise R :=
  List.Pairwise.sublist (List.drop_sublist k l) h

theorem parseQuery_inv (c : Cfg) (w : World) (st : St) (img : List Nat) (hi : St.Inv st) (him : ImgOk img) :
    St.Inv (parseQuery c w st img).st := by
  have hbase : St.Inv { st with seq := fSeq img, mapperReal := fRealSrc img, mapperApparent := fEthSrc img, known := true } :=
    { hi with seq := fSeq_lt img him, real := fRealSrc_len img him, app := fEthSrc_len img him }
  unfold parseQuery
  simp only []
  split
  · exact hbase
  · split
    · exact hbase
    · generalize hr : queryLoop c.mtuEff st.sees (queryNum st.count c.mtuEff) (X.sizeofDemux + X.sizeofQryRespHdr) = r
      have hkl : r.2 ≤ st.sees.length := by rw [← hr]; exact (queryLoop_count _ _ _ _).1
      refine { count := ?_, cap := ?_, nodup := pairwise_drop _ _ _ hi.nodup, obs := ?_, real := fRealSrc_len img him,
               app := fEthSrc_len img him, seq := fSeq_lt img him, gt := hi.gt, gq := hi.gq }
      · simp only [List.length_drop]
        split
        · next he =>
          have : (st.sees.drop r.2).length = 0 := by simp [List.isEmpty_iff.mp he]
          simp only [List.length_drop] at this; omega
        · have := hi.count; omega
      · simp only [List.length_drop]; have := hi.cap; omega
      · intro o ho; exact hi.obs o (List.mem_of_mem_drop ho)

theorem sendLarge_st (c : Cfg) (w : World) (st : St) (img : List Nat) (data : Option (List Nat)) (off : Nat) :
    (sendLargeTlvResponse c w st img data off).st = st := by
  unfold sendLargeTlvResponse
  simp only []
  repeat' split
  all_goals rfl

theorem icon_inv (st : St) (ic : Option (List Nat)) (hi : St.Inv st) : St.Inv { st with icon := ic } := { hi with }

theorem qltlvIcon_st (c : Cfg) (g : Glob) (w : World) (st : St) (img : List Nat) (off : Nat) :
    (qltlvIcon c g w st img off).st = st ∨ ∃ ic, (qltlvIcon c g w st img off).st = { st with icon := ic } := by
  unfold qltlvIcon
  simp only []
  rw [sendLarge_st]
  repeat' split
  all_goals first | exact Or.inl rfl | exact Or.inr ⟨_, rfl⟩

theorem qltlvFname_st (c : Cfg) (g : Glob) (w : World) (st : St) (img : List Nat) (off : Nat) : (qltlvFname c g w st img off).st = st := by
  unfold qltlvFname
  split
  · simp only [sendLarge_st]
  · exact sendLarge_st _ _ _ _ _ _

theorem qltlvHwid_st (c : Cfg) (g : Glob) (w : World) (st : St) (img : List Nat) (off : Nat) : (qltlvHwid c g w st img off).st = st := by
  unfold qltlvHwid
  simp only []
  split
  · exact sendLarge_st _ _ _ _ _ _
  · simp only [sendLarge_st]

theorem parseQueryLargeTlv_inv (c : Cfg) (g : Glob) (w : World) (st : St) (img : List Nat) (hi : St.Inv st) (him : ImgOk img) :
    St.Inv (parseQueryLargeTlv c g w st img).st := by
  have h1 := setActive_inv { st with seq := fSeq img } img (seq_inv st _ hi (fSeq_lt img him)) him
  unfold parseQueryLargeTlv
  simp only []
  split
  · exact hi
  · split
    · rcases qltlvIcon_st c g w _ img _ with e | ⟨ic, e⟩
      · rw [e]; exact h1
      · rw [e]; exact icon_inv _ _ h1
    · split
      · rw [qltlvFname_st]; exact h1
      · split
        · rw [qltlvHwid_st]; exact h1
        · rw [sendLarge_st]; exact h1

theorem resetSt_inv (st : St) (hi : St.Inv st) : St.Inv (resetSt st) :=
  { count := rfl, cap := by simp [resetSt], nodup := List.Pairwise.nil, obs := by intro o h; simp [resetSt] at h, real := hi.real,
    app := hi.app, seq := by simp [resetSt], gt := by simp [resetSt], gq := by simp [resetSt] }

/-- every frame handler preserves the invariant of the per-interface record -/
theorem parseFrameSt_inv (c : Cfg) (g : Glob) (w : World) (st : St) (img : List Nat) (hi : St.Inv st) (him : ImgOk img) :
    St.Inv (parseFrameSt c g w st img).st := by
  have hpre := preStep_inv st img hi him
  unfold parseFrameSt
  simp only []
  split
  · exact hi
  · next st' hst' =>
    have hi' : St.Inv st' := by
      split at hst'
      · split at hst'
        · simp at hst'
        · simp only [Option.some.injEq] at hst'
          rw [← hst', preStepRaw_eq]
          exact hpre
      · simp only [Option.some.injEq] at hst'
        rw [← hst']; exact hi
    split
    · split
      · split
        · exact answerHello_inv c g w st' img hi' him
        · exact hi'
      · split
        · exact parseEmit_inv c w st' img hi' him
        · split
          · exact parseProbe_inv c w st' img hi' him
          · split
            · exact parseQuery_inv c w st' img hi' him
            · split
              · exact parseQueryLargeTlv_inv c g w st' img hi' him
              · split
                · exact resetSt_inv st' hi'
                · exact hi'
    · split
      · split
        · split
          · exact answerHello_inv c g w st' img hi' him
          · exact hi'
        · split
          · exact parseQueryLargeTlv_inv c g w st' img hi' him
          · split
            · exact { hi' with gq := by simp }
            · exact hi'
      · exact hi'

end LLTD
