/- From the one-frame refinement to every history of received buffer images. -/
import LLTD.Lemmas.Refine
import LLTD.Lemmas.Sends
import LLTD.Props.C05

namespace LLTD
open LLTD.Spec

/-- a per-frame predicate that holds of the model's reaction whenever the record refines the specification state
    holds at every position of every history (fault-free platform, attribute record constant over the history) -/
theorem ref_history (c : Cfg) (g : Glob) (dom : Nat) (P : SpecSt → RxObs → Bool) (Q : List Nat → Prop)
    (hc : CfgOk c) (hm : c.failMtu = false) (hmac : c.failMac = false) (hdom : dom ≤ 1024) (hQ : ∀ img, Q img → ImgOk img)
    (hstep : ∀ (w : World) (st : St) (img : List Nat) (s : SpecSt), NoFault w → St.Inv st → Q img → Ref st s →
      P s (obsOf c g img (parseFrameSt c g w st img).fx) = true) :
    ∀ (imgs : List (List Nat)) (w : World) (st : St) (s : SpecSt), (∀ img ∈ imgs, Q img) → NoFault w → St.Inv st → Ref st s →
      (specStatesDom c.mac dom s (C05.runObs c g w st imgs)).all (fun p => P p.1 p.2) = true := by
  intro imgs
  induction imgs with
  | nil => intro _ _ _ _ _ _ _; rfl
  | cons img rest ih =>
    intro w st s himgs hw hi hr
    have hq := himgs img (by simp)
    have him := hQ img hq
    simp only [C05.runObs, specStatesDom, List.all_cons, Bool.and_eq_true]
    refine ⟨hstep w st img s hw hi hq hr, ?_⟩
    apply ih _ _ _ (fun i hi' => himgs i (by simp [hi']))
    · exact nf_of_sched hw (parseFrameSt_sched c g w st img)
    · exact parseFrameSt_inv c g w st img hi him
    · exact ref_step c g w st img s dom hc hm hmac hw hi him hdom hr

end LLTD
