/- From the one-frame refinement to every history of received buffer images. -/
import LLTD.Lemmas.Refine
import LLTD.Lemmas.Sends
import LLTD.Props.C05

namespace LLTD
open LLTD.Spec

/-- a per-frame predicate that holds of the model's reaction whenever the record refines the specification state
    holds at every position of every history (fault-free platform, attribute record constant over the history) -/
theorem ref_history (c : Cfg) (g : Glob) (dom : Nat) (P : SpecSt → RxObs → Bool) (Q : List Nat → Prop)
    (hc : CfgOk c) (hm : c.failMtu = false) (hmac : c.failMac = false) (hdom : dom ≤ 1024) (hQ : ∀ img, Q img → ImgOk img)
    (hstep : ∀ (w : World) (st : St) (img : List Nat) (s : SpecSt), NoFault w → St.Inv st → Q img → Ref st s →
      P s (obsOf c g img (parseFrameSt c g w st img).fx) = true) :
    ∀ (imgs : List (List Nat)) (w : World) (st : St) (s : SpecSt), (∀ img ∈ imgs, Q img) → NoFault w → St.Inv st → Ref st s →
      (specStatesDom c.mac dom s (C05.runObs c g w st imgs)).all (fun p => P p.1 p.2) = true := by
  intro imgs
  induction imgs with
  | nil => intro _ _ _ _ _ _ _; rfl
  | cons img rest ih =>
    intro w st s himgs hw hi hr
    have hq := himgs img (by simp)
    have him := hQ img hq
    simp only [C05.runObs, specStatesDom, List.all_cons, Bool.and_eq_true]
    refine ⟨hstep w st img s hw hi hq hr, ?_⟩
    apply ih _ _ _ (fun i hi' => himgs i (by simp [hi']))
    · exact nf_of_sched hw (parseFrameSt_sched c g w st img)
    · exact parseFrameSt_inv c g w st img hi him
    · exact ref_step c g w st img s dom hc hm hmac hw hi him hdom hr

/-- what a history item must satisfy: a valid attribute record of station `own` with working MTU / address getters, a buffer image -/
def ItemOk (own : List Nat) (it : Cfg × Glob × List Nat) : Prop :=
  CfgOk it.1 ∧ it.1.failMtu = false ∧ it.1.failMac = false ∧ it.1.mac = own ∧ ImgOk it.2.2

/-- the history lemma with the attributes (MTU, addresses other than the station's own, speed, names, icon, …) changing freely
    from frame to frame -/
theorem ref_historyV (own : List Nat) (dom : Nat) (P : SpecSt → RxObs → Bool) (Q : Cfg × Glob × List Nat → Prop)
    (hdom : dom ≤ 1024) (hQ : ∀ it, Q it → ItemOk own it)
    (hstep : ∀ (c : Cfg) (g : Glob) (w : World) (st : St) (img : List Nat) (s : SpecSt), Q (c, g, img) → NoFault w → St.Inv st → Ref st s →
      P s (obsOf c g img (parseFrameSt c g w st img).fx) = true) :
    ∀ (items : List (Cfg × Glob × List Nat)) (w : World) (st : St) (s : SpecSt), (∀ it ∈ items, Q it) → NoFault w → St.Inv st → Ref st s →
      (specStatesDom own dom s (C05.runObsV w st items)).all (fun p => P p.1 p.2) = true := by
  intro items
  induction items with
  | nil => intro _ _ _ _ _ _ _; rfl
  | cons it rest ih =>
    intro w st s hitems hw hi hr
    obtain ⟨c, g, img⟩ := it
    have hq := hitems (c, g, img) (by simp)
    obtain ⟨hc, hm, hmac, hown, him⟩ := hQ _ hq
    simp only [C05.runObsV, specStatesDom, List.all_cons, Bool.and_eq_true]
    refine ⟨hstep c g w st img s hq hw hi hr, ?_⟩
    apply ih _ _ _ (fun i hi' => hitems i (by simp [hi']))
    · exact nf_of_sched hw (parseFrameSt_sched c g w st img)
    · exact parseFrameSt_inv c g w st img hi him
    · have := ref_step c g w st img s dom hc hm hmac hw hi him hdom hr
      simp only [] at hown
      rw [hown] at this
      exact this

end LLTD
