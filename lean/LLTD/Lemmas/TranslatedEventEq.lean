/-
  `derive_session_event` of lltdAutomata.c AS TRANSLATED FROM THE C TEXT on every run (Generated/TranslatedWire.lean, byte-level memory
  model of tools/c2lean_wire.py: the frame is a region of bytes read through casts to the packed header structs) returns exactly the
  event code of the hand-written model (`Model/Event.lean`: `deriveCode`), which C11's theorems are about - for every frame image of
  bytes, every session table and every own address.  `session_table_find` is an oracle of the translation; it is instantiated with the
  model's lookup (which `TranslatedEq.session_table_find_eq` relates to the C function translated by tools/c2lean.py).  No Mathlib.
-/
import LLTD.Lemmas.TranslatedWireEq
import LLTD.Model.Event

namespace LLTD.TEvEq
open LLTD LLTD.CSem LLTD.TWEq

/-- `mac_equal` as translated compares the first six bytes -/
theorem mac_equal_eq (env : TW.Env) (a b : List Nat) (ha : 6 ≤ a.length) (hb : 6 ≤ b.length) :
    (TW.mac_equal env a b).ret = (a.take 6 == b.take 6) := by
  match a, ha, b, hb with
  | a0 :: a1 :: a2 :: a3 :: a4 :: a5 :: ra, _, b0 :: b1 :: b2 :: b3 :: b4 :: b5 :: rb, _ =>
    simp only [TW.mac_equal]
    have k : ∀ x y : Nat, (x == y) = decide (x = y) := fun x y => by by_cases h : x = y <;> simp [h]
    simp [rd, unle, int_beq, Bool.and_assoc, k]

theorem slice_eq_rd (l : List Nat) (off n : Nat) : slice l off n = rd l off n := rfl

/-- a 16-bit field of the frame read through the packed struct and passed through `lltd_ntohs` is the big-endian value -/
theorem ntohs_rd (env : TW.Env) (img : List Nat) (off : Nat) (hb : isBytes img) (hl : off + 2 ≤ img.length) :
    (TW.lltd_ntohs env (unle (rd img off 2))).ret = unbe (slice img off 2) := by
  have hd : (img.drop off).length ≥ 2 := by rw [List.length_drop]; omega
  have hbd : isBytes (img.drop off) := fun x hx => hb x (List.mem_of_mem_drop hx)
  match hm : img.drop off, hd, hbd with
  | x0 :: x1 :: t, _, hbd =>
    have h0 : x0 < 256 := hbd x0 (by simp)
    have h1 : x1 < 256 := hbd x1 (by simp)
    have hv : unle (rd img off 2) = x0 + 256 * x1 := by simp [rd, hm, unle]
    have hs : slice img off 2 = [x0, x1] := by simp [slice, hm]
    rw [hv, hs]
    simp only [TW.lltd_ntohs, TW.lltd_htons, is_le]
    simp only [show ((1 : Int) != 0) = true from rfl, if_true, bswap16_val env (x0 + 256 * x1) (by omega)]
    unfold toU
    have p : ((2 ^ 16 : Nat) : Int) = 65536 := by decide
    rw [p]
    have e : ((x0 + 256 * x1) % 256 * 256 + (x0 + 256 * x1) / 256) = x0 * 256 + x1 := by omega
    rw [e]
    simp [unbe]
    omega

/-! ## The station-list loop -/

theorem loop_brk (env : TW.Env) (n a : Nat) (s : TW.derive_session_event.S) (h : s.brk = true) :
    loopRange a (a + n) (TW.derive_session_event.loop1 env) s = s := by
  induction n generalizing a with
  | zero => exact loopRange_empty _ _ _ _ (Nat.le_refl _)
  | succ n ih =>
    rw [loopRange_succ _ _ _ _ (by omega)]
    have hf : TW.derive_session_event.loop1 env a s = s := by simp [TW.derive_session_event.loop1, h]
    rw [hf]
    have : a + (n + 1) = (a + 1) + n := by omega
    rw [this]; exact ih (a + 1)

/-- one iteration: the comparison the C text makes is the model's comparison of the 6-byte slice -/
theorem loop1_step (env : TW.Env) (i : Nat) (s : TW.derive_session_event.S) (hb : s.brk = false) (hour : s.our_mac.length = 6)
    (hfit : 36 + i * 6 + 6 ≤ s.frame.length) :
    TW.derive_session_event.loop1 env i s =
      if slice s.frame (36 + i * 6) 6 == s.our_mac then { s with acking := true, brk := true } else s := by
  have hd : 6 ≤ (List.drop (36 + i * 6) s.frame).length := by rw [List.length_drop]; omega
  have ho : 6 ≤ (List.drop 0 s.our_mac).length := by simp [hour]
  have hm := mac_equal_eq env (List.drop (36 + i * 6) s.frame) (List.drop 0 s.our_mac) hd ho
  have ht : (List.drop 0 s.our_mac).take 6 = s.our_mac := by simp [List.take_of_length_le (Nat.le_of_eq hour)]
  have e36 : (((0 + 1 * 32) + 4) + i * 6) + 0 = 36 + i * 6 := by omega
  simp only [TW.derive_session_event.loop1, hb, Bool.false_eq_true, if_false, e36, hm, ht]
  have : (List.take 6 (List.drop (36 + i * 6) s.frame)) = slice s.frame (36 + i * 6) 6 := rfl
  rw [this]
  split <;> simp_all

theorem loop_scan (env : TW.Env) (n a : Nat) (s : TW.derive_session_event.S) (hb : s.brk = false) (hour : s.our_mac.length = 6)
    (hfit : 36 + (a + n) * 6 ≤ s.frame.length) :
    loopRange a (a + n) (TW.derive_session_event.loop1 env) s =
      if (stationScan s.frame 36 6 s.our_mac n a).1 then { s with acking := true, brk := true } else s := by
  induction n generalizing a with
  | zero => simp [stationScan, loopRange_empty]
  | succ n ih =>
    rw [loopRange_succ _ _ _ _ (by omega), loop1_step env a s hb hour (by omega)]
    have e : a + (n + 1) = (a + 1) + n := by omega
    by_cases hc : (slice s.frame (36 + a * 6) 6 == s.our_mac) = true
    · simp only [hc, if_true, stationScan]
      rw [e, loop_brk env n (a + 1) _ rfl]
    · simp only [hc, Bool.false_eq_true, if_false, stationScan]
      rw [e, ih (a + 1) (by omega)]

/-! ## The whole function -/

/-- the object representation of a session entry as far as `derive_session_event` reads it (address at 0, generation at 6,
    sequence number at 8; the remaining 22 bytes are not read and left out of the model) -/
def entryBytes (e : Entry) : List Nat := e.mac ++ (le 2 e.gen ++ (le 2 e.seq ++ List.replicate 22 0))

/-- `session_table_find` as the model has it: the first valid slot with this (address, generation) -/
def findOracle (tbl : Option Table) : List Nat → Nat → Nat → Option (List Nat) :=
  fun m g _ => (existingOf tbl (m.take 6) g).map entryBytes

theorem int_bne (x y : Nat) : (((x : Int) != (y : Int)) : Bool) = (x != y) := by
  unfold bne
  rw [int_beq]
  by_cases h : x = y <;> simp [h]

theorem bcast_bytes : ((le 1 255) ++ (le 1 255) ++ (le 1 255) ++ (le 1 255) ++ (le 1 255) ++ (le 1 255)) = bcast := by decide

/-- everything but a Discover: too short, Reset (topology-wide or not), Hello, any other opcode -/
theorem derive_other_eq (env : TW.Env) (img : List Nat) (tbl : Option Table) (our : Mac)
    (hnd : ¬ (32 ≤ img.length ∧ fOpcode img = X.opDiscover)) :
    (TW.derive_session_event env img img.length [] our).ret = deriveCode img tbl (some our) := by
  by_cases hlen : img.length < 32
  · simp [TW.derive_session_event, deriveCode, hlen]
  · have h32 : 32 ≤ img.length := by omega
    have hop : unle (rd img (0 + 17) 1) = fOpcode img := by
      rw [Nat.zero_add, unle_rd1 img 17 (by omega)]; simp [fOpcode]
    have hne : fOpcode img ≠ 0 := fun h => hnd ⟨h32, by simpa using h⟩
    have hd18 : 6 ≤ (List.drop 18 img).length := by rw [List.length_drop]; omega
    have hm := mac_equal_eq env (List.drop 18 img) [255, 255, 255, 255, 255, 255] hd18 (by decide)
    have hsl : List.take 6 (List.drop 18 img) = fRealDst img := by simp [fRealDst, slice]
    have htb : List.take 6 [255, 255, 255, 255, 255, 255] = bcast := by decide
    rw [hsl, htb] at hm
    by_cases h8 : fOpcode img = 8
    · by_cases hbc : (fRealDst img == bcast) = true
      · simp [TW.derive_session_event, deriveCode, hlen, hop, h8, int_beq, bcast_bytes, hm, hbc]
      · simp [TW.derive_session_event, deriveCode, hlen, hop, h8, int_beq, bcast_bytes, hm, hbc]
    · by_cases h1 : fOpcode img = 1
      · simp [TW.derive_session_event, deriveCode, hlen, hop, h1, int_beq]
      · have h8i : ¬ ((fOpcode img : Int) = 8) := by omega
        have h1i : ¬ ((fOpcode img : Int) = 1) := by omega
        have h0i : ¬ ((fOpcode img : Int) = 0) := by omega
        simp [TW.derive_session_event, deriveCode, hlen, hop, h1, h8, hne, h8i, h1i, h0i]

/-- `loop_scan` as an unconditional equation (to be used with `rw`): the guard is what `loop_scan` assumes -/
theorem loop_scan_guard (env : TW.Env) (n : Nat) (s : TW.derive_session_event.S) :
    loopRange 0 n (TW.derive_session_event.loop1 env) s =
      if s.brk = false ∧ s.our_mac.length = 6 ∧ 36 + n * 6 ≤ s.frame.length then
        (if (stationScan s.frame 36 6 s.our_mac n 0).1 then { s with acking := true, brk := true } else s)
      else loopRange 0 n (TW.derive_session_event.loop1 env) s := by
  split
  · rename_i h
    have := loop_scan env n 0 s h.1 h.2.1 (by omega)
    simpa using this
  · rfl

/-- what the oracle is assumed to hand back: the model's table holds 6-byte addresses and 16-bit sequence numbers -/
def TableWf (tbl : Option Table) : Prop := ∀ t, tbl = some t → ∀ e ∈ t.entries, e.mac.length = 6 ∧ e.seq < 65536

theorem derive_discover_short (env : TW.Env) (img : List Nat) (tbl : Option Table) (our : Mac)
    (h32 : 32 ≤ img.length) (h0 : fOpcode img = X.opDiscover) (h36 : img.length < 36) :
    (TW.derive_session_event env img img.length [] our).ret = deriveCode img tbl (some our) := by
  have hlen : ¬ img.length < 32 := by omega
  have hop : unle (rd img (0 + 17) 1) = fOpcode img := by
    rw [Nat.zero_add, unle_rd1 img 17 (by omega)]; simp [fOpcode]
  have h0' : fOpcode img = 0 := by simpa using h0
  simp [TW.derive_session_event, deriveCode, hlen, hop, h0', h36]

theorem loop_scan0 (env : TW.Env) (n : Nat) (s : TW.derive_session_event.S) (hb : s.brk = false) (hour : s.our_mac.length = 6)
    (hfit : 36 + n * 6 ≤ s.frame.length) :
    loopRange 0 n (TW.derive_session_event.loop1 env) s =
      if (stationScan s.frame 36 6 s.our_mac n 0).1 then { s with acking := true, brk := true } else s := by
  have := loop_scan env n 0 s hb hour (by omega)
  simpa using this

theorem existing_facts (tbl : Option Table) (mac : Mac) (gen : Nat) (e : Entry) (hwf : TableWf tbl)
    (hex : existingOf tbl mac gen = some e) : e.mac = mac ∧ e.mac.length = 6 ∧ e.seq < 65536 := by
  cases tbl with
  | none => simp [existingOf] at hex
  | some t =>
    simp only [existingOf] at hex
    have hp := List.find?_some hex
    have hm := List.mem_of_find?_eq_some hex
    have hw := hwf t rfl e hm
    simp only [Entry.matches, Bool.and_eq_true, beq_iff_eq] at hp
    exact ⟨hp.1.2, hw.1, hw.2⟩

/-- what the C text reads of the entry the lookup returned -/
theorem entry_reads (env : TW.Env) (img : List Nat) (e : Entry) (h24 : 30 ≤ img.length) (hm : e.mac = fRealSrc img) (h6 : e.mac.length = 6)
    (hs : e.seq < 65536) :
    unle (rd (entryBytes e) 8 2) = e.seq ∧ (TW.mac_equal env (entryBytes e) (List.drop 24 img)).ret = true := by
  constructor
  · have : rd (entryBytes e) 8 2 = le 2 e.seq := by
      simp [entryBytes, rd, List.drop_append, h6, le_length, List.take_append]
    rw [this, unle_le 2 e.seq (by omega)]
  · have hd : 6 ≤ (List.drop 24 img).length := by rw [List.length_drop]; omega
    rw [mac_equal_eq env (entryBytes e) (List.drop 24 img) (by simp [entryBytes, h6]) hd]
    have h1 : List.take 6 (entryBytes e) = e.mac := by simp [entryBytes, List.take_append, h6]
    have h2 : List.take 6 (List.drop 24 img) = fRealSrc img := by simp [fRealSrc, slice]
    rw [h1, h2, hm]; simp

/-- a Discover that announces no stations acknowledges everybody -/
theorem derive_discover_zero (env : TW.Env) (img : List Nat) (tbl : Option Table) (our : Mac)
    (hb : isBytes img) (hl : img.length < 18446744073709551616) (hour : our.length = 6)
    (horacle : env.session_table_find = findOracle tbl) (hwf : TableWf tbl)
    (h0 : fOpcode img = X.opDiscover) (h36 : 36 ≤ img.length) (hz : unbe (slice img 34 2) = 0) :
    (TW.derive_session_event env img img.length [] our).ret = deriveCode img tbl (some our) := by
  have hlen : ¬ img.length < 32 := by omega
  have hlen36 : ¬ img.length < 36 := by omega
  have hop : unle (rd img (0 + 17) 1) = fOpcode img := by
    rw [Nat.zero_add, unle_rd1 img 17 (by omega)]; simp [fOpcode]
  have h0' : fOpcode img = 0 := by simpa using h0
  have hgen : (TW.lltd_ntohs env (unle (rd img 32 2))).ret = fDiscGen img := by
    rw [ntohs_rd env img 32 hb (by omega)]; simp [fDiscGen]
  have hxid : (TW.lltd_ntohs env (unle (rd img 30 2))).ret = fSeq img := by
    rw [ntohs_rd env img 30 hb (by omega)]; simp [fSeq]
  have hcnt : (TW.lltd_ntohs env (unle (rd img 34 2))).ret = 0 := by rw [ntohs_rd env img 34 hb (by omega)]; exact hz
  have hsrc : List.take 6 (List.drop 24 img) = fRealSrc img := by simp [fRealSrc, slice]
  cases hex : existingOf tbl (fRealSrc img) (fDiscGen img) with
  | none =>
    simp [TW.derive_session_event, deriveCode, discoverEvent, ackScan, hlen, hlen36, hop, h0', hgen, hxid, hcnt, hz, hsrc, horacle, findOracle, hex]
  | some e =>
    obtain ⟨hm, h6, hs⟩ := existing_facts tbl _ _ e hwf hex
    obtain ⟨hr1, hr2⟩ := entry_reads env img e (by omega) hm h6 hs
    by_cases hq : e.seq = fSeq img
    · simp [TW.derive_session_event, deriveCode, discoverEvent, ackScan, hlen, hlen36, hop, h0', hgen, hxid, hcnt, hz, hsrc, horacle, findOracle, hex,
        hr1, hr2, hq, int_bne]
    · simp [TW.derive_session_event, deriveCode, discoverEvent, ackScan, hlen, hlen36, hop, h0', hgen, hxid, hcnt, hz, hsrc, horacle, findOracle, hex,
        hr1, hr2, hq, int_bne]

/-- a Discover with a non-empty station list: the list is scanned, as far as the frame reaches -/
theorem derive_discover_scan (env : TW.Env) (img : List Nat) (tbl : Option Table) (our : Mac)
    (hb : isBytes img) (hl : img.length < 18446744073709551616) (hour : our.length = 6)
    (horacle : env.session_table_find = findOracle tbl) (hwf : TableWf tbl)
    (h0 : fOpcode img = X.opDiscover) (h36 : 36 ≤ img.length) (hz : unbe (slice img 34 2) ≠ 0) :
    (TW.derive_session_event env img img.length [] our).ret = deriveCode img tbl (some our) := by
  have hlen : ¬ img.length < 32 := by omega
  have hlen36 : ¬ img.length < 36 := by omega
  have hop : unle (rd img (0 + 17) 1) = fOpcode img := by
    rw [Nat.zero_add, unle_rd1 img 17 (by omega)]; simp [fOpcode]
  have h0' : fOpcode img = 0 := by simpa using h0
  have hgen : (TW.lltd_ntohs env (unle (rd img 32 2))).ret = fDiscGen img := by
    rw [ntohs_rd env img 32 hb (by omega)]; simp [fDiscGen]
  have hxid : (TW.lltd_ntohs env (unle (rd img 30 2))).ret = fSeq img := by
    rw [ntohs_rd env img 30 hb (by omega)]; simp [fSeq]
  have hcnt : (TW.lltd_ntohs env (unle (rd img 34 2))).ret = unbe (slice img 34 2) := ntohs_rd env img 34 hb (by omega)
  have hdlt : unbe (slice img 34 2) < 65536 := unbe_slice_two_lt img 34 hb
  have hmax : (img.length + 18446744073709551580) % 18446744073709551616 = img.length - 36 := by omega
  have hsrc : List.take 6 (List.drop 24 img) = fRealSrc img := by simp [fRealSrc, slice]
  have hzi : ¬ ((unbe (slice img 34 2) : Int) = 0) := by omega
  by_cases hgt : unbe (slice img 34 2) > (img.length - 36) / 6
  · have hmod : (img.length - 36) / 6 % 65536 = (img.length - 36) / 6 := by omega
    have hfit : 36 + (img.length - 36) / 6 * 6 ≤ img.length := by omega
    cases hex : existingOf tbl (fRealSrc img) (fDiscGen img) with
    | none =>
      by_cases hsc : (stationScan img 36 6 our ((img.length - 36) / 6) 0).1 = true
      · simp [TW.derive_session_event, deriveCode, discoverEvent, ackScan, stationCount, hlen, hlen36, hop, h0', hgen, hxid, hcnt, hz, hzi, hsrc, horacle,
          findOracle, hex, hmax, hgt, hmod, hfit, hour, loop_scan0, hsc]
      · simp [TW.derive_session_event, deriveCode, discoverEvent, ackScan, stationCount, hlen, hlen36, hop, h0', hgen, hxid, hcnt, hz, hzi, hsrc, horacle,
          findOracle, hex, hmax, hgt, hmod, hfit, hour, loop_scan0, hsc]
    | some e =>
      obtain ⟨hm, h6, hs⟩ := existing_facts tbl _ _ e hwf hex
      obtain ⟨hr1, hr2⟩ := entry_reads env img e (by omega) hm h6 hs
      by_cases hsc : (stationScan img 36 6 our ((img.length - 36) / 6) 0).1 = true <;> by_cases hq : e.seq = fSeq img
      all_goals simp [TW.derive_session_event, deriveCode, discoverEvent, ackScan, stationCount, hlen, hlen36, hop, h0', hgen, hxid, hcnt, hz, hzi, hsrc, horacle,
          findOracle, hex, hmax, hgt, hmod, hfit, hour, loop_scan0, hsc, hr1, hr2, hq, int_bne]
  · have hfit : 36 + unbe (slice img 34 2) * 6 ≤ img.length := by omega
    have hmod : True := trivial
    cases hex : existingOf tbl (fRealSrc img) (fDiscGen img) with
    | none =>
      by_cases hsc : (stationScan img 36 6 our (unbe (slice img 34 2)) 0).1 = true
      all_goals simp [TW.derive_session_event, deriveCode, discoverEvent, ackScan, stationCount, hlen, hlen36, hop, h0', hgen, hxid, hcnt, hz, hzi, hsrc, horacle,
          findOracle, hex, hmax, hgt, hmod, hfit, hour, loop_scan0, hsc]
    | some e =>
      obtain ⟨hm, h6, hs⟩ := existing_facts tbl _ _ e hwf hex
      obtain ⟨hr1, hr2⟩ := entry_reads env img e (by omega) hm h6 hs
      by_cases hsc : (stationScan img 36 6 our (unbe (slice img 34 2)) 0).1 = true <;> by_cases hq : e.seq = fSeq img
      all_goals simp [TW.derive_session_event, deriveCode, discoverEvent, ackScan, stationCount, hlen, hlen36, hop, h0', hgen, hxid, hcnt, hz, hzi, hsrc, horacle,
          findOracle, hex, hmax, hgt, hmod, hfit, hour, loop_scan0, hsc, hr1, hr2, hq, int_bne]

/-- **`derive_session_event` as translated from the C text returns the model's event code** - every frame image of bytes (its length is
    what the callee is told), every session table with 6-byte addresses and 16-bit sequence numbers behind the lookup, every own address -/
theorem derive_session_event_eq (env : TW.Env) (img : List Nat) (tbl : Option Table) (our : Mac)
    (hb : isBytes img) (hl : img.length < 18446744073709551616) (hour : our.length = 6)
    (horacle : env.session_table_find = findOracle tbl) (hwf : TableWf tbl) :
    (TW.derive_session_event env img img.length [] our).ret = deriveCode img tbl (some our) := by
  by_cases hd : 32 ≤ img.length ∧ fOpcode img = X.opDiscover
  · by_cases h36 : img.length < 36
    · exact derive_discover_short env img tbl our hd.1 hd.2 h36
    · by_cases hz : unbe (slice img 34 2) = 0
      · exact derive_discover_zero env img tbl our hb hl hour horacle hwf hd.2 (by omega) hz
      · exact derive_discover_scan env img tbl our hb hl hour horacle hwf hd.2 (by omega) hz
  · exact derive_other_eq env img tbl our hd

/-! ## Bytes behind the announced length do not matter (the over-read clause of C01 for this function, as non-interference) -/

theorem rd_app (img t : List Nat) (off n : Nat) (h : off + n ≤ img.length) : rd (img ++ t) off n = rd img off n := by
  unfold rd
  rw [List.drop_append_of_le_length (by omega), List.take_append_of_le_length (by rw [List.length_drop]; omega)]

theorem take6_drop_app (img t : List Nat) (off : Nat) (h : off + 6 ≤ img.length) :
    List.take 6 (List.drop off (img ++ t)) = List.take 6 (List.drop off img) := rd_app img t off 6 h

theorem stationScan_app (img t our : List Nat) (n a : Nat) (h : 36 + (a + n) * 6 ≤ img.length) :
    stationScan (img ++ t) 36 6 our n a = stationScan img 36 6 our n a := by
  induction n generalizing a with
  | zero => rfl
  | succ n ih =>
    have hs : slice (img ++ t) (36 + a * 6) 6 = slice img (36 + a * 6) 6 := rd_app img t _ 6 (by omega)
    simp only [stationScan, hs]
    split
    · rfl
    · exact ih (a + 1) (by omega)

theorem derive_tail_other (env : TW.Env) (img t : List Nat) (tbl : Option Table) (our : Mac)
    (hnd : ¬ (32 ≤ img.length ∧ fOpcode img = X.opDiscover)) :
    (TW.derive_session_event env (img ++ t) img.length [] our).ret = deriveCode img tbl (some our) := by
  by_cases hlen : img.length < 32
  · simp [TW.derive_session_event, deriveCode, hlen]
  · have h32 : 32 ≤ img.length := by omega
    have hop : unle (rd (img ++ t) (0 + 17) 1) = fOpcode img := by
      rw [Nat.zero_add, rd_app img t 17 1 (by omega), unle_rd1 img 17 (by omega)]; simp [fOpcode]
    have hne : fOpcode img ≠ 0 := fun h => hnd ⟨h32, by simpa using h⟩
    have hd18 : 6 ≤ (List.drop 18 (img ++ t)).length := by rw [List.length_drop, List.length_append]; omega
    have hm := mac_equal_eq env (List.drop 18 (img ++ t)) [255, 255, 255, 255, 255, 255] hd18 (by decide)
    have hsl : List.take 6 (List.drop 18 (img ++ t)) = fRealDst img := by
      rw [take6_drop_app img t 18 (by omega)]; simp [fRealDst, slice]
    have htb : List.take 6 [255, 255, 255, 255, 255, 255] = bcast := by decide
    rw [hsl, htb] at hm
    by_cases h8 : fOpcode img = 8
    · by_cases hbc : (fRealDst img == bcast) = true
      · simp [TW.derive_session_event, deriveCode, hlen, hop, h8, hm, hbc]
      · simp [TW.derive_session_event, deriveCode, hlen, hop, h8, hm, hbc]
    · by_cases h1 : fOpcode img = 1
      · simp [TW.derive_session_event, deriveCode, hlen, hop, h1]
      · have h8i : ¬ ((fOpcode img : Int) = 8) := by omega
        have h1i : ¬ ((fOpcode img : Int) = 1) := by omega
        have h0i : ¬ ((fOpcode img : Int) = 0) := by omega
        simp [TW.derive_session_event, deriveCode, hlen, hop, h1, h8, hne, h8i, h1i, h0i]

theorem derive_tail_discover_short (env : TW.Env) (img t : List Nat) (tbl : Option Table) (our : Mac)
    (h32 : 32 ≤ img.length) (h0 : fOpcode img = X.opDiscover) (h36 : img.length < 36) :
    (TW.derive_session_event env (img ++ t) img.length [] our).ret = deriveCode img tbl (some our) := by
  have hlen : ¬ img.length < 32 := by omega
  have hop : unle (rd (img ++ t) (0 + 17) 1) = fOpcode img := by
    rw [Nat.zero_add, rd_app img t 17 1 (by omega), unle_rd1 img 17 (by omega)]; simp [fOpcode]
  have h0' : fOpcode img = 0 := by simpa using h0
  simp [TW.derive_session_event, deriveCode, hlen, hop, h0', h36]

theorem derive_tail_discover_zero (env : TW.Env) (img t : List Nat) (tbl : Option Table) (our : Mac)
    (hb : isBytes img) (hl : img.length < 18446744073709551616) (hour : our.length = 6)
    (horacle : env.session_table_find = findOracle tbl) (hwf : TableWf tbl)
    (h0 : fOpcode img = X.opDiscover) (h36 : 36 ≤ img.length) (hz : unbe (slice img 34 2) = 0) :
    (TW.derive_session_event env (img ++ t) img.length [] our).ret = deriveCode img tbl (some our) := by
  have hlen : ¬ img.length < 32 := by omega
  have hlen36 : ¬ img.length < 36 := by omega
  have hop : unle (rd (img ++ t) (0 + 17) 1) = fOpcode img := by
    rw [Nat.zero_add, rd_app img t 17 1 (by omega), unle_rd1 img 17 (by omega)]; simp [fOpcode]
  have h0' : fOpcode img = 0 := by simpa using h0
  have hgen : (TW.lltd_ntohs env (unle (rd (img ++ t) 32 2))).ret = fDiscGen img := by
    rw [rd_app img t 32 2 (by omega), ntohs_rd env img 32 hb (by omega)]; simp [fDiscGen]
  have hxid : (TW.lltd_ntohs env (unle (rd (img ++ t) 30 2))).ret = fSeq img := by
    rw [rd_app img t 30 2 (by omega), ntohs_rd env img 30 hb (by omega)]; simp [fSeq]
  have hcnt : (TW.lltd_ntohs env (unle (rd (img ++ t) 34 2))).ret = 0 := by rw [rd_app img t 34 2 (by omega), ntohs_rd env img 34 hb (by omega)]; exact hz
  have hsrc : List.take 6 (List.drop 24 (img ++ t)) = fRealSrc img := by rw [take6_drop_app img t 24 (by omega)]; simp [fRealSrc, slice]
  cases hex : existingOf tbl (fRealSrc img) (fDiscGen img) with
  | none =>
    simp [TW.derive_session_event, deriveCode, discoverEvent, ackScan, hlen, hlen36, hop, h0', hgen, hxid, hcnt, hz, hsrc, horacle, findOracle, hex]
  | some e =>
    obtain ⟨hm, h6, hs⟩ := existing_facts tbl _ _ e hwf hex
    obtain ⟨hr1, hr2'⟩ := entry_reads env img e (by omega) hm h6 hs
    have hr2 : (TW.mac_equal env (entryBytes e) (List.drop 24 (img ++ t))).ret = true := by
        have hd : 6 ≤ (List.drop 24 (img ++ t)).length := by rw [List.length_drop, List.length_append]; omega
        rw [mac_equal_eq env (entryBytes e) _ (by simp [entryBytes, h6]) hd, hsrc]
        have h1 : List.take 6 (entryBytes e) = e.mac := by simp [entryBytes, List.take_append, h6]
        rw [h1, hm]; simp
    by_cases hq : e.seq = fSeq img
    · simp [TW.derive_session_event, deriveCode, discoverEvent, ackScan, hlen, hlen36, hop, h0', hgen, hxid, hcnt, hz, hsrc, horacle, findOracle, hex,
        hr1, hr2, hq, int_bne]
    · simp [TW.derive_session_event, deriveCode, discoverEvent, ackScan, hlen, hlen36, hop, h0', hgen, hxid, hcnt, hz, hsrc, horacle, findOracle, hex,
        hr1, hr2, hq, int_bne]

theorem derive_tail_discover_scan (env : TW.Env) (img t : List Nat) (tbl : Option Table) (our : Mac)
    (hb : isBytes img) (hl : img.length < 18446744073709551616) (hour : our.length = 6)
    (horacle : env.session_table_find = findOracle tbl) (hwf : TableWf tbl)
    (h0 : fOpcode img = X.opDiscover) (h36 : 36 ≤ img.length) (hz : unbe (slice img 34 2) ≠ 0) :
    (TW.derive_session_event env (img ++ t) img.length [] our).ret = deriveCode img tbl (some our) := by
  have hlen : ¬ img.length < 32 := by omega
  have hlen36 : ¬ img.length < 36 := by omega
  have hop : unle (rd (img ++ t) (0 + 17) 1) = fOpcode img := by
    rw [Nat.zero_add, rd_app img t 17 1 (by omega), unle_rd1 img 17 (by omega)]; simp [fOpcode]
  have h0' : fOpcode img = 0 := by simpa using h0
  have hgen : (TW.lltd_ntohs env (unle (rd (img ++ t) 32 2))).ret = fDiscGen img := by
    rw [rd_app img t 32 2 (by omega), ntohs_rd env img 32 hb (by omega)]; simp [fDiscGen]
  have hxid : (TW.lltd_ntohs env (unle (rd (img ++ t) 30 2))).ret = fSeq img := by
    rw [rd_app img t 30 2 (by omega), ntohs_rd env img 30 hb (by omega)]; simp [fSeq]
  have hcnt : (TW.lltd_ntohs env (unle (rd (img ++ t) 34 2))).ret = unbe (slice img 34 2) := by
    rw [rd_app img t 34 2 (by omega)]; exact ntohs_rd env img 34 hb (by omega)
  have hdlt : unbe (slice img 34 2) < 65536 := unbe_slice_two_lt img 34 hb
  have hmax : (img.length + 18446744073709551580) % 18446744073709551616 = img.length - 36 := by omega
  have hsrc : List.take 6 (List.drop 24 (img ++ t)) = fRealSrc img := by rw [take6_drop_app img t 24 (by omega)]; simp [fRealSrc, slice]
  have hzi : ¬ ((unbe (slice img 34 2) : Int) = 0) := by omega
  by_cases hgt : unbe (slice img 34 2) > (img.length - 36) / 6
  · have hmod : (img.length - 36) / 6 % 65536 = (img.length - 36) / 6 := by omega
    have hfit : 36 + (img.length - 36) / 6 * 6 ≤ img.length + t.length := by omega
    have hsa := stationScan_app img t our ((img.length - 36) / 6) 0 (by omega)
    cases hex : existingOf tbl (fRealSrc img) (fDiscGen img) with
    | none =>
      by_cases hsc : (stationScan img 36 6 our ((img.length - 36) / 6) 0).1 = true
      · simp [TW.derive_session_event, deriveCode, discoverEvent, ackScan, stationCount, hlen, hlen36, hop, h0', hgen, hxid, hcnt, hz, hzi, hsrc, horacle,
          findOracle, hex, hmax, hgt, hmod, hfit, hour, loop_scan0, hsa, hsc]
      · simp [TW.derive_session_event, deriveCode, discoverEvent, ackScan, stationCount, hlen, hlen36, hop, h0', hgen, hxid, hcnt, hz, hzi, hsrc, horacle,
          findOracle, hex, hmax, hgt, hmod, hfit, hour, loop_scan0, hsa, hsc]
    | some e =>
      obtain ⟨hm, h6, hs⟩ := existing_facts tbl _ _ e hwf hex
      obtain ⟨hr1, hr2'⟩ := entry_reads env img e (by omega) hm h6 hs
      have hr2 : (TW.mac_equal env (entryBytes e) (List.drop 24 (img ++ t))).ret = true := by
        have hd : 6 ≤ (List.drop 24 (img ++ t)).length := by rw [List.length_drop, List.length_append]; omega
        rw [mac_equal_eq env (entryBytes e) _ (by simp [entryBytes, h6]) hd, hsrc]
        have h1 : List.take 6 (entryBytes e) = e.mac := by simp [entryBytes, List.take_append, h6]
        rw [h1, hm]; simp
      by_cases hsc : (stationScan img 36 6 our ((img.length - 36) / 6) 0).1 = true <;> by_cases hq : e.seq = fSeq img
      all_goals simp [TW.derive_session_event, deriveCode, discoverEvent, ackScan, stationCount, hlen, hlen36, hop, h0', hgen, hxid, hcnt, hz, hzi, hsrc, horacle,
          findOracle, hex, hmax, hgt, hmod, hfit, hour, loop_scan0, hsa, hsc, hr1, hr2, hq, int_bne]
  · have hfit : 36 + unbe (slice img 34 2) * 6 ≤ img.length + t.length := by omega
    have hsa := stationScan_app img t our (unbe (slice img 34 2)) 0 (by omega)
    have hmod : True := trivial
    cases hex : existingOf tbl (fRealSrc img) (fDiscGen img) with
    | none =>
      by_cases hsc : (stationScan img 36 6 our (unbe (slice img 34 2)) 0).1 = true
      all_goals simp [TW.derive_session_event, deriveCode, discoverEvent, ackScan, stationCount, hlen, hlen36, hop, h0', hgen, hxid, hcnt, hz, hzi, hsrc, horacle,
          findOracle, hex, hmax, hgt, hmod, hfit, hour, loop_scan0, hsa, hsc]
    | some e =>
      obtain ⟨hm, h6, hs⟩ := existing_facts tbl _ _ e hwf hex
      obtain ⟨hr1, hr2'⟩ := entry_reads env img e (by omega) hm h6 hs
      have hr2 : (TW.mac_equal env (entryBytes e) (List.drop 24 (img ++ t))).ret = true := by
        have hd : 6 ≤ (List.drop 24 (img ++ t)).length := by rw [List.length_drop, List.length_append]; omega
        rw [mac_equal_eq env (entryBytes e) _ (by simp [entryBytes, h6]) hd, hsrc]
        have h1 : List.take 6 (entryBytes e) = e.mac := by simp [entryBytes, List.take_append, h6]
        rw [h1, hm]; simp
      by_cases hsc : (stationScan img 36 6 our (unbe (slice img 34 2)) 0).1 = true <;> by_cases hq : e.seq = fSeq img
      all_goals simp [TW.derive_session_event, deriveCode, discoverEvent, ackScan, stationCount, hlen, hlen36, hop, h0', hgen, hxid, hcnt, hz, hzi, hsrc, horacle,
          findOracle, hex, hmax, hgt, hmod, hfit, hour, loop_scan0, hsa, hsc, hr1, hr2, hq, int_bne]

theorem derive_tail_eq (env : TW.Env) (img t : List Nat) (tbl : Option Table) (our : Mac)
    (hb : isBytes img) (hl : img.length < 18446744073709551616) (hour : our.length = 6)
    (horacle : env.session_table_find = findOracle tbl) (hwf : TableWf tbl) :
    (TW.derive_session_event env (img ++ t) img.length [] our).ret = deriveCode img tbl (some our) := by
  by_cases hd : 32 ≤ img.length ∧ fOpcode img = X.opDiscover
  · by_cases h36 : img.length < 36
    · exact derive_tail_discover_short env img t tbl our hd.1 hd.2 h36
    · by_cases hz : unbe (slice img 34 2) = 0
      · exact derive_tail_discover_zero env img t tbl our hb hl hour horacle hwf hd.2 (by omega) hz
      · exact derive_tail_discover_scan env img t tbl our hb hl hour horacle hwf hd.2 (by omega) hz
  · exact derive_tail_other env img t tbl our hd

/-- **non-interference**: the frame bytes behind the length the callee was told have no influence on the event returned -/
theorem derive_tail_independent (env : TW.Env) (img t t' : List Nat) (tbl : Option Table) (our : Mac)
    (hb : isBytes img) (hl : img.length < 18446744073709551616) (hour : our.length = 6)
    (horacle : env.session_table_find = findOracle tbl) (hwf : TableWf tbl) :
    (TW.derive_session_event env (img ++ t) img.length [] our).ret = (TW.derive_session_event env (img ++ t') img.length [] our).ret := by
  rw [derive_tail_eq env img t tbl our hb hl hour horacle hwf, derive_tail_eq env img t' tbl our hb hl hour horacle hwf]

end LLTD.TEvEq
