/-
  `derive_session_event` of lltdAutomata.c AS TRANSLATED FROM THE C TEXT on every run (Generated/TranslatedWire.lean, byte-level memory
  model of tools/c2lean_wire.py: the frame is a region of bytes read through casts to the packed header structs) returns exactly the
  event code of the hand-written model (`Model/Event.lean`: `deriveCode`), which C11's theorems are about - for every frame image of
  bytes, every session table and every own address.  `session_table_find` is an oracle of the translation; it is instantiated with the
  model's lookup (which `TranslatedEq.session_table_find_eq` relates to the C function translated by tools/c2lean.py).  No Mathlib.
-/
import LLTD.Lemmas.TranslatedWireEq
import LLTD.Model.Event

namespace LLTD.TEvEq
open LLTD LLTD.CSem LLTD.TWEq

theorem int_beq (x y : Nat) : (((x : Int) == (y : Int)) : Bool) = decide (x = y) := by
  by_cases h : x = y
  · simp [h]
  · have : ¬ ((x : Int) = (y : Int)) := by omega
    simp [h, this]

/-- `mac_equal` as translated compares the first six bytes -/
theorem mac_equal_eq (env : TW.Env) (a b : List Nat) (ha : 6 ≤ a.length) (hb : 6 ≤ b.length) :
    (TW.mac_equal env a b).ret = (a.take 6 == b.take 6) := by
  match a, ha, b, hb with
  | a0 :: a1 :: a2 :: a3 :: a4 :: a5 :: ra, _, b0 :: b1 :: b2 :: b3 :: b4 :: b5 :: rb, _ =>
    simp only [TW.mac_equal]
    have k : ∀ x y : Nat, (x == y) = decide (x = y) := fun x y => by by_cases h : x = y <;> simp [h]
    simp [rd, unle, int_beq, Bool.and_assoc, k]

theorem slice_eq_rd (l : List Nat) (off n : Nat) : slice l off n = rd l off n := rfl

/-- a 16-bit field of the frame read through the packed struct and passed through `lltd_ntohs` is the big-endian value -/
theorem ntohs_rd (env : TW.Env) (img : List Nat) (off : Nat) (hb : isBytes img) (hl : off + 2 ≤ img.length) :
    (TW.lltd_ntohs env (unle (rd img off 2))).ret = unbe (slice img off 2) := by
  have hd : (img.drop off).length ≥ 2 := by rw [List.length_drop]; omega
  have hbd : isBytes (img.drop off) := fun x hx => hb x (List.mem_of_mem_drop hx)
  match hm : img.drop off, hd, hbd with
  | x0 :: x1 :: t, _, hbd =>
    have h0 : x0 < 256 := hbd x0 (by simp)
    have h1 : x1 < 256 := hbd x1 (by simp)
    have hv : unle (rd img off 2) = x0 + 256 * x1 := by simp [rd, hm, unle]
    have hs : slice img off 2 = [x0, x1] := by simp [slice, hm]
    rw [hv, hs]
    simp only [TW.lltd_ntohs, TW.lltd_htons, is_le]
    simp only [show ((1 : Int) != 0) = true from rfl, if_true, bswap16_val env (x0 + 256 * x1) (by omega)]
    unfold toU
    have p : ((2 ^ 16 : Nat) : Int) = 65536 := by decide
    rw [p]
    have e : ((x0 + 256 * x1) % 256 * 256 + (x0 + 256 * x1) / 256) = x0 * 256 + x1 := by omega
    rw [e]
    simp [unbe]
    omega

/-! ## The station-list loop -/

theorem loop_brk (env : TW.Env) (n a : Nat) (s : TW.derive_session_event.S) (h : s.brk = true) :
    loopRange a (a + n) (TW.derive_session_event.loop1 env) s = s := by
  induction n generalizing a with
  | zero => exact loopRange_empty _ _ _ _ (Nat.le_refl _)
  | succ n ih =>
    rw [loopRange_succ _ _ _ _ (by omega)]
    have hf : TW.derive_session_event.loop1 env a s = s := by simp [TW.derive_session_event.loop1, h]
    rw [hf]
    have : a + (n + 1) = (a + 1) + n := by omega
    rw [this]; exact ih (a + 1)

/-- one iteration: the comparison the C text makes is the model's comparison of the 6-byte slice -/
theorem loop1_step (env : TW.Env) (i : Nat) (s : TW.derive_session_event.S) (hb : s.brk = false) (hour : s.our_mac.length = 6)
    (hfit : 36 + i * 6 + 6 ≤ s.frame.length) :
    TW.derive_session_event.loop1 env i s =
      if slice s.frame (36 + i * 6) 6 == s.our_mac then { s with acking := true, brk := true } else s := by
  have hd : 6 ≤ (List.drop (36 + i * 6) s.frame).length := by rw [List.length_drop]; omega
  have ho : 6 ≤ (List.drop 0 s.our_mac).length := by simp [hour]
  have hm := mac_equal_eq env (List.drop (36 + i * 6) s.frame) (List.drop 0 s.our_mac) hd ho
  have ht : (List.drop 0 s.our_mac).take 6 = s.our_mac := by simp [List.take_of_length_le (Nat.le_of_eq hour)]
  have e36 : (((0 + 1 * 32) + 4) + i * 6) + 0 = 36 + i * 6 := by omega
  simp only [TW.derive_session_event.loop1, hb, Bool.false_eq_true, if_false, e36, hm, ht]
  have : (List.take 6 (List.drop (36 + i * 6) s.frame)) = slice s.frame (36 + i * 6) 6 := rfl
  rw [this]
  split <;> simp_all

theorem loop_scan (env : TW.Env) (n a : Nat) (s : TW.derive_session_event.S) (hb : s.brk = false) (hour : s.our_mac.length = 6)
    (hfit : 36 + (a + n) * 6 ≤ s.frame.length) :
    loopRange a (a + n) (TW.derive_session_event.loop1 env) s =
      if (stationScan s.frame 36 6 s.our_mac n a).1 then { s with acking := true, brk := true } else s := by
  induction n generalizing a with
  | zero => simp [stationScan, loopRange_empty]
  | succ n ih =>
    rw [loopRange_succ _ _ _ _ (by omega), loop1_step env a s hb hour (by omega)]
    have e : a + (n + 1) = (a + 1) + n := by omega
    by_cases hc : (slice s.frame (36 + a * 6) 6 == s.our_mac) = true
    · simp only [hc, if_true, stationScan]
      rw [e, loop_brk env n (a + 1) _ rfl]
    · simp only [hc, Bool.false_eq_true, if_false, stationScan]
      rw [e, ih (a + 1) (by omega)]

/-! ## The whole function -/

/-- the object representation of a session entry as far as `derive_session_event` reads it (address at 0, generation at 6,
    sequence number at 8; the remaining 22 bytes are not read and left out of the model) -/
def entryBytes (e : Entry) : List Nat := e.mac ++ (le 2 e.gen ++ (le 2 e.seq ++ List.replicate 22 0))

/-- `session_table_find` as the model has it: the first valid slot with this (address, generation) -/
def findOracle (tbl : Option Table) : List Nat → Nat → Nat → Option (List Nat) :=
  fun m g _ => (existingOf tbl (m.take 6) g).map entryBytes

theorem unle_rd1 (img : List Nat) (off : Nat) (h : off < img.length) : unle (rd img off 1) = byteAt img off := by
  have hd : (img.drop off).length ≥ 1 := by rw [List.length_drop]; omega
  match hm : img.drop off, hd with
  | x :: t, _ =>
    have h1 : (img.drop off)[0]? = img[off + 0]? := List.getElem?_drop
    rw [hm] at h1
    have h2 : img[off]? = some x := by simpa using h1.symm
    simp [rd, hm, unle, byteAt, List.getD, h2]

theorem int_bne (x y : Nat) : (((x : Int) != (y : Int)) : Bool) = (x != y) := by
  unfold bne
  rw [int_beq]
  by_cases h : x = y <;> simp [h]

theorem bcast_bytes : ((le 1 255) ++ (le 1 255) ++ (le 1 255) ++ (le 1 255) ++ (le 1 255) ++ (le 1 255)) = bcast := by decide

/-- everything but a Discover: too short, Reset (topology-wide or not), Hello, any other opcode -/
theorem derive_other_eq (env : TW.Env) (img : List Nat) (tbl : Option Table) (our : Mac)
    (hnd : ¬ (32 ≤ img.length ∧ fOpcode img = X.opDiscover)) :
    (TW.derive_session_event env img img.length [] our).ret = deriveCode img tbl (some our) := by
  by_cases hlen : img.length < 32
  · simp [TW.derive_session_event, deriveCode, hlen]
  · have h32 : 32 ≤ img.length := by omega
    have hop : unle (rd img (0 + 17) 1) = fOpcode img := by
      rw [Nat.zero_add, unle_rd1 img 17 (by omega)]; simp [fOpcode]
    have hne : fOpcode img ≠ 0 := fun h => hnd ⟨h32, by simpa using h⟩
    have hd18 : 6 ≤ (List.drop 18 img).length := by rw [List.length_drop]; omega
    have hm := mac_equal_eq env (List.drop 18 img) [255, 255, 255, 255, 255, 255] hd18 (by decide)
    have hsl : List.take 6 (List.drop 18 img) = fRealDst img := by simp [fRealDst, slice]
    have htb : List.take 6 [255, 255, 255, 255, 255, 255] = bcast := by decide
    rw [hsl, htb] at hm
    by_cases h8 : fOpcode img = 8
    · by_cases hbc : (fRealDst img == bcast) = true
      · simp [TW.derive_session_event, deriveCode, hlen, hop, h8, int_beq, bcast_bytes, hm, hbc]
      · simp [TW.derive_session_event, deriveCode, hlen, hop, h8, int_beq, bcast_bytes, hm, hbc]
    · by_cases h1 : fOpcode img = 1
      · simp [TW.derive_session_event, deriveCode, hlen, hop, h1, int_beq]
      · have h8i : ¬ ((fOpcode img : Int) = 8) := by omega
        have h1i : ¬ ((fOpcode img : Int) = 1) := by omega
        have h0i : ¬ ((fOpcode img : Int) = 0) := by omega
        simp [TW.derive_session_event, deriveCode, hlen, hop, h1, h8, hne, h8i, h1i, h0i]

end LLTD.TEvEq
