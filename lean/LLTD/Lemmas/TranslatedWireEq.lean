/-
  The byte writers of lltdWire.c / lltdTlvOps.c / lltdEndian.h AS TRANSLATED FROM THE C TEXT on every run
  (Generated/TranslatedWire.lean, tools/c2lean_wire.py) write exactly the bytes the hand-written model builds by
  concatenation (Model/Block.lean: `lltdHeader`, `helloHeader`, `tlv…`) - for EVERY buffer with room, every offset,
  every value in the range of its C type and every behaviour of the port getters.  The property theorems about the
  model (C02 well-formedness, C03 Hello content, C04 attribute round trip) are thereby theorems about what these C
  functions store.  No Mathlib.
-/
import LLTD.Generated.TranslatedWire
import LLTD.Model.Block
import LLTD.Lemmas.XVals
import LLTD.Lemmas.Bytes
import LLTD.Lemmas.Hello

namespace LLTD.TWEq
open LLTD LLTD.CSem

/-! ## Memory lemmas -/

theorem wr_off (pre l bs : List Nat) (k : Nat) : wr (pre ++ l) (pre.length + k) bs = pre ++ wr l k bs := by
  unfold wr
  have h1 : List.take (pre.length + k) pre = pre := List.take_of_length_le (by omega)
  have h2 : List.drop (pre.length + k + bs.length) pre = [] := List.drop_eq_nil_of_le (by omega)
  simp [List.take_append, List.drop_append, h1, h2]
  omega

theorem wr_off0 (pre l bs : List Nat) : wr (pre ++ l) pre.length bs = pre ++ wr l 0 bs := by
  simpa using wr_off pre l bs 0

@[simp] theorem wr_zero_one (a w : Nat) (l : List Nat) : wr (w :: l) 0 [a] = a :: l := by simp [wr]
@[simp] theorem wr_one_one (a w0 w1 : Nat) (l : List Nat) : wr (w0 :: w1 :: l) 1 [a] = w0 :: a :: l := by simp [wr]
@[simp] theorem wr_two (w0 w1 : Nat) (l bs : List Nat) : wr (w0 :: w1 :: l) 2 bs = w0 :: w1 :: (bs ++ l.drop bs.length) := by
  have : List.drop (2 + bs.length) (w0 :: w1 :: l) = List.drop bs.length l := by rw [Nat.add_comm]; rfl
  simp [wr, this]
@[simp] theorem wr_zero (l bs : List Nat) : wr l 0 bs = bs ++ l.drop bs.length := by simp [wr]

theorem rd_zero_all (l : List Nat) (n : Nat) (h : l.length = n) : rd l 0 n = l := by
  simp [rd, ← h]

@[simp] theorem le_one (v : Nat) : le 1 v = [v % 256] := rfl
theorem le_length (n v : Nat) : (le n v).length = n := by
  induction n generalizing v with
  | zero => rfl
  | succ n ih => simp [le, ih]

theorem unle_le (n v : Nat) (h : v < 256 ^ n) : unle (le n v) = v := by
  induction n generalizing v with
  | zero => simp [le, unle]; omega
  | succ n ih =>
    have : v / 256 < 256 ^ n := by
      rw [Nat.pow_succ] at h
      exact Nat.div_lt_of_lt_mul (by rw [Nat.mul_comm]; exact h)
    simp [le, unle, ih _ this]; omega

theorem int_beq (x y : Nat) : (((x : Int) == (y : Int)) : Bool) = decide (x = y) := by
  by_cases h : x = y
  · simp [h]
  · have : ¬ ((x : Int) = (y : Int)) := by omega
    simp [h, this]

theorem unle_rd1 (img : List Nat) (off : Nat) (h : off < img.length) : unle (rd img off 1) = byteAt img off := by
  have hd : (img.drop off).length ≥ 1 := by rw [List.length_drop]; omega
  match hm : img.drop off, hd with
  | x :: t, _ =>
    have h1 : (img.drop off)[0]? = img[off + 0]? := List.getElem?_drop
    rw [hm] at h1
    have h2 : img[off]? = some x := by simpa using h1.symm
    simp [rd, hm, unle, byteAt, List.getD, h2]

/-! ## Byte order: `lltd_htons` / `lltd_htonl` as translated store the big-endian bytes of the model -/

theorem and_mask (v k : Nat) : v &&& (255 <<< k) = ((v >>> k) % 256) <<< k := by
  apply Nat.eq_of_testBit_eq
  intro i
  simp only [Nat.testBit_and, Nat.testBit_shiftLeft, Nat.testBit_shiftRight, Nat.testBit_mod_two_pow, show (256:Nat) = 2^8 from rfl,
    show (255:Nat) = 2^8 - 1 from rfl, Nat.testBit_two_pow_sub_one]
  by_cases h : k ≤ i
  · simp [h]
    by_cases h2 : i - k < 8
    · simp [h2]
    · simp [h2]
  · simp [h]

theorem or_add (a b : Nat) (i : Nat) (h : b < 2 ^ i) : a * 2 ^ i ||| b = a * 2 ^ i + b := by
  rw [← Nat.shiftLeft_eq]; exact (Nat.shiftLeft_add_eq_or_of_lt h a).symm

theorem is_le (env : TW.Env) : (TW.lltd_is_little_endian env).ret = 1 := by
  simp only [TW.lltd_is_little_endian]; decide

theorem bswap16_val (env : TW.Env) (v : Nat) (h : v < 65536) : (TW.lltd_bswap16 env v).ret = (v % 256) * 256 + v / 256 := by
  simp only [TW.lltd_bswap16]
  have e1 : Int.toNat ((v : Int) * ((2 ^ (Int.toNat (8 : Int)) : Nat) : Int)) = v * 256 := by
    have : (2 ^ (Int.toNat (8 : Int)) : Nat) = 256 := by decide
    rw [this]; omega
  have e2 : Int.toNat ((v : Int) / ((2 ^ (Int.toNat (8 : Int)) : Nat) : Int)) = v / 256 := by
    have : (2 ^ (Int.toNat (8 : Int)) : Nat) = 256 := by decide
    rw [this]; omega
  rw [e1, e2]
  have e3 : v * 256 ||| v / 256 = v * 256 + v / 256 := or_add v (v / 256) 8 (by omega)
  rw [e3]
  unfold toU
  have : ((2 ^ 16 : Nat) : Int) = 65536 := by decide
  rw [this]; omega

theorem le2_swap (v : Nat) (h : v < 65536) : le 2 ((v % 256) * 256 + v / 256) = be 2 v := by
  simp only [le, be, List.nil_append, List.cons_append, List.cons.injEq, and_true]
  have hb : v / 256 < 256 := by omega
  have hq : (v % 256 * 256 + v / 256) / 256 = v % 256 := by omega
  refine ⟨by omega, by rw [hq]; omega⟩

theorem htons_bytes (env : TW.Env) (v : Nat) (h : v < 65536) : le 2 (TW.lltd_htons env v).ret = be 2 v := by
  simp only [TW.lltd_htons, is_le]
  simp only [show ((1 : Int) != 0) = true from rfl, if_true, bswap16_val env v h]
  unfold toU
  have : ((2 ^ 16 : Nat) : Int) = 65536 := by decide
  rw [this]
  have e : Int.toNat ((((v % 256) * 256 + v / 256 : Nat) : Int) % 65536) = (v % 256) * 256 + v / 256 := by omega
  rw [e]
  exact le2_swap v h

set_option maxRecDepth 20000 in
theorem bswap32_val (env : TW.Env) (v : Nat) (h : v < 4294967296) :
    (TW.lltd_bswap32 env v).ret = (v % 256) * 16777216 + (v / 256 % 256) * 65536 + (v / 65536 % 256) * 256 + v / 16777216 := by
  simp only [TW.lltd_bswap32]
  have t24 : Int.toNat (24 : Int) = 24 := by decide
  have t8 : Int.toNat (8 : Int) = 8 := by decide
  rw [t24, t8]
  have m0 : v &&& 255 = v % 256 := by simpa using and_mask v 0
  have m1 : v &&& 65280 = (v / 256 % 256) * 256 := by
    have := and_mask v 8; simpa [Nat.shiftLeft_eq, Nat.shiftRight_eq_div_pow] using this
  have m2 : v &&& 16711680 = (v / 65536 % 256) * 65536 := by
    have := and_mask v 16; simpa [Nat.shiftLeft_eq, Nat.shiftRight_eq_div_pow] using this
  have m3 : v &&& 4278190080 = (v / 16777216 % 256) * 16777216 := by
    have := and_mask v 24; simpa [Nat.shiftLeft_eq, Nat.shiftRight_eq_div_pow] using this
  rw [m0, m1, m2, m3]
  have p8 : (2 : Nat) ^ 8 = 256 := by rfl
  have p16 : (2 : Nat) ^ 16 = 65536 := by rfl
  have p24 : (2 : Nat) ^ 24 = 16777216 := by rfl
  simp only [Nat.shiftLeft_eq, Nat.shiftRight_eq_div_pow, p8, p24]
  have a : (v % 256 * 16777216) % 4294967296 = (v % 256) * 16777216 := by omega
  have b : (v / 256 % 256 * 256 * 256) % 4294967296 = (v / 256 % 256) * 65536 := by omega
  have c : (v / 65536 % 256 * 65536) / 256 = (v / 65536 % 256) * 256 := by omega
  have hb3 : v / 16777216 < 256 := by omega
  have d : (v / 16777216 % 256 * 16777216) / 16777216 = v / 16777216 := by
    rw [Nat.mul_div_cancel _ (by decide : 0 < 16777216), Nat.mod_eq_of_lt hb3]
  rw [a, b, c, d]
  have o1 := or_add (v / 65536 % 256) (v / 16777216) 8 (by rw [p8]; exact hb3)
  have o2 := or_add (v / 256 % 256) ((v / 65536 % 256) * 256 + v / 16777216) 16 (by rw [p16]; omega)
  have o3 := or_add (v % 256) ((v / 256 % 256) * 65536 + ((v / 65536 % 256) * 256 + v / 16777216)) 24 (by rw [p24]; omega)
  rw [p8] at o1; rw [p16] at o2; rw [p24] at o3
  rw [Nat.or_assoc, Nat.or_assoc, o1, o2, o3]
  omega

theorem le4_bytes (b0 b1 b2 b3 : Nat) (h0 : b0 < 256) (h1 : b1 < 256) (h2 : b2 < 256) (h3 : b3 < 256) :
    le 4 (b0 * 16777216 + b1 * 65536 + b2 * 256 + b3) = [b3, b2, b1, b0] := by
  have e : b0 * 16777216 + b1 * 65536 + b2 * 256 + b3 = b3 + 256 * (b2 + 256 * (b1 + 256 * b0)) := by omega
  rw [e]
  simp only [le, Nat.add_mul_div_left _ _ (by decide : 0 < 256), Nat.add_mul_mod_self_left, Nat.mod_eq_of_lt h0, Nat.mod_eq_of_lt h1,
    Nat.mod_eq_of_lt h2, Nat.mod_eq_of_lt h3, Nat.div_eq_of_lt h1, Nat.div_eq_of_lt h2, Nat.div_eq_of_lt h3, Nat.zero_add]

theorem be4_bytes (v : Nat) : be 4 v = [v / 16777216 % 256, v / 65536 % 256, v / 256 % 256, v % 256] := by
  simp only [be, List.nil_append, List.cons_append, Nat.div_div_eq_div_mul]

theorem le4_swap (v : Nat) (h : v < 4294967296) :
    le 4 ((v % 256) * 16777216 + (v / 256 % 256) * 65536 + (v / 65536 % 256) * 256 + v / 16777216) = be 4 v := by
  have hb3 : v / 16777216 < 256 := by omega
  rw [le4_bytes _ _ _ _ (Nat.mod_lt _ (by decide)) (Nat.mod_lt _ (by decide)) (Nat.mod_lt _ (by decide)) hb3, be4_bytes,
    Nat.mod_eq_of_lt hb3]

theorem htonl_bytes (env : TW.Env) (v : Nat) (h : v < 4294967296) : le 4 (TW.lltd_htonl env v).ret = be 4 v := by
  simp only [TW.lltd_htonl, is_le]
  simp only [show ((1 : Int) != 0) = true from rfl, if_true, bswap32_val env v h]
  exact le4_swap v h

/-! ## lltdWire.c -/

theorem wr_skip (x l bs : List Nat) (k : Nat) (h : x.length ≤ k) : wr (x ++ l) k bs = x ++ wr l (k - x.length) bs := by
  have := wr_off x l bs (k - x.length)
  rwa [Nat.add_sub_cancel' h] at this

theorem wr_here (m b bs : List Nat) (h : m.length = bs.length) : wr (m ++ b) 0 bs = bs ++ b := by
  simp [wr, h]

theorem wr_skip_cons (a : Nat) (l bs : List Nat) (k : Nat) (h : 1 ≤ k) : wr (a :: l) k bs = a :: wr l (k - 1) bs := by
  have := wr_skip [a] l bs k (by simpa using h)
  simpa using this

theorem setHelloHeader_eq (env : TW.Env) (pre g c a rest app cur : List Nat) (gen : Nat)
    (hg : g.length = 2) (hc : c.length = 6) (ha : a.length = 6) (happ : app.length = 6) (hcur : cur.length = 6) (hgen : gen < 65536) :
    (TW.setHelloHeader env (pre ++ (g ++ (c ++ (a ++ rest)))) pre.length app cur gen).buffer = pre ++ (helloHeader gen cur app ++ rest)
    ∧ (TW.setHelloHeader env (pre ++ (g ++ (c ++ (a ++ rest)))) pre.length app cur gen).ret = 14 := by
  simp only [TW.setHelloHeader, Nat.zero_add, htons_bytes env gen hgen, rd_zero_all _ 6 happ, rd_zero_all _ 6 hcur, wr_off, wr_off0]
  have hbe : (be 2 gen).length = 2 := be_length 2 gen
  simp (disch := omega) only [wr_skip, wr_here, hg, hc, ha, Nat.sub_self, Nat.reduceSub, helloHeader, List.append_assoc, and_self]

theorem setLltdHeaderEx_eq (env : TW.Env) (d s e v t o rd' rs' q rest es ed rs rd : List Nat) (r seq op tos : Nat)
    (hd : d.length = 6) (hs : s.length = 6) (he : e.length = 2) (hv : v.length = 1) (ht : t.length = 1) (ho : o.length = 1)
    (hrd' : rd'.length = 6) (hrs' : rs'.length = 6) (hq : q.length = 2)
    (hes : es.length = 6) (hed : ed.length = 6) (hrs : rs.length = 6) (hrd : rd.length = 6)
    (hseq : seq < 65536) (hop : op < 256) (htos : tos < 256) :
    (TW.setLltdHeaderEx env (d ++ (s ++ (e ++ (v ++ (t ++ ([r] ++ (o ++ (rd' ++ (rs' ++ (q ++ rest)))))))))) es ed rs rd seq op tos).buffer
      = lltdHeader r ed es rd rs seq op tos ++ rest
    ∧ (TW.setLltdHeaderEx env (d ++ (s ++ (e ++ (v ++ (t ++ ([r] ++ (o ++ (rd' ++ (rs' ++ (q ++ rest)))))))))) es ed rs rd seq op tos).ret = 32 := by
  simp only [TW.setLltdHeaderEx, Nat.zero_add, htons_bytes env seq hseq, htons_bytes env 35033 (by decide), rd_zero_all _ 6 hes, rd_zero_all _ 6 hed,
    rd_zero_all _ 6 hrs, rd_zero_all _ 6 hrd, le_one, Nat.mod_eq_of_lt hop, Nat.mod_eq_of_lt htos]
  have hbe : (be 2 seq).length = 2 := be_length 2 seq
  have hbe' : (be 2 35033).length = 2 := be_length 2 35033
  have h1 : ([r] : List Nat).length = 1 := rfl
  simp (disch := (first | omega | simp [*])) only [wr_skip, wr_skip_cons, wr_zero_one, wr_here, hd, hs, he, hv, ht, ho, hrd', hrs', hq, hes, hed, hrs, hrd, hbe, hbe', h1,
    List.length_singleton, List.length_cons, List.length_nil, Nat.sub_self, Nat.reduceSub, Nat.reduceAdd, lltdHeader, X.etherType_val,
    List.append_assoc, List.cons_append, List.nil_append, List.singleton_append, and_self, Nat.mod_eq_of_lt]


theorem setLltdHeader_eq (env : TW.Env) (d s e v t o rd' rs' q rest src dst : List Nat) (r seq op tos : Nat)
    (hd : d.length = 6) (hs : s.length = 6) (he : e.length = 2) (hv : v.length = 1) (ht : t.length = 1) (ho : o.length = 1)
    (hrd' : rd'.length = 6) (hrs' : rs'.length = 6) (hq : q.length = 2)
    (hsrc : src.length = 6) (hdst : dst.length = 6)
    (hseq : seq < 65536) (hop : op < 256) (htos : tos < 256) :
    (TW.setLltdHeader env (d ++ (s ++ (e ++ (v ++ (t ++ ([r] ++ (o ++ (rd' ++ (rs' ++ (q ++ rest)))))))))) src dst seq op tos).buffer
      = lltdHeader r dst src dst src seq op tos ++ rest
    ∧ (TW.setLltdHeader env (d ++ (s ++ (e ++ (v ++ (t ++ ([r] ++ (o ++ (rd' ++ (rs' ++ (q ++ rest)))))))))) src dst seq op tos).ret = 32 := by
  simp only [TW.setLltdHeader, Nat.zero_add, htons_bytes env seq hseq, htons_bytes env 35033 (by decide), rd_zero_all _ 6 hsrc, rd_zero_all _ 6 hdst,
    le_one, Nat.mod_eq_of_lt hop, Nat.mod_eq_of_lt htos]
  have hbe : (be 2 seq).length = 2 := be_length 2 seq
  have hbe' : (be 2 35033).length = 2 := be_length 2 35033
  have h1 : ([r] : List Nat).length = 1 := rfl
  simp (disch := (first | omega | simp [*])) only [wr_skip, wr_skip_cons, wr_zero_one, wr_here, hd, hs, he, hv, ht, ho, hrd', hrs', hq, hsrc, hdst, hbe, hbe', h1,
    List.length_singleton, List.length_cons, List.length_nil, Nat.sub_self, Nat.reduceSub, Nat.reduceAdd, lltdHeader, X.etherType_val,
    List.append_assoc, List.cons_append, List.nil_append, List.singleton_append, and_self, Nat.mod_eq_of_lt]

/-- the hypotheses are satisfiable: a zeroed 40-byte buffer is such a concatenation, and the translated function stores the model's header in it -/
example (env : TW.Env) :
    (TW.setLltdHeaderEx env (List.replicate 40 0) [2,0,0,0,0,1] [255,255,255,255,255,255] [2,0,0,0,0,1] [255,255,255,255,255,255] 0 1 0).buffer
      = lltdHeader 0 [255,255,255,255,255,255] [2,0,0,0,0,1] [255,255,255,255,255,255] [2,0,0,0,0,1] 0 1 0 ++ List.replicate 8 0 :=
  (setLltdHeaderEx_eq env (List.replicate 6 0) (List.replicate 6 0) [0,0] [0] [0] [0] (List.replicate 6 0) (List.replicate 6 0) [0,0]
    (List.replicate 8 0) _ _ _ _ 0 0 1 0 rfl rfl rfl rfl rfl rfl rfl rfl rfl rfl rfl rfl rfl (by decide) (by decide) (by decide)).1

/-! ## lltdTlvOps.c: the port as the model's attribute record describes it -/

/-- the getters' behaviour for an attribute record `c` / process-wide data `g` (what harness/vport.c does): a failing getter stores
    nothing and returns non-zero, a succeeding one stores the object representation of the value; getters the Hello does not use keep
    the behaviour of `base` -/
def envOf (c : Cfg) (g : Glob) (base : TW.Env) : TW.Env :=
  { base with
    get_mac_address := { retI := if c.failMac then -1 else 0, out := if c.failMac then [] else c.mac }
    get_characteristics_flags := { retN := c.flags }
    get_if_type := { retI := if c.failIfType then -1 else 0, out := if c.failIfType then [] else le 4 c.iftype }
    get_ipv4_address := { retI := if c.failIpv4 then -1 else 0, out := if c.failIpv4 then [] else c.ipv4 }
    get_ipv6_address := { retI := if c.failIpv6 then -1 else 0, out := if c.failIpv6 then [] else c.ipv6 }
    get_link_speed_100bps := { retI := if c.failSpeed then -1 else 0, out := if c.failSpeed then [] else le 4 c.speed }
    get_hostname := { retN := if g.hostFull then g.host.length else (g.host.take 32).length, out := g.host }
    get_wifi_mode := { retI := if c.wifi then 0 else -1, out := if c.wifi then [c.mode] else [] }
    get_bssid := { retI := if c.failBssid then -1 else 0, out := if c.failBssid then [] else c.bssid }
    get_ssid := { retN := if c.ssidFull then c.ssid.length else (c.ssid.take 32).length, out := c.ssid }
    get_wifi_max_rate_0_5mbps := { retI := if c.failRate then -1 else 0, out := if c.failRate then [] else le 2 c.rate }
    get_wifi_rssi_dbm := { retI := if c.failRssi then -1 else 0, out := if c.failRssi then [] else [toU 8 c.rssi] } }

theorem wr_full (l bs : List Nat) (h : l.length = bs.length) : wr l 0 bs = bs := by simp [wr, ← h]

theorem le_unle (l : List Nat) (hb : isBytes l) : le l.length (unle l) = l := by
  induction l with
  | nil => rfl
  | cons b bs ih =>
    have hb0 : b < 256 := hb b (by simp)
    have hbs : isBytes bs := fun x hx => hb x (by simp [hx])
    simp only [List.length_cons, le, unle]
    have e1 : (b + 256 * unle bs) % 256 = b := by omega
    have e2 : (b + 256 * unle bs) / 256 = unle bs := by omega
    rw [e1, e2, ih hbs]

theorem take_le (n v : Nat) : (le n v).take n = le n v := List.take_of_length_le (by rw [le_length]; exact Nat.le_refl n)

/-- a scalar output parameter the port fills with the object representation of `v` -/
theorem scalar_ok (n v : Nat) (h : v < 256 ^ n) : unle (wr (le n 0) 0 ((le n v).take n)) = v := by
  rw [take_le, wr_full _ _ (by simp [le_length]), unle_le n v h]

theorem scalar_fail4 : unle (wr (le 4 0) 0 (([] : List Nat).take 4)) = 0 := by decide
theorem scalar_fail2 : unle (wr (le 2 0) 0 (([] : List Nat).take 2)) = 0 := by decide

theorem rd_be (n v : Nat) : rd (be n v) 0 n = be n v := rd_zero_all _ n (be_length n v)
theorem rd_le (n v : Nat) : rd (le n v) 0 n = le n v := rd_zero_all _ n (le_length n v)

section tlvs
variable (base : TW.Env) (c : Cfg) (g : Glob) (pre rest : List Nat) (w0 w1 : Nat)

theorem setHostIdTLV_eq (hc : CfgOk c) :
    (TW.setHostIdTLV (envOf c g base) (pre ++ w0 :: w1 :: rest) pre.length).buffer = pre ++ (tlvHostId c ++ rest.drop 6)
    ∧ (TW.setHostIdTLV (envOf c g base) (pre ++ w0 :: w1 :: rest) pre.length).ret = 8 := by
  have hm := ourMac_length c hc
  have hmac : wr [0, 0, 0, 0, 0, 0] 0 ((if c.failMac = true then [] else c.mac).take 6) = c.ourMac := by
    unfold Cfg.ourMac
    split
    · decide
    · rw [List.take_of_length_le (by rw [hc.mac6]; exact Nat.le_refl 6)]; exact wr_full _ _ (by simp [hc.mac6])
  simp only [TW.setHostIdTLV, envOf, Nat.zero_add, Nat.add_zero, le_one, wr_off, wr_off0, List.cons_append, List.nil_append, hmac,
    rd_zero_all _ 6 hm, wr_zero_one, wr_one_one, wr_two, tlvHostId, tlv, hm, X.tlvHostId_val]
  simp

theorem setCharacteristicsTLV_eq :
    (TW.setCharacteristicsTLV (envOf c g base) (pre ++ w0 :: w1 :: rest) pre.length).buffer = pre ++ (tlvCharacteristics c ++ rest.drop 4)
    ∧ (TW.setCharacteristicsTLV (envOf c g base) (pre ++ w0 :: w1 :: rest) pre.length).ret = 6 := by
  have hv : ((c.flags % 4294967296) <<< (Int.toNat (16 : Int))) % 4294967296 = (c.flags * 65536) % u32 := by
    have : Int.toNat (16 : Int) = 16 := by decide
    rw [this, Nat.shiftLeft_eq]; unfold u32
    have p : (2 : Nat) ^ 16 = 65536 := by rfl
    rw [p]; omega
  have hlt : (c.flags * 65536) % u32 < 4294967296 := Nat.mod_lt _ (by decide)
  simp only [TW.setCharacteristicsTLV, envOf, Nat.zero_add, Nat.add_zero, le_one, wr_off, wr_off0, hv, htonl_bytes _ _ hlt,
    rd_be, wr_zero_one, wr_one_one, wr_two, tlvCharacteristics, tlv, be_length, X.tlvCharacteristics_val]
  simp

theorem u32_scalar (fail : Bool) (v : Nat) (hv : v < u32) :
    unle (wr (le 4 0) 0 ((if fail = true then [] else le 4 v).take 4)) = (if fail = true then 0 else v) := by
  cases fail
  · simp only [Bool.false_eq_true, if_false]; exact scalar_ok 4 v (by unfold u32 at hv; omega)
  · simp only [if_true]; exact scalar_fail4

theorem setPhysicalMediumTLV_eq (hr : c.iftype < u32) :
    (TW.setPhysicalMediumTLV (envOf c g base) (pre ++ w0 :: w1 :: rest) pre.length).buffer = pre ++ (tlvIfType c ++ rest.drop 4)
    ∧ (TW.setPhysicalMediumTLV (envOf c g base) (pre ++ w0 :: w1 :: rest) pre.length).ret = 6 := by
  have hlt : (if c.failIfType = true then 0 else c.iftype) < 4294967296 := by
    split
    · decide
    · unfold u32 at hr; exact hr
  simp only [TW.setPhysicalMediumTLV, envOf, Nat.zero_add, Nat.add_zero, le_one, wr_off, wr_off0, u32_scalar _ _ hr, htonl_bytes _ _ hlt,
    rd_be, wr_zero_one, wr_one_one, wr_two, tlvIfType, tlv, be_length, X.tlvIfType_val]
  simp

theorem setLinkSpeedTLV_eq (hr : c.speed < u32) :
    (TW.setLinkSpeedTLV (envOf c g base) (pre ++ w0 :: w1 :: rest) pre.length).buffer = pre ++ (tlvSpeed c ++ rest.drop 4)
    ∧ (TW.setLinkSpeedTLV (envOf c g base) (pre ++ w0 :: w1 :: rest) pre.length).ret = 6 := by
  have hlt : (if c.failSpeed = true then 0 else c.speed) < 4294967296 := by
    split
    · decide
    · unfold u32 at hr; exact hr
  simp only [TW.setLinkSpeedTLV, envOf, Nat.zero_add, Nat.add_zero, le_one, wr_off, wr_off0, u32_scalar _ _ hr, htonl_bytes _ _ hlt,
    rd_be, wr_zero_one, wr_one_one, wr_two, tlvSpeed, tlv, be_length, X.tlvLinkSpeed_val]
  simp

theorem setIPv4TLV_eq (hc : CfgOk c) (hb : isBytes c.ipv4) :
    (TW.setIPv4TLV (envOf c g base) (pre ++ w0 :: w1 :: rest) pre.length).buffer = pre ++ (tlvIpv4 c ++ rest.drop 4)
    ∧ (TW.setIPv4TLV (envOf c g base) (pre ++ w0 :: w1 :: rest) pre.length).ret = 6 := by
  have hv : le 4 (unle (wr (le 4 0) 0 ((if c.failIpv4 = true then [] else c.ipv4).take 4))) = (if c.failIpv4 = true then zeros 4 else c.ipv4) := by
    split
    · decide
    · rw [List.take_of_length_le (by rw [hc.ipv4]; exact Nat.le_refl 4), wr_full _ _ (by simp [le_length, hc.ipv4])]
      have := le_unle c.ipv4 hb
      rwa [hc.ipv4] at this
  have hl : (if c.failIpv4 = true then zeros 4 else c.ipv4).length = 4 := by
    split
    · rfl
    · exact hc.ipv4
  simp only [TW.setIPv4TLV, envOf, Nat.zero_add, Nat.add_zero, le_one, wr_off, wr_off0, hv, rd_zero_all _ 4 hl,
    wr_zero_one, wr_one_one, wr_two, tlvIpv4, tlv, hl, X.tlvIpv4_val]
  simp

theorem setIPv6TLV_eq (hc : CfgOk c) :
    (TW.setIPv6TLV (envOf c g base) (pre ++ w0 :: w1 :: rest) pre.length).buffer = pre ++ (tlvIpv6 c ++ rest.drop 16)
    ∧ (TW.setIPv6TLV (envOf c g base) (pre ++ w0 :: w1 :: rest) pre.length).ret = 18 := by
  have hz : wr (base.uninit 16) 0 (List.replicate 16 ((toU 8 (0 : Int)) % 256)) = List.replicate 16 0 ++ (base.uninit 16).drop 16 := by
    have : (toU 8 (0 : Int)) % 256 = 0 := by decide
    rw [this]; simp [wr]
  have hv : rd (wr (List.replicate 16 0 ++ (base.uninit 16).drop 16) 0 ((if c.failIpv6 = true then [] else c.ipv6).take 16)) 0 16
      = (if c.failIpv6 = true then zeros 16 else c.ipv6) := by
    split
    · simp [wr, rd, zeros]
    · rw [List.take_of_length_le (by rw [hc.ipv6]; exact Nat.le_refl 16)]
      simp [wr, rd, hc.ipv6]
  have hl : (if c.failIpv6 = true then zeros 16 else c.ipv6).length = 16 := by
    split
    · rfl
    · exact hc.ipv6
  simp only [TW.setIPv6TLV, envOf, Nat.zero_add, Nat.add_zero, le_one, wr_off, wr_off0, hz, hv,
    wr_zero_one, wr_one_one, wr_two, tlvIpv6, tlv, hl, X.tlvIpv6_val]
  simp

theorem setPerfCounterTLV_eq (hun : 8 ≤ (base.uninit 8).length) :
    (TW.setPerfCounterTLV base (pre ++ w0 :: w1 :: rest) pre.length).buffer = pre ++ (tlvPerf ++ rest.drop 8)
    ∧ (TW.setPerfCounterTLV base (pre ++ w0 :: w1 :: rest) pre.length).ret = 10 := by
  have hb : ∀ u : List Nat, 8 ≤ u.length →
      rd (wr (wr (wr (wr (wr (wr (wr (wr u (0 + 0) (le 1 (((1000000 >>> (Int.toNat (56 : Int))) &&& 255) % 256))) (0 + 1)
        (le 1 (((1000000 >>> (Int.toNat (48 : Int))) &&& 255) % 256))) (0 + 2) (le 1 (((1000000 >>> (Int.toNat (40 : Int))) &&& 255) % 256))) (0 + 3)
        (le 1 (((1000000 >>> (Int.toNat (32 : Int))) &&& 255) % 256))) (0 + 4) (le 1 (((1000000 >>> (Int.toNat (24 : Int))) &&& 255) % 256))) (0 + 5)
        (le 1 (((1000000 >>> (Int.toNat (16 : Int))) &&& 255) % 256))) (0 + 6) (le 1 (((1000000 >>> (Int.toNat (8 : Int))) &&& 255) % 256))) (0 + 7)
        (le 1 ((1000000 &&& 255) % 256))) 0 8 = be 8 1000000 := by
    intro u hu
    match u, hu with
    | a0 :: a1 :: a2 :: a3 :: a4 :: a5 :: a6 :: a7 :: t, _ => simp [wr, rd]; decide
  simp only [TW.setPerfCounterTLV, Nat.zero_add, Nat.add_zero, le_one, wr_off, wr_off0]
  simp only [Nat.zero_add, Nat.add_zero, le_one] at hb
  simp only [hb _ hun, wr_zero_one, wr_one_one, wr_two, tlvPerf, tlv, be_length, X.tlvPerfCounter_val]
  simp

/-- the string TLVs for ANY behaviour of the getter: type, then as length byte min(returned, cap), then whatever the port stored -/
theorem setHostnameTLV_gen (env : TW.Env) :
    (TW.setHostnameTLV env (pre ++ w0 :: w1 :: rest) pre.length).buffer
      = pre ++ (15 :: (min (env.get_hostname.retN % 18446744073709551616) 32) ::
          (env.get_hostname.out.take 32 ++ rest.drop (env.get_hostname.out.take 32).length))
    ∧ (TW.setHostnameTLV env (pre ++ w0 :: w1 :: rest) pre.length).ret = 2 + min (env.get_hostname.retN % 18446744073709551616) 32 := by
  by_cases hx : env.get_hostname.retN % 18446744073709551616 > 32
  · have e : min (env.get_hostname.retN % 18446744073709551616) 32 = 32 := by omega
    simp only [TW.setHostnameTLV, Nat.zero_add, Nat.add_zero, le_one, wr_off, wr_off0, wr_zero_one, wr_two, hx, decide_true, if_true,
      wr_one_one, e]
    simp
  · have e : min (env.get_hostname.retN % 18446744073709551616) 32 = env.get_hostname.retN % 18446744073709551616 := by omega
    have e1 : env.get_hostname.retN % 18446744073709551616 % 256 = env.get_hostname.retN % 18446744073709551616 := Nat.mod_eq_of_lt (by omega)
    have e2 : (2 + env.get_hostname.retN % 18446744073709551616) % 18446744073709551616 = 2 + env.get_hostname.retN % 18446744073709551616 :=
      Nat.mod_eq_of_lt (by omega)
    simp only [TW.setHostnameTLV, Nat.zero_add, Nat.add_zero, le_one, wr_off, wr_off0, wr_zero_one, wr_two, hx, decide_false, Bool.false_eq_true,
      if_false, wr_one_one, e, e1, e2]
    simp

theorem setSSIDTLV_gen (env : TW.Env) :
    (TW.setSSIDTLV env (pre ++ w0 :: w1 :: rest) pre.length).buffer
      = pre ++ (6 :: (min (env.get_ssid.retN % 18446744073709551616) 32) ::
          (env.get_ssid.out.take 32 ++ rest.drop (env.get_ssid.out.take 32).length))
    ∧ (TW.setSSIDTLV env (pre ++ w0 :: w1 :: rest) pre.length).ret = 2 + min (env.get_ssid.retN % 18446744073709551616) 32 := by
  by_cases hx : env.get_ssid.retN % 18446744073709551616 > 32
  · have e : min (env.get_ssid.retN % 18446744073709551616) 32 = 32 := by omega
    simp only [TW.setSSIDTLV, Nat.zero_add, Nat.add_zero, le_one, wr_off, wr_off0, wr_zero_one, wr_two, hx, decide_true, if_true,
      wr_one_one, e]
    simp
  · have e : min (env.get_ssid.retN % 18446744073709551616) 32 = env.get_ssid.retN % 18446744073709551616 := by omega
    have e1 : env.get_ssid.retN % 18446744073709551616 % 256 = env.get_ssid.retN % 18446744073709551616 := Nat.mod_eq_of_lt (by omega)
    have e2 : (2 + env.get_ssid.retN % 18446744073709551616) % 18446744073709551616 = 2 + env.get_ssid.retN % 18446744073709551616 :=
      Nat.mod_eq_of_lt (by omega)
    simp only [TW.setSSIDTLV, Nat.zero_add, Nat.add_zero, le_one, wr_off, wr_off0, wr_zero_one, wr_two, hx, decide_false, Bool.false_eq_true,
      if_false, wr_one_one, e, e1, e2]
    simp

/-- what a string getter reports (the bytes copied, or the full length - both occur in ports) clamps to the number of bytes stored -/
theorem str_min (l : List Nat) (full : Bool) (hl : l.length < 18446744073709551616) :
    min ((if full = true then l.length else (l.take 32).length) % 18446744073709551616) 32 = (l.take 32).length := by
  have ht : (l.take 32).length = min 32 l.length := List.length_take
  cases full
  · simp only [Bool.false_eq_true, if_false, ht]
    rw [Nat.mod_eq_of_lt (by omega)]; omega
  · simp only [if_true, ht, Nat.mod_eq_of_lt hl]; omega

theorem setHostnameTLV_eq (hl : g.host.length < 18446744073709551616) :
    (TW.setHostnameTLV (envOf c g base) (pre ++ w0 :: w1 :: rest) pre.length).buffer
      = pre ++ (tlvHostname g ++ rest.drop (g.host.take 32).length)
    ∧ (TW.setHostnameTLV (envOf c g base) (pre ++ w0 :: w1 :: rest) pre.length).ret = 2 + (g.host.take 32).length := by
  have h := setHostnameTLV_gen pre rest w0 w1 (envOf c g base)
  have hm : min ((envOf c g base).get_hostname.retN % 18446744073709551616) 32 = (g.host.take 32).length := str_min g.host g.hostFull hl
  rw [hm] at h
  refine ⟨?_, h.2⟩
  rw [h.1]; simp [envOf, tlvHostname, tlv]

theorem setSSIDTLV_eq (hl : c.ssid.length < 18446744073709551616) :
    (TW.setSSIDTLV (envOf c g base) (pre ++ w0 :: w1 :: rest) pre.length).buffer
      = pre ++ (tlvSsid c ++ rest.drop (c.ssid.take 32).length)
    ∧ (TW.setSSIDTLV (envOf c g base) (pre ++ w0 :: w1 :: rest) pre.length).ret = 2 + (c.ssid.take 32).length := by
  have h := setSSIDTLV_gen pre rest w0 w1 (envOf c g base)
  have hm : min ((envOf c g base).get_ssid.retN % 18446744073709551616) 32 = (c.ssid.take 32).length := str_min c.ssid c.ssidFull hl
  rw [hm] at h
  refine ⟨?_, h.2⟩
  rw [h.1]; simp [envOf, tlvSsid, tlv]

theorem setIconImageTLV_eq :
    (TW.setIconImageTLV base (pre ++ w0 :: w1 :: rest) pre.length).buffer = pre ++ (tlvIcon ++ rest)
    ∧ (TW.setIconImageTLV base (pre ++ w0 :: w1 :: rest) pre.length).ret = 2 := by
  simp [TW.setIconImageTLV, wr_off, wr_off0, tlvIcon, tlv]

theorem setFriendlyNameTLV_eq :
    (TW.setFriendlyNameTLV base (pre ++ w0 :: w1 :: rest) pre.length).buffer = pre ++ (tlvFriendly ++ rest)
    ∧ (TW.setFriendlyNameTLV base (pre ++ w0 :: w1 :: rest) pre.length).ret = 2 := by
  simp [TW.setFriendlyNameTLV, wr_off, wr_off0, tlvFriendly, tlv]

theorem setEndOfPropertyTLV_eq :
    (TW.setEndOfPropertyTLV base (pre ++ w0 :: rest) pre.length).buffer = pre ++ ([X.eop] ++ rest)
    ∧ (TW.setEndOfPropertyTLV base (pre ++ w0 :: rest) pre.length).ret = 1 := by
  simp [TW.setEndOfPropertyTLV, wr_off0]

theorem setQosCharacteristicsTLV_eq :
    (TW.setQosCharacteristicsTLV base (pre ++ w0 :: w1 :: rest) pre.length).buffer = pre ++ (tlvQos ++ rest.drop 4)
    ∧ (TW.setQosCharacteristicsTLV base (pre ++ w0 :: w1 :: rest) pre.length).ret = 6 := by
  have hv : ((toU 32 (((Int.toNat (((Int.toNat (32768 : Int)) ||| (Int.toNat (8192 : Int)) : Nat) : Int)) ||| (Int.toNat (16384 : Int)) : Nat) : Int))
      <<< (Int.toNat (16 : Int))) % 4294967296 = 3758096384 := by decide
  have hq : tlvQos = [20, 4] ++ be 4 3758096384 := by decide
  simp only [TW.setQosCharacteristicsTLV, Nat.zero_add, Nat.add_zero, le_one, wr_off, wr_off0, hv, htonl_bytes _ 3758096384 (by decide),
    rd_be, wr_zero_one, wr_one_one, wr_two, hq, be_length]
  simp

theorem setWirelessTLV_eq (hw : c.wifi = true) (hm : c.mode < 256) :
    (TW.setWirelessTLV (envOf c g base) (pre ++ w0 :: w1 :: rest) pre.length).buffer = pre ++ (tlvWifiMode c ++ rest.drop 1)
    ∧ (TW.setWirelessTLV (envOf c g base) (pre ++ w0 :: w1 :: rest) pre.length).ret = 3 := by
  have h1 : unle (wr (le 1 0) 0 (([c.mode] : List Nat).take 1)) = c.mode := by
    simp [wr, le, unle]
  have h2 : (toSI 32 (0 : Int) != (0 : Int)) = false := by decide
  have h3 : unle [c.mode] = c.mode := by simp [unle]
  simp only [TW.setWirelessTLV, envOf, hw, if_true, h1, h2, h3, Bool.false_eq_true, if_false, Nat.zero_add, Nat.add_zero, le_one, wr_off, wr_off0,
    wr_zero_one, wr_one_one, wr_two, tlvWifiMode, tlv, X.tlvWifiMode_val, Nat.mod_eq_of_lt hm]
  simp [unle, Nat.mod_eq_of_lt hm]

/-- an interface that is not wireless: the getter fails and nothing at all is written -/
theorem setWirelessTLV_wired (buf : List Nat) (off : Nat) (hw : c.wifi = false) :
    (TW.setWirelessTLV (envOf c g base) buf off).buffer = buf ∧ (TW.setWirelessTLV (envOf c g base) buf off).ret = 0 := by
  have h2 : (toSI 32 (-1 : Int) != (0 : Int)) = true := by decide
  simp [TW.setWirelessTLV, envOf, hw, h2]

theorem setBSSIDTLV_eq (hc : CfgOk c) (hun : 6 ≤ (base.uninit 6).length) :
    (TW.setBSSIDTLV (envOf c g base) (pre ++ w0 :: w1 :: rest) pre.length).buffer
      = (if c.failBssid then pre ++ w0 :: w1 :: rest else pre ++ (tlv X.tlvBssid c.bssid ++ rest.drop 6))
    ∧ (TW.setBSSIDTLV (envOf c g base) (pre ++ w0 :: w1 :: rest) pre.length).ret = (if c.failBssid then 0 else 8) := by
  cases hf : c.failBssid
  · have h2 : (toSI 32 (0 : Int) != (0 : Int)) = false := by decide
    have hb : rd (wr (base.uninit 6) 0 (c.bssid.take 6)) 0 6 = c.bssid := by
      rw [List.take_of_length_le (by rw [hc.bssid6]; exact Nat.le_refl 6)]
      simp [wr, rd, hc.bssid6]
    simp only [TW.setBSSIDTLV, envOf, hf, Bool.false_eq_true, if_false, h2, hb, Nat.zero_add, Nat.add_zero, le_one, wr_off, wr_off0,
      wr_zero_one, wr_one_one, wr_two, tlv, X.tlvBssid_val, hc.bssid6]
    simp
  · have h2 : (toSI 32 (-1 : Int) != (0 : Int)) = true := by decide
    simp [TW.setBSSIDTLV, envOf, hf, h2]

theorem setWifiMaxRateTLV_eq (hr : c.rate < 65536) :
    (TW.setWifiMaxRateTLV (envOf c g base) (pre ++ w0 :: w1 :: rest) pre.length).buffer = pre ++ (tlvRate c ++ rest.drop 2)
    ∧ (TW.setWifiMaxRateTLV (envOf c g base) (pre ++ w0 :: w1 :: rest) pre.length).ret = 4 := by
  have hs : unle (wr (le 2 0) 0 ((if c.failRate = true then [] else le 2 c.rate).take 2)) = (if c.failRate = true then 0 else c.rate) := by
    cases c.failRate
    · simp only [Bool.false_eq_true, if_false]; exact scalar_ok 2 c.rate (by omega)
    · simp only [if_true]; exact scalar_fail2
  have hlt : (if c.failRate = true then 0 else c.rate) < 65536 := by
    split
    · decide
    · exact hr
  simp only [TW.setWifiMaxRateTLV, envOf, Nat.zero_add, Nat.add_zero, le_one, wr_off, wr_off0, hs, htons_bytes _ _ hlt,
    rd_be, wr_zero_one, wr_one_one, wr_two, tlvRate, tlv, be_length, X.tlvWifiMaxRate_val]
  simp

theorem rssi_scalar (fail : Bool) (r : Int) (hlo : -128 ≤ r) (hhi : r ≤ 127) :
    toU 32 (toS 8 (unle (wr (le 1 (toU 8 (0 : Int))) 0 ((if fail = true then [] else [toU 8 r]).take 1)))) = i8ToU32 (if fail = true then 0 else r) := by
  cases fail
  · simp only [Bool.false_eq_true, if_false]
    have e : unle (wr (le 1 (toU 8 (0 : Int))) 0 (([toU 8 r] : List Nat).take 1)) = toU 8 r := by simp [wr, unle]
    rw [e]
    unfold toS toU i8ToU32
    have p8 : ((2 ^ 8 : Nat) : Int) = 256 := by decide
    have p32 : ((2 ^ 32 : Nat) : Int) = 4294967296 := by decide
    simp only [p8, p32, show (2:Nat)^8 = 256 from rfl, show (2:Nat)^(8-1) = 128 from rfl]
    by_cases hn : r < 0
    · have a : Int.toNat (r % 256) = Int.toNat (r + 256) := by omega
      rw [a]
      have b : (r + 256).toNat % 256 = (r + 256).toNat := by omega
      rw [b]
      have cnd : ¬ ((r + 256).toNat < 128) := by omega
      simp only [cnd, if_false, hn, if_true]
      omega
    · have a : Int.toNat (r % 256) = Int.toNat r := by omega
      rw [a]
      have b : r.toNat % 256 = r.toNat := by omega
      rw [b]
      have cnd : r.toNat < 128 := by omega
      simp only [cnd, if_true, hn, if_false]
      omega
  · simp only [if_true]; decide

theorem setWifiRssiTLV_eq (hlo : -128 ≤ c.rssi) (hhi : c.rssi ≤ 127) :
    (TW.setWifiRssiTLV (envOf c g base) (pre ++ w0 :: w1 :: rest) pre.length).buffer = pre ++ (tlvRssi c ++ rest.drop 4)
    ∧ (TW.setWifiRssiTLV (envOf c g base) (pre ++ w0 :: w1 :: rest) pre.length).ret = 6 := by
  have hlt : i8ToU32 (if c.failRssi = true then 0 else c.rssi) < 4294967296 := by
    unfold i8ToU32; split <;> split <;> omega
  have hs := rssi_scalar c.failRssi c.rssi hlo hhi
  have hout : (envOf c g base).get_wifi_rssi_dbm.out = (if c.failRssi = true then [] else [toU 8 c.rssi]) := rfl
  have hw : le 4 (TW.lltd_htonl (envOf c g base) (toU 32 (toS 8 (unle (wr (le 1 (toU 8 (0 : Int))) 0
      ((if c.failRssi = true then [] else [toU 8 c.rssi]).take 1)))))).ret = be 4 (i8ToU32 (if c.failRssi = true then 0 else c.rssi)) := by
    rw [hs]; exact htonl_bytes _ _ hlt
  simp only [TW.setWifiRssiTLV, hout]
  simp only [hw]
  simp only [Nat.zero_add, Nat.add_zero, le_one, wr_off, wr_off0,
    rd_be, wr_zero_one, wr_one_one, wr_two, tlvRssi, tlv, be_length, X.tlvWifiRssi_val]
  simp

end tlvs
