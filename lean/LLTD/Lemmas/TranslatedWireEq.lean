/-
  The byte writers of lltdWire.c / lltdTlvOps.c / lltdEndian.h AS TRANSLATED FROM THE C TEXT on every run
  (Generated/TranslatedWire.lean, tools/c2lean_wire.py) write exactly the bytes the hand-written model builds by
  concatenation (Model/Block.lean: `lltdHeader`, `helloHeader`, `tlv…`) - for EVERY buffer with room, every offset,
  every value in the range of its C type and every behaviour of the port getters.  The property theorems about the
  model (C02 well-formedness, C03 Hello content, C04 attribute round trip) are thereby theorems about what these C
  functions store.  No Mathlib.
-/
import LLTD.Generated.TranslatedWire
import LLTD.Model.Block
import LLTD.Lemmas.XVals
import LLTD.Lemmas.Bytes

namespace LLTD.TWEq
open LLTD LLTD.CSem

/-! ## Memory lemmas -/

theorem wr_off (pre l bs : List Nat) (k : Nat) : wr (pre ++ l) (pre.length + k) bs = pre ++ wr l k bs := by
  unfold wr
  have h1 : List.take (pre.length + k) pre = pre := List.take_of_length_le (by omega)
  have h2 : List.drop (pre.length + k + bs.length) pre = [] := List.drop_eq_nil_of_le (by omega)
  simp [List.take_append, List.drop_append, h1, h2]
  omega

theorem wr_off0 (pre l bs : List Nat) : wr (pre ++ l) pre.length bs = pre ++ wr l 0 bs := by
  simpa using wr_off pre l bs 0

@[simp] theorem wr_zero_one (a w : Nat) (l : List Nat) : wr (w :: l) 0 [a] = a :: l := by simp [wr]
@[simp] theorem wr_one_one (a w0 w1 : Nat) (l : List Nat) : wr (w0 :: w1 :: l) 1 [a] = w0 :: a :: l := by simp [wr]
@[simp] theorem wr_two (w0 w1 : Nat) (l bs : List Nat) : wr (w0 :: w1 :: l) 2 bs = w0 :: w1 :: (bs ++ l.drop bs.length) := by
  have : List.drop (2 + bs.length) (w0 :: w1 :: l) = List.drop bs.length l := by rw [Nat.add_comm]; rfl
  simp [wr, this]
@[simp] theorem wr_zero (l bs : List Nat) : wr l 0 bs = bs ++ l.drop bs.length := by simp [wr]

theorem rd_zero_all (l : List Nat) (n : Nat) (h : l.length = n) : rd l 0 n = l := by
  simp [rd, ← h]

@[simp] theorem le_one (v : Nat) : le 1 v = [v % 256] := rfl
theorem le_length (n v : Nat) : (le n v).length = n := by
  induction n generalizing v with
  | zero => rfl
  | succ n ih => simp [le, ih]

theorem unle_le (n v : Nat) (h : v < 256 ^ n) : unle (le n v) = v := by
  induction n generalizing v with
  | zero => simp [le, unle]; omega
  | succ n ih =>
    have : v / 256 < 256 ^ n := by
      rw [Nat.pow_succ] at h
      exact Nat.div_lt_of_lt_mul (by rw [Nat.mul_comm]; exact h)
    simp [le, unle, ih _ this]; omega

/-! ## Byte order: `lltd_htons` / `lltd_htonl` as translated store the big-endian bytes of the model -/

theorem and_mask (v k : Nat) : v &&& (255 <<< k) = ((v >>> k) % 256) <<< k := by
  apply Nat.eq_of_testBit_eq
  intro i
  simp only [Nat.testBit_and, Nat.testBit_shiftLeft, Nat.testBit_shiftRight, Nat.testBit_mod_two_pow, show (256:Nat) = 2^8 from rfl,
    show (255:Nat) = 2^8 - 1 from rfl, Nat.testBit_two_pow_sub_one]
  by_cases h : k ≤ i
  · simp [h]
    by_cases h2 : i - k < 8
    · simp [h2]
    · simp [h2]
  · simp [h]

theorem or_add (a b : Nat) (i : Nat) (h : b < 2 ^ i) : a * 2 ^ i ||| b = a * 2 ^ i + b := by
  rw [← Nat.shiftLeft_eq]; exact (Nat.shiftLeft_add_eq_or_of_lt h a).symm

theorem is_le (env : TW.Env) : (TW.lltd_is_little_endian env).ret = 1 := by
  simp only [TW.lltd_is_little_endian]; decide

theorem bswap16_val (env : TW.Env) (v : Nat) (h : v < 65536) : (TW.lltd_bswap16 env v).ret = (v % 256) * 256 + v / 256 := by
  simp only [TW.lltd_bswap16]
  have e1 : Int.toNat ((v : Int) * ((2 ^ (Int.toNat (8 : Int)) : Nat) : Int)) = v * 256 := by
    have : (2 ^ (Int.toNat (8 : Int)) : Nat) = 256 := by decide
    rw [this]; omega
  have e2 : Int.toNat ((v : Int) / ((2 ^ (Int.toNat (8 : Int)) : Nat) : Int)) = v / 256 := by
    have : (2 ^ (Int.toNat (8 : Int)) : Nat) = 256 := by decide
    rw [this]; omega
  rw [e1, e2]
  have e3 : v * 256 ||| v / 256 = v * 256 + v / 256 := or_add v (v / 256) 8 (by omega)
  rw [e3]
  unfold toU
  have : ((2 ^ 16 : Nat) : Int) = 65536 := by decide
  rw [this]; omega

theorem le2_swap (v : Nat) (h : v < 65536) : le 2 ((v % 256) * 256 + v / 256) = be 2 v := by
  simp only [le, be, List.nil_append, List.cons_append, List.cons.injEq, and_true]
  have hb : v / 256 < 256 := by omega
  have hq : (v % 256 * 256 + v / 256) / 256 = v % 256 := by omega
  refine ⟨by omega, by rw [hq]; omega⟩

theorem htons_bytes (env : TW.Env) (v : Nat) (h : v < 65536) : le 2 (TW.lltd_htons env v).ret = be 2 v := by
  simp only [TW.lltd_htons, is_le]
  simp only [show ((1 : Int) != 0) = true from rfl, if_true, bswap16_val env v h]
  unfold toU
  have : ((2 ^ 16 : Nat) : Int) = 65536 := by decide
  rw [this]
  have e : Int.toNat ((((v % 256) * 256 + v / 256 : Nat) : Int) % 65536) = (v % 256) * 256 + v / 256 := by omega
  rw [e]
  exact le2_swap v h

set_option maxRecDepth 20000 in
theorem bswap32_val (env : TW.Env) (v : Nat) (h : v < 4294967296) :
    (TW.lltd_bswap32 env v).ret = (v % 256) * 16777216 + (v / 256 % 256) * 65536 + (v / 65536 % 256) * 256 + v / 16777216 := by
  simp only [TW.lltd_bswap32]
  have t24 : Int.toNat (24 : Int) = 24 := by decide
  have t8 : Int.toNat (8 : Int) = 8 := by decide
  rw [t24, t8]
  have m0 : v &&& 255 = v % 256 := by simpa using and_mask v 0
  have m1 : v &&& 65280 = (v / 256 % 256) * 256 := by
    have := and_mask v 8; simpa [Nat.shiftLeft_eq, Nat.shiftRight_eq_div_pow] using this
  have m2 : v &&& 16711680 = (v / 65536 % 256) * 65536 := by
    have := and_mask v 16; simpa [Nat.shiftLeft_eq, Nat.shiftRight_eq_div_pow] using this
  have m3 : v &&& 4278190080 = (v / 16777216 % 256) * 16777216 := by
    have := and_mask v 24; simpa [Nat.shiftLeft_eq, Nat.shiftRight_eq_div_pow] using this
  rw [m0, m1, m2, m3]
  have p8 : (2 : Nat) ^ 8 = 256 := by rfl
  have p16 : (2 : Nat) ^ 16 = 65536 := by rfl
  have p24 : (2 : Nat) ^ 24 = 16777216 := by rfl
  simp only [Nat.shiftLeft_eq, Nat.shiftRight_eq_div_pow, p8, p24]
  have a : (v % 256 * 16777216) % 4294967296 = (v % 256) * 16777216 := by omega
  have b : (v / 256 % 256 * 256 * 256) % 4294967296 = (v / 256 % 256) * 65536 := by omega
  have c : (v / 65536 % 256 * 65536) / 256 = (v / 65536 % 256) * 256 := by omega
  have hb3 : v / 16777216 < 256 := by omega
  have d : (v / 16777216 % 256 * 16777216) / 16777216 = v / 16777216 := by
    rw [Nat.mul_div_cancel _ (by decide : 0 < 16777216), Nat.mod_eq_of_lt hb3]
  rw [a, b, c, d]
  have o1 := or_add (v / 65536 % 256) (v / 16777216) 8 (by rw [p8]; exact hb3)
  have o2 := or_add (v / 256 % 256) ((v / 65536 % 256) * 256 + v / 16777216) 16 (by rw [p16]; omega)
  have o3 := or_add (v % 256) ((v / 256 % 256) * 65536 + ((v / 65536 % 256) * 256 + v / 16777216)) 24 (by rw [p24]; omega)
  rw [p8] at o1; rw [p16] at o2; rw [p24] at o3
  rw [Nat.or_assoc, Nat.or_assoc, o1, o2, o3]
  omega

theorem le4_bytes (b0 b1 b2 b3 : Nat) (h0 : b0 < 256) (h1 : b1 < 256) (h2 : b2 < 256) (h3 : b3 < 256) :
    le 4 (b0 * 16777216 + b1 * 65536 + b2 * 256 + b3) = [b3, b2, b1, b0] := by
  have e : b0 * 16777216 + b1 * 65536 + b2 * 256 + b3 = b3 + 256 * (b2 + 256 * (b1 + 256 * b0)) := by omega
  rw [e]
  simp only [le, Nat.add_mul_div_left _ _ (by decide : 0 < 256), Nat.add_mul_mod_self_left, Nat.mod_eq_of_lt h0, Nat.mod_eq_of_lt h1,
    Nat.mod_eq_of_lt h2, Nat.mod_eq_of_lt h3, Nat.div_eq_of_lt h1, Nat.div_eq_of_lt h2, Nat.div_eq_of_lt h3, Nat.zero_add]

theorem be4_bytes (v : Nat) : be 4 v = [v / 16777216 % 256, v / 65536 % 256, v / 256 % 256, v % 256] := by
  simp only [be, List.nil_append, List.cons_append, Nat.div_div_eq_div_mul]

theorem le4_swap (v : Nat) (h : v < 4294967296) :
    le 4 ((v % 256) * 16777216 + (v / 256 % 256) * 65536 + (v / 65536 % 256) * 256 + v / 16777216) = be 4 v := by
  have hb3 : v / 16777216 < 256 := by omega
  rw [le4_bytes _ _ _ _ (Nat.mod_lt _ (by decide)) (Nat.mod_lt _ (by decide)) (Nat.mod_lt _ (by decide)) hb3, be4_bytes,
    Nat.mod_eq_of_lt hb3]

theorem htonl_bytes (env : TW.Env) (v : Nat) (h : v < 4294967296) : le 4 (TW.lltd_htonl env v).ret = be 4 v := by
  simp only [TW.lltd_htonl, is_le]
  simp only [show ((1 : Int) != 0) = true from rfl, if_true, bswap32_val env v h]
  exact le4_swap v h
