/- The Hello frame the model builds, seen through the independent decoder. -/
import LLTD.Lemmas.Header
import LLTD.Lemmas.Tlv

namespace LLTD
open LLTD.Spec

/-- what the port contract guarantees about an interface's attribute record -/
structure CfgOk (c : Cfg) : Prop where
  mac6   : c.mac.length = 6
  ipv4   : c.ipv4.length = 4
  ipv6   : c.ipv6.length = 16
  bssid6 : c.bssid.length = 6
  mtuLo  : 576 ≤ c.mtu
  mtuHi  : c.mtu ≤ 9216

theorem ourMac_length (c : Cfg) (h : CfgOk c) : c.ourMac.length = 6 := by
  unfold Cfg.ourMac; split
  · rfl
  · exact h.mac6

theorem helloFrame_length (c : Cfg) (g : Glob) (gen tos : Nat) (cur app : Mac) (hc : CfgOk c)
    (h1 : cur.length = 6) (h2 : app.length = 6) :
    (helloFrame c g gen tos cur app).length = 46 + (helloTlvs c g).length := by
  unfold helloFrame
  rw [List.length_append, List.length_append, lltdHeader_length _ _ _ _ _ _ _ _ rfl (ourMac_length c hc) rfl (ourMac_length c hc)]
  simp [helloHeader, h1, h2]

theorem decodeHello_helloFrame (c : Cfg) (g : Glob) (gen tos : Nat) (cur app : Mac) (hc : CfgOk c)
    (h1 : cur.length = 6) (h2 : app.length = 6) :
    decodeHello (helloFrame c g gen tos cur app) =
      some { base := { ethDst := bcast, ethSrc := c.ourMac, etherType := 0x88D9, version := 1, tos := tos, reserved := 0,
                       opcode := 1, realDst := bcast, realSrc := c.ourMac, seq := 0 },
             generation := gen % 65536, currentMapper := cur, apparentMapper := app, tlvs := helloProps c g } := by
  have hm := ourMac_length c hc
  have hlen := helloFrame_length c g gen tos cur app hc h1 h2
  have hpos := encodeTlvs_length_pos (helloProps c g)
  rw [← helloTlvs_eq] at hpos
  unfold decodeHello
  have hb : decodeBase (helloFrame c g gen tos cur app) =
      some { ethDst := bcast, ethSrc := c.ourMac, etherType := 0x88D9, version := 1, tos := tos, reserved := 0, opcode := X.opHello,
             realDst := bcast, realSrc := c.ourMac, seq := 0 % 65536 } := by
    unfold helloFrame
    rw [List.append_assoc]
    exact decodeBase_lltdHeader 0 bcast c.ourMac bcast c.ourMac 0 X.opHello tos _ rfl hm rfl hm
  rw [hb]
  have hop : X.opHello = 1 := by decide
  simp only [hop]
  have hcond : ¬((1 : Nat) ≠ 1 ∨ (helloFrame c g gen tos cur app).length < 47) := by
    rw [hlen]; intro h; rcases h with h | h
    · exact h rfl
    · omega
  rw [if_neg hcond]
  -- the payload after the 46-byte prefix is the property list
  obtain ⟨m1, m2, m3, m4, m5, m6, hmm⟩ := len6 c.ourMac hm
  obtain ⟨c1, c2, c3, c4, c5, c6, rfl⟩ := len6 cur h1
  obtain ⟨d1, d2, d3, d4, d5, d6, rfl⟩ := len6 app h2
  have hshape : helloFrame c g gen tos [c1, c2, c3, c4, c5, c6] [d1, d2, d3, d4, d5, d6] =
      [255, 255, 255, 255, 255, 255, m1, m2, m3, m4, m5, m6, 0x88, 0xD9, 1, tos, 0, 1,
       255, 255, 255, 255, 255, 255, m1, m2, m3, m4, m5, m6, 0, 0,
       gen / 256 % 256, gen % 256, c1, c2, c3, c4, c5, c6, d1, d2, d3, d4, d5, d6] ++ helloTlvs c g := by
    unfold helloFrame lltdHeader helloHeader
    have hx : X.etherType = 0x88D9 := by decide
    simp [hmm, be2, hx, hop, bcast]
  have hdrop : (helloFrame c g gen tos [c1, c2, c3, c4, c5, c6] [d1, d2, d3, d4, d5, d6]).drop 46 = helloTlvs c g := by
    rw [hshape]; rfl
  rw [hdrop, parse_helloTlvs c g _ (by rw [hlen]; omega)]
  simp only [Option.some.injEq]
  rw [hshape]
  simp [slice, unbe2, bcast]
  omega

theorem helloProps_lengths (c : Cfg) (g : Glob) (hc : CfgOk c) :
    (helloProps c g).all (fun p => legalLen p.1 p.2.length) = true := by
  have hm := ourMac_length c hc
  have h4 : (if c.failIpv4 = true then zeros 4 else c.ipv4).length = 4 := by split <;> simp [zeros, hc.ipv4]
  have h6 : (if c.failIpv6 = true then zeros 16 else c.ipv6).length = 16 := by split <;> simp [zeros, hc.ipv6]
  have hh : (g.host.take 32).length ≤ 32 := by simp [List.length_take]; omega
  have hs : (c.ssid.take 32).length ≤ 32 := by simp [List.length_take]; omega
  unfold helloProps wifiProps
  have k1 : X.tlvHostId = 1 := by decide
  have k2 : X.tlvCharacteristics = 2 := by decide
  have k3 : X.tlvIfType = 3 := by decide
  have k4 : X.tlvWifiMode = 4 := by decide
  have k5 : X.tlvBssid = 5 := by decide
  have k6 : X.tlvSsid = 6 := by decide
  have k7 : X.tlvIpv4 = 7 := by decide
  have k8 : X.tlvIpv6 = 8 := by decide
  have k9 : X.tlvWifiMaxRate = 9 := by decide
  have k10 : X.tlvPerfCounter = 10 := by decide
  have k12 : X.tlvLinkSpeed = 12 := by decide
  have k13 : X.tlvWifiRssi = 13 := by decide
  have k14 : X.tlvIconImage = 14 := by decide
  have k15 : X.tlvHostname = 15 := by decide
  have k17 : X.tlvFriendlyName = 17 := by decide
  have k20 : X.tlvQos = 20 := by decide
  simp only [k1, k2, k3, k4, k5, k6, k7, k8, k9, k10, k12, k13, k14, k15, k17, k20]
  have hh' : min 32 g.host.length ≤ 32 := Nat.min_le_left _ _
  have hs' : min 32 c.ssid.length ≤ 32 := Nat.min_le_left _ _
  by_cases hw : c.wifi = true <;> by_cases hb : c.failBssid = true <;>
    simp [hw, hb, legalLen, hm, h4, h6, hh', hs', hc.bssid6]

def noDupNat : List Nat → Bool
  | [] => true
  | x :: rest => !(rest.any (fun y => y == x)) && noDupNat rest

theorem noDupTypes_map (ps : List (Nat × List Nat)) : noDupTypes ps = noDupNat (ps.map (·.1)) := by
  induction ps with
  | nil => rfl
  | cons p ps ih =>
    simp only [noDupTypes, noDupNat, List.map_cons, ih, List.any_map]
    rfl

theorem helloTypes_noDup (c : Cfg) (g : Glob) : noDupTypes (helloProps c g) = true := by
  rw [noDupTypes_map, helloProps_types]
  rcases helloTypes_cases c with e | e | e <;> rw [e] <;> decide

/-- the Hello is a well-formed LLTD frame of at most 206 bytes -/
theorem helloTlvs_length_le (c : Cfg) (g : Glob) (hc : CfgOk c) : (helloTlvs c g).length ≤ 160 := by
  have hm := ourMac_length c hc
  have h4 : (if c.failIpv4 = true then zeros 4 else c.ipv4).length = 4 := by split <;> simp [zeros, hc.ipv4]
  have h6 : (if c.failIpv6 = true then zeros 16 else c.ipv6).length = 16 := by split <;> simp [zeros, hc.ipv6]
  have hh : (g.host.take 32).length ≤ 32 := by simp [List.length_take]; omega
  have hs : (c.ssid.take 32).length ≤ 32 := by simp [List.length_take]; omega
  unfold helloTlvs wifiTlvs
  unfold tlvHostId tlvCharacteristics tlvIfType tlvIpv4 tlvIpv6 tlvPerf tlvSpeed tlvHostname tlvQos tlvIcon tlvFriendly
  by_cases hw : c.wifi = true <;> by_cases hb : c.failBssid = true <;>
    simp [hw, hb, tlv, tlvWifiMode, tlvBssid, tlvSsid, tlvRate, tlvRssi, hm, h4, h6, hc.bssid6] <;> omega

end LLTD
