/- The model's QueryResp and QueryLargeTlvResp frames read back by the independent decoder. -/
import LLTD.Lemmas.Header
import LLTD.Lemmas.Inv

namespace LLTD
open LLTD.Spec

/-- an observation as the mapper reads it in a QueryResp -/
def toDesc (o : Obs) : ObsDesc := { typ := o.typ, realSrc := o.realSrc, src := o.src, dst := o.dst }

theorem obsWire_len (o : Obs) (h : ObsOk o) : (obsWire o).length = 20 := by
  simp [obsWire, be_length, h.r, h.s, h.d]

theorem slice_flatMap_obsWire (obs : List Obs) (h : ∀ o ∈ obs, ObsOk o) :
    ∀ (i : Nat) (hi : i < obs.length) (k len : Nat), k + len ≤ 20 →
      slice (obs.flatMap obsWire) (20 * i + k) len = slice (obsWire obs[i]) k len := by
  induction obs with
  | nil => intro i hi; simp at hi
  | cons o os ih =>
    intro i hi k len hk
    have hl := obsWire_len o (h o (by simp))
    rw [List.flatMap_cons]
    cases i with
    | zero =>
      simp only [Nat.mul_zero, Nat.zero_add, List.getElem_cons_zero]
      exact slice_append_left _ _ k len (by omega)
    | succ j =>
      rw [slice_append_skip _ _ _ _ (by omega), hl]
      have e : 20 * (j + 1) + k - 20 = 20 * j + k := by omega
      rw [e]
      simp only [List.getElem_cons_succ]
      exact ih (fun x hx => h x (by simp [hx])) j (by simpa using hi) k len hk

theorem obsWire_fields (o : Obs) (h : ObsOk o) :
    unbe (slice (obsWire o) 0 2) = o.typ ∧ slice (obsWire o) 2 6 = o.realSrc ∧ slice (obsWire o) 8 6 = o.src ∧ slice (obsWire o) 14 6 = o.dst := by
  obtain ⟨a1, a2, a3, a4, a5, a6, hr⟩ := len6 o.realSrc h.r
  obtain ⟨b1, b2, b3, b4, b5, b6, hs⟩ := len6 o.src h.s
  obtain ⟨c1, c2, c3, c4, c5, c6, hd⟩ := len6 o.dst h.d
  have ht := h.t
  unfold obsWire
  rw [hr, hs, hd, be2]
  have e1 : o.typ / 256 % 256 = 0 := by omega
  have e2 : o.typ % 256 = o.typ := by omega
  rw [e1, e2]
  simp [slice, unbe2]

theorem queryField (n : Nat) (more : Bool) (hn : n < 16384) :
    unbe (be 2 (n ||| (if more then 0x8000 else 0))) % 16384 = n ∧
    decide (unbe (be 2 (n ||| (if more then 0x8000 else 0))) ≥ 32768) = more := by
  cases more with
  | false =>
    simp only [Bool.false_eq_true, if_false, Nat.or_zero]
    rw [unbe_be_of_lt 2 n (by omega)]
    exact ⟨by omega, by simp; omega⟩
  | true =>
    simp only [if_true]
    have key := Nat.two_pow_add_eq_or_of_lt (i := 15) (b := n) (by omega) 1
    have e : (0x8000 : Nat) = 2 ^ 15 * 1 := by decide
    rw [e, Nat.or_comm, ← key, unbe_be_of_lt 2 _ (by omega)]
    exact ⟨by omega, by simp⟩

theorem slice_be2 (v : Nat) (rest : List Nat) : slice (be 2 v ++ rest) 0 2 = be 2 v := by
  rw [slice_append_left _ _ 0 2 (by simp [be_length])]
  unfold slice; simp [List.take_of_length_le, be_length]

/-- THE QUERYRESP DECODE THEOREM: what the mapper reads from the model's QueryResp is the header the model meant,
    the `more` flag, and exactly the listed observations in order -/
theorem decodeQueryResp_queryFrame (c : Cfg) (img : List Nat) (seq : Nat) (more : Bool) (obs : List Obs) (hc : CfgOk c)
    (him : ImgOk img) (hobs : ∀ o ∈ obs, ObsOk o) (hcap : obs.length < 16384) :
    decodeQueryResp (queryFrame c img seq obs.length more (obs.flatMap obsWire)) =
      some { base := { ethDst := respDest img, ethSrc := c.ourMac, etherType := 0x88D9, version := 1, tos := X.tosDiscovery, reserved := 0,
                       opcode := X.opQueryResp, realDst := respDest img, realSrc := c.ourMac, seq := seq % 65536 },
             more := more, descs := obs.map toDesc } := by
  have hm := ourMac_length c hc
  have hd : (respDest img).length = 6 := by
    unfold respDest; split
    · exact fRealSrc_len img him
    · rfl
  have hl := lltdHeader_length 0 (respDest img) c.ourMac (respDest img) c.ourMac seq X.opQueryResp X.tosDiscovery hd hm hd hm
  have hflat : (obs.flatMap obsWire).length = 20 * obs.length := by
    clear hcap
    induction obs with
    | nil => rfl
    | cons o os ih =>
      rw [List.flatMap_cons, List.length_append, obsWire_len o (hobs o (by simp)), ih (fun x hx => hobs x (by simp [hx]))]
      simp only [List.length_cons]; omega
  have hq : queryFrame c img seq obs.length more (obs.flatMap obsWire) =
      lltdHeader 0 (respDest img) c.ourMac (respDest img) c.ourMac seq X.opQueryResp X.tosDiscovery ++
        (be 2 (obs.length ||| (if more then 0x8000 else 0)) ++ obs.flatMap obsWire) := by
    unfold queryFrame; rw [List.append_assoc]
  have hb := decodeBase_lltdHeader 0 (respDest img) c.ourMac (respDest img) c.ourMac seq X.opQueryResp X.tosDiscovery
    (be 2 (obs.length ||| (if more then 0x8000 else 0)) ++ obs.flatMap obsWire) hd hm hd hm
  rw [← hq] at hb
  have hlen : (queryFrame c img seq obs.length more (obs.flatMap obsWire)).length = 34 + 20 * obs.length := by
    rw [hq, List.length_append, List.length_append, hl, be_length, hflat]; omega
  have hw : slice (queryFrame c img seq obs.length more (obs.flatMap obsWire)) 32 2 = be 2 (obs.length ||| (if more then 0x8000 else 0)) := by
    rw [hq, slice_append_skip _ _ 32 2 (by rw [hl]; exact Nat.le_refl _), hl, Nat.sub_self, slice_be2]
  obtain ⟨hn, hmore⟩ := queryField obs.length more hcap
  have hslice : ∀ (i : Nat) (hi : i < obs.length) (k len : Nat), k + len ≤ 20 →
      slice (queryFrame c img seq obs.length more (obs.flatMap obsWire)) (34 + 20 * i + k) len = slice (obsWire obs[i]) k len := by
    intro i hi k len hk
    rw [hq, slice_append_skip _ _ _ _ (by rw [hl]; omega), hl, slice_append_skip _ _ _ _ (by rw [be_length]; omega), be_length]
    have e : 34 + 20 * i + k - 32 - 2 = 20 * i + k := by omega
    rw [e]
    exact slice_flatMap_obsWire obs hobs i hi k len hk
  unfold decodeQueryResp
  rw [hb]
  have hop : ¬ (¬ X.opQueryResp = 7 ∨ 34 + 20 * obs.length < 34) := by
    have e : X.opQueryResp = 7 := by decide
    intro h; rcases h with h | h
    · exact h e
    · omega
  simp only [hw, hn, hlen, ne_eq, not_true_eq_false, if_false, hmore, if_neg hop]
  congr 2
  apply List.ext_getElem
  · simp
  · intro i h1 h2
    have hi : i < obs.length := by simpa using h2
    simp only [List.getElem_map, List.getElem_range]
    obtain ⟨f1, f2, f3, f4⟩ := obsWire_fields obs[i] (hobs _ (List.getElem_mem hi))
    have s0 := hslice i hi 0 2 (by omega)
    have s2 := hslice i hi 2 6 (by omega)
    have s8 := hslice i hi 8 6 (by omega)
    have s14 := hslice i hi 14 6 (by omega)
    have e2 : 36 + 20 * i = 34 + 20 * i + 2 := by omega
    have e8 : 42 + 20 * i = 34 + 20 * i + 8 := by omega
    have e14 : 48 + 20 * i = 34 + 20 * i + 14 := by omega
    rw [Nat.add_zero] at s0
    rw [e2, e8, e14, s0, s2, s8, s14, f1, f2, f3, f4]
    rfl

/-- THE QUERYLARGETLVRESP DECODE THEOREM -/
theorem decodeLargeResp_largeFrame (c : Cfg) (dest : Mac) (seq lenField : Nat) (payload : List Nat) (hc : CfgOk c)
    (hd : dest.length = 6) (hf : lenField < 65536) (hp : payload.length = lenField % 16384) :
    decodeLargeResp (largeFrame c dest seq lenField payload) =
      some { base := { ethDst := dest, ethSrc := c.ourMac, etherType := 0x88D9, version := 1, tos := X.tosDiscovery, reserved := 0,
                       opcode := X.opQltlvResp, realDst := dest, realSrc := c.ourMac, seq := seq % 65536 },
             more := decide (lenField ≥ 32768), payload := payload } := by
  have hm := ourMac_length c hc
  have hl := lltdHeader_length 0 dest c.ourMac dest c.ourMac seq X.opQltlvResp X.tosDiscovery hd hm hd hm
  have hq : largeFrame c dest seq lenField payload =
      lltdHeader 0 dest c.ourMac dest c.ourMac seq X.opQltlvResp X.tosDiscovery ++ (be 2 lenField ++ payload) := by
    unfold largeFrame; rw [List.append_assoc]
  have hb := decodeBase_lltdHeader 0 dest c.ourMac dest c.ourMac seq X.opQltlvResp X.tosDiscovery (be 2 lenField ++ payload) hd hm hd hm
  rw [← hq] at hb
  have hlen : (largeFrame c dest seq lenField payload).length = 34 + payload.length := by
    rw [hq, List.length_append, List.length_append, hl, be_length]; omega
  have hw : unbe (slice (largeFrame c dest seq lenField payload) 32 2) = lenField := by
    rw [hq, slice_append_skip _ _ 32 2 (by rw [hl]; exact Nat.le_refl _), hl, Nat.sub_self, slice_be2, unbe_be_of_lt 2 _ (by omega)]
  have hdrop : (largeFrame c dest seq lenField payload).drop 34 = payload := by
    have h34 : (lltdHeader 0 dest c.ourMac dest c.ourMac seq X.opQltlvResp X.tosDiscovery ++ be 2 lenField).length = 34 := by
      rw [List.length_append, hl, be_length]
    unfold largeFrame
    rw [← h34, List.drop_left]
  unfold decodeLargeResp
  rw [hb]
  have hop : ¬ (¬ X.opQltlvResp = 12 ∨ 34 + lenField % 16384 < 34) := by
    have e : X.opQltlvResp = 12 := by decide
    intro h; rcases h with h | h
    · exact h e
    · omega
  simp only [hw, hlen, hp, ne_eq, not_true_eq_false, if_false, hdrop, if_neg hop]

end LLTD
