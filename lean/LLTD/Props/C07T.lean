/-
  C07 / C08 for the TRANSLATED source (DESIGN.md section 12.10): `setLltdHeader` of lltdResponder/lltdWire.c, as translated from the C text
  on every run and called with the arguments `parseQuery` / `sendLargeTlvResponse` (lltdBlock.c) pass - own address as source, the
  broadcast-if-bridged destination, the session's sequence number, opcode QueryResp / QueryLargeTlvResp, the discovery service - on a
  zeroed buffer stores exactly the 32-byte demultiplex header the model's `queryFrame` / `largeFrame` begin with (the frames C07's and
  C08's decoding theorems are about), leaves the rest of the buffer untouched and returns 32, the offset the upper header is written at.
  What follows the header (count / length field, descriptors, payload) is written by lltdBlock.c itself and stays hand-modelled.
-/
import LLTD.Props.C07
import LLTD.Props.C08
import LLTD.Lemmas.TranslatedWireEq

namespace LLTD.C07T
open LLTD LLTD.TWEq

theorem zero_segments (rest : List Nat) : List.replicate 32 0 ++ rest = List.replicate 6 0 ++ (List.replicate 6 0 ++ ([0, 0] ++ ([0] ++ ([0] ++
    ([0] ++ ([0] ++ (List.replicate 6 0 ++ (List.replicate 6 0 ++ ([0, 0] ++ rest))))))))) := by
  simp [List.replicate]

theorem response_header_translated (env : TW.Env) (c : Cfg) (hc : CfgOk c) (dest rest : List Nat) (seq op : Nat)
    (hd : dest.length = 6) (hseq : seq < 65536) (hop : op < 256) :
    (TW.setLltdHeader env (List.replicate 32 0 ++ rest) c.ourMac dest seq op X.tosDiscovery).buffer
      = lltdHeader 0 dest c.ourMac dest c.ourMac seq op X.tosDiscovery ++ rest
    ∧ (TW.setLltdHeader env (List.replicate 32 0 ++ rest) c.ourMac dest seq op X.tosDiscovery).ret = 32 := by
  have hm := ourMac_length c hc
  rw [zero_segments]
  exact setLltdHeader_eq env (List.replicate 6 0) (List.replicate 6 0) [0, 0] [0] [0] [0] (List.replicate 6 0) (List.replicate 6 0) [0, 0] rest
    c.ourMac dest 0 seq op X.tosDiscovery (by simp) (by simp) rfl rfl rfl rfl (by simp) (by simp) rfl hm hd hseq hop (by decide)

/-- the QueryResp the model builds begins with what the translated header writer stores -/
theorem queryFrame_header (env : TW.Env) (c : Cfg) (hc : CfgOk c) (img : List Nat) (seq num : Nat) (more : Bool) (descs : List Nat)
    (hd : (respDest img).length = 6) (hseq : seq < 65536) :
    queryFrame c img seq num more descs
      = (TW.setLltdHeader env (List.replicate 32 0) c.ourMac (respDest img) seq X.opQueryResp X.tosDiscovery).buffer
        ++ be 2 (num ||| (if more then 0x8000 else 0)) ++ descs := by
  have h := (response_header_translated env c hc (respDest img) [] seq X.opQueryResp hd hseq (by decide)).1
  simp only [List.append_nil] at h
  rw [h]; rfl

/-- the QueryLargeTlvResp the model builds begins with what the translated header writer stores -/
theorem largeFrame_header (env : TW.Env) (c : Cfg) (hc : CfgOk c) (dest : Mac) (seq lenField : Nat) (payload : List Nat)
    (hd : dest.length = 6) (hseq : seq < 65536) :
    largeFrame c dest seq lenField payload
      = (TW.setLltdHeader env (List.replicate 32 0) c.ourMac dest seq X.opQltlvResp X.tosDiscovery).buffer ++ be 2 lenField ++ payload := by
  have h := (response_header_translated env c hc dest [] seq X.opQltlvResp hd hseq (by decide)).1
  simp only [List.append_nil] at h
  rw [h]; rfl

end LLTD.C07T
