/-
  C07 — the history form.  For EVERY history of received frames on a fault-free platform the property predicate
  `holdsC07Rx` holds at every position of the model's trace, the specification state (observations recorded and
  not yet reported) being folded over what the mapper actually READS in the model's QueryResp frames with the
  independent decoder: nothing the mapper is told was not observed, nothing is told twice, a QueryResp carries
  min(pending, capacity) observations and says `more` exactly when some remain, and no QueryResp is ever sent
  except in answer to a Query.
-/
import LLTD.Lemmas.History

namespace LLTD.C07H
open LLTD LLTD.Spec

theorem subMultiset_take (l : List ObsDesc) : ∀ n, subMultiset (l.take n) l = true := by
  induction l with
  | nil => intro n; simp [subMultiset]
  | cons x xs ih =>
    intro n
    cases n with
    | zero => simp [subMultiset]
    | succ k =>
      have : removeFirst x (x :: xs) = xs := by simp [removeFirst]
      simp only [List.take_succ_cons, subMultiset, this, ih k, Bool.and_true]
      simp

theorem isQuery_iff (img : List Nat) (h : 36 ≤ img.length) : isQuery img = true ↔ (LLTD.fTos img = 0 ∧ LLTD.fOpcode img = 6) := by
  have : decide (img.length ≥ 32) = true := decide_eq_true (by omega)
  simp [isQuery, this, spec_fTos, spec_fOp]

/-- one frame -/
theorem step_holds (c : Cfg) (g : Glob) (w : World) (st : St) (img : List Nat) (s : SpecSt)
    (hc : CfgOk c) (hm : c.failMtu = false) (hmac : c.failMac = false) (hw : NoFault w) (hi : St.Inv st) (him : ImgOk img) (hr : Ref st s) :
    holdsC07Rx s (obsOf c g img (parseFrameSt c g w st img).fx) = true := by
  have hown : c.ourMac = c.mac := by simp [Cfg.ourMac, hmac]
  unfold holdsC07Rx
  have hfr : (obsOf c g img (parseFrameSt c g w st img).fx).frame = img := rfl
  have hfx : (obsOf c g img (parseFrameSt c g w st img).fx).fx = (parseFrameSt c g w st img).fx.map toObs := rfl
  have hcf : (obsOf c g img (parseFrameSt c g w st img).fx).cfg = c := rfl
  rw [hfr, hfx, hcf, sends_toObs]
  by_cases hq : isQuery img = true
  · have hq' := (isQuery_iff img him.len).mp hq
    simp only [hq, Bool.not_true, Bool.false_eq_true, if_false]
    by_cases hov : s.overflow = true
    · simp [hov]
    · simp only [hov, if_false]
      have hpend := hr.pend (by simpa using hov)
      rw [fx_query c g w st img hq'.1 hq'.2, (C07.query c w st img hc hi (malloc_nf w c.mtuEff hw)).1]
      generalize hn : min st.sees.length (queryMaxDescs c.mtuEff) = n
      have hlen : (st.sees.take n).length = n := by rw [List.length_take]; omega
      have hd := decodeQueryResp_queryFrame c img (LLTD.fSeq img) (decide (st.sees.length > n)) (st.sees.take n) hc him
        (fun o ho => hi.obs o (List.mem_of_mem_take ho)) (by rw [hlen]; have := hi.cap; omega)
      rw [hlen] at hd
      simp only [sentFrames_send, hd]
      have hseq : LLTD.fSeq img % 65536 = LLTD.fSeq img := Nat.mod_eq_of_lt (fSeq_lt img him)
      have hmtu : c.mtuEff = c.mtu := by
        have := hc.mtuLo
        unfold Cfg.mtuEff; simp [hm]; omega
      have hmax : queryMaxDescs c.mtuEff = (c.mtu - 34) / 20 := by
        rw [hmtu]; unfold queryMaxDescs
        have := hc.mtuLo
        simp only [X.sizeofDemux_val, X.sizeofQryRespHdr_val]
        rw [if_pos (by omega)]
      have hdest : respDest img = (if (Spec.fRealSrc img == Spec.fEthSrc img) = true then Spec.fRealSrc img else bcast) := by
        unfold respDest; rw [spec_fRealSrc, spec_fEthSrc]
      simp only [hseq, spec_fSeq, hown, beq_self_eq_true, Bool.true_and, ← hdest, hpend, List.length_map, hlen,
        List.map_take, subMultiset_take, Bool.and_true]
      rw [← hn, hmax]
      simp
  · have hq' : ¬ (LLTD.fTos img = 0 ∧ LLTD.fOpcode img = 6) := fun h => hq ((isQuery_iff img him.len).mpr h)
    simp only [hq, Bool.not_false, if_true]
    have hnone := no_queryResp c g w st img hc hi him hq'
    rw [List.isEmpty_iff, List.filterMap_eq_nil_iff]
    exact hnone

/-- THE HISTORY THEOREM -/
theorem history (c : Cfg) (g : Glob) (hc : CfgOk c) (hm : c.failMtu = false) (hmac : c.failMac = false)
    (imgs : List (List Nat)) (himgs : ∀ img ∈ imgs, ImgOk img) (w : World) (hw : NoFault w) :
    holdsC07 c.mac (C05.runObs c g w {} imgs) = true :=
  ref_history c g 300 holdsC07Rx ImgOk hc hm hmac (by decide) (fun _ h => h)
    (fun w st img s hw hi him hr => step_holds c g w st img s hc hm hmac hw hi him hr)
    imgs w {} {} himgs hw init_inv ref_init

/-- non-vacuity: a Probe for this station then a Query from the mapper, at MTU 576 — the model's trace satisfies the predicate and
    the QueryResp lists one observation -/
example :
    let own := [2, 0xaa, 0xbb, 0xcc, 0xdd, 1]
    let c : Cfg := { mac := own, mtu := 576 }
    let probe := [2,0xaa,0xbb,0xcc,0xdd,1, 2,0,0,0,0,9, 0x88,0xd9, 1,0,0,4] ++ own ++ [2,0,0,0,0,9, 0,0] ++ List.replicate 544 0
    let query := [2,0xaa,0xbb,0xcc,0xdd,1, 2,0,0,0,0,7, 0x88,0xd9, 1,0,0,6] ++ own ++ [2,0,0,0,0,7, 0,5] ++ List.replicate 544 0
    ((C05.runObs c {} {} {} [probe, query]).map (fun r => reportedOf r.fx)).map List.length = [0, 1] := by decide


/-- THE HISTORY THEOREM with the interface's attributes (MTU included) and the process-wide data changing freely from frame to frame -/
theorem history_varying (own : List Nat) (items : List (Cfg × Glob × List Nat)) (hitems : ∀ it ∈ items, ItemOk own it) (w : World) (hw : NoFault w) :
    holdsC07 own (C05.runObsV w {} items) = true :=
  ref_historyV own 300 holdsC07Rx (ItemOk own) (by decide) (fun _ h => h)
    (fun c g w st img s hq hw hi hr => step_holds c g w st img s hq.1 hq.2.1 hq.2.2.1 hw hi hq.2.2.2.2 hr)
    items w {} {} hitems hw init_inv ref_init

/-- the predicate `./check C07` evaluates (`holdsC07F`: a Query may go unanswered while the platform refuses memory, nothing may be
    lost) is the strict one on every trace without such a refusal - so `history` / `history_varying` are statements about it -/
theorem holdsC07F_strict (own : List Nat) (t : List RxObs) (h : ∀ r ∈ t, r.allocFault = false) : holdsC07F own t = holdsC07 own t := by
  unfold holdsC07F holdsC07
  have hmem : ∀ (s : SpecSt) (t : List RxObs), (∀ r ∈ t, r.allocFault = false) → ∀ p ∈ specStatesDom own 300 s t, p.2.allocFault = false := by
    intro s t
    induction t generalizing s with
    | nil => intro _ p hp; simp [specStatesDom] at hp
    | cons r rest ih =>
      intro h p hp
      simp only [specStatesDom, List.mem_cons] at hp
      rcases hp with rfl | hp
      · exact h r (List.mem_cons_self ..)
      · exact ih _ (fun r' hr' => h r' (List.mem_cons_of_mem _ hr')) p hp
  rw [Bool.eq_iff_iff]
  simp only [List.all_eq_true]
  constructor
  · intro hh p hp
    have h1 := hh p hp
    have hp' : p ∈ specStatesDom own 300 {} t := hp
    simpa only [hmem {} t h p hp', Bool.false_eq_true, if_false] using h1
  · intro hh p hp
    have h1 := hh p hp
    have hp' : p ∈ specStatesDom own 300 {} t := hp
    simpa only [hmem {} t h p hp', Bool.false_eq_true, if_false] using h1

end LLTD.C07H
