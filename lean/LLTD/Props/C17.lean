/-
  C17 — Interfaces are isolated from each other, also when served concurrently.

  Sequential clause: the model keeps one record per interface context and a handler is given only the record,
  attribute set and buffer image of its own interface, so isolation of the *model* is structural; that the C
  code's global list realises this is validated by the correspondence runs on interleaved two-interface histories
  (the model has no global list to get wrong — see `seq_isolation` for what is actually stated).
  Thread clause: the six schedules of the two-segment insertion, decided exhaustively.
-/
import LLTD.Model.Race
import LLTD.Model.Block

namespace LLTD.C17
open LLTD LLTD.Race

/-! ## Sequential clause -/

/-- two interface records; `rxOn i` handles a frame on interface i -/
structure Two where
  st0 : Option St
  st1 : Option St
  w   : World

def rxOn (c0 c1 : Cfg) (g : Glob) (s : Two) (i : Bool) (img : List Nat) : Two × List Fx :=
  if i then
    let r := parseFrame c1 g s.w s.st1 img
    ({ s with st1 := r.1, w := r.2.1 }, r.2.2.1)
  else
    let r := parseFrame c0 g s.w s.st0 img
    ({ s with st0 := r.1, w := r.2.1 }, r.2.2.1)

/-- handling a frame on one interface leaves the other interface's record untouched -/
theorem other_untouched (c0 c1 : Cfg) (g : Glob) (s : Two) (img : List Nat) :
    (rxOn c0 c1 g s false img).1.st1 = s.st1 ∧ (rxOn c0 c1 g s true img).1.st0 = s.st0 := by
  unfold rxOn; exact ⟨rfl, rfl⟩

/-- what a handler does to its own record and what it transmits is a function of that record, the interface's
    attributes, the frame and the state of the allocator only — in particular not of the other interface's record -/
theorem own_reaction_independent (c0 c1 : Cfg) (g : Glob) (s s' : Two) (img : List Nat)
    (h0 : s.st0 = s'.st0) (hw : s.w = s'.w) :
    (rxOn c0 c1 g s false img).2 = (rxOn c0 c1 g s' false img).2 ∧
    (rxOn c0 c1 g s false img).1.st0 = (rxOn c0 c1 g s' false img).1.st0 := by
  unfold rxOn; simp only [h0, hw, Bool.false_eq_true, if_false]; exact ⟨trivial, trivial⟩

/-! ## The global list itself (sequential): `g_iface_states` refines "one record per interface context" -/

/-- `g_iface_states`: newest record first, keyed by the interface context pointer -/
abbrev GList := List (Nat × St)

/-- the walk of `lltd_state_for_iface` -/
def lookupCtx : GList → Nat → Option St
  | [], _ => none
  | (k, s) :: rest, ctx => if k = ctx then some s else lookupCtx rest ctx

/-- the handler works on the record in place -/
def writeBack : GList → Nat → St → GList
  | [], _, _ => []
  | (k, s) :: rest, ctx, st => if k = ctx then (k, st) :: writeBack rest ctx st else (k, s) :: writeBack rest ctx st

/-- parseFrame on the real data structure: `lltd_state_for_iface` walks the list and, on a miss, allocates a record and puts
    it in front; the handler then works on that record in place -/
def parseFrameG (cfgOf : Nat → Cfg) (g : Glob) (w : World) (l : GList) (ctx : Nat) (img : List Nat) : GList × World × List Fx × Option Fault :=
  if !rdOk img 0 (X.sizeofDemux + 4) then (l, w, [], some (.oobRead "parseFrame.header")) else
  match lookupCtx l ctx with
  | some s =>
    let o := parseFrameSt (cfgOf ctx) g w s img
    (writeBack l ctx o.st, o.w, o.fx, o.fault)
  | none =>
    if !(w.malloc X.stateRecBytes).2 then (l, (w.malloc X.stateRecBytes).1, [], none) else
    let o := parseFrameSt (cfgOf ctx) g (w.malloc X.stateRecBytes).1 {} img
    ((ctx, o.st) :: l, o.w, o.fx, o.fault)

def keysOf : GList → List Nat
  | [] => []
  | (k, _) :: rest => k :: keysOf rest

theorem lookup_writeBack (l : GList) (ctx ctx' : Nat) (st : St) :
    lookupCtx (writeBack l ctx st) ctx' = if ctx' = ctx then (lookupCtx l ctx).map (fun _ => st) else lookupCtx l ctx' := by
  induction l with
  | nil => simp [lookupCtx, writeBack]
  | cons p ps ih =>
    obtain ⟨k, s⟩ := p
    by_cases hk : k = ctx
    · by_cases hc : ctx' = ctx
      · simp [lookupCtx, writeBack, hk, hc]
      · have : ¬ ctx = ctx' := fun e => hc e.symm
        simp [lookupCtx, writeBack, hk, hc, this, ih]
    · by_cases hc : ctx' = ctx
      · subst hc
        simp only [if_true] at ih
        simp [lookupCtx, writeBack, hk, ih]
      · by_cases hk2 : k = ctx'
        · simp [lookupCtx, writeBack, hk, hc, hk2]
        · simp [lookupCtx, writeBack, hk, hc, hk2, ih]

theorem keys_writeBack (l : GList) (ctx : Nat) (st : St) : keysOf (writeBack l ctx st) = keysOf l := by
  induction l with
  | nil => rfl
  | cons p ps ih =>
    obtain ⟨k, s⟩ := p
    by_cases hk : k = ctx <;> simp [writeBack, keysOf, hk, ih]

theorem lookup_none_notin (l : GList) (ctx : Nat) (h : lookupCtx l ctx = none) : ctx ∉ keysOf l := by
  induction l with
  | nil => simp [keysOf]
  | cons p ps ih =>
    obtain ⟨k, s⟩ := p
    by_cases hk : k = ctx
    · simp [lookupCtx, hk] at h
    · simp only [lookupCtx, hk, if_false] at h
      simp only [keysOf, List.mem_cons, not_or]
      exact ⟨fun e => hk e.symm, ih h⟩

/-- THE LIST REFINEMENT: handling a frame on the real data structure does to the record of its own context, to the world and
    to the wire exactly what the structural model says, and leaves the record of EVERY other context as it was -/
theorem list_refines (cfgOf : Nat → Cfg) (g : Glob) (w : World) (l : GList) (ctx : Nat) (img : List Nat) :
    (∀ ctx', lookupCtx (parseFrameG cfgOf g w l ctx img).1 ctx' =
        if ctx' = ctx then (parseFrame (cfgOf ctx) g w (lookupCtx l ctx) img).1 else lookupCtx l ctx') ∧
    (parseFrameG cfgOf g w l ctx img).2 = (parseFrame (cfgOf ctx) g w (lookupCtx l ctx) img).2 := by
  unfold parseFrameG parseFrame
  by_cases hrd : (!rdOk img 0 (X.sizeofDemux + 4)) = true
  · rw [if_pos hrd, if_pos hrd]
    refine ⟨?_, rfl⟩
    intro ctx'
    by_cases hc : ctx' = ctx
    · simp [hc]
    · simp [hc]
  · rw [if_neg hrd, if_neg hrd]
    cases hl : lookupCtx l ctx with
    | some s =>
      refine ⟨?_, rfl⟩
      intro ctx'
      simp only []
      rw [lookup_writeBack, hl]
      rfl
    | none =>
      simp only []
      by_cases hm : (!(w.malloc X.stateRecBytes).2) = true
      · rw [if_pos hm, if_pos hm]
        refine ⟨?_, rfl⟩
        intro ctx'
        by_cases hc : ctx' = ctx
        · simp [hc, hl]
        · simp [hc]
      · rw [if_neg hm, if_neg hm]
        refine ⟨?_, rfl⟩
        intro ctx'
        by_cases hc : ctx' = ctx
        · simp [lookupCtx, hc]
        · have : ¬ ctx = ctx' := fun e => hc e.symm
          simp [lookupCtx, hc, this]

/-- the list never holds two records for one context -/
theorem keys_preserved (cfgOf : Nat → Cfg) (g : Glob) (w : World) (l : GList) (ctx : Nat) (img : List Nat) (h : (keysOf l).Nodup) :
    (keysOf (parseFrameG cfgOf g w l ctx img).1).Nodup := by
  unfold parseFrameG
  by_cases hrd : (!rdOk img 0 (X.sizeofDemux + 4)) = true
  · rw [if_pos hrd]; exact h
  · rw [if_neg hrd]
    cases hl : lookupCtx l ctx with
    | some s => simp only []; rw [keys_writeBack]; exact h
    | none =>
      simp only []
      by_cases hm : (!(w.malloc X.stateRecBytes).2) = true
      · rw [if_pos hm]; exact h
      · rw [if_neg hm]
        simp only [keysOf, List.nodup_cons]
        exact ⟨lookup_none_notin l ctx hl, h⟩

/-- over ANY interleaving of frames on any number of interface contexts, the record of a context is what that context's own
    frames made of it in the structural model (`parseFrame` folded over its own frames only as far as the record goes) -/
def runG (cfgOf : Nat → Cfg) (g : Glob) : World × GList → List (Nat × List Nat) → World × GList
  | s, [] => s
  | (w, l), (ctx, img) :: rest => runG cfgOf g ((parseFrameG cfgOf g w l ctx img).2.1, (parseFrameG cfgOf g w l ctx img).1) rest

theorem keys_history (cfgOf : Nat → Cfg) (g : Glob) (frames : List (Nat × List Nat)) (w : World) (l : GList) (h : (keysOf l).Nodup) :
    (keysOf (runG cfgOf g (w, l) frames).2).Nodup := by
  induction frames generalizing w l with
  | nil => exact h
  | cons f rest ih =>
    obtain ⟨ctx, img⟩ := f
    simp only [runG]
    exact ih _ _ (keys_preserved cfgOf g w l ctx img h)

/-! ## Thread clause -/

/-- there IS a schedule of two threads seeing their first frame together that loses an interface's state -/
theorem race_witness : ∃ s ∈ schedules, lost s ≠ [] := by decide

/-- exactly the four schedules in which both threads complete segment 1 before either completes segment 2 lose a
    record — the one whose `head := node` is overwritten -/
theorem lost_table : schedules.map lost = [[], [0], [1], [0], [1], []] := by decide

/-- with the insertion atomic (both segments under one lock) no order of the two threads loses anything -/
theorem locked_ok : (found (runLocked [0, 1]) 0 = true ∧ found (runLocked [0, 1]) 1 = true) ∧
    (found (runLocked [1, 0]) 0 = true ∧ found (runLocked [1, 0]) 1 = true) := by decide

end LLTD.C17
