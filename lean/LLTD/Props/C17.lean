import LLTD.Model.Event
import LLTD.Spec.Block

namespace LLTD.C17
open LLTD LLTD.Spec

theorem placeholder_layout : X.sizeofDemux = 32 := by decide

end LLTD.C17
