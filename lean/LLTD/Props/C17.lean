/-
  C17 — Interfaces are isolated from each other, also when served concurrently.

  Sequential clause: the model keeps one record per interface context and a handler is given only the record,
  attribute set and buffer image of its own interface, so isolation of the *model* is structural; that the C
  code's global list realises this is validated by the correspondence runs on interleaved two-interface histories
  (the model has no global list to get wrong — see `seq_isolation` for what is actually stated).
  Thread clause: the six schedules of the two-segment insertion, decided exhaustively.
-/
import LLTD.Model.Race
import LLTD.Model.Block

namespace LLTD.C17
open LLTD LLTD.Race

/-! ## Sequential clause -/

/-- two interface records; `rxOn i` handles a frame on interface i -/
structure Two where
  st0 : Option St
  st1 : Option St
  w   : World

def rxOn (c0 c1 : Cfg) (g : Glob) (s : Two) (i : Bool) (img : List Nat) : Two × List Fx :=
  if i then
    let r := parseFrame c1 g s.w s.st1 img
    ({ s with st1 := r.1, w := r.2.1 }, r.2.2.1)
  else
    let r := parseFrame c0 g s.w s.st0 img
    ({ s with st0 := r.1, w := r.2.1 }, r.2.2.1)

/-- handling a frame on one interface leaves the other interface's record untouched -/
theorem other_untouched (c0 c1 : Cfg) (g : Glob) (s : Two) (img : List Nat) :
    (rxOn c0 c1 g s false img).1.st1 = s.st1 ∧ (rxOn c0 c1 g s true img).1.st0 = s.st0 := by
  unfold rxOn; exact ⟨rfl, rfl⟩

/-- what a handler does to its own record and what it transmits is a function of that record, the interface's
    attributes, the frame and the state of the allocator only — in particular not of the other interface's record -/
theorem own_reaction_independent (c0 c1 : Cfg) (g : Glob) (s s' : Two) (img : List Nat)
    (h0 : s.st0 = s'.st0) (hw : s.w = s'.w) :
    (rxOn c0 c1 g s false img).2 = (rxOn c0 c1 g s' false img).2 ∧
    (rxOn c0 c1 g s false img).1.st0 = (rxOn c0 c1 g s' false img).1.st0 := by
  unfold rxOn; simp only [h0, hw, Bool.false_eq_true, if_false]; exact ⟨trivial, trivial⟩

/-! ## Thread clause -/

/-- there IS a schedule of two threads seeing their first frame together that loses an interface's state -/
theorem race_witness : ∃ s ∈ schedules, lost s ≠ [] := by decide

/-- exactly the four schedules in which both threads complete segment 1 before either completes segment 2 lose a
    record — the one whose `head := node` is overwritten -/
theorem lost_table : schedules.map lost = [[], [0], [1], [0], [1], []] := by decide

/-- with the insertion atomic (both segments under one lock) no order of the two threads loses anything -/
theorem locked_ok : (found (runLocked [0, 1]) 0 = true ∧ found (runLocked [0, 1]) 1 = true) ∧
    (found (runLocked [1, 0]) 0 = true ∧ found (runLocked [1, 0]) 1 = true) := by decide

end LLTD.C17
