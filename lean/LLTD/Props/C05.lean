/-
  C05 — One mapper at a time; Reset releases it; foreign services cannot seize it.
  Abstract state: `absM st` = the active mapper (if any).
-/
import LLTD.Lemmas.Obs

namespace LLTD.C05
open LLTD LLTD.Spec

/-- the active mapper as the specification sees it -/
def absM (st : St) : Option Mac := if st.known then some st.mapperReal else none

/-- frames of other services (type of service ≥ 2) never establish, change or release the mapper, never change
    any other state, and are never answered — for ALL 254 foreign ToS values and all 256 opcodes -/
theorem foreign (c : Cfg) (g : Glob) (w : World) (st : St) (img : List Nat) (h : 2 ≤ fTos img) :
    parseFrameSt c g w st img = { st := st, w := w, fx := [] } := by
  have h0 : fTos img ≠ 0 := by omega
  have h1 : fTos img ≠ 1 := by omega
  simp [parseFrameSt, h0, h1]

/-- while a mapper is active, a Discover whose real source is another station gets no reply and changes nothing -/
theorem refuse (c : Cfg) (g : Glob) (w : World) (st : St) (img : List Nat) (m : Mac)
    (ha : absM st = some m) (hd : isDiscover img = true) (hne : fRealSrc img ≠ m) :
    parseFrameSt c g w st img = { st := st, w := w, fx := [] } := by
  obtain ⟨_, htos, hop⟩ := (isDiscover_iff img).mp hd
  have hk : st.known = true ∧ st.mapperReal = m := by
    unfold absM at ha
    split at ha
    · next hk => exact ⟨hk, by simpa using ha⟩
    · simp at ha
  have hrej : mapperMatches st (fRealSrc img) = false := by
    simp only [mapperMatches, hk.1, Bool.not_true, Bool.false_or, hk.2]
    simp only [beq_eq_false_iff_ne, ne_eq]
    exact fun e => hne e.symm
  rw [parseFrameSt_discover c g w st img htos hop]
  simp [hrej]

/-- every Discover from the active mapper, and every Discover while no mapper is active, is answered by
    exactly one Hello, and afterwards the Discover's real source is the active mapper -/
theorem answer (c : Cfg) (g : Glob) (w : World) (st : St) (img : List Nat) (hc : CfgOk c)
    (hd : isDiscover img = true) (hacc : absM st = none ∨ absM st = some (fRealSrc img))
    (hm : (w.malloc c.mtuEff).2 = true) :
    (∃ ok, (parseFrameSt c g w st img).fx.filter (fun x => match x with | .send .. => true | _ => false) =
        [Fx.send ok c.idx (helloFrame c g (fDiscGen img) (fTos img) (fRealSrc img) (fEthSrc img))]) ∧
    absM (parseFrameSt c g w st img).st = some (fRealSrc img) := by
  obtain ⟨hl, htos, hop⟩ := (isDiscover_iff img).mp hd
  have hmm : mapperMatches st (fRealSrc img) = true := by
    unfold absM at hacc
    unfold mapperMatches
    by_cases hk : st.known = true
    · simp only [hk, if_true] at hacc
      rcases hacc with h | h
      · simp at h
      · simp at h; simp [hk, h]
    · simp [hk]
  refine ⟨?_, ?_⟩
  · rw [parseFrameSt_discover c g w st img htos hop, if_pos hmm]
    have hfx := (answerHello_fx c g w (preStep st img) img hc hl hm).1
    rw [helloGen_preStep] at hfx
    refine ⟨((w.malloc c.mtuEff).1.send).2, ?_⟩
    split <;> simp [hfx]
  · rw [parseFrameSt_discover c g w st img htos hop, if_pos hmm]
    have hk := preStep_known st img
    have hr : (preStep st img).mapperReal = fRealSrc img := by
      have := setActive_real_of_matches st (fRealSrc img) (fEthSrc img) hmm
      unfold preStep; split <;> simpa using this
    have hfit := helloFrame_fits c g (helloGen (preStep st img) img) (fTos img) img hc hl
    have hset : setActiveMapper (preStep st img) (fRealSrc img) (fEthSrc img) = preStep st img := by
      unfold setActiveMapper; simp [hk]
    split <;> (unfold answerHello; simp only [hm, Bool.not_true, Bool.false_eq_true, if_false, if_neg hfit, hset, sendFx]) <;>
      (split <;> simp [absM, hk, hr])

/-- a Reset of either discovery service releases the mapper -/
theorem reset (c : Cfg) (g : Glob) (w : World) (st : St) (img : List Nat)
    (htos : fTos img = 0 ∨ fTos img = 1) (hop : fOpcode img = 8) :
    absM (parseFrameSt c g w st img).st = none := by
  rcases htos with h | h
  · simp [parseFrameSt, h, hop, resetSt, absM]
  · simp [parseFrameSt, h, hop, absM]

/-- after a Reset the next Discover from ANY station is accepted -/
theorem reset_then_open (st : St) (r : Mac) (h : absM st = none) : mapperMatches st r = true := by
  unfold absM at h
  unfold mapperMatches
  by_cases hk : st.known = true
  · simp [hk] at h
  · simp [hk]

/-- frames that are not commands, Discovers or Resets of a discovery service (Hello, Probe, Train, ACK, QueryResp,
    Charge, Flat, unknown opcodes) leave the active mapper untouched -/
theorem persist_other (c : Cfg) (g : Glob) (w : World) (st : St) (img : List Nat)
    (hop : fOpcode img ≠ 0 ∧ fOpcode img ≠ 2 ∧ fOpcode img ≠ 6 ∧ fOpcode img ≠ 8 ∧ fOpcode img ≠ 11) :
    absM (parseFrameSt c g w st img).st = absM st := by
  obtain ⟨h0, h2, h6, h8, h11⟩ := hop
  by_cases t0 : fTos img = 0
  · by_cases hp : fOpcode img = 3 ∨ fOpcode img = 4
    · simp only [parseFrameSt, t0, h0, h2, hp, X.tosDiscovery_val, X.tosQuick_val, X.opDiscover_val, X.opEmit_val,
        X.opTrain_val, X.opProbe_val, true_or, and_false, if_false, if_true]
      simp only [parseProbe]
      split
      · rfl
      · split
        · rfl
        · split
          · rfl
          · split <;> simp [absM]
    · have h3 : fOpcode img ≠ 3 := fun e => hp (Or.inl e)
      have h4 : fOpcode img ≠ 4 := fun e => hp (Or.inr e)
      simp [parseFrameSt, t0, h0, h2, h3, h4, h6, h8, h11]
  · by_cases t1 : fTos img = 1
    · simp [parseFrameSt, t1, h0, h8, h11]
    · simp [parseFrameSt, t0, t1]

/-- non-vacuity: the hijack that was possible before 03ac42c — a ToS-2 frame with opcode 0 from a stranger —
    now leaves a concrete active mapper in place -/
example : absM (parseFrameSt {} {} {} { known := true, mapperReal := [2, 0, 0, 0, 0, 0x11] }
    ([255,255,255,255,255,255, 2,0,0,0,0,0x12, 0x88,0xd9, 1, 2, 0, 0] ++ List.replicate 558 0)).st = some [2, 0, 0, 0, 0, 0x11] := by
  rw [foreign _ _ _ _ _ (by decide)]; rfl

end LLTD.C05
