/-
  C05 — One mapper at a time; Reset releases it; foreign services cannot seize it.
  Abstract state: `absM st` = the active mapper (if any).
-/
import LLTD.Lemmas.Obs
import LLTD.Lemmas.Mapper

namespace LLTD.C05
open LLTD LLTD.Spec

/-- the active mapper as the specification sees it -/
def absM (st : St) : Option Mac := if st.known then some st.mapperReal else none

/-- frames of other services (type of service ≥ 2) never establish, change or release the mapper, never change
    any other state, and are never answered — for ALL 254 foreign ToS values and all 256 opcodes -/
theorem foreign (c : Cfg) (g : Glob) (w : World) (st : St) (img : List Nat) (h : 2 ≤ fTos img) :
    parseFrameSt c g w st img = { st := st, w := w, fx := [] } := by
  have h0 : fTos img ≠ 0 := by omega
  have h1 : fTos img ≠ 1 := by omega
  simp [parseFrameSt, h0, h1]

/-- while a mapper is active, a Discover whose real source is another station gets no reply and changes nothing -/
theorem refuse (c : Cfg) (g : Glob) (w : World) (st : St) (img : List Nat) (m : Mac)
    (ha : absM st = some m) (hd : isDiscover img = true) (hne : fRealSrc img ≠ m) :
    parseFrameSt c g w st img = { st := st, w := w, fx := [] } := by
  obtain ⟨_, htos, hop⟩ := (isDiscover_iff img).mp hd
  have hk : st.known = true ∧ st.mapperReal = m := by
    unfold absM at ha
    split at ha
    · next hk => exact ⟨hk, by simpa using ha⟩
    · simp at ha
  have hrej : mapperMatches st (fRealSrc img) = false := by
    simp only [mapperMatches, hk.1, Bool.not_true, Bool.false_or, hk.2]
    simp only [beq_eq_false_iff_ne, ne_eq]
    exact fun e => hne e.symm
  rw [parseFrameSt_discover c g w st img htos hop]
  simp [hrej]

/-- every Discover from the active mapper, and every Discover while no mapper is active, is answered by
    exactly one Hello, and afterwards the Discover's real source is the active mapper -/
theorem answer (c : Cfg) (g : Glob) (w : World) (st : St) (img : List Nat) (hc : CfgOk c)
    (hd : isDiscover img = true) (hacc : absM st = none ∨ absM st = some (fRealSrc img))
    (hm : (w.malloc c.mtuEff).2 = true) :
    (∃ ok, (parseFrameSt c g w st img).fx.filter (fun x => match x with | .send .. => true | _ => false) =
        [Fx.send ok c.idx (helloFrame c g (fDiscGen img) (fTos img) (fRealSrc img) (fEthSrc img))]) ∧
    absM (parseFrameSt c g w st img).st = some (fRealSrc img) := by
  obtain ⟨hl, htos, hop⟩ := (isDiscover_iff img).mp hd
  have hmm : mapperMatches st (fRealSrc img) = true := by
    unfold absM at hacc
    unfold mapperMatches
    by_cases hk : st.known = true
    · simp only [hk, if_true] at hacc
      rcases hacc with h | h
      · simp at h
      · simp at h; simp [hk, h]
    · simp [hk]
  refine ⟨?_, ?_⟩
  · rw [parseFrameSt_discover c g w st img htos hop, if_pos hmm]
    have hfx := (answerHello_fx c g w (preStep st img) img hc hl hm).1
    rw [helloGen_preStep] at hfx
    refine ⟨((w.malloc c.mtuEff).1.send).2, ?_⟩
    split <;> simp [hfx]
  · rw [parseFrameSt_discover c g w st img htos hop, if_pos hmm]
    have hk := preStep_known st img
    have hr : (preStep st img).mapperReal = fRealSrc img := by
      have := setActive_real_of_matches st (fRealSrc img) (fEthSrc img) hmm
      unfold preStep; split <;> simpa using this
    have hfit := helloFrame_fits c g (helloGen (preStep st img) img) (fTos img) img hc hl
    have hset : setActiveMapper (preStep st img) (fRealSrc img) (fEthSrc img) = preStep st img := by
      unfold setActiveMapper; simp [hk]
    split <;> (unfold answerHello; simp only [hm, Bool.not_true, Bool.false_eq_true, if_false, if_neg hfit, hset, sendFx]) <;>
      (split <;> simp [absM, hk, hr])

/-- a Reset of either discovery service releases the mapper -/
theorem reset (c : Cfg) (g : Glob) (w : World) (st : St) (img : List Nat)
    (htos : fTos img = 0 ∨ fTos img = 1) (hop : fOpcode img = 8) :
    absM (parseFrameSt c g w st img).st = none := by
  rcases htos with h | h
  · simp [parseFrameSt, h, hop, resetSt, absM]
  · simp [parseFrameSt, h, hop, absM]

/-- after a Reset the next Discover from ANY station is accepted -/
theorem reset_then_open (st : St) (r : Mac) (h : absM st = none) : mapperMatches st r = true := by
  unfold absM at h
  unfold mapperMatches
  by_cases hk : st.known = true
  · simp [hk] at h
  · simp [hk]

/-- frames that are not commands, Discovers or Resets of a discovery service (Hello, Probe, Train, ACK, QueryResp,
    Charge, Flat, unknown opcodes) leave the active mapper untouched -/
theorem persist_other (c : Cfg) (g : Glob) (w : World) (st : St) (img : List Nat)
    (hop : fOpcode img ≠ 0 ∧ fOpcode img ≠ 2 ∧ fOpcode img ≠ 6 ∧ fOpcode img ≠ 8 ∧ fOpcode img ≠ 11) :
    absM (parseFrameSt c g w st img).st = absM st := by
  obtain ⟨h0, h2, h6, h8, h11⟩ := hop
  by_cases t0 : fTos img = 0
  · by_cases hp : fOpcode img = 3 ∨ fOpcode img = 4
    · simp only [parseFrameSt, t0, h0, h2, hp, X.tosDiscovery_val, X.tosQuick_val, X.opDiscover_val, X.opEmit_val,
        X.opTrain_val, X.opProbe_val, true_or, and_false, if_false, if_true]
      simp only [parseProbe]
      split
      · rfl
      · split
        · rfl
        · split
          · rfl
          · split <;> simp [absM]
    · have h3 : fOpcode img ≠ 3 := fun e => hp (Or.inl e)
      have h4 : fOpcode img ≠ 4 := fun e => hp (Or.inr e)
      simp [parseFrameSt, t0, h0, h2, h3, h4, h6, h8, h11]
  · by_cases t1 : fTos img = 1
    · simp [parseFrameSt, t1, h0, h8, h11]
    · simp [parseFrameSt, t0, t1]

/-- non-vacuity: the hijack that was possible before 03ac42c — a ToS-2 frame with opcode 0 from a stranger —
    now leaves a concrete active mapper in place -/
example : absM (parseFrameSt {} {} {} { known := true, mapperReal := [2, 0, 0, 0, 0, 0x11] }
    ([255,255,255,255,255,255, 2,0,0,0,0,0x12, 0x88,0xd9, 1, 2, 0, 0] ++ List.replicate 558 0)).st = some [2, 0, 0, 0, 0, 0x11] := by
  rw [foreign _ _ _ _ _ (by decide)]; rfl

end LLTD.C05


/-! ## The history form: reply-or-silence of every Discover is a function of (last Reset, first accepted session
    opener since) — the property predicate `holdsC05` holds of the model's trace for EVERY frame history -/

namespace LLTD.C05
open LLTD LLTD.Spec

/-- the observable trace of one interface over a history of buffer images -/
def runObs (c : Cfg) (g : Glob) : World → St → List (List Nat) → List RxObs
  | _, _, [] => []
  | w, st, img :: rest =>
    obsOf c g img (parseFrameSt c g w st img).fx :: runObs c g (parseFrameSt c g w st img).w (parseFrameSt c g w st img).st rest

/-- the same with the interface's attributes and the process-wide data possibly different at every frame (address changes are
    excluded by the theorems' hypotheses: the specification is stated for one station) -/
def runObsV : World → St → List (Cfg × Glob × List Nat) → List RxObs
  | _, _, [] => []
  | w, st, (c, g, img) :: rest =>
    obsOf c g img (parseFrameSt c g w st img).fx :: runObsV (parseFrameSt c g w st img).w (parseFrameSt c g w st img).st rest

/-- an accepted Discover produces exactly one transmit and it decodes as a Hello -/
theorem accepted_one_hello (c : Cfg) (g : Glob) (w : World) (st : St) (img : List Nat) (hc : CfgOk c) (hd : isDiscover img = true)
    (hacc : mapperMatches st (LLTD.fRealSrc img) = true) (hw : NoMFault w) :
    (sends (obsOf c g img (parseFrameSt c g w st img).fx).fx).length = 1 ∧
    (helloReplies (obsOf c g img (parseFrameSt c g w st img).fx).fx).length = 1 := by
  obtain ⟨hl, htos, hop⟩ := (isDiscover_iff img).mp hd
  have hm := malloc_nmf w c.mtuEff hw
  have h1 : (LLTD.fRealSrc img).length = 6 := slice_length _ _ _ (by simp; omega)
  have h2 : (LLTD.fEthSrc img).length = 6 := slice_length _ _ _ (by simp; omega)
  have hfx := (answerHello_fx c g w (preStep st img) img hc hl hm).1
  rw [helloGen_preStep] at hfx
  have hsends : sends (obsOf c g img (parseFrameSt c g w st img).fx).fx =
      [helloFrame c g (LLTD.fDiscGen img) (LLTD.fTos img) (LLTD.fRealSrc img) (LLTD.fEthSrc img)] := by
    rw [parseFrameSt_discover c g w st img htos hop, if_pos hacc]
    unfold obsOf
    split
    · simp only [hfx]; rfl
    · simp only [hfx]; rfl
  unfold helloReplies
  rw [hsends]
  simp [decodeHello_helloFrame c g _ _ _ _ hc h1 h2]

theorem refused_no_send (c : Cfg) (g : Glob) (w : World) (st : St) (img : List Nat) (hd : isDiscover img = true)
    (hrej : mapperMatches st (LLTD.fRealSrc img) = false) :
    sends (obsOf c g img (parseFrameSt c g w st img).fx).fx = [] := by
  obtain ⟨_, htos, hop⟩ := (isDiscover_iff img).mp hd
  rw [parseFrameSt_discover c g w st img htos hop]
  simp [hrej, obsOf, sends]

/-- one step of the predicate on the model's own reaction -/
theorem step_holds (c : Cfg) (g : Glob) (w : World) (st : St) (img : List Nat) (s : SpecSt) (hc : CfgOk c) (hw : NoMFault w)
    (hr : Rel st s.mapper) : holdsC05Rx s (obsOf c g img (parseFrameSt c g w st img).fx) = true := by
  unfold holdsC05Rx
  have hfr : (obsOf c g img (parseFrameSt c g w st img).fx).frame = img := rfl
  rw [hfr]
  by_cases hd : isDiscover img = true
  · simp only [hd, Bool.not_true, Bool.false_eq_true, if_false]
    rcases hr with h | h
    · rw [h]
    · rw [h]
      unfold absS
      by_cases hk : st.known = true
      · simp only [hk, if_true]
        by_cases hq : (Spec.fRealSrc img == st.mapperReal) = true
        · have hacc : mapperMatches st (LLTD.fRealSrc img) = true := by
            unfold mapperMatches; rw [spec_fRealSrc] at hq; simp [hk, eq_of_beq hq]
          have := accepted_one_hello c g w st img hc hd hacc hw
          simp [hq, this.1, this.2]
        · have hrej : mapperMatches st (LLTD.fRealSrc img) = false := by
            unfold mapperMatches
            rw [spec_fRealSrc] at hq
            simp only [hk, Bool.not_true, Bool.false_or]
            cases hqq : (st.mapperReal == LLTD.fRealSrc img) with
            | false => rfl
            | true => exact absurd (by rw [eq_of_beq hqq]; exact beq_self_eq_true _) hq
          simp [hq, refused_no_send c g w st img hd hrej]
      · have hacc : mapperMatches st (LLTD.fRealSrc img) = true := by unfold mapperMatches; simp [hk]
        have := accepted_one_hello c g w st img hc hd hacc hw
        simp [hk, this.1, this.2]
  · simp only [hd, Bool.not_false, if_true]
    by_cases hf : (decide (img.length ≥ 32) && decide (Spec.fTos img ≥ 2)) = true
    · simp only [hf, if_true]
      simp only [Bool.and_eq_true, decide_eq_true_eq] at hf
      have : 2 ≤ LLTD.fTos img := by rw [← spec_fTos]; exact hf.2
      rw [foreign c g w st img this]
      rfl
    · simp only [hf]; rfl

/-- an accepted Discover under ANY platform behaviour: at most one transmit, and it decodes as a Hello -/
theorem accepted_at_most_one (c : Cfg) (g : Glob) (w : World) (st : St) (img : List Nat) (hc : CfgOk c) (hd : isDiscover img = true)
    (hacc : mapperMatches st (LLTD.fRealSrc img) = true) :
    (sends (obsOf c g img (parseFrameSt c g w st img).fx).fx).length ≤ 1 ∧
    (helloReplies (obsOf c g img (parseFrameSt c g w st img).fx).fx).length = (sends (obsOf c g img (parseFrameSt c g w st img).fx).fx).length := by
  by_cases hm : (w.malloc c.mtuEff).2 = true
  · have hw : (sends (obsOf c g img (parseFrameSt c g w st img).fx).fx).length = 1 ∧
        (helloReplies (obsOf c g img (parseFrameSt c g w st img).fx).fx).length = 1 := by
      obtain ⟨hl, htos, hop⟩ := (isDiscover_iff img).mp hd
      have h1 : (LLTD.fRealSrc img).length = 6 := slice_length _ _ _ (by simp; omega)
      have h2 : (LLTD.fEthSrc img).length = 6 := slice_length _ _ _ (by simp; omega)
      have hfx := (answerHello_fx c g w (preStep st img) img hc hl hm).1
      rw [helloGen_preStep] at hfx
      have hsends : sends (obsOf c g img (parseFrameSt c g w st img).fx).fx =
          [helloFrame c g (LLTD.fDiscGen img) (LLTD.fTos img) (LLTD.fRealSrc img) (LLTD.fEthSrc img)] := by
        rw [parseFrameSt_discover c g w st img htos hop, if_pos hacc]
        unfold obsOf
        split
        · simp only [hfx]; rfl
        · simp only [hfx]; rfl
      unfold helloReplies
      rw [hsends]
      simp [decodeHello_helloFrame c g _ _ _ _ hc h1 h2]
    omega
  · have hm' : (w.malloc c.mtuEff).2 = false := by cases h : (w.malloc c.mtuEff).2 <;> simp_all
    obtain ⟨_, htos, hop⟩ := (isDiscover_iff img).mp hd
    have hfx := answerHello_fx_fail c g w (preStep st img) img hm'
    have hsends : sends (obsOf c g img (parseFrameSt c g w st img).fx).fx = [] := by
      rw [parseFrameSt_discover c g w st img htos hop, if_pos hacc]
      unfold obsOf
      split
      · simp only [hfx]; rfl
      · simp only [hfx]; rfl
    unfold helloReplies
    rw [hsends]
    simp

/-- one step of the relaxed predicate, for EVERY platform behaviour (allocations and transmits refused in any pattern) -/
theorem step_holds_any (c : Cfg) (g : Glob) (w : World) (st : St) (img : List Nat) (s : SpecSt) (hc : CfgOk c)
    (hr : Rel st s.mapper) : holdsC05RxF s (obsOf c g img (parseFrameSt c g w st img).fx) = true := by
  unfold holdsC05RxF
  have hfr : (obsOf c g img (parseFrameSt c g w st img).fx).frame = img := rfl
  rw [hfr]
  by_cases hd : isDiscover img = true
  · simp only [hd, Bool.not_true, Bool.false_eq_true, if_false]
    rcases hr with h | h
    · rw [h]
    · rw [h]
      unfold absS
      by_cases hk : st.known = true
      · simp only [hk, if_true]
        by_cases hq : (Spec.fRealSrc img == st.mapperReal) = true
        · have hacc : mapperMatches st (LLTD.fRealSrc img) = true := by
            unfold mapperMatches; rw [spec_fRealSrc] at hq; simp [hk, eq_of_beq hq]
          have := accepted_at_most_one c g w st img hc hd hacc
          simp [hq, this.1, this.2]
        · have hrej : mapperMatches st (LLTD.fRealSrc img) = false := by
            unfold mapperMatches
            rw [spec_fRealSrc] at hq
            simp only [hk, Bool.not_true, Bool.false_or]
            cases hqq : (st.mapperReal == LLTD.fRealSrc img) with
            | false => rfl
            | true => exact absurd (by rw [eq_of_beq hqq]; exact beq_self_eq_true _) hq
          simp [hq, refused_no_send c g w st img hd hrej]
      · have hacc : mapperMatches st (LLTD.fRealSrc img) = true := by unfold mapperMatches; simp [hk]
        have := accepted_at_most_one c g w st img hc hd hacc
        simp [hk, this.1, this.2]
  · simp only [hd, Bool.not_false, if_true]
    by_cases hf : (decide (img.length ≥ 32) && decide (Spec.fTos img ≥ 2)) = true
    · simp only [hf, if_true]
      simp only [Bool.and_eq_true, decide_eq_true_eq] at hf
      have : 2 ≤ LLTD.fTos img := by rw [← spec_fTos]; exact hf.2
      rw [foreign c g w st img this]
      rfl
    · simp only [hf]; rfl

/-- THE HISTORY THEOREM FOR EVERY PLATFORM BEHAVIOUR: whatever allocations and transmits are refused along the way, no stranger is
    ever answered, the mapper gets at most one frame per Discover and it is a Hello, and who the mapper is follows the
    specification (a Hello that could not be built still makes its addressee the mapper) -/
theorem history_any (c : Cfg) (g : Glob) (own : List Nat) (hc : CfgOk c) (hm : c.failMtu = false) (imgs : List (List Nat))
    (himgs : ∀ img ∈ imgs, ImgOk img) (w : World) (st : St) (s : SpecSt) (hr : Rel st s.mapper) :
    (specStatesDom own 300 s (runObs c g w st imgs)).all (fun p => holdsC05RxF p.1 p.2) = true := by
  induction imgs generalizing w st s with
  | nil => rfl
  | cons img rest ih =>
    have him := himgs img (by simp)
    simp only [runObs, specStatesDom, List.all_cons, Bool.and_eq_true]
    refine ⟨step_holds_any c g w st img s hc hr, ?_⟩
    apply ih (fun i hi => himgs i (by simp [hi]))
    have hfr : (obsOf c g img (parseFrameSt c g w st img).fx).frame = img := rfl
    rw [hfr, spec_mapper own 300 _ s img _ him.len]
    exact rel_step c g w st img s.mapper hc hm hr

/-- THE HISTORY THEOREM — for every frame history and every pattern of refused transmits (only allocations must succeed:
    a Hello that cannot be built is not sent) -/
theorem history (c : Cfg) (g : Glob) (own : List Nat) (hc : CfgOk c) (hm : c.failMtu = false) (imgs : List (List Nat))
    (himgs : ∀ img ∈ imgs, ImgOk img) (w : World) (st : St) (s : SpecSt) (hw : NoMFault w) (hr : Rel st s.mapper) :
    (specStatesDom own 300 s (runObs c g w st imgs)).all (fun p => holdsC05Rx p.1 p.2) = true := by
  induction imgs generalizing w st s with
  | nil => rfl
  | cons img rest ih =>
    have him := himgs img (by simp)
    simp only [runObs, specStatesDom, List.all_cons, Bool.and_eq_true]
    refine ⟨step_holds c g w st img s hc hw hr, ?_⟩
    apply ih (fun i hi => himgs i (by simp [hi]))
    · exact nmf_of_sched hw (parseFrameSt_sched c g w st img)
    · have hfr : (obsOf c g img (parseFrameSt c g w st img).fx).frame = img := rfl
      rw [hfr, spec_mapper own 300 _ s img _ him.len]
      exact rel_step c g w st img s.mapper hc hm hr

/-- from a freshly started responder: `holdsC05` of the whole trace -/
theorem history_fresh (c : Cfg) (g : Glob) (hc : CfgOk c) (hm : c.failMtu = false) (imgs : List (List Nat))
    (himgs : ∀ img ∈ imgs, ImgOk img) (w : World) (hw : NoMFault w) :
    holdsC05 c.mac (runObs c g w {} imgs) = true :=
  history c g c.mac hc hm imgs himgs w {} {} hw (rel_abs _ _ rfl)

/-- non-vacuity of `history_any`: with every allocation refused an accepted Discover sends nothing, and the relaxed clause holds -/
example : holdsC05RxF { mapper := .none } { cfg := {}, glob := {}, frame := List.replicate 15 0 ++ [0, 0, 0] ++ List.replicate 42 0, fx := [] } = true := by decide

/-- non-vacuity: a platform that refuses EVERY transmit meets the hypothesis of `history` -/
example : NoMFault { failSendAll := true, failSend := [1, 2, 3] } := ⟨rfl, rfl⟩

end LLTD.C05
