/-
  C05 for the TRANSLATED source (DESIGN.md section 12.10): the two functions of lltdResponder/lltdBlock.c through which every "is this
  the active mapper?" / "install the mapper" decision goes - `mapper_matches` and `set_active_mapper` - as translated from the C text on
  every run, over the bytes of the per-interface record (offsets from a probe that includes lltdBlock.c):
  with no mapper known every station matches; with one known exactly its real address matches (all six bytes); an established mapper
  is never replaced and not a byte of the record changes; without one exactly the two addresses and the flag are stored.
-/
import LLTD.Props.C05
import LLTD.Lemmas.TranslatedMapperEq

namespace LLTD.C05T
open LLTD LLTD.TMapEq

theorem matches_translated (env : TW.Env) (b : List Nat) (st : St) (rs : Mac) (h : Enc b st) (hrs : rs.length = 6) :
    (TW.mapper_matches env b rs).ret = mapperMatches st rs := mapper_matches_eq env b st rs h hrs

/-- one mapper at a time: while a mapper is established, a station with any other real address is not it -/
theorem stranger_refused_translated (env : TW.Env) (b : List Nat) (st : St) (rs : Mac) (h : Enc b st) (hrs : rs.length = 6)
    (hk : st.known = true) (hne : st.mapperReal ≠ rs) : (TW.mapper_matches env b rs).ret = false := by
  rw [mapper_matches_eq env b st rs h hrs]
  simp [mapperMatches, hk, hne]

theorem mapper_accepted_translated (env : TW.Env) (b : List Nat) (st : St) (h : Enc b st) (h6 : st.mapperReal.length = 6) :
    (TW.mapper_matches env b st.mapperReal).ret = true := by
  rw [mapper_matches_eq env b st _ h h6]
  simp [mapperMatches]

theorem fresh_accepts_translated (env : TW.Env) (b : List Nat) (st : St) (rs : Mac) (h : Enc b st) (hrs : rs.length = 6)
    (hk : st.known = false) : (TW.mapper_matches env b rs).ret = true := by
  rw [mapper_matches_eq env b st rs h hrs]
  simp [mapperMatches, hk]

/-- installing a mapper: the record afterwards encodes the model's `setActiveMapper`; an established mapper keeps every byte -/
theorem install_translated (env : TW.Env) (p r a rest : List Nat) (k : Nat) (st : St) (rs es : Mac)
    (hp : p.length = 28) (hr : r.length = 6) (ha : a.length = 6) (hrs : rs.length = 6) (hes : es.length = 6)
    (h1 : r = st.mapperReal) (h2 : a = st.mapperApparent) (h3 : (k != 0) = st.known) :
    Enc (TW.set_active_mapper env (recBytes p r a k rest) rs es).st (setActiveMapper st rs es)
    ∧ (st.known = true → (TW.set_active_mapper env (recBytes p r a k rest) rs es).st = recBytes p r a k rest)
    ∧ (st.known = false → (TW.set_active_mapper env (recBytes p r a k rest) rs es).st = recBytes p rs es 1 rest) := by
  have h := set_active_mapper_eq env p r a rest k st rs es hp hr ha hrs hes h1 h2 h3
  refine ⟨h.2, ?_, ?_⟩
  · intro hk; rw [h.1]; simp [hk]
  · intro hk; rw [h.1]; simp [hk]

/-- the hypotheses are satisfiable: a zeroed 48-byte record encodes the fresh model state -/
example : Enc (recBytes (List.replicate 28 0) (List.replicate 6 0) (List.replicate 6 0) 0 (List.replicate 7 0)) ({} : St) :=
  enc_rec _ _ _ _ _ _ (by simp) (by simp) (by simp) rfl rfl rfl

end LLTD.C05T
