/-
  C13 for the TRANSLATED SOURCE: the property predicates of `Spec/Automata.lean` hold of the Lean definitions that
  tools/c2lean.py regenerates from lltdResponder/lltdAutomata.c on every run (`Generated/Translated.lean`), for every
  band record whose fields are values of their C types and every clock reading — obtained from the model-level
  theorems of `Props/C13.lean` through the equalities of `Lemmas/TranslatedEq.lean`.
  A change to band_update_stats / band_choose_hello_time / band_on_hello_received / band_init_stats / band_do_hello
  in the C source changes the terms these theorems are about.  No Mathlib.
-/
import LLTD.Props.C13
import LLTD.Lemmas.TranslatedEq

namespace LLTD.C13T
open LLTD LLTD.Spec LLTD.TEq

/-- band_update_stats as compiled from the C text: r restarts, Ni follows min(10000, 45·r²) when r > 0 and the
    enumeration has begun, is kept otherwise, and stays inside [45, 10000] -/
theorem update_translated (e : T.Env) (b : T.band_state) (he : ClockOk e) (hb : BandOk b) :
    holdsC13Update (bandOfC b) (bandOfC (T.band_update_stats e b).band) = true := by
  rw [band_update_stats_eq e b he]
  exact C13.update (bandOfC b) hb.2 e.nowMs

/-- the formula itself, on the translated function, for every r a `uint32_t` can hold (65536 and 2^32 − 1 included) -/
theorem formula_translated (e : T.Env) (b : T.band_state) (he : ClockOk e) (hb : BandOk b) (hr : 0 < b.r) (hg : b.begun = true) :
    (T.band_update_stats e b).band.Ni = min 10000 (45 * b.r ^ 2) ∧ (T.band_update_stats e b).band.r = 0 ∧
    (T.band_update_stats e b).band.block_timeout_ts = e.nowMs + 300 := by
  have h := band_update_stats_eq e b he
  have h1 : (bandOfC (T.band_update_stats e b).band).ni = (bandUpdateStats (bandOfC b) e.nowMs).ni := by rw [h]
  have h2 : (bandOfC (T.band_update_stats e b).band).r = (bandUpdateStats (bandOfC b) e.nowMs).r := by rw [h]
  have h3 : (bandOfC (T.band_update_stats e b).band).blockTs = (bandUpdateStats (bandOfC b) e.nowMs).blockTs := by rw [h]
  have hf := C13.formula b.r hb.2
  refine ⟨?_, ?_, ?_⟩
  · have : (bandUpdateStats (bandOfC b) e.nowMs).ni = bandNewNi b.r := by
      simp [bandUpdateStats, bandOfC, hr, hg]
    have h1' : (T.band_update_stats e b).band.Ni = (bandUpdateStats (bandOfC b) e.nowMs).ni := h1
    rw [h1', this, hf]; unfold niFormula; rfl
  · simpa [bandOfC, bandUpdateStats] using h2
  · simpa [bandOfC, bandUpdateStats] using h3

/-- band_choose_hello_time as compiled from the C text: never sooner than the load formula allows, Ni untouched -/
theorem choose_translated (e : T.Env) (b : T.band_state) (he : ClockOk e) (hb : BandOk b) :
    holdsC13Choose (bandOfC b) (bandOfC (T.band_choose_hello_time e b).band) e.nowMs = true := by
  rw [(band_choose_hello_time_eq e b he hb).1]
  exact C13.choose (bandOfC b) e.nowMs

/-- the exact interval: max(6, ⌈4·Ni·20 / 30⌉) ms from now, also as the function's return value -/
theorem interval_translated (e : T.Env) (b : T.band_state) (he : ClockOk e) (hb : BandOk b) :
    (T.band_choose_hello_time e b).ret = e.nowMs + max 6 (loadInterval b.Ni) := by
  rw [(band_choose_hello_time_eq e b he hb).2]
  simp [bandChooseHelloTime, C13.interval, bandOfC]

/-- band_on_hello_received as compiled from the C text: every Hello heard adds exactly one -/
theorem heard_translated (e : T.Env) (b : T.band_state) (hb : BandOk b) :
    holdsC13Heard (bandOfC b) (bandOfC (T.band_on_hello_received e b).band) = true := by
  rw [band_on_hello_received_eq e b]
  exact C13.heard (bandOfC b) hb.2

/-- the tick's block-end sequence `band_update_stats; band_choose_hello_time` on the translated functions -/
theorem block_end_translated (e : T.Env) (b : T.band_state) (he : ClockOk e) (hb : BandOk b)
    (hok : BandOk (T.band_update_stats e b).band) :
    bandOfC (T.band_choose_hello_time e (T.band_update_stats e b).band).band =
      bandChooseHelloTime (bandUpdateStats (bandOfC b) e.nowMs) e.nowMs := by
  rw [(band_choose_hello_time_eq e _ he hok).1, band_update_stats_eq e b he]

/-- `BandOk` is an invariant of the translated update: the range clause of C13 keeps `Ni ≤ 10000` -/
theorem bandOk_update (e : T.Env) (b : T.band_state) (he : ClockOk e) (hb : BandOk b) : BandOk (T.band_update_stats e b).band := by
  have h := update_translated e b he hb
  have heq := band_update_stats_eq e b he
  have hr : (bandOfC (T.band_update_stats e b).band).r = 0 := by rw [heq]; rfl
  have hn : (bandOfC (T.band_update_stats e b).band).ni ≤ 10000 := by
    rw [heq]; unfold bandUpdateStats
    by_cases hc : (bandOfC b).r > 0 ∧ (bandOfC b).begun = true
    · simp only [if_pos hc]
      have hf : bandNewNi (bandOfC b).r = niFormula (bandOfC b).r := C13.formula _ hb.2
      rw [hf]; unfold niFormula; omega
    · simp only [if_neg hc]; exact hb.1
  exact ⟨by simpa [bandOfC] using hn, by simp only [bandOfC] at hr; unfold u32; omega⟩

/-- band_init_stats as compiled: the count starts at 45 with r = 0 -/
theorem init_translated (e : T.Env) (b : T.band_state) (he : ClockOk e) :
    (T.band_init_stats e b).band.Ni = 45 ∧ (T.band_init_stats e b).band.r = 0 ∧ (T.band_init_stats e b).band.begun = false := by
  have h := band_init_stats_eq e b he
  have h1 : (bandOfC (T.band_init_stats e b).band) = bandInitStats (bandOfC b) e.nowMs := h
  simp [bandOfC, bandInitStats, Band.mk.injEq] at h1
  exact ⟨h1.1, h1.2.1, h1.2.2.1⟩

-- non-vacuity: a concrete record and clock meet the hypotheses, and the translated function computes on them
example : BandOk { Ni := 45, r := 65536, begun := true, hello_timeout_ts := 0, block_timeout_ts := 0 } ∧
    ClockOk { nowMs := 123456, nowS := 123 } := by
  refine ⟨⟨by decide, by decide⟩, by decide, by decide⟩
example : (T.band_update_stats { nowMs := 1000, nowS := 1 } { Ni := 45, r := 65536, begun := true, hello_timeout_ts := 0, block_timeout_ts := 0 }).band.Ni = 10000 := by
  decide
example : (T.band_update_stats { nowMs := 1000, nowS := 1 } { Ni := 45, r := 3, begun := true, hello_timeout_ts := 0, block_timeout_ts := 0 }).band.Ni = 405 := by
  decide

end LLTD.C13T
