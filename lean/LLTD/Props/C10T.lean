/-
  C10 for the TRANSLATED source (DESIGN.md section 12.10): the Probe / Train frame that `setLltdHeaderEx` of lltdWire.c - as translated
  from the C text on every run, with the arguments `sendProbeMsg` passes - stores, read back by the INDEPENDENT decoder, names the
  descriptor's destination as Ethernet AND real destination and the emitting responder's own address as real source: exactly what the
  observing responder filters on (`parseProbe` compares the real destination with its own address) and what it records and reports.
-/
import LLTD.Props.C10
import LLTD.Props.C06T

namespace LLTD.C10T
open LLTD LLTD.Spec LLTD.TWEq

theorem probe_fields_translated (env : TW.Env) (c : Cfg) (hc : CfgOk c) (src dst : Mac) (ty : Nat) (hs : src.length = 6) (hd : dst.length = 6) :
    decodeBase (TW.setLltdHeaderEx env (List.replicate 32 0) src dst c.ourMac dst 0 (if ty = 1 then X.opProbe else X.opTrain) X.tosDiscovery).buffer
      = some { ethDst := dst, ethSrc := src, etherType := 0x88D9, version := 1, tos := X.tosDiscovery, reserved := 0,
               opcode := (if ty = 1 then X.opProbe else X.opTrain), realDst := dst, realSrc := c.ourMac, seq := 0 } := by
  rw [C06T.probe_frame_translated env c hc src dst ty hs hd]
  have hm := ourMac_length c hc
  have := decodeBase_lltdHeader 0 dst src dst c.ourMac 0 (if ty = 1 then X.opProbe else X.opTrain) X.tosDiscovery [] hd hs hd hm
  simpa [C06.probeFrame] using this

end LLTD.C10T
