/-
  C03 — An accepted Discover is answered by exactly one correct Hello.
-/
import LLTD.Lemmas.Obs

namespace LLTD.C03
open LLTD LLTD.Spec

/-- exactly one transmit, and it is this Hello frame: sourced from the interface's address, broadcast, the
    Discover's service type, sequence number 0, naming the Discover's real source / Ethernet source as
    current / apparent mapper and carrying the generation of that very Discover — in EVERY state
    (whatever Hellos were heard before, whatever the stored generations of either service) -/
theorem hello_frame (c : Cfg) (g : Glob) (w : World) (st : St) (img : List Nat) (hc : CfgOk c)
    (hd : isDiscover img = true) (hacc : mapperMatches st (fRealSrc img) = true) (hm : (w.malloc c.mtuEff).2 = true) :
    ∃ ok, (parseFrameSt c g w st img).fx.filter (fun x => match x with | .send .. => true | _ => false) =
      [Fx.send ok c.idx (helloFrame c g (fDiscGen img) (fTos img) (fRealSrc img) (fEthSrc img))] := by
  obtain ⟨hl, htos, hop⟩ := (isDiscover_iff img).mp hd
  rw [parseFrameSt_discover c g w st img htos hop, if_pos hacc]
  have hfx := (answerHello_fx c g w (preStep st img) img hc hl hm).1
  rw [helloGen_preStep] at hfx
  refine ⟨((w.malloc c.mtuEff).1.send).2, ?_⟩
  split <;> simp [hfx]

/-- the property predicate holds of the model's reaction to every accepted Discover -/
theorem accepted_discover_answered (c : Cfg) (g : Glob) (w : World) (st : St) (img : List Nat) (hc : CfgOk c)
    (hmac : c.failMac = false) (hb : isBytes img)
    (hd : isDiscover img = true) (hacc : mapperMatches st (fRealSrc img) = true) (hm : (w.malloc c.mtuEff).2 = true) :
    holdsC03Rx (obsOf c g img (parseFrameSt c g w st img).fx) = true := by
  obtain ⟨hl, htos, hop⟩ := (isDiscover_iff img).mp hd
  have h1 : (LLTD.fRealSrc img).length = 6 := slice_length _ _ _ (by simp; omega)
  have h2 : (LLTD.fEthSrc img).length = 6 := slice_length _ _ _ (by simp; omega)
  have hfx := (answerHello_fx c g w (preStep st img) img hc hl hm).1
  rw [helloGen_preStep] at hfx
  have hgen : LLTD.fDiscGen img % 65536 = LLTD.fDiscGen img := by
    apply Nat.mod_eq_of_lt
    unfold LLTD.fDiscGen
    exact unbe_slice_two_lt img _ hb
  have hown : c.ourMac = c.mac := by simp [Cfg.ourMac, hmac]
  have hsends : sends (obsOf c g img (parseFrameSt c g w st img).fx).fx =
      [helloFrame c g (LLTD.fDiscGen img) (LLTD.fTos img) (LLTD.fRealSrc img) (LLTD.fEthSrc img)] := by
    rw [parseFrameSt_discover c g w st img htos hop, if_pos hacc]
    unfold obsOf
    split
    · simp only [hfx]; rfl
    · simp only [hfx]; rfl
  unfold holdsC03Rx
  have hd' : isDiscover (obsOf c g img (parseFrameSt c g w st img).fx).frame = true := hd
  simp only [hd', hsends, Bool.not_true, Bool.false_or, List.isEmpty_cons, Bool.false_eq_true, if_false]
  rw [decodeHello_helloFrame c g _ _ _ _ hc h1 h2]
  simp [obsOf, hown, spec_fTos, spec_fRealSrc, spec_fEthSrc, spec_gen, hgen]

/-- a Discover that is not accepted gets no reply and changes nothing -/
theorem refused_discover_silent (c : Cfg) (g : Glob) (w : World) (st : St) (img : List Nat)
    (hd : isDiscover img = true) (hrej : mapperMatches st (fRealSrc img) = false) :
    parseFrameSt c g w st img = { st := st, w := w, fx := [] } := by
  obtain ⟨_, htos, hop⟩ := (isDiscover_iff img).mp hd
  rw [parseFrameSt_discover c g w st img htos hop]
  simp [hrej]

/-- non-vacuity: a concrete wired configuration satisfies the hypotheses -/
example : CfgOk { mac := [2, 0xaa, 0xbb, 0xcc, 0xdd, 1], mtu := 1500 } :=
  ⟨rfl, rfl, rfl, rfl, by decide, by decide⟩

end LLTD.C03
