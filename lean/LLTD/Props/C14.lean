/-
  C14 — The mapping engine follows its state machine and times out.
  Property theorems only (helper lemmas live in Lemmas/).
-/
import LLTD.Lemmas.Lookup
import LLTD.Lemmas.Table
import LLTD.Spec.Automata

namespace LLTD.C14
open LLTD LLTD.Spec

/-- every row of the table as built by init_automata_mapping stays inside states_table (feeds C01) -/
theorem rows_in_range : ∀ r ∈ X.mappingTable, r.1 < X.mappingStatesNo ∧ r.2.1 < X.mappingStatesNo := by decide

theorem table_fits : X.mappingStatesNo = 3 ∧ X.mappingStatesNo ≤ X.maxStates ∧
    X.mappingTable.length ≤ X.maxTransitions ∧ X.mappingInit = 0 := by decide

/-- idle has no timeout, Command and Emit have a non-zero one of at most 30 s -/
theorem timeouts : holdsC14Timeouts X.mappingTimeouts = true := by decide

/-- the table, interpreted "last matching row wins", is the specified transition function — for every integer input -/
theorem lookup_spec (s : Nat) (hs : s < 3) (i : Int) : (lookup X.mappingTable s i).1 = mapSpec s i := by
  by_cases h : i ∈ inputsOf X.mappingTable
  · have key : ∀ s' < 3, ∀ i' ∈ inputsOf X.mappingTable, (lookup X.mappingTable s' i').1 = mapSpec s' i' := by decide
    exact key s hs i h
  · rw [lookup_nomatch _ _ _ h]
    have h' : i ≠ 0 ∧ i ≠ -1 ∧ i ≠ 8 ∧ i ≠ 2 ∧ i ≠ -3 := by
      refine ⟨?_, ?_, ?_, ?_, ?_⟩ <;> (intro e; apply h; rw [e]; decide)
    obtain ⟨h0, h1, h8, h2, h3⟩ := h'
    match s, hs with
    | 0, _ => simp [mapSpec, h0]
    | 1, _ => simp [mapSpec, h8, h1, h2]
    | 2, _ => simp [mapSpec, h8, h1, h3]

/-- "every other frame, whatever its opcode, leaves the state unchanged" -/
theorem ignore (s : Nat) (i : Int) (h : i ≠ 0 ∧ i ≠ 2 ∧ i ≠ 8 ∧ i ≠ -1 ∧ i ≠ -3) : mapSpec s i = s := by
  obtain ⟨h0, h2, h8, h1, h3⟩ := h
  unfold mapSpec
  split <;> simp [*]

theorem state_in_range (pre : Fsm) (hs : pre.state < 3) (i : Int) (now : Nat) : (stepMapping pre i now).state < 3 :=
  stepTimedAux_range _ _ 3 (by decide) 2 pre i now hs

/-- one step of switch_state_mapping satisfies the property predicate, for every state, integer input and time -/
theorem step (pre : Fsm) (hs : pre.state < 3) (i : Int) (now : Nat) (hn : now < u64) :
    holdsC14Step (timeoutOf X.mappingTimeouts pre.state) pre (stepMapping pre i now) i now = true := by
  unfold holdsC14Step
  by_cases hw : timeoutOf X.mappingTimeouts pre.state = 0 ∨ diff64 now pre.lastTs ≤ timeoutOf X.mappingTimeouts pre.state
  · have e := stepTimed_within X.mappingTable X.mappingTimeouts pre i now hw
    unfold stepMapping
    rw [e]
    simp only [if_pos hw, lookup_spec pre.state hs i, decide_true, Bool.and_self]
  · have hx : timeoutOf X.mappingTimeouts pre.state ≠ 0 ∧ diff64 now pre.lastTs > timeoutOf X.mappingTimeouts pre.state := by
      constructor
      · intro h0; exact hw (Or.inl h0)
      · omega
    have e := stepTimed_expired X.mappingTable X.mappingTimeouts pre i now hn hx
    unfold stepMapping
    rw [e]
    have h0 : (lookup X.mappingTable (lookup X.mappingTable pre.state (-1)).1 (-1)).1 = 0 := by
      have key : ∀ s' < 3, (lookup X.mappingTable (lookup X.mappingTable s' (-1)).1 (-1)).1 = 0 := by decide
      exact key _ hs
    simp only [if_neg hw, h0, decide_true, Bool.true_or, Bool.and_self]

/-- the same when the clock moves while the call runs (`stepMappingR`: `now1` read on entry, `now2` on the second level after
    an expiry): the decision is the one for the time of entry, whatever the second reading (the stamp: `stamp_at_entry`) -/
theorem step_moving_clock (pre : Fsm) (hs : pre.state < 3) (i : Int) (now1 now2 : Nat) (hn : now1 < u64) :
    holdsC14Step (timeoutOf X.mappingTimeouts pre.state) pre { state := (stepMappingR pre i now1 now2).state, lastTs := now1 } i now1 = true := by
  unfold holdsC14Step
  by_cases hw : timeoutOf X.mappingTimeouts pre.state = 0 ∨ diff64 now1 pre.lastTs ≤ timeoutOf X.mappingTimeouts pre.state
  · have e := stepTimedR_within X.mappingTable X.mappingTimeouts pre i now1 now2 hw
    unfold stepMappingR
    rw [e]
    simp only [if_pos hw, lookup_spec pre.state hs i, decide_true, Bool.and_self]
  · have hx : timeoutOf X.mappingTimeouts pre.state ≠ 0 ∧ diff64 now1 pre.lastTs > timeoutOf X.mappingTimeouts pre.state := by
      constructor
      · intro h0; exact hw (Or.inl h0)
      · omega
    unfold stepMappingR
    rw [stepTimedR_expired X.mappingTable X.mappingTimeouts pre i now1 now2 hx, stepTimedAux_one_state]
    have h0 : (lookup X.mappingTable (lookup X.mappingTable pre.state (-1)).1 (-1)).1 = 0 := by
      have key : ∀ s' < 3, (lookup X.mappingTable (lookup X.mappingTable s' (-1)).1 (-1)).1 = 0 := by decide
      exact key _ hs
    simp only [if_neg hw, h0, decide_true, Bool.true_or, Bool.and_self]

theorem stamp_at_entry (pre : Fsm) (i : Int) (now1 now2 : Nat) (hn : now1 < u64)
    (hw : timeoutOf X.mappingTimeouts pre.state = 0 ∨ diff64 now1 pre.lastTs ≤ timeoutOf X.mappingTimeouts pre.state) :
    (stepMappingR pre i now1 now2).lastTs = now1 := by
  unfold stepMappingR
  rw [stepTimedR_within X.mappingTable X.mappingTimeouts pre i now1 now2 hw]

theorem moving_same (pre : Fsm) (i : Int) (now : Nat) : stepMappingR pre i now now = stepMapping pre i now :=
  stepTimedR_same _ _ pre i now

/-- every call stamps the time of the call -/
theorem last_ts (pre : Fsm) (i : Int) (now : Nat) : (stepMapping pre i now).lastTs = now :=
  stepTimedAux_lastTs _ _ 1 pre i now

/-- histories: the only memory is (state, last time stamp), so every reachable
    state is in range and every step of every event/time sequence meets the predicate -/
def run (a : Fsm) : List (Int × Nat) → Fsm
  | [] => a
  | (i, now) :: rest => run (stepMapping a i now) rest

def stepsOk (a : Fsm) : List (Int × Nat) → Bool
  | [] => true
  | (i, now) :: rest =>
    holdsC14Step (timeoutOf X.mappingTimeouts a.state) a (stepMapping a i now) i now && stepsOk (stepMapping a i now) rest

/-- all time stamps are 64-bit values; nothing else is assumed about them: the elapsed time is taken modulo 2^64, as the C code
    takes it, so a seconds counter that wraps — or a clock that steps backwards — is covered -/
def timesOk : List (Int × Nat) → Prop
  | [] => True
  | (_, now) :: rest => now < u64 ∧ timesOk rest

/-- every step of every event/time history meets the predicate -/
theorem history (a : Fsm) (hs : a.state < 3) (evs : List (Int × Nat)) (hm : timesOk evs) :
    stepsOk a evs = true ∧ (run a evs).state < 3 := by
  induction evs generalizing a with
  | nil => exact ⟨rfl, hs⟩
  | cons ev rest ih =>
    obtain ⟨i, now⟩ := ev
    obtain ⟨h2, h3⟩ := hm
    have hs' := state_in_range a hs i now
    have := ih (stepMapping a i now) hs' h3
    simp only [stepsOk, run, step a hs i now h2, this.1, Bool.and_self, true_and]
    exact this.2

/-- a time-out input always ends the session, whatever the time stamps -/
theorem timeout_to_idle (f : Fsm) (hs : f.state < 3) (now : Nat) (hn : now < u64) : (stepMapping f (-1) now).state = 0 := by
  have k1 : ∀ s' < 3, (lookup X.mappingTable s' (-1)).1 = 0 := by decide
  have k2 : ∀ s' < 3, (lookup X.mappingTable (lookup X.mappingTable s' (-1)).1 (-1)).1 = 0 := by decide
  unfold stepMapping
  by_cases hx : timeoutOf X.mappingTimeouts f.state ≠ 0 ∧ diff64 now f.lastTs > timeoutOf X.mappingTimeouts f.state
  · rw [stepTimed_expired _ _ f (-1) now hn hx]; exact k2 _ hs
  · rw [stepTimed_within _ _ f (-1) now (by
      by_cases h0 : timeoutOf X.mappingTimeouts f.state = 0
      · exact Or.inl h0
      · right; exact Nat.le_of_not_gt (fun hgt => hx ⟨h0, hgt⟩))]
    exact k1 _ hs

/-- the tick-driven clause: once the 30 s inactivity deadline has passed, automata_tick ends the
    session, clears the charge counter and empties the session table (for every enumeration
    state, port wiring and clock value) -/
theorem tick_inactive (f : Fsm) (hs : f.state < 3) (m : MapState) (e : Option (Fsm × Option Band)) (t : Table) (ltx : Nat)
    (port : PortMode) (nowMs : Nat) (hn : nowMs / 1000 < u64) :
    ∃ f' m' t', (tick { mapping := some (f, some m), enum := e, table := some t, lastTx := ltx } port nowMs).1.mapping = some (f', some m')
      ∧ (tick { mapping := some (f, some m), enum := e, table := some t, lastTx := ltx } port nowMs).1.table = some t'
      ∧ holdsC14Tick m.inactTs (nowMs / 1000) f' m' t'.live.length = true := by
  by_cases hi : m.inactTs ≠ 0 ∧ nowMs / 1000 ≥ m.inactTs
  · have hc : mapCheckInactive m (nowMs / 1000) = true := by simp [mapCheckInactive, hi.1, hi.2]
    refine ⟨stepMapping f (-1) (nowMs / 1000), (mapCheckCharge (mapResetCharge { m with inactTs := 0 }) (nowMs / 1000)).1,
            (Table.clear t).expire (nowMs / 1000), ?_, ?_, ?_⟩
    · simp [tick, tickMapStage, hc]
    · simp [tick, tickMapStage, hc]
    · have h0 := timeout_to_idle f hs (nowMs / 1000) hn
      simp [holdsC14Tick, hi.1, hi.2, h0, mapCheckCharge, mapResetCharge, Table.clear, expire_create]
  · have hc : mapCheckInactive m (nowMs / 1000) = false := by
      simp only [mapCheckInactive]; exact decide_eq_false hi
    refine ⟨f, (mapCheckCharge m (nowMs / 1000)).1, t.expire (nowMs / 1000), ?_, ?_, ?_⟩
    · simp [tick, tickMapStage, hc]
    · simp [tick, tickMapStage, hc]
    · simp only [holdsC14Tick, if_neg hi]

/-- mapping_reset_inactive_timeout arms the deadline 30 s from now -/
theorem deadline (m : MapState) (nowS : Nat) : holdsC14Deadline nowS (mapResetInactive m nowS) = true := by
  simp [holdsC14Deadline, mapResetInactive]

/-! ## The deadline over histories: nothing but a received frame arms it, nothing but the tick that acts on it disarms it -/

/-- the operations on the mapping engine's extra state that the glue and the tick perform -/
inductive MOp where
  | frame (nowS : Nat)        -- mapping_reset_inactive_timeout (called for every received frame)
  | charge (nowS : Nat)       -- mapping_on_charge
  | resetCharge               -- mapping_reset_charge
  | checkCharge (nowS : Nat)  -- mapping_check_charge_timeout
  | tick (nowS : Nat)         -- the mapping block of automata_tick

def mstep (m : MapState) : MOp → MapState
  | .frame n => mapResetInactive m n
  | .charge n => mapOnCharge m n
  | .resetCharge => mapResetCharge m
  | .checkCharge n => (mapCheckCharge m n).1
  | .tick n => if mapCheckInactive m n then (mapCheckCharge (mapResetCharge { m with inactTs := 0 }) n).1 else (mapCheckCharge m n).1

/-- the deadline as the specification tracks it -/
def dlstep (d : Nat) : MOp → Nat
  | .frame n => n + 30
  | .tick n => if d ≠ 0 ∧ n ≥ d then 0 else d
  | _ => d

theorem checkCharge_inact (m : MapState) (n : Nat) : (mapCheckCharge m n).1.inactTs = m.inactTs := by
  unfold mapCheckCharge; split
  · rfl
  · split <;> rfl

/-- for EVERY sequence of these operations the deadline stored in the record is the specification's: a Charge, the
    charge time-out or a charge reset never disarm the inactivity timer -/
theorem deadline_history (ops : List MOp) (m : MapState) (d : Nat) (h : m.inactTs = d) :
    (ops.foldl mstep m).inactTs = ops.foldl dlstep d := by
  induction ops generalizing m d with
  | nil => exact h
  | cons op rest ih =>
    simp only [List.foldl_cons]
    apply ih
    cases op with
    | frame n => simp [mstep, dlstep, mapResetInactive]
    | charge n => simp [mstep, dlstep, mapOnCharge, h]
    | resetCharge => simp [mstep, dlstep, mapResetCharge, h]
    | checkCharge n => simp [mstep, dlstep, checkCharge_inact, h]
    | tick n =>
      simp only [mstep, dlstep, mapCheckInactive, decide_eq_true_eq]
      rw [h]
      by_cases hc : d ≠ 0 ∧ n ≥ d
      · rw [if_pos hc, if_pos hc, checkCharge_inact]; rfl
      · rw [if_neg hc, if_neg hc, checkCharge_inact]; exact h

/-- the tick of the model is `mstep … (.tick n)` on the mapping engine's extra state -/
theorem tick_is_mstep (f : Fsm) (m : MapState) (e : Option (Fsm × Option Band)) (t : Option Table) (ltx : Nat) (port : PortMode) (nowMs : Nat) :
    ∃ f', (tick { mapping := some (f, some m), enum := e, table := t, lastTx := ltx } port nowMs).1.mapping = some (f', some (mstep m (.tick (nowMs / 1000)))) := by
  simp only [tick, tickMapStage, mstep]
  by_cases hc : mapCheckInactive m (nowMs / 1000) = true
  · simp [hc]
  · simp [hc]

/-- non-vacuity: a concrete Command state within its timeout, and one past it -/
example : holdsC14Step 5 ⟨1, 10⟩ (stepMapping ⟨1, 10⟩ 2 12) 2 12 = true ∧ (stepMapping ⟨1, 10⟩ 2 12).state = 2 := by decide
example : (stepMapping ⟨1, 10⟩ 2 100).state = 0 := by decide

end LLTD.C14
