/-
  C04 for the TRANSLATED source (DESIGN.md section 12.10): the TLV writers of lltdResponder/lltdTlvOps.c, as translated from the
  C text on every run (Generated/TranslatedWire.lean, tools/c2lean_wire.py), store for every buffer with room, every offset and every
  attribute record in range exactly the TLV the model's Hello carries - and decoding those TLVs yields the interface's attributes
  (`C04.roundtrip`).  The port is `TWEq.envOf c g base`: a failing getter stores nothing and returns non-zero, a succeeding one stores
  the object representation of the attribute (what harness/vport.c does; the correspondence runs tie it to the real ports).
-/
import LLTD.Props.C04
import LLTD.Lemmas.TranslatedWireEq
import LLTD.Lemmas.TranslatedHelloChain
import LLTD.Props.C03T
import LLTD.Lemmas.TranslatedLinuxPortEq

namespace LLTD.C04T
open LLTD LLTD.Spec LLTD.TWEq LLTD.CSem

/-- a buffer with `pre.length` bytes before the write position and at least two bytes of room (more where the TLV is longer:
    `rest.drop n` is what remains behind an n-byte value) -/
abbrev Buf (pre : List Nat) (w0 w1 : Nat) (rest : List Nat) : List Nat := pre ++ w0 :: w1 :: rest

/-- the wired attributes: host id (own address or zeros when the getter fails), characteristics word, interface type, IPv4, IPv6,
    link speed - each stored as the TLV whose decoding `C04.roundtrip` is about, with the number of bytes the caller advances by -/
theorem wired_writers_translated (base : TW.Env) (c : Cfg) (g : Glob) (pre rest : List Nat) (w0 w1 : Nat)
    (hc : CfgOk c) (hr : C04.CfgRange c) (hb4 : isBytes c.ipv4) :
    (TW.setHostIdTLV (envOf c g base) (Buf pre w0 w1 rest) pre.length).buffer = pre ++ (tlvHostId c ++ rest.drop 6)
    ∧ (TW.setHostIdTLV (envOf c g base) (Buf pre w0 w1 rest) pre.length).ret = 8
    ∧ (TW.setCharacteristicsTLV (envOf c g base) (Buf pre w0 w1 rest) pre.length).buffer = pre ++ (tlvCharacteristics c ++ rest.drop 4)
    ∧ (TW.setCharacteristicsTLV (envOf c g base) (Buf pre w0 w1 rest) pre.length).ret = 6
    ∧ (TW.setPhysicalMediumTLV (envOf c g base) (Buf pre w0 w1 rest) pre.length).buffer = pre ++ (tlvIfType c ++ rest.drop 4)
    ∧ (TW.setPhysicalMediumTLV (envOf c g base) (Buf pre w0 w1 rest) pre.length).ret = 6
    ∧ (TW.setIPv4TLV (envOf c g base) (Buf pre w0 w1 rest) pre.length).buffer = pre ++ (tlvIpv4 c ++ rest.drop 4)
    ∧ (TW.setIPv4TLV (envOf c g base) (Buf pre w0 w1 rest) pre.length).ret = 6
    ∧ (TW.setIPv6TLV (envOf c g base) (Buf pre w0 w1 rest) pre.length).buffer = pre ++ (tlvIpv6 c ++ rest.drop 16)
    ∧ (TW.setIPv6TLV (envOf c g base) (Buf pre w0 w1 rest) pre.length).ret = 18
    ∧ (TW.setLinkSpeedTLV (envOf c g base) (Buf pre w0 w1 rest) pre.length).buffer = pre ++ (tlvSpeed c ++ rest.drop 4)
    ∧ (TW.setLinkSpeedTLV (envOf c g base) (Buf pre w0 w1 rest) pre.length).ret = 6 :=
  ⟨(setHostIdTLV_eq base c g pre rest w0 w1 hc).1, (setHostIdTLV_eq base c g pre rest w0 w1 hc).2,
   (setCharacteristicsTLV_eq base c g pre rest w0 w1).1, (setCharacteristicsTLV_eq base c g pre rest w0 w1).2,
   (setPhysicalMediumTLV_eq base c g pre rest w0 w1 hr.iftype).1, (setPhysicalMediumTLV_eq base c g pre rest w0 w1 hr.iftype).2,
   (setIPv4TLV_eq base c g pre rest w0 w1 hc hb4).1, (setIPv4TLV_eq base c g pre rest w0 w1 hc hb4).2,
   (setIPv6TLV_eq base c g pre rest w0 w1 hc).1, (setIPv6TLV_eq base c g pre rest w0 w1 hc).2,
   (setLinkSpeedTLV_eq base c g pre rest w0 w1 hr.speed).1, (setLinkSpeedTLV_eq base c g pre rest w0 w1 hr.speed).2⟩

/-- the host name (at most 32 bytes of what the platform reports, whichever of the two length conventions the port follows), the
    fixed TLVs (performance counter, QoS characteristics, empty icon / friendly-name markers) and the end marker -/
theorem host_writers_translated (base : TW.Env) (c : Cfg) (g : Glob) (pre rest : List Nat) (w0 w1 : Nat)
    (hl : g.host.length < 18446744073709551616) (hun : 8 ≤ (base.uninit 8).length) :
    (TW.setHostnameTLV (envOf c g base) (Buf pre w0 w1 rest) pre.length).buffer = pre ++ (tlvHostname g ++ rest.drop (g.host.take 32).length)
    ∧ (TW.setHostnameTLV (envOf c g base) (Buf pre w0 w1 rest) pre.length).ret = 2 + (g.host.take 32).length
    ∧ (TW.setPerfCounterTLV base (Buf pre w0 w1 rest) pre.length).buffer = pre ++ (tlvPerf ++ rest.drop 8)
    ∧ (TW.setQosCharacteristicsTLV base (Buf pre w0 w1 rest) pre.length).buffer = pre ++ (tlvQos ++ rest.drop 4)
    ∧ (TW.setIconImageTLV base (Buf pre w0 w1 rest) pre.length).buffer = pre ++ (tlvIcon ++ rest)
    ∧ (TW.setFriendlyNameTLV base (Buf pre w0 w1 rest) pre.length).buffer = pre ++ (tlvFriendly ++ rest)
    ∧ (TW.setEndOfPropertyTLV base (pre ++ w0 :: rest) pre.length).buffer = pre ++ ([X.eop] ++ rest) :=
  ⟨(setHostnameTLV_eq base c g pre rest w0 w1 hl).1, (setHostnameTLV_eq base c g pre rest w0 w1 hl).2,
   (setPerfCounterTLV_eq base pre rest w0 w1 hun).1, (setQosCharacteristicsTLV_eq base pre rest w0 w1).1,
   (setIconImageTLV_eq base pre rest w0 w1).1, (setFriendlyNameTLV_eq base pre rest w0 w1).1, (setEndOfPropertyTLV_eq base pre rest w0).1⟩

/-- the 802.11 attributes of a wireless interface: mode, BSSID (omitted altogether when its getter fails), SSID, maximum rate,
    signal strength (sign kept) -/
theorem wifi_writers_translated (base : TW.Env) (c : Cfg) (g : Glob) (pre rest : List Nat) (w0 w1 : Nat)
    (hc : CfgOk c) (hr : C04.CfgRange c) (hw : c.wifi = true) (hl : c.ssid.length < 18446744073709551616) (hun : 6 ≤ (base.uninit 6).length) :
    (TW.setWirelessTLV (envOf c g base) (Buf pre w0 w1 rest) pre.length).buffer = pre ++ (tlvWifiMode c ++ rest.drop 1)
    ∧ (TW.setBSSIDTLV (envOf c g base) (Buf pre w0 w1 rest) pre.length).buffer
        = (if c.failBssid then Buf pre w0 w1 rest else pre ++ (tlv X.tlvBssid c.bssid ++ rest.drop 6))
    ∧ (TW.setBSSIDTLV (envOf c g base) (Buf pre w0 w1 rest) pre.length).ret = (if c.failBssid then 0 else 8)
    ∧ (TW.setSSIDTLV (envOf c g base) (Buf pre w0 w1 rest) pre.length).buffer = pre ++ (tlvSsid c ++ rest.drop (c.ssid.take 32).length)
    ∧ (TW.setWifiMaxRateTLV (envOf c g base) (Buf pre w0 w1 rest) pre.length).buffer = pre ++ (tlvRate c ++ rest.drop 2)
    ∧ (TW.setWifiRssiTLV (envOf c g base) (Buf pre w0 w1 rest) pre.length).buffer = pre ++ (tlvRssi c ++ rest.drop 4) :=
  ⟨(setWirelessTLV_eq base c g pre rest w0 w1 hw hr.mode).1, (setBSSIDTLV_eq base c g pre rest w0 w1 hc hun).1,
   (setBSSIDTLV_eq base c g pre rest w0 w1 hc hun).2, (setSSIDTLV_eq base c g pre rest w0 w1 hl).1,
   (setWifiMaxRateTLV_eq base c g pre rest w0 w1 hr.rate).1, (setWifiRssiTLV_eq base c g pre rest w0 w1 hr.rssiLo hr.rssiHi).1⟩

/-- a wired interface: the wireless writer stores nothing and advances by nothing -/
theorem wired_no_wifi_translated (base : TW.Env) (c : Cfg) (g : Glob) (buf : List Nat) (off : Nat) (hw : c.wifi = false) :
    (TW.setWirelessTLV (envOf c g base) buf off).buffer = buf ∧ (TW.setWirelessTLV (envOf c g base) buf off).ret = 0 :=
  setWirelessTLV_wired base c g buf off hw

/-- what the mapper reads back: the TLVs above are exactly the model's property list, whose decoding is the attribute record -/
theorem attrs_of_translated (c : Cfg) (g : Glob) (hr : C04.CfgRange c) :
    helloTlvs c g = encodeTlvs (helloProps c g) ∧ decodeAttrs (helloProps c g) = expectedAttrs c g :=
  ⟨helloTlvs_eq c g, C04.roundtrip c g hr⟩

/-- **the whole property list**: the translated writers, called in answerHello's order with answerHello's offset bookkeeping
    (`TChain.helloChain`: that composition is transcribed by hand, the writers are the translated ones) on a zeroed buffer with room,
    leave behind exactly the model's property list followed by the untouched zeros, report its length - and the mapper decoding it
    reads the interface's attributes -/
theorem hello_properties_translated (base : TW.Env) (c : Cfg) (g : Glob) (pre : List Nat) (k : Nat)
    (hc : CfgOk c) (hr : C04.CfgRange c) (hb4 : isBytes c.ipv4) (hh : g.host.length < 18446744073709551616)
    (hl : c.ssid.length < 18446744073709551616) (he : TChain.EnvOk base) (hk : (helloTlvs c g).length ≤ k) :
    TChain.helloChain (envOf c g base) c.wifi (pre ++ List.replicate k 0) pre.length
        = (pre ++ (helloTlvs c g ++ List.replicate (k - (helloTlvs c g).length) 0), (helloTlvs c g).length)
    ∧ helloTlvs c g = encodeTlvs (helloProps c g) ∧ decodeAttrs (helloProps c g) = expectedAttrs c g :=
  ⟨TChain.helloChain_writes base c g hc hr.iftype hr.speed hr.mode hr.rate hr.rssiLo hr.rssiHi hb4 hh hl he pre k hk,
   helloTlvs_eq c g, C04.roundtrip c g hr⟩

/-- **end to end**: the bytes the translated header and property writers (composed as `answerHello` composes them) hand to the port
    decode - with the INDEPENDENT decoder - to a Hello whose property list yields exactly the interface's attributes -/
theorem hello_translated_attrs (base : TW.Env) (c : Cfg) (g : Glob) (hc : CfgOk c) (hr : C04.CfgRange c) (tos gen : Nat)
    (cur app : List Nat) (k : Nat) (htos : tos < 256) (hgen : gen < 65536) (hcur : cur.length = 6) (happ : app.length = 6)
    (hb4 : isBytes c.ipv4) (hh : g.host.length < 18446744073709551616) (hl : c.ssid.length < 18446744073709551616)
    (he : TChain.EnvOk base) (hk : (helloTlvs c g).length ≤ k) :
    let env := envOf c g base
    let b1 := TW.setLltdHeader env (List.replicate 46 0 ++ List.replicate k 0) c.ourMac bcast 0 X.opHello tos
    let b2 := TW.setHelloHeader env b1.buffer b1.ret app cur gen
    let b3 := TChain.helloChain env c.wifi b2.buffer (b1.ret + b2.ret)
    ∃ h, decodeHello (b3.1.take (b1.ret + b2.ret + b3.2)) = some h ∧ decodeAttrs h.tlvs = expectedAttrs c g := by
  intro env b1 b2 b3
  have h := C03T.hello_frame_translated base c g hc tos gen cur app k htos hgen hcur happ hr.iftype hr.speed hr.mode hr.rate hr.rssiLo hr.rssiHi
    hb4 hh hl he hk
  simp only at h
  show ∃ h', decodeHello ((TChain.helloChain env c.wifi b2.buffer (b1.ret + b2.ret)).1.take
    (b1.ret + b2.ret + (TChain.helloChain env c.wifi b2.buffer (b1.ret + b2.ret)).2)) = some h' ∧ _
  rw [h.1, h.2, List.take_left, decodeHello_helloFrame c g gen tos cur app hc hcur happ]
  exact ⟨_, rfl, C04.roundtrip c g hr⟩

/-- **the Linux port's getters** (os/linux/lltd_port.c, as translated from the C text): what they hand to the core for an interface
    record is the model's `LinuxPort.supplied` - MTU, hardware address and interface type copied, link speed in units of 100 bit/s,
    full duplex and loopback mapped to their characteristics bits - which `C04.linux_port` / `linux_flags_in_hello` carry into the Hello -/
theorem linux_getters_translated (env : TW.Env) (b : List Nat) (r : LinuxPort.Rec) (h : TLinuxEq.EncRec b r)
    (o8 o6 o4 : List Nat) (h8 : o8.length = 8) (h6 : o6.length = 6) (h4 : o4.length = 4)
    (hm : r.mtu < 4294967296) (ht : r.ifType < 4294967296) (hs : r.linkSpeed < 4294967296) :
    unle (TW.lltd_port_get_mtu env b o8).out_mtu = (LinuxPort.supplied r).mtu
    ∧ (TW.lltd_port_get_mac_address env b o6).out_mac = (LinuxPort.supplied r).mac
    ∧ unle (TW.lltd_port_get_if_type env b o4).out_if_type = (LinuxPort.supplied r).ifType
    ∧ unle (TW.lltd_port_get_link_speed_100bps env b o4).out_speed_100bps = (LinuxPort.supplied r).speed100
    ∧ (TW.lltd_port_get_characteristics_flags env b).ret = (LinuxPort.supplied r).flags :=
  ⟨(TLinuxEq.get_mtu_eq env b o8 r h h8 hm).2, (TLinuxEq.get_mac_eq env b o6 r h h6).2, (TLinuxEq.get_if_type_eq env b o4 r h h4 ht).2,
   (TLinuxEq.get_link_speed_eq env b o4 r h h4 hs).2, TLinuxEq.get_flags_eq env b r h⟩

/-- the hypotheses are satisfiable: a concrete wired record -/
example : CfgOk { mac := [2, 0, 0, 0, 0, 1], mtu := 1500 } ∧ C04.CfgRange { mac := [2, 0, 0, 0, 0, 1], mtu := 1500 } := by
  refine ⟨⟨rfl, rfl, rfl, rfl, by decide, by decide⟩, ⟨by decide, by decide, by decide, by decide, by decide, by decide⟩⟩

end LLTD.C04T
