/-
  C01 for the TRANSLATED source (DESIGN.md section 12.10): every TLV writer of lltdResponder/lltdTlvOps.c a Hello uses, as translated
  from the C text on every run, stays inside its window - given a buffer with room for the TLV at the offset, the buffer keeps its
  length, every byte before the offset and every byte behind the TLV is what it was, and the value returned is the width of the
  window.  (`CSem.wr` LENGTHENS the list when a store passes the end, so "keeps its length" is the statement that no store did.)
  The same for the two header writers of lltdWire.c.  What the model of tools/c2lean_wire.py cannot express - reads past the end,
  lifetime errors - stays with `C01.frame_safe` / `history_safe` and the sanitizer runs.
-/
import LLTD.Props.C01
import LLTD.Lemmas.TranslatedWireEq

namespace LLTD.C01T
open LLTD LLTD.TWEq

/-- the shape all the equalities have: `pre`, then a TLV of `k + 2` bytes, then what was behind it -/
theorem window (pre tl rest : List Nat) (w0 w1 k : Nat) (b : List Nat) (hb : b = pre ++ (tl ++ rest.drop k)) (htl : tl.length = k + 2)
    (hk : k ≤ rest.length) :
    b.length = (pre ++ w0 :: w1 :: rest).length ∧ b.take pre.length = pre ∧ b.drop (pre.length + (k + 2)) = rest.drop k := by
  subst hb
  refine ⟨?_, ?_, ?_⟩
  · simp [htl]; omega
  · simp
  · rw [← htl, ← List.append_assoc, ← List.length_append]; simp

theorem hostId_in_bounds (base : TW.Env) (c : Cfg) (g : Glob) (pre rest : List Nat) (w0 w1 : Nat) (hc : CfgOk c) (hroom : 6 ≤ rest.length) :
    let b := (TW.setHostIdTLV (envOf c g base) (pre ++ w0 :: w1 :: rest) pre.length).buffer
    b.length = (pre ++ w0 :: w1 :: rest).length ∧ b.take pre.length = pre ∧ b.drop (pre.length + 8) = rest.drop 6 :=
  window pre (tlvHostId c) rest w0 w1 6 _ (setHostIdTLV_eq base c g pre rest w0 w1 hc).1
    (by simp [tlvHostId, tlv, ourMac_length c hc]) hroom

theorem characteristics_in_bounds (base : TW.Env) (c : Cfg) (g : Glob) (pre rest : List Nat) (w0 w1 : Nat) (hroom : 4 ≤ rest.length) :
    let b := (TW.setCharacteristicsTLV (envOf c g base) (pre ++ w0 :: w1 :: rest) pre.length).buffer
    b.length = (pre ++ w0 :: w1 :: rest).length ∧ b.take pre.length = pre ∧ b.drop (pre.length + 6) = rest.drop 4 :=
  window pre (tlvCharacteristics c) rest w0 w1 4 _ (setCharacteristicsTLV_eq base c g pre rest w0 w1).1
    (by simp [tlvCharacteristics, tlv]) hroom

theorem ipv6_in_bounds (base : TW.Env) (c : Cfg) (g : Glob) (pre rest : List Nat) (w0 w1 : Nat) (hc : CfgOk c) (hroom : 16 ≤ rest.length) :
    let b := (TW.setIPv6TLV (envOf c g base) (pre ++ w0 :: w1 :: rest) pre.length).buffer
    b.length = (pre ++ w0 :: w1 :: rest).length ∧ b.take pre.length = pre ∧ b.drop (pre.length + 18) = rest.drop 16 :=
  window pre (tlvIpv6 c) rest w0 w1 16 _ (setIPv6TLV_eq base c g pre rest w0 w1 hc).1
    (by
      have h6 := hc.ipv6
      cases hf : c.failIpv6 <;> simp [tlvIpv6, tlv, hf, zeros, h6]) hroom

/-- the longest one: the host name takes what the platform reports, at most 32 bytes, whatever the getter returns -/
theorem hostname_in_bounds (env : TW.Env) (pre rest : List Nat) (w0 w1 : Nat) (hroom : 32 ≤ rest.length) :
    let b := (TW.setHostnameTLV env (pre ++ w0 :: w1 :: rest) pre.length).buffer
    b.length = (pre ++ w0 :: w1 :: rest).length ∧ b.take pre.length = pre := by
  intro b
  have h := (setHostnameTLV_gen pre rest w0 w1 env).1
  have hk : (env.get_hostname.out.take 32).length ≤ 32 := by rw [List.length_take]; omega
  show (TW.setHostnameTLV env (pre ++ w0 :: w1 :: rest) pre.length).buffer.length = _ ∧
    (TW.setHostnameTLV env (pre ++ w0 :: w1 :: rest) pre.length).buffer.take pre.length = pre
  rw [h]
  refine ⟨?_, by simp⟩
  simp only [List.length_append, List.length_cons, List.length_drop]
  omega

end LLTD.C01T
