/-
  C08 — Large properties are retrievable byte-exactly by offset.
-/
import LLTD.Lemmas.Obs

namespace LLTD.C08
open LLTD LLTD.Spec

/-! ## The specification itself: chunking and reassembly -/

theorem chunk_length_of_more (p : Nat) (data : List Nat) (off : Nat) (h : (chunk p data off).2 = true) :
    (chunk p data off).1.length = p := by
  simp only [chunk, decide_eq_true_eq] at h
  simp [chunk, List.length_take, List.length_drop]
  omega

/-- a mapper that starts at offset 0 and advances by the returned length until `more` clears
    reassembles exactly the platform's bytes — for every data length and every per-frame payload P > 0 -/
theorem reassemble_from (p : Nat) (hp : 0 < p) (data : List Nat) :
    ∀ (fuel off : Nat), data.length < off + fuel * p → reassemble p data fuel off = data.drop off := by
  intro fuel
  induction fuel with
  | zero =>
    intro off h
    simp at h
    simp [reassemble, List.drop_eq_nil_of_le (Nat.le_of_lt h)]
  | succ k ih =>
    intro off h
    simp only [reassemble]
    by_cases hm : (chunk p data off).2 = true
    · have hlen := chunk_length_of_more p data off hm
      rw [if_pos hm, hlen, ih (off + p) (by rw [Nat.succ_mul] at h; omega)]
      simp only [chunk]
      rw [← List.drop_drop, List.take_append_drop]
    · rw [if_neg hm]
      simp only [chunk, decide_eq_true_eq] at hm
      simp only [chunk]
      apply List.take_of_length_le
      simp [List.length_drop]; omega

theorem reassemble_all (p : Nat) (hp : 0 < p) (data : List Nat) : reassemble p data (data.length + 1) 0 = data := by
  have := reassemble_from p hp data (data.length + 1) 0 (by
    have : data.length + 1 ≤ (data.length + 1) * p := Nat.le_mul_of_pos_right _ hp
    omega)
  simpa using this

/-! ## The model's response against the independent decoder -/

theorem or_more (p : Nat) (h : p < 16384) : (p ||| 0x8000) % u16 = p + 32768 := by
  have key := Nat.two_pow_add_eq_or_of_lt (i := 15) (b := p) (by omega) 1
  have e : (0x8000 : Nat) = 2 ^ 15 * 1 := by decide
  rw [e, Nat.or_comm, ← key]
  unfold u16; omega

/-- the length field and the number of payload bytes are exactly the specification's chunk -/
theorem fields_spec (p : Nat) (hp : p < 16384) (data : List Nat) (off : Nat) :
    let r := respFields p (some data) off
    r.1 = (chunk p data off).1.length ∧ r.2 % 16384 = r.1 ∧ (decide (r.2 ≥ 32768)) = (chunk p data off).2 ∧
    (data.drop off).take r.1 = (chunk p data off).1 := by
  simp only [respFields, optLen, chunk, Option.isNone_some, Bool.false_eq_true, false_or]
  by_cases h0 : data.length = 0
  · have : data = [] := List.eq_nil_of_length_eq_zero h0
    subst this
    simp
  · simp only [h0, if_false]
    by_cases h1 : data.length > off + p
    · simp only [h1, if_true, or_more p hp]
      refine ⟨?_, by omega, by first | (simp; done) | (simp; omega), trivial⟩
      simp [List.length_take, List.length_drop]; omega
    · simp only [h1, if_false]
      by_cases h2 : data.length > off
      · have hlt : data.length - off < u16 := by unfold u16; omega
        simp only [h2, if_true, Nat.mod_eq_of_lt hlt]
        refine ⟨?_, by omega, by first | (simp; done) | (simp; omega), ?_⟩
        · simp [List.length_take, List.length_drop]; omega
        · rw [List.take_of_length_le (by simp [List.length_drop]), List.take_of_length_le (by simp [List.length_drop]; omega)]
      · simp only [h2, if_false]
        have : data.drop off = [] := List.drop_eq_nil_of_le (by omega)
        simp [this]

/-- a request with sequence number zero is not answered and changes nothing -/
theorem seq_zero_ignored (c : Cfg) (g : Glob) (w : World) (st : St) (img : List Nat) (h : fSeq img = 0) :
    parseQueryLargeTlv c g w st img = { st := st, w := w, fx := [] } := by
  simp [parseQueryLargeTlv, h]

/-- the scan of the zero-initialised 64-byte buffer stops at the end of a string of `m` non-NUL UCS-2 characters -/
theorem scan_spec (buf : List Nat) (m : Nat) (hm : m ≤ 32)
    (hnz : ∀ k, k < m → ¬(byteAt buf (2 * k) = 0 ∧ byteAt buf (2 * k + 1) = 0))
    (hz : m < 32 → byteAt buf (2 * m) = 0 ∧ byteAt buf (2 * m + 1) = 0) :
    ∀ (fuel j : Nat), j ≤ m → 32 ≤ fuel + j → hwidScan buf fuel (2 * j) = 2 * m := by
  intro fuel
  induction fuel with
  | zero =>
    intro j hj hf
    simp only [hwidScan]
    omega
  | succ k ih =>
    intro j hj hf
    simp only [hwidScan]
    by_cases hlt : 2 * j + 1 < 64
    · rw [if_pos hlt]
      by_cases hpair : byteAt buf (2 * j) = 0 ∧ byteAt buf (2 * j + 1) = 0
      · rw [if_pos hpair]
        by_cases hjm : j < m
        · exact absurd hpair (hnz j hjm)
        · omega
      · rw [if_neg hpair]
        have hjm : j < m := by
          by_cases h : j < m
          · exact h
          · have e : j = m := by omega
            have : m < 32 := by omega
            rw [e] at hpair
            exact absurd (hz this) hpair
        have := ih (j + 1) (by omega) (by omega)
        rw [Nat.mul_add, Nat.mul_one] at this
        exact this
    · rw [if_neg hlt]
      omega

theorem byteAt_take_pad (h : List Nat) (n i : Nat) (hl : h.length ≤ n) :
    byteAt (h.take n ++ zeros (n - (h.take n).length)) i = if i < h.length then byteAt h i else 0 := by
  have ht : h.take n = h := List.take_of_length_le hl
  rw [ht]
  unfold byteAt
  by_cases hi : i < h.length
  · simp [hi, List.getD_eq_getElem?_getD, List.getElem?_append_left hi]
  · simp only [hi, if_false, List.getD_eq_getElem?_getD]
    rw [List.getElem?_append_right (by omega)]
    simp [zeros, List.getElem?_replicate]
    split <;> rfl

/-- the hardware identifier the core serves is the platform's, when that is a UCS-2LE string (port contract) -/
theorem hwid_exact (g : Glob) (h : hwIdWellFormed g.hwid = true) : hwidData g = g.hwid := by
  simp only [hwIdWellFormed, Bool.and_eq_true, decide_eq_true_eq, beq_iff_eq, List.all_eq_true, List.mem_range] at h
  obtain ⟨⟨hlen, heven⟩, hnz⟩ := h
  unfold hwidData
  have hb := fun i => byteAt_take_pad g.hwid 64 i hlen
  have ht : g.hwid.take 64 = g.hwid := List.take_of_length_le hlen
  have key : hwidScan (g.hwid.take 64 ++ zeros (64 - (g.hwid.take 64).length)) 32 0 = 2 * (g.hwid.length / 2) := by
    have := scan_spec (g.hwid.take 64 ++ zeros (64 - (g.hwid.take 64).length)) (g.hwid.length / 2) (by omega)
      (by
        intro k hk
        rw [hb, hb]
        have h1 : 2 * k < g.hwid.length := by omega
        have h2 : 2 * k + 1 < g.hwid.length := by omega
        simp only [h1, h2, if_true]
        have := hnz k hk
        simp only [Bool.not_eq_true', Bool.and_eq_false_iff, beq_eq_false_iff_ne, ne_eq] at this
        intro hc
        rcases this with t | t
        · exact t hc.1
        · exact t hc.2)
      (by
        intro _
        rw [hb, hb]
        have h1 : ¬ 2 * (g.hwid.length / 2) < g.hwid.length := by omega
        have h2 : ¬ 2 * (g.hwid.length / 2) + 1 < g.hwid.length := by omega
        simp [h1, h2])
      32 0 (by omega) (by omega)
    simpa using this
  simp only []
  rw [key]
  have e : 2 * (g.hwid.length / 2) = g.hwid.length := by omega
  rw [e, ht, List.take_left' rfl]

/-- non-vacuity -/
example : reassemble 3 [1, 2, 3, 4, 5, 6, 7] 8 0 = [1, 2, 3, 4, 5, 6, 7] := by decide
example : respFields 5 (some [1, 2, 3, 4, 5, 6, 7, 8]) 0 = (5, 5 + 32768) := by decide

end LLTD.C08
